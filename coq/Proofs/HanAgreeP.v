(* Proofs/HanAgreeP.v -- C02 / C03 / C09 for the HAN formats (enum FORMAT_HAN, lexical LEX_HAN), UNCONDITIONAL
   on the decidable subdomain of KEYWORD-FREE NAMES: the lexical side and the agreement of the two pipelines.
   (The enum side is Proofs/EnumHanP.v, Props/C01e.v.)

   Why a subdomain: in Han the keywords are ordinary letters and a term is printed without separators, so
     K5  Statement("得", "x将", "y") prints 「x将得y」 and reads back as  x 将得 y       (Proofs/LexPTables.v)
     K3  「a具 有值」: with the space the enum parser reads the name a具 + copula 有, the lexical parser
         (which filters whitespace first) the name a + copula 具有                      (Proofs/AgreeP.v)
     K2  a top-level text 预...算 is read as a budget;  a bare name ending in 。 / 现在 / 真...值 loses it
   and the table checks behind the ASCII / LaTeX theorems (lex_selfdelim, lex_clean_atoms_ok,
   budget_left_nonident, same_layout) are false for Han.

   The argument, generic in the format records (the formats enter through finite boolean checks):
     1  keyword characters: a non-empty keyword starts and ends with a keyword character, a keyword-free
        name does not contain one;
     2  term layer (C02's unamb from keyword-freeness): the prefix dictionary finds the atom's own prefix;
        no copula matches inside a keyword-free name, whatever follows it;
     3  item layer (C02's top_clean): no budget is found in front of a bare word (its first character is
        not the budget bracket's), nothing is cut from the end of a bare name; the value layer of the
        lexical parser on the domain lvalue_ok (prefix-only atoms included) follows;
     4  C02 on the subdomain;  5  the enum-side and the lexical keyword characters;  6  C03: the lexical
        pipeline on the ENUM formatter's text (whitespace-free forms coincide), fold, both pipelines;
     7  Han instances at Rust's Unicode table;  8 non-vacuity and the witnesses outside the subdomain. *)
From Nv Require Import Model.AgreeValue Model.LexKwfree.
From Nv Require Import Proofs.LexPBase Proofs.LexPTotal Proofs.LexPDict Proofs.LexPStr Proofs.LexPTerm Proofs.LexPRound
                       Proofs.LexPAssemble Proofs.LexPStrip Proofs.LexPFinal Proofs.LexPClean Proofs.LexPMain Proofs.LexPTables.
From Nv Require Import Proofs.EqHashP Proofs.FoldP Proofs.FoldP2 Proofs.FoldP3.
From Nv Require Import Proofs.EnumTotalP Proofs.EnumTermP Proofs.EnumTermCor Proofs.EnumFmtP Proofs.EnumSentP Proofs.EnumUnambP
                       Proofs.EnumFinalP Proofs.EnumHanP.
From Nv Require Import Proofs.AgreeP Proofs.LexFuelP Proofs.ReadmeEnumP Proofs.AgreeValueP.
From Coq Require Import Lia.
Import ListNotations.

(* ================================================================================== *)
(* 1. keyword characters                                                               *)
Section KwChars.
  Variable L : lfmt.
  Local Notation C := (compile L).

  Lemma lkw_chars_In kw d : In kw (keywords L) -> In d kw -> In d (lkw_chars L).
  Proof. intros Hkw Hd. unfold lkw_chars. apply in_concat. eauto. Qed.

  Lemma lfree_not_kw c : lkwfree_char L c = true -> ~ In c (lkw_chars L).
  Proof. unfold lkwfree_char. intros H Hin. apply memb_In in Hin. rewrite Hin in H. discriminate. Qed.

  Lemma kw_char_not_free kw d : In kw (keywords L) -> In d kw -> lkwfree_char L d = false.
  Proof.
    intros Hkw Hd. unfold lkwfree_char. apply negb_false_iff. apply memb_In. now apply (lkw_chars_In kw).
  Qed.

  (* a keyword is non-empty; its first and its last character are keyword characters *)
  Lemma keyword_nonempty kw : In kw (keywords L) -> kw <> [].
  Proof. unfold keywords. intros H. apply filter_In in H as [_ H]. destruct kw; [discriminate | discriminate]. Qed.

  Lemma kw_first kw : In kw (keywords L) -> first_is (fun x => negb (lkwfree_char L x)) kw = true.
  Proof.
    intros H. pose proof (keyword_nonempty kw H) as Hne. destruct kw as [|d kw']; [congruence|].
    cbn [first_is]. rewrite (kw_char_not_free (d :: kw') d H); [reflexivity | now left].
  Qed.

  Lemma kw_last kw : In kw (keywords L) -> last_is (fun x => negb (lkwfree_char L x)) kw = true.
  Proof.
    intros H. pose proof (keyword_nonempty kw H) as Hne. unfold last_is.
    destruct (rev kw) as [|d r] eqn:Er.
    - apply (f_equal (@rev N)) in Er. rewrite rev_involutive in Er. now subst.
    - cbn [first_is]. rewrite (kw_char_not_free kw d H); [reflexivity|]. apply in_rev. rewrite Er. now left.
  Qed.

  (* a keyword does not start / end a text that starts / ends with a keyword-free character *)
  Lemma kw_no_start_l kw c r : In kw (keywords L) -> lkwfree_char L c = true -> starts kw (c :: r) = false.
  Proof. intros H Hc. eapply (first_is_mismatch (lkwfree_char L)); eauto. now apply kw_first. Qed.

  Lemma kw_no_end_l kw x c : In kw (keywords L) -> lkwfree_char L c = true -> ends kw (x ++ [c]) = false.
  Proof. intros H Hc. eapply (ends_last_mismatch (lkwfree_char L)); eauto. now apply kw_last. Qed.

  (* a keyword-free name contains no keyword: on the subdomain the clause "names contain no keyword of the
     format" of C02's vocab_ok is implied, i.e. name_ok n = "non-empty string of identifier characters" *)
  Lemma contains_kwfree kw n : In kw (keywords L) -> lkwfree_name L n = true -> contains kw n = false.
  Proof.
    intros Hkw. induction n as [|c n IH]; intros Hq; cbn [contains].
    - pose proof (keyword_nonempty kw Hkw) as Hne. destruct kw; [congruence | reflexivity].
    - unfold lkwfree_name in Hq. cbn [forallb] in Hq. apply andb_true_iff in Hq as [Hc Hq].
      rewrite (kw_no_start_l kw c n Hkw Hc). cbn [orb]. now apply IH.
  Qed.

  Lemma name_ok_kwfree ia n : lkwfree_name L n = true ->
    LexSpec.name_ok L ia n = LexParser.nonempty n && forallb (ident L ia) n.
  Proof.
    intros Hq. unfold LexSpec.name_ok.
    replace (forallb (fun k => negb (contains k n)) (keywords L)) with true; [now rewrite andb_true_r|].
    symmetry. apply forallb_forall. intros k Hk. now rewrite (contains_kwfree k n Hk Hq).
  Qed.

  (* membership in LexSpec.keywords, by class *)
  Lemma kw_app_l (a b : list str) k : In k a -> k <> [] -> In k (filter LexParser.nonempty (a ++ b)).
  Proof. intros H Hne. apply filter_In. split; [apply in_or_app; now left | destruct k; [congruence | reflexivity]]. Qed.

  Lemma keyword_copula q : In q (c_copulas C) -> q <> [] -> In q (keywords L).
  Proof.
    intros Hq Hne. unfold keywords. apply filter_In. split; [|destruct q; [congruence | reflexivity]].
    apply in_or_app. right. apply in_or_app. right. apply in_or_app. now left.
  Qed.

  Lemma keyword_punct q : In q (c_punctuations C) -> q <> [] -> In q (keywords L).
  Proof.
    intros Hq Hne. unfold keywords. apply filter_In. split; [|destruct q; [congruence | reflexivity]].
    apply in_or_app. right. apply in_or_app. right. apply in_or_app. right. apply in_or_app. now left.
  Qed.

  Lemma keyword_stamp l r q : In (l, r) (c_stamp_brackets C) -> q = l \/ q = r -> q <> [] -> In q (keywords L).
  Proof.
    intros Hin Hq Hne. unfold keywords. apply filter_In. split; [|destruct q; [congruence | reflexivity]].
    apply in_or_app. right. apply in_or_app. right. apply in_or_app. right. apply in_or_app. right.
    apply in_or_app. left. apply in_concat. exists [l; r]. split.
    - apply in_map_iff. exists (l, r). split; [reflexivity|]. apply in_or_app. now right.
    - cbn [In]. destruct Hq as [->| ->]; auto.
  Qed.
End KwChars.

(* ================================================================================== *)
(* 2. term layer: the unambiguity conditions of C02 from keyword-freeness              *)
Section TermKw.
  Variable L : lfmt.
  Variable ia : N -> bool.
  Local Notation C := (compile L).
  Hypothesis Hkt : lex_kwfree_term_ok L = true.

  Lemma kt_parts : prefix_first_kw (c_prefixes C) = true /\ forallb LexParser.nonempty (c_copulas C) = true.
  Proof. unfold lex_kwfree_term_ok in Hkt. now apply andb_true_iff in Hkt. Qed.

  (* the prefix dictionary finds the atom's own prefix *)
  Lemma prefix_first_kw_spec dict p n k :
    prefix_first_kw dict = true -> (forall q, In q dict -> In q (c_prefixes C)) ->
    In p dict -> (p = [] -> exists c n', n = c :: n' /\ lkwfree_char L c = true) ->
    match_prefix dict (p ++ n ++ k) = Some p.
  Proof.
    intros H Hsub Hin Hn. unfold match_prefix. induction dict as [|q d IH]; [destruct Hin|].
    cbn [prefix_first_kw] in H. apply andb_true_iff in H as [H1 H2]. cbn [find].
    destruct (str_eqb_spec q p) as [->|Hqp].
    - now rewrite starts_app.
    - destruct Hin as [Hq|Hin]; [congruence|].
      rewrite forallb_forall in H1. specialize (H1 _ Hin).
      assert (Hq : starts q (p ++ n ++ k) = false).
      { destruct p as [|c0 p0].
        - destruct (Hn eq_refl) as (c & n' & -> & Hc). cbn [app]. apply (kw_no_start_l L); [|exact Hc].
          apply keyword_prefix; [apply Hsub; now left | destruct q; [discriminate | discriminate]].
        - apply negb_true_iff in H1. now apply compat_false_starts. }
      rewrite Hq. apply IH; auto. intros q' Hq'. apply Hsub. now right.
  Qed.

  Lemma drop_In {A} (c : A) : forall i n, In c (drop i n) -> In c n.
  Proof. induction i as [|i IH]; intros [|y n] Hin; cbn [drop] in Hin; auto. right. now apply IH. Qed.

  (* an atom with a dictionary prefix and a keyword-free name, a non-empty one when the prefix is empty:
     whatever follows it *)
  Lemma atom_unamb_kw p n k :
    In p (c_prefixes C) -> (LexParser.nonempty n || LexParser.nonempty p) = true -> lkwfree_name L n = true ->
    atom_unamb L p n k.
  Proof.
    intros Hp Hne Hfree. destruct kt_parts as [Hpre Hcop]. split.
    - apply prefix_first_kw_spec; auto. intros ->. cbn [LexParser.nonempty] in Hne. rewrite orb_false_r in Hne.
      destruct n as [|c n']; [discriminate|]. exists c, n'. split; [reflexivity|].
      unfold lkwfree_name in Hfree. cbn [forallb] in Hfree. now apply andb_true_iff in Hfree as [Hfree _].
    - intros i Hi. apply match_prefix_none. intros q Hq.
      destruct (drop i n) as [|c r] eqn:Ed.
      { pose proof (drop_length i n) as Hd. rewrite Ed in Hd. cbn in Hd. lia. }
      assert (Hin : In c n) by (apply (drop_In c i); rewrite Ed; now left).
      cbn [app]. apply (kw_no_start_l L).
      + apply keyword_copula; [exact Hq|]. rewrite forallb_forall in Hcop. specialize (Hcop _ Hq).
        destruct q; [discriminate | discriminate].
      + unfold lkwfree_name in Hfree. rewrite forallb_forall in Hfree. now apply Hfree.
  Qed.

  (* the term layer's conditions, for every continuation *)
  Theorem unamb_kw : forall t, lterm_ok ia L t = true -> lterm_kwfree L t = true -> forall k, LexSpec.unamb L t k.
  Proof.
    induction t as [p n | c ts IHts | l ts rb IHts | c s p IHs IHp] using lterm_ind2; intros Hok Hq k.
    - cbn [lterm_ok lterm_kwfree] in *. rewrite !andb_true_iff in Hok. destruct Hok as [[Hp _] Hne].
      apply str_in_In in Hp. cbn [LexSpec.unamb]. now apply atom_unamb_kw.
    - cbn [lterm_ok lterm_kwfree] in *. rewrite !andb_true_iff in Hok. destruct Hok as [_ Hts].
      cbn [LexSpec.unamb]. clear -IHts Hts Hq. induction ts as [|t r IH]; [exact I|].
      inversion IHts as [|? ? Ht Hr]; subst. cbn [forallb] in Hts, Hq.
      apply andb_true_iff in Hts as [Hokt Hokr]. apply andb_true_iff in Hq as [Hqt Hqr].
      split; [now apply Ht | now apply IH].
    - cbn [lterm_ok lterm_kwfree] in *. rewrite !andb_true_iff in Hok. destruct Hok as [_ Hts].
      cbn [LexSpec.unamb]. clear -IHts Hts Hq. induction ts as [|t r IH]; [exact I|].
      inversion IHts as [|? ? Ht Hr]; subst. cbn [forallb] in Hts, Hq.
      apply andb_true_iff in Hts as [Hokt Hokr]. apply andb_true_iff in Hq as [Hqt Hqr].
      split; [now apply Ht | now apply IH].
    - cbn [lterm_ok lterm_kwfree] in *. rewrite !andb_true_iff in Hok. destruct Hok as [[_ Hs] Hp].
      apply andb_true_iff in Hq as [Hqs Hqp]. cbn [LexSpec.unamb]. split; auto.
  Qed.

  Corollary unamb_top_kw v : lvalue_ok ia L v = true -> lnames_kwfree L v = true -> unamb_top L v.
  Proof.
    unfold lnames_kwfree. destruct v as [t|s|k]; cbn [lvalue_ok unamb_top top_term]; intros Hv Hq.
    - apply andb_true_iff in Hv as [Hv _]. now apply unamb_kw.
    - unfold lsentence_ok2 in Hv. rewrite !andb_true_iff in Hv. destruct Hv as [[[Ht _] _] _]. now apply unamb_kw.
    - apply andb_true_iff in Hv as [Hv _]. unfold lsentence_ok2 in Hv. rewrite !andb_true_iff in Hv.
      destruct Hv as [[[Ht _] _] _]. now apply unamb_kw.
  Qed.
End TermKw.

(* ================================================================================== *)
(* 3. item layer: the border conditions of C02 from keyword-freeness; the value layer  *)
(*    of the lexical parser on lvalue_ok (prefix-only atoms included)                  *)
Section ValueLayerKw.
  Variable L : lfmt.
  Variable ia : N -> bool.
  Local Notation C := (compile L).
  Hypothesis Hterm : lex_term_ok L ia = true.
  Hypothesis Hitems : lex_items_ok L = true.
  Hypothesis Hclean : lex_clean_ok L ia = true.
  Hypothesis Hka : lex_kwfree_atoms_ok L = true.

  Local Notation f0 := (f0 L).
  Local Notation bl := (fst (l_budget_brackets L)).
  Local Notation br := (snd (l_budget_brackets L)).
  Local Notation tr := (snd (l_truth_brackets L)).

  Lemma ka_parts :
    tr <> [] /\ (forall q, In q (c_punctuations C) -> q <> []) /\
    (forall l, In (l, []) (c_stamp_brackets C) ->
       last_is (fun e => forallb (fun p => negb (memb e p)) (c_prefixes C)) l = true).
  Proof.
    pose proof Hka as H. unfold lex_kwfree_atoms_ok in H. rewrite !andb_true_iff in H. destruct H as [[H1 H2] H3].
    split; [destruct tr; [discriminate | discriminate]|]. split.
    - intros q Hq. rewrite forallb_forall in H2. specialize (H2 _ Hq). destruct q; [discriminate | discriminate].
    - intros l Hl. rewrite forallb_forall in H3. exact (H3 _ Hl).
  Qed.

  (* no budget in front of a term of the domain whose name -- when it is a bare word -- is keyword-free,
     followed by text without the budget's key character (Proofs/AgreeValueP.v no_budget2 with
     budget_left_nonident replaced: the word's first character is not a keyword character, the budget's
     opening bracket is a keyword) *)
  Lemma no_budget_kw t rest :
    lterm_ok ia L t = true -> top_atom_kwfree L t = true ->
    (forall e, budget_key_char L ia e = true -> ~ In e rest) ->
    segment_budget C (f0 t ++ rest) = LOk None.
  Proof.
    intros Hok Hq Hrest. destruct (clean_all L ia Hclean) as [HB [_ [_ [Hblne HP]]]].
    destruct (LexPClean.is_atom t) eqn:Ea.
    - destruct t as [p n | | |]; try discriminate. cbn [lterm_ok top_atom_kwfree] in *. rewrite !andb_true_iff in Hok.
      destruct Hok as [[Hp Hid] Hne]. apply str_in_In in Hp. rewrite forallb_forall in HP. specialize (HP _ Hp).
      rewrite f0_atom, <- app_assoc. rewrite !orb_true_iff in HP. destruct HP as [[HP|HP]|HP].
      + destruct p; [|discriminate]. cbn [app]. apply segment_budget_nostart.
        cbn [LexParser.nonempty] in Hne. rewrite orb_false_r in Hne.
        destruct n as [|c n']; [discriminate|]. unfold lkwfree_name in Hq. cbn [forallb] in Hq.
        apply andb_true_iff in Hq as [Hc _]. cbn [app]. apply (kw_no_start_l L); [|exact Hc].
        apply keyword_single; [cbn; auto 15 | destruct bl; [discriminate | discriminate]].
      + apply negb_true_iff in HP. apply segment_budget_nostart. now apply compat_false_starts.
      + apply andb_true_iff in HP as [Heq Hkey]. apply str_eqb_eq in Heq. subst p.
        apply existsb_exists in Hkey as [e [He Hkey]].
        apply (segment_budget_keychar L _ e He). rewrite drop_app_length. intros Hin.
        apply in_app_or in Hin as [Hin|Hin]; [|exact (Hrest e Hkey Hin)].
        unfold budget_key_char in Hkey. rewrite !andb_true_iff in Hkey. destruct Hkey as [[[[[Hk _] _] _] _] _].
        rewrite forallb_forall in Hid. rewrite (Hid _ Hin) in Hk. discriminate.
    - destruct (f0_head2 L ia t Hok Ea) as [b [r [Hb ->]]]. rewrite forallb_forall in HB. specialize (HB _ Hb).
      apply negb_true_iff in HB. apply segment_budget_nostart. rewrite <- app_assoc. now apply compat_false_starts.
  Qed.

  (* nothing is cut from the end of a bare term of the domain (top_clean2 with lex_clean_atoms_ok replaced:
     the name's last character is not a keyword character) *)
  Lemma top_clean_kw t :
    lterm_ok ia L t = true -> bare_prefix_ok L t = true -> top_atom_kwfree L t = true -> top_clean L (NTerm t).
  Proof.
    intros Hok Hbare Hq. cbn [top_clean]. split.
    { rewrite <- (app_nil_r (f0 t)). apply no_budget_kw; auto. }
    destruct (LexPClean.is_atom t) eqn:Ea.
    - destruct t as [p n | | |]; try discriminate. cbn [lterm_ok top_atom_kwfree] in *. rewrite !andb_true_iff in Hok.
      destruct Hok as [[Hp Hid] Hne]. apply str_in_In in Hp. rewrite f0_atom.
      destruct (rev n) as [|c rn] eqn:Er.
      + apply (f_equal (@rev N)) in Er. rewrite rev_involutive in Er. cbn [rev] in Er. subst n.
        cbn [bare_prefix_ok] in Hbare. rewrite app_nil_r. repeat split.
        * exact (tail_truth L [] p Hbare).
        * exact (tail_stamp L [] p Hbare).
        * exact (tail_punct L [] p Hbare).
      + assert (Hn : n = rev rn ++ [c]) by (rewrite <- (rev_involutive n), Er; reflexivity).
        assert (Hc : lkwfree_char L c = true).
        { unfold lkwfree_name in Hq. rewrite forallb_forall in Hq. apply Hq. apply in_rev. rewrite Er. now left. }
        destruct ka_parts as (Htr & Hpun & Hst). repeat split.
        * apply (segment_truth_none L). rewrite Hn, app_assoc. apply (kw_no_end_l L); [|exact Hc].
          apply keyword_single; [cbn; auto 15 | exact Htr].
        * apply (segment_stamp_none L). intros [l r] Hin. cbn [fst snd]. destruct r as [|c0 r0].
          -- specialize (Hst l Hin). apply last_is_nonempty in Hst as [l' [e [Hl He]]].
             unfold segment_some_suffix. apply (sss_loop_absent _ _ e).
             ++ rewrite Hl, rev_app_distr. now left.
             ++ intros Hin'. apply in_rev in Hin'. apply in_app_or in Hin' as [Hin'|Hin'].
                ** rewrite forallb_forall in He. specialize (He _ Hp). apply negb_true_iff in He.
                   assert (memb e p = true) by now apply memb_In. congruence.
                ** assert (Hk : In l (keywords L)).
                   { apply (keyword_stamp L l []); auto. rewrite Hl. now destruct l'. }
                   assert (He' : lkwfree_char L e = false).
                   { apply (kw_char_not_free L l); [exact Hk|]. rewrite Hl. apply in_or_app. right. now left. }
                   unfold lkwfree_name in Hq. rewrite forallb_forall in Hq. rewrite (Hq _ Hin') in He'. discriminate.
          -- rewrite Hn, app_assoc. apply (kw_no_end_l L); [|exact Hc].
             apply (keyword_stamp L l (c0 :: r0)); auto. discriminate.
        * unfold segment_punctuation. rewrite match_suffix_none; [reflexivity|]. intros q Hqin.
          rewrite Hn, app_assoc. apply (kw_no_end_l L); [|exact Hc]. apply keyword_punct; auto.
    - destruct (clean_all L ia Hclean) as [_ [HT _]].
      destruct (f0_tail2 L ia t Hok Ea) as [x [rb [Hrb Heq]]]. rewrite forallb_forall in HT. specialize (HT _ Hrb).
      rewrite Heq. repeat split.
      + now apply tail_truth.
      + now apply tail_stamp.
      + now apply tail_punct.
  Qed.

  (* ---- parse_env on the whitespace-free text of a value of the domain (parse_env_text0_2 on the subdomain) ---- *)
  Theorem parse_env_text0_kw v fuel :
    lvalue_ok ia L v = true -> top_atom_kwfree L (top_term v) = true -> unamb_top L v ->
    (length (text0 L v) < fuel)%nat ->
    parse_env C ia fuel (text0 L v) = LOk v.
  Proof.
    intros Hv Hq Hun Hfuel. unfold parse_env. destruct v as [t | s | k]; cbn [top_term] in Hq.
    - cbn [lvalue_ok unamb_top] in *. apply andb_true_iff in Hv as [Hv Hbare].
      destruct (top_clean_kw t Hv Hbare Hq) as [Hb [Htr [Hst Hp]]].
      change (text0 L (NTerm t)) with (f0 t) in *.
      pose proof (f0_nonempty2 L ia Hterm t Hv) as Htt.
      unfold parse_items. rewrite Hb. cbn [lbind right_unwrap_or]. rewrite Htr. cbn [lbind right_unwrap_or].
      rewrite slice_to_ok by lia. rewrite take_all by lia. cbn [lbind]. rewrite Hst. cbn [lbind right_unwrap_or].
      rewrite slice_to_ok by lia. rewrite take_all by lia. cbn [lbind]. rewrite Hp. cbn [lbind right_unwrap_or].
      rewrite slice_ok by lia. rewrite drop_0, Nat.sub_0_r, take_all by lia. cbn [lbind].
      replace (0 <? length (f0 t))%nat with true by (symmetry; apply Nat.ltb_lt; lia).
      rewrite (term_reads_intro L ia Hterm t Hv Hun fuel Hfuel). reflexivity.
    - cbn [lvalue_ok unamb_top] in *. rewrite (text0_sentence L) in *.
      assert (Hparts := Hv). unfold lsentence_ok2 in Hparts. rewrite !andb_true_iff in Hparts.
      destruct Hparts as [[[Ht Hqq] Hst] Htv].
      pose proof (parse_items_sentence2 L ia Hterm Hitems fuel [] None s) as H. cbn [app length right_unwrap_or fst snd] in H.
      rewrite H; auto.
      + cbn [lbind mid_fold LexParser.m_term LexParser.m_punct LexParser.m_budget LexParser.m_stamp LexParser.m_truth ok_or].
        rewrite opt_list_unwrap, opt_str_unwrap. destruct s; reflexivity.
      + apply no_budget_kw; auto. intros e He. now apply (key_char_rest2 L ia).
      + now apply (term_reads_intro L ia Hterm).
      + rewrite app_length in Hfuel. lia.
    - cbn [lvalue_ok unamb_top] in *. rewrite (text0_task L) in *.
      apply andb_true_iff in Hv as [Hs Hb].
      assert (Hparts := Hs). unfold lsentence_ok2 in Hparts. rewrite !andb_true_iff in Hparts.
      destruct Hparts as [[[Ht Hqq] Hst] Htv].
      pose proof (parse_items_sentence2 L ia Hterm Hitems fuel (lex_fmt_budget L (lt_budget k))
                    (Some (lt_budget k, length (lex_fmt_budget L (lt_budget k)))) (lt_sentence k)) as H.
      cbn [right_unwrap_or fst snd] in H.
      rewrite H; auto.
      + cbn [lbind mid_fold LexParser.m_term LexParser.m_punct LexParser.m_budget LexParser.m_stamp LexParser.m_truth ok_or].
        rewrite opt_list_unwrap, opt_str_unwrap. destruct k as [b [t q st tv]]; reflexivity.
      + apply (segment_budget_pos L ia Hitems). exact Hb.
      + now apply (term_reads_intro L ia Hterm).
      + rewrite !app_length in Hfuel. lia.
  Qed.

  Lemma top_atom_of_names v : lnames_kwfree L v = true -> top_atom_kwfree L (top_term v) = true.
  Proof. unfold lnames_kwfree. destruct (top_term v); cbn [lterm_kwfree top_atom_kwfree]; auto. Qed.
End ValueLayerKw.

(* ================================================================================== *)
(* 4. C02 on the subdomain: format-then-parse of the lexical formatter                  *)
(* all table conditions: those of the general C02 theorem (lex_c02_ok: true of all three shipped formats) and
   the two keyword-freeness checks, which REPLACE lex_selfdelim / lex_clean_atoms_ok (false for Han) *)
Definition lex_c02_kw_ok (L : lfmt) (ia : N -> bool) : bool :=
  lex_c02_ok L ia && lex_kwfree_term_ok L && lex_kwfree_atoms_ok L.

Section RoundTripKw.
  Variable L : lfmt.
  Variable ia : N -> bool.
  Hypothesis Hok : lex_c02_kw_ok L ia = true.

  Lemma c02_kw_parts :
    lex_term_ok L ia = true /\ lex_items_ok L = true /\ lex_space_ok L ia = true /\ lex_clean_ok L ia = true /\
    lex_kwfree_term_ok L = true /\ lex_kwfree_atoms_ok L = true.
  Proof.
    pose proof Hok as H. unfold lex_c02_kw_ok, lex_c02_ok, lex_rt_ok in H. rewrite !andb_true_iff in H.
    destruct H as [[[[[H1 H2] H3] H4] H5] H6]. repeat split; assumption.
  Qed.

  (* the conditions of the general theorem C02_roundtrip, discharged *)
  Theorem unamb_top_of_kwfree v : vocab_ok L ia v = true -> lnames_kwfree L v = true -> unamb_top L v.
  Proof.
    intros Hv Hq. destruct c02_kw_parts as (_ & _ & _ & _ & Hkt & _).
    apply (unamb_top_kw L ia Hkt); [now apply vocab_lvalue_ok | exact Hq].
  Qed.

  Theorem top_clean_of_kwfree v : vocab_ok L ia v = true -> lnames_kwfree L v = true -> top_clean L v.
  Proof.
    intros Hv Hq. destruct c02_kw_parts as (Ht & Hi & _ & Hc & _ & Hka).
    destruct v as [t|s|k].
    - cbn [vocab_ok] in Hv. apply (top_clean_kw L ia Hc Hka).
      + now apply term_ok_lterm_ok.
      + now apply (term_ok_bare L ia).
      + exact (top_atom_of_names L (NTerm t) Hq).
    - apply (top_clean_sentence L ia Hc). exact Hv.
    - exact I.
  Qed.

  (* C02 on the extended domain lvalue_ok (prefix-only atoms such as the placeholder included) *)
  Theorem lex_roundtrip_kw v :
    lvalue_ok ia L v = true -> lnames_kwfree L v = true -> lex_parse ia L (lex_fmt L v) = LOk v.
  Proof.
    intros Hv Hq. destruct c02_kw_parts as (Ht & Hi & Hs & Hc & Hkt & Hka). destruct (space_all L ia Hs) as [Hrm _].
    unfold lex_parse, lex_parse_fuel, idealize_env. change (c_fmt (compile L)) with L. rewrite Hrm.
    change (filter (fun c => negb (space_for_parse L c)) (lex_fmt L v)) with (LexSpec.strip L (lex_fmt L v)).
    rewrite (strip_fmt2 L ia Hs v Hv).
    apply (parse_env_text0_kw L ia Ht Hi Hc Hka); auto.
    - now apply top_atom_of_names.
    - now apply (unamb_top_kw L ia Hkt).
    - rewrite <- (strip_fmt2 L ia Hs v Hv). unfold lex_fuel. pose proof (strip_length L (lex_fmt L v)). lia.
  Qed.

  (* C02 as the property states it, on the subdomain: every value of the vocabulary with keyword-free names *)
  Theorem lex_roundtrip_vocab_kw v :
    vocab_ok L ia v = true -> lnames_kwfree L v = true -> lex_parse ia L (lex_fmt L v) = LOk v.
  Proof. intros Hv Hq. apply lex_roundtrip_kw; [now apply vocab_lvalue_ok | exact Hq]. Qed.

  (* the term entry point *)
  Theorem lex_term_roundtrip_kw t :
    term_ok L ia t = true -> lterm_kwfree L t = true -> lex_parse_term ia L (lex_fmt_term L t) = LOk t.
  Proof.
    intros Hv Hq. destruct c02_kw_parts as (Ht & _ & Hs & _ & Hkt & _).
    apply (lex_term_roundtrip L ia t Ht Hs Hv). apply (unamb_kw L ia Hkt); [now apply term_ok_lterm_ok | exact Hq].
  Qed.
End RoundTripKw.

(* all three shipped lexical formats pass: the argument is not Han-specific *)
Lemma shipped_lex_c02_kw_ok : forallb (fun L => lex_c02_kw_ok L std_alnum) shipped_lex_formats = true.
Proof. vm_compute. reflexivity. Qed.

Lemma han_lex_c02_kw_ok : lex_c02_kw_ok LEX_HAN std_alnum = true.
Proof. vm_compute. reflexivity. Qed.

Theorem han_roundtrip_kwfree v :
  vocab_ok LEX_HAN std_alnum v = true -> lnames_kwfree LEX_HAN v = true ->
  lex_parse std_alnum LEX_HAN (lex_fmt LEX_HAN v) = LOk v.
Proof. exact (lex_roundtrip_vocab_kw LEX_HAN std_alnum han_lex_c02_kw_ok v). Qed.

Theorem han_roundtrip_kwfree_extended v :
  lvalue_ok std_alnum LEX_HAN v = true -> lnames_kwfree LEX_HAN v = true ->
  lex_parse std_alnum LEX_HAN (lex_fmt LEX_HAN v) = LOk v.
Proof. exact (lex_roundtrip_kw LEX_HAN std_alnum han_lex_c02_kw_ok v). Qed.

Theorem han_term_roundtrip_kwfree t :
  term_ok LEX_HAN std_alnum t = true -> lterm_kwfree LEX_HAN t = true ->
  lex_parse_term std_alnum LEX_HAN (lex_fmt_term LEX_HAN t) = LOk t.
Proof. exact (lex_term_roundtrip_kw LEX_HAN std_alnum han_lex_c02_kw_ok t). Qed.

(* the explicit conditions of Props/C02.v's Han theorems (C02_han, C02_han_clean) hold on the subdomain *)
Theorem han_conditions_kwfree v :
  vocab_ok LEX_HAN std_alnum v = true -> lnames_kwfree LEX_HAN v = true -> unamb_top LEX_HAN v /\ top_clean LEX_HAN v.
Proof.
  intros Hv Hq. split.
  - exact (unamb_top_of_kwfree LEX_HAN std_alnum han_lex_c02_kw_ok v Hv Hq).
  - exact (top_clean_of_kwfree LEX_HAN std_alnum han_lex_c02_kw_ok v Hv Hq).
Qed.

(* ================================================================================== *)
(* 5. the enum-side and the lexical keyword characters                                 *)
(* every character of a lexical keyword of L is a character of one of the 60 string fields of E: then a name
   that is keyword-free for E (Proofs/EnumHanP.v kwfree_name) is keyword-free for L *)
Definition lex_kw_sub (E : efmt) (L : lfmt) : bool := forallb (fun c => memb c (kw_chars E)) (lkw_chars L).

Section KwSub.
  Variable E : efmt.
  Variable L : lfmt.
  Hypothesis Hsub : lex_kw_sub E L = true.

  Lemma kwfree_char_lex c : kwfree_char E c = true -> lkwfree_char L c = true.
  Proof.
    unfold kwfree_char, lkwfree_char. rewrite !negb_true_iff. intros H.
    destruct (memb c (lkw_chars L)) eqn:Hm; [|reflexivity]. apply memb_In in Hm.
    unfold lex_kw_sub in Hsub. rewrite forallb_forall in Hsub. rewrite (Hsub _ Hm) in H. discriminate.
  Qed.

  Lemma kwfree_name_lex n : kwfree_name E n = true -> lkwfree_name L n = true.
  Proof.
    unfold kwfree_name, lkwfree_name. rewrite !forallb_forall. intros H c Hc. now apply kwfree_char_lex, H.
  Qed.

  Lemma skwfree_lex_tree : forall st, skwfree E st = true -> lterm_kwfree L (lex_tree E st) = true.
  Proof.
    induction st as [arm name|ext a g items b IH|arm a g items b IH|arm a b c d x y IHx IHy] using sterm_ind';
      cbn [skwfree lex_tree lterm_kwfree]; intros H.
    - now apply kwfree_name_lex.
    - rewrite forallb_map. apply forallb_forall. intros z Hz. rewrite Forall_forall in IH. apply IH; [exact Hz|].
      rewrite forallb_forall in H. now apply H.
    - rewrite forallb_map. apply forallb_forall. intros z Hz. rewrite Forall_forall in IH. apply IH; [exact Hz|].
      rewrite forallb_forall in H. now apply H.
    - apply andb_true_iff in H as [Hx Hy]. now rewrite (IHx Hx), (IHy Hy).
  Qed.
End KwSub.

(* ================================================================================== *)
(* 6. C03 on the subdomain: the lexical pipeline on the ENUM formatter's text; both     *)
(*    pipelines                                                                        *)
(* all table conditions of the value-level theorem on the subdomain: those of Proofs/AgreeValueP.v
   agree_value_all with lex_clean_atoms_ok and budget_left_nonident (false for Han) REPLACED by the
   keyword-freeness checks and the inclusion of the keyword characters *)
Definition agree_value_kw (ia : N -> bool) (E : efmt) (L : lfmt) : bool :=
  agree_all ia E L && lex_c02_kw_ok L ia && agree_items E L && lefts_nonempty (compile L) && door_fmt_ok E &&
  lex_kw_sub E L.

Section AgreeValueKw.
  Variable F : Type.
  Variable fshow : F -> str.          (* f64::to_string *)
  Variable fread : str -> option F.   (* str::parse::<f64>() *)
  Variable in01 : F -> bool.
  Variable ia : N -> bool.
  Variable E : efmt.
  Variable L : lfmt.
  Local Notation C := (compile L).
  Hypothesis Hall : agree_value_kw ia E L = true.
  Hypothesis Hko : kwfree_term_ok ia E = true.
  Hypothesis H_rt : forall x, in01 x = true -> fread (fshow x) = Some x.
  Hypothesis H_cs : forall x, in01 x = true -> fshow x <> [] /\ Forall (fun c => is_float_char c = true) (fshow x).

  Lemma avk_parts :
    agree_all ia E L = true /\ agree_ok ia E L = true /\ parse_ok E = true /\ lex_term_ok L ia = true /\
    FoldP2.fold_kw_distinct E = true /\ lex_c02_kw_ok L ia = true /\ lex_items_ok L = true /\ lex_space_ok L ia = true /\
    lex_clean_ok L ia = true /\ lex_kwfree_atoms_ok L = true /\
    agree_items E L = true /\ lefts_nonempty C = true /\ door_fmt_ok E = true /\ lex_kw_sub E L = true.
  Proof.
    pose proof Hall as H. unfold agree_value_kw in H. rewrite !andb_true_iff in H.
    destruct H as [[[[[Ha Hc] Hi] Hl] Hd] Hs].
    destruct (all_parts ia E L Ha) as (Hag & Hpo & Hlt & Hfd).
    destruct (c02_kw_parts L ia Hc) as (_ & Hit & Hsp & Hcl & _ & Hka).
    repeat split; assumption.
  Qed.

  (* names: the atoms of a tree the formatter can print consist of name characters *)
  Lemma satoms_names_ok : forall st, satoms_ok ia E st = true -> names_ok ia E st = true.
  Proof.
    induction st as [arm name|ext a g items b IH|arm a g items b IH|arm a b c d x y IHx IHy] using sterm_ind';
      cbn [satoms_ok names_ok]; intros H.
    - exact (satom_nc ia E Hko arm name H).
    - apply forallb_forall. intros z Hz. rewrite Forall_forall in IH. apply IH; [exact Hz|].
      rewrite forallb_forall in H. now apply H.
    - apply forallb_forall. intros z Hz. rewrite Forall_forall in IH. apply IH; [exact Hz|].
      rewrite forallb_forall in H. now apply H.
    - rewrite !andb_true_iff in H. destruct H as [[_ Hx] Hy]. now rewrite (IHx Hx), (IHy Hy).
  Qed.

  (* the enum-side name condition of the tree written WITHOUT spaces (what the lexical side conditions
     are derived from), by keyword-freeness: skwfree does not look at the spacing *)
  Lemma unamb_respace0_kw st : satoms_ok ia E st = true -> skwfree E st = true ->
    SstOk.unamb ia E (respace 0 st) [] = true.
  Proof.
    intros Hs Hq. destruct avk_parts as (_ & _ & Hpo & _).
    apply (unamb_of_kwfree ia E Hpo Hko); [now rewrite satoms_ok_respace | | reflexivity].
    now rewrite (skwfree_shape E _ _ (same_shape_respace 0 st)).
  Qed.

  (* what the lexical parser's whitespace filter leaves of the text of v with its term written as st *)
  Lemma strip_value_tree st v :
    odesugar st = Some (nv_term v) -> satoms_ok ia E st = true -> vals_ok F in01 v = true ->
    LexSpec.strip L (value_text F fshow E (render E st) v) = text0 L (lex_value_of F fshow E (lex_tree E st) v).
  Proof.
    intros Hd Hs Hv. destruct avk_parts as (_ & Hag & _ & _ & _ & _ & Hit & Hsp & _ & _ & Hi & _).
    apply (strip_value_text F fshow in01 ia E L Hi Hsp Hit H_cs); [|exact Hv].
    rewrite (strip_render ia E L Hag st (satoms_names_ok st Hs)).
    exact (render_respace0 ia E L Hag st (odesugar_shape_ok _ _ Hd)).
  Qed.

  Lemma lvalue_ok_tree st v :
    odesugar st = Some (nv_term v) -> satoms_ok ia E st = true -> vals_ok F in01 v = true ->
    lvalue_ok ia L (lex_value_of F fshow E (lex_tree E st) v) = true.
  Proof.
    intros Hd Hs Hv. destruct avk_parts as (Ha & Hag & _ & _ & _ & _ & _ & _ & _ & _ & Hi & _).
    apply (lvalue_ok_of F fshow in01 ia E L Hi H_cs); auto.
    - exact (lex_tree_ok ia E L Hag (all_total ia E L Ha) st _ Hd (satoms_names_ok st Hs)).
    - exact (bare_prefix_tree E L Hi st _ Hd).
  Qed.

  (* (lexical) -- for EVERY text whose whitespace-free form is that of the enum formatter's text with the term
     written as st: any surface tree with well-formed keyword-free atoms, any spacing, derived copulas *)
  Theorem lex_parse_value_tree_kw st v s :
    odesugar st = Some (nv_term v) -> satoms_ok ia E st = true -> skwfree E st = true -> vals_ok F in01 v = true ->
    idealize_env C s = idealize_env C (value_text F fshow E (render E st) v) ->
    lex_parse ia L s = LOk (lex_value_of F fshow E (lex_tree E st) v).
  Proof.
    intros Hd Hs Hq Hv He.
    destruct avk_parts as (Ha & Hag & Hpo & Hlt & Hfd & Hck & Hit & Hsp & Hcl & Hka & Hi & Hl & Hdo & Hsub).
    pose proof (odesugar_shape_ok _ _ Hd) as Hshape.
    rewrite (lex_parse_idealize ia L Hl _ _ He). unfold lex_parse, lex_parse_fuel.
    rewrite (idealize_strip ia E L Hag), (strip_value_tree st v Hd Hs Hv).
    apply (parse_env_text0_kw L ia Hlt Hit Hcl Hka).
    - now apply lvalue_ok_tree.
    - replace (top_term (lex_value_of F fshow E (lex_tree E st) v)) with (lex_tree E st) by (destruct v as [x|x|[x b]]; reflexivity).
      destruct st as [arm name| | |]; cbn [lex_tree top_atom_kwfree]; try reflexivity.
      cbn [skwfree] in Hq. now apply (kwfree_name_lex E L Hsub).
    - rewrite unamb_top_of. exact (lex_unamb_of_enum ia E L Hag st [] [] Hshape (unamb_respace0_kw st Hs Hq)).
    - rewrite <- (strip_value_tree st v Hd Hs Hv).
      unfold lex_fuel. pose proof (strip_length L (value_text F fshow E (render E st) v)). lia.
  Qed.

  (* (fold) *)
  Theorem fold_value_tree_kw st v :
    odesugar st = Some (nv_term v) -> vals_ok F in01 v = true ->
    fold_narsese F fread in01 E (lex_value_of F fshow E (lex_tree E st) v) = FOk v.
  Proof.
    intros Hd Hv. destruct avk_parts as (_ & _ & _ & _ & Hfd & _ & _ & _ & _ & _ & _ & _ & Hdo & _).
    apply (fold_value_of F fshow fread in01 E Hdo H_rt); [|exact Hv]. now apply fold_lex_tree.
  Qed.

  (* (lexical + fold) *)
  Theorem lex_then_fold_value_tree_kw st v s :
    odesugar st = Some (nv_term v) -> satoms_ok ia E st = true -> skwfree E st = true -> vals_ok F in01 v = true ->
    idealize_env C s = idealize_env C (value_text F fshow E (render E st) v) ->
    lex_then_fold_narsese F fread in01 ia L E s = FOk v.
  Proof.
    intros Hd Hs Hq Hv He. unfold lex_then_fold_narsese. rewrite (lex_parse_value_tree_kw st v s Hd Hs Hq Hv He).
    cbn [lres_fold_narsese]. now apply fold_value_tree_kw.
  Qed.

  (* ---- term level: every surface tree with well-formed keyword-free atoms (any spacing, derived copulas):
     both pipelines return its meaning -- the two unamb hypotheses of Proofs/AgreeP.v agree_term discharged ---- *)
  Theorem agree_term_kw (G : Type) t x :
    odesugar t = Some x -> satoms_ok ia E t = true -> skwfree E t = true ->
    parse_term G ia E (new_state G (render E t)) =
      EnumParser.POk x (step G (length (render E t)) (new_state G (render E t))) /\
    lex_then_fold ia L E (render E t) = FOk x.
  Proof.
    intros Hd Hs Hq. destruct avk_parts as (Ha & _ & Hpo & _).
    apply (agree_term G ia E L Ha t x Hd); [|now apply unamb_respace0_kw].
    now apply (unamb_of_kwfree ia E Hpo Hko).
  Qed.

  (* the lexical pipeline on ANY text with the same whitespace-free form (C09, Unicode clause included) *)
  Theorem lex_then_fold_term_kw t x s :
    odesugar t = Some x -> satoms_ok ia E t = true -> skwfree E t = true ->
    idealize_env C s = render E (respace 0 t) ->
    lex_then_fold ia L E s = FOk x.
  Proof.
    intros Hd Hs Hq. destruct avk_parts as (Ha & _). apply (lex_then_fold_tree ia E L Ha t x s Hd). now apply unamb_respace0_kw.
  Qed.

  (* ---- the enum formatter's own output ---- *)
  Hypothesis Hfs : fmt_space_ok E = true.
  Hypothesis Hcov : arms_cover E = true.

  (* the enum formatter's text and the LEXICAL formatter's text of the same value have the same whitespace-free
     form -- for every well-formed value (no condition on the names): where they differ (Han: the lexical
     formatter writes space.format_items before stamp and truth, the enum formatter space.format_terms) they
     differ by characters the lexical parser filters *)
  Theorem fmt_texts_same_stripped v : wf_value ia E v = true -> vals_ok F in01 v = true ->
    idealize_env C (fmt_narsese F fshow E v) = idealize_env C (lex_fmt L (Readme.lex_of_narsese F fshow E v)).
  Proof.
    intros Hw Hv. destruct avk_parts as (_ & Hag & _ & _ & _ & _ & _ & Hsp & _).
    destruct (value_term_facts F ia E Hfs Hcov v Hw) as (Hr & Hd & Hsa).
    rewrite !(idealize_strip ia E L Hag), value_text_fmt, Hr, (strip_value_tree _ v Hd Hsa Hv).
    rewrite <- (lex_value_of_sst F fshow ia E Hfs Hcov v Hw). symmetry. apply (strip_fmt2 L ia Hsp).
    now apply lvalue_ok_tree.
  Qed.

  (* C03, lexical pipeline, whole values: the lexical parser reads the enum formatter's text of a well-formed
     value v with keyword-free names -- and every text with the same whitespace-free form, the LEXICAL
     formatter's text of lex_of_narsese v in particular -- as lex_of_narsese v; folding returns v *)
  Theorem lex_pipeline_fmt_kw v s :
    wf_value ia E v = true -> names_kwfree E v = true -> vals_ok F in01 v = true ->
    idealize_env C s = idealize_env C (fmt_narsese F fshow E v) ->
    lex_parse ia L s = LOk (Readme.lex_of_narsese F fshow E v) /\
    fold_narsese F fread in01 E (Readme.lex_of_narsese F fshow E v) = FOk v /\
    lex_then_fold_narsese F fread in01 ia L E s = FOk v.
  Proof.
    intros Hw Hq Hv He. destruct (value_term_facts F ia E Hfs Hcov v Hw) as (Hr & Hd & Hsa).
    assert (Hsq : skwfree E (sst E (nv_term v)) = true).
    { rewrite wf_value_term in Hw. now apply (sst_skwfree ia). }
    rewrite value_text_fmt, Hr in He.
    pose proof (lex_parse_value_tree_kw _ v s Hd Hsa Hsq Hv He) as H1.
    pose proof (fold_value_tree_kw _ v Hd Hv) as H2.
    rewrite (lex_value_of_sst F fshow ia E Hfs Hcov v Hw) in H1, H2.
    repeat split; [exact H1 | exact H2|]. unfold lex_then_fold_narsese. rewrite H1. exact H2.
  Qed.

  (* the route through the lexical formatter (the brief's plan): same whitespace-free form, then C02 *)
  Corollary lex_parse_lex_fmt_kw v :
    wf_value ia E v = true -> names_kwfree E v = true -> vals_ok F in01 v = true ->
    lex_parse ia L (lex_fmt L (Readme.lex_of_narsese F fshow E v)) = LOk (Readme.lex_of_narsese F fshow E v).
  Proof.
    intros Hw Hq Hv. apply (lex_pipeline_fmt_kw v); auto. symmetry. now apply fmt_texts_same_stripped.
  Qed.

  (* ---- both pipelines ---- *)
  Variable fzero : F.
  Variables kt ki : nat.
  Hypothesis Hso : sent_ok E = true.
  Hypothesis Hft : fmt_tables_ok E kt ki = true.
  Hypothesis Hks : kwfree_sent_ok ia E = true.
  Hypothesis H_empty : fread [] = None.
  Hypothesis H_zero : in01 fzero = true.

  (* any writing of the term: surface tree with well-formed keyword-free atoms *)
  Theorem agree_value_tree_kw st v :
    odesugar st = Some (nv_term v) -> satoms_ok ia E st = true -> skwfree E st = true -> vals_ok F in01 v = true ->
    (exists st', parse_narsese F fread fzero in01 ia E (value_text F fshow E (render E st) v) = EnumParser.POk v st') /\
    lex_parse ia L (value_text F fshow E (render E st) v) = LOk (lex_value_of F fshow E (lex_tree E st) v) /\
    lex_then_fold_narsese F fread in01 ia L E (value_text F fshow E (render E st) v) = FOk v.
  Proof.
    intros Hd Hs Hq Hv. destruct avk_parts as (_ & _ & Hpo & _). split; [|split].
    - rewrite (value_text_canon F fshow E kt ki Hft).
      apply (parse_kwfree_input F fread fzero in01 ia E Hpo Hso Hko Hks H_empty H_zero).
      + exact (canon_meaning F fshow fread in01 in01 E kt ki Hft (fun x H => H) H_rt H_cs st v Hv Hd).
      + now rewrite canon_term.
      + now rewrite canon_term.
      + apply canon_follows.
    - now apply lex_parse_value_tree_kw.
    - now apply (lex_then_fold_value_tree_kw st v).
  Qed.

  (* C03 for whole values on the subdomain *)
  Theorem agree_value_fmt_kw v :
    wf_value ia E v = true -> names_kwfree E v = true -> vals_ok F in01 v = true ->
    (exists st, parse_narsese F fread fzero in01 ia E (fmt_narsese F fshow E v) = EnumParser.POk v st) /\
    lex_parse ia L (fmt_narsese F fshow E v) = LOk (Readme.lex_of_narsese F fshow E v) /\
    lex_then_fold_narsese F fread in01 ia L E (fmt_narsese F fshow E v) = FOk v.
  Proof.
    intros Hw Hq Hv. destruct avk_parts as (_ & _ & Hpo & _).
    destruct (lex_pipeline_fmt_kw v (fmt_narsese F fshow E v) Hw Hq Hv eq_refl) as (H1 & _ & H3).
    split; [|split; assumption].
    exact (C01_value_kwfree F fshow fread fzero in01 in01 ia E kt ki Hpo Hso Hft Hfs Hcov Hko Hks H_empty H_zero
             (fun x H => H) H_rt H_cs v Hw Hq Hv).
  Qed.

  Corollary agree_value_fmt_kw_eq v :
    wf_value ia E v = true -> names_kwfree E v = true -> vals_ok F in01 v = true ->
    of_door F (parse_narsese F fread fzero in01 ia E (fmt_narsese F fshow E v)) =
    lex_then_fold_narsese F fread in01 ia L E (fmt_narsese F fshow E v).
  Proof. intros Hw Hq Hv. destruct (agree_value_fmt_kw v Hw Hq Hv) as ([st ->] & _ & ->). reflexivity. Qed.

  (* the lexical value of a well-formed value with keyword-free names (enum sense) has keyword-free names
     (lexical sense) *)
  Lemma lex_value_names_kwfree v : wf_value ia E v = true -> names_kwfree E v = true ->
    lnames_kwfree L (Readme.lex_of_narsese F fshow E v) = true.
  Proof.
    intros Hw Hq. destruct avk_parts as (_ & _ & _ & _ & _ & _ & _ & _ & _ & _ & _ & _ & _ & Hsub).
    rewrite <- (lex_value_of_sst F fshow ia E Hfs Hcov v Hw). unfold lnames_kwfree.
    replace (top_term (lex_value_of F fshow E (lex_tree E (sst E (nv_term v))) v)) with (lex_tree E (sst E (nv_term v)))
      by (destruct v as [x|x|[x b]]; reflexivity).
    apply (skwfree_lex_tree E L Hsub). rewrite wf_value_term in Hw. now apply (sst_skwfree ia).
  Qed.
End AgreeValueKw.

(* ================================================================================== *)
(* 7. the shipped tables; Han at Rust's Unicode table                                   *)
Lemma alnum_facts_han_std_alnum : alnum_facts_han std_alnum = true.
Proof. vm_compute. reflexivity. Qed.

Lemma han_agree_value_kw : agree_value_kw std_alnum FORMAT_HAN LEX_HAN = true.
Proof. vm_compute. reflexivity. Qed.

(* ASCII and LaTeX pass the same checks: the argument is not Han-specific *)
Lemma shipped_agree_value_kw : forallb (fun p => agree_value_kw std_alnum (fst p) (snd p)) shipped_pairs = true.
Proof. vm_compute. reflexivity. Qed.

Lemma han_kwfree_sides :
  kwfree_term_ok std_alnum FORMAT_HAN = true /\ kwfree_sent_ok std_alnum FORMAT_HAN = true.
Proof. exact (kwfree_tables_han std_alnum alnum_facts_han_std_alnum). Qed.

(* the two keyword-character sets of Han: the lexical one is the enum one without the space (the 56
   characters of the brackets, separators, punctuation marks and ideographs of Props/C01e.v) *)
Definition han_lkw_chars : list N := tl han_kw_chars.

Lemma lkwfree_char_han : forall c, lkwfree_char LEX_HAN c = negb (memb c han_lkw_chars).
Proof. intros c. unfold lkwfree_char. f_equal. apply memb_same; vm_compute; reflexivity. Qed.

Lemma lkwfree_name_han : forall n, lkwfree_name LEX_HAN n = forallb (fun c => negb (memb c han_lkw_chars)) n.
Proof.
  intros n. unfold lkwfree_name. induction n as [|x n IH]; [reflexivity|]. cbn [forallb]. now rewrite IH, lkwfree_char_han.
Qed.

Lemma kwfree_char_enum_lex_han : forall c, kwfree_char FORMAT_HAN c = negb (c =? 32)%N && lkwfree_char LEX_HAN c.
Proof.
  intros c. rewrite kwfree_char_han, lkwfree_char_han. unfold han_lkw_chars, han_kw_chars. cbn [tl memb].
  now rewrite negb_orb.
Qed.

Lemma kwfree_name_enum_lex_han : forall n,
  kwfree_name FORMAT_HAN n = forallb (fun c => negb (c =? 32)%N) n && lkwfree_name LEX_HAN n.
Proof.
  intros n. unfold kwfree_name, lkwfree_name. induction n as [|x n IH]; [reflexivity|]. cbn [forallb].
  rewrite IH, kwfree_char_enum_lex_han.
  destruct (negb (x =? 32)%N), (lkwfree_char LEX_HAN x), (forallb (fun c => negb (c =? 32)%N) n); reflexivity.
Qed.

(* the space is no identifier character: on the names of C02's vocabulary the two notions coincide *)
Lemma han_space_not_ident : ident LEX_HAN std_alnum 32%N = false.
Proof. vm_compute. reflexivity. Qed.

Lemma kwfree_name_same_han n : forallb (ident LEX_HAN std_alnum) n = true ->
  kwfree_name FORMAT_HAN n = lkwfree_name LEX_HAN n.
Proof.
  intros Hid. rewrite kwfree_name_enum_lex_han.
  replace (forallb (fun c => negb (c =? 32)%N) n) with true; [reflexivity|]. symmetry.
  apply forallb_forall. intros c Hc. rewrite forallb_forall in Hid. specialize (Hid c Hc).
  destruct (N.eqb_spec c 32) as [->|]; [|reflexivity]. rewrite han_space_not_ident in Hid. discriminate.
Qed.

Section HanStd.
  Variable F : Type.
  Variable fshow : F -> str.
  Variable fread : str -> option F.
  Variable fzero : F.
  Variable in01 : F -> bool.
  Hypothesis H_empty : fread [] = None.
  Hypothesis H_zero : in01 fzero = true.
  Hypothesis H_rt : forall x, in01 x = true -> fread (fshow x) = Some x.
  Hypothesis H_cs : forall x, in01 x = true -> fshow x <> [] /\ Forall (fun c => is_float_char c = true) (fshow x).

  Local Notation E := FORMAT_HAN.
  Local Notation L := LEX_HAN.
  Local Notation ia := std_alnum.

  (* term level *)
  Theorem han_agree_term_kwfree (G : Type) t x :
    odesugar t = Some x -> satoms_ok ia E t = true -> skwfree E t = true ->
    parse_term G ia E (new_state G (render E t)) =
      EnumParser.POk x (step G (length (render E t)) (new_state G (render E t))) /\
    lex_then_fold ia L E (render E t) = FOk x.
  Proof. destruct han_kwfree_sides as [Hko _]. exact (agree_term_kw ia E L han_agree_value_kw Hko G t x). Qed.

  Theorem han_lex_then_fold_any_text_kwfree t x s :
    odesugar t = Some x -> satoms_ok ia E t = true -> skwfree E t = true ->
    idealize_env (compile L) s = render E (respace 0 t) ->
    lex_then_fold ia L E s = FOk x.
  Proof. destruct han_kwfree_sides as [Hko _]. exact (lex_then_fold_term_kw ia E L han_agree_value_kw Hko t x s). Qed.

  (* C09, both pipelines: two writings that differ only in the numbers of spaces at the token boundaries *)
  Theorem han_respacing_both_pipelines_kwfree (G : Type) t1 t2 x :
    same_shape t1 t2 -> odesugar t1 = Some x -> satoms_ok ia E t1 = true -> skwfree E t1 = true ->
    of_door G (parse_term G ia E (new_state G (render E t1))) = FOk x /\
    of_door G (parse_term G ia E (new_state G (render E t2))) = FOk x /\
    lex_then_fold ia L E (render E t1) = FOk x /\
    lex_then_fold ia L E (render E t2) = FOk x.
  Proof.
    intros Hs Hv Ha Hq. destruct (han_agree_term_kwfree G t1 x Hv Ha Hq) as [-> ->].
    assert (Hv2 : odesugar t2 = Some x) by now rewrite <- (same_shape_meaning t1 t2 Hs).
    assert (Ha2 : satoms_ok ia E t2 = true) by now rewrite <- (satoms_ok_shape ia E t1 t2 Hs).
    assert (Hq2 : skwfree E t2 = true) by now rewrite <- (skwfree_shape E t1 t2 Hs).
    destruct (han_agree_term_kwfree G t2 x Hv2 Ha2 Hq2) as [-> ->]. repeat split; reflexivity.
  Qed.

  (* the formatter's own output for a well-formed term, and every re-spacing of it *)
  Theorem han_agree_fmt_term_kwfree (G : Type) n x :
    wf_term ia E x = true -> term_kwfree E x = true ->
    (parse_term G ia E (new_state G (fmt_term E x)) =
       EnumParser.POk x (step G (length (fmt_term E x)) (new_state G (fmt_term E x))) /\
     lex_then_fold ia L E (fmt_term E x) = FOk x) /\
    (parse_term G ia E (new_state G (render E (respace n (sst E x)))) =
       EnumParser.POk x (step G (length (render E (respace n (sst E x)))) (new_state G (render E (respace n (sst E x))))) /\
     lex_then_fold ia L E (render E (respace n (sst E x))) = FOk x).
  Proof.
    intros Hw Hq. destruct han_sent_side as (_ & _ & _ & Hfs & Hcov). destruct han_kwfree_sides as [Hko _].
    destruct (sst_spec ia E Hfs Hcov x Hw) as (_ & Hd & Hr).
    pose proof (sst_satoms_ok ia E x Hcov Hw) as Hsa. pose proof (sst_skwfree ia E Hko x Hcov Hw Hq) as Hsq.
    split.
    - rewrite Hr. now apply han_agree_term_kwfree.
    - apply han_agree_term_kwfree; [now rewrite odesugar_respace | now rewrite satoms_ok_respace |].
      now rewrite (skwfree_shape E _ _ (same_shape_respace n (sst E x))).
  Qed.

  (* value level *)
  Theorem han_fmt_texts_same_stripped v : wf_value ia E v = true -> vals_ok F in01 v = true ->
    idealize_env (compile L) (fmt_narsese F fshow E v) =
    idealize_env (compile L) (lex_fmt L (Readme.lex_of_narsese F fshow E v)).
  Proof.
    destruct han_sent_side as (_ & _ & _ & Hfs & Hcov). destruct han_kwfree_sides as [Hko _].
    exact (fmt_texts_same_stripped F fshow in01 ia E L han_agree_value_kw Hko H_cs Hfs Hcov v).
  Qed.

  Theorem han_lex_pipeline_kwfree v s :
    wf_value ia E v = true -> names_kwfree E v = true -> vals_ok F in01 v = true ->
    idealize_env (compile L) s = idealize_env (compile L) (fmt_narsese F fshow E v) ->
    lex_parse ia L s = LOk (Readme.lex_of_narsese F fshow E v) /\
    fold_narsese F fread in01 E (Readme.lex_of_narsese F fshow E v) = FOk v /\
    lex_then_fold_narsese F fread in01 ia L E s = FOk v.
  Proof.
    destruct han_sent_side as (_ & _ & _ & Hfs & Hcov). destruct han_kwfree_sides as [Hko _].
    exact (lex_pipeline_fmt_kw F fshow fread in01 ia E L han_agree_value_kw Hko H_rt H_cs Hfs Hcov v s).
  Qed.

  Theorem han_lex_parse_lex_fmt_kwfree v :
    wf_value ia E v = true -> names_kwfree E v = true -> vals_ok F in01 v = true ->
    lex_parse ia L (lex_fmt L (Readme.lex_of_narsese F fshow E v)) = LOk (Readme.lex_of_narsese F fshow E v).
  Proof.
    destruct han_sent_side as (_ & _ & _ & Hfs & Hcov). destruct han_kwfree_sides as [Hko _].
    exact (lex_parse_lex_fmt_kw F fshow fread in01 ia E L han_agree_value_kw Hko H_rt H_cs Hfs Hcov v).
  Qed.

  Theorem han_lex_value_names_kwfree v : wf_value ia E v = true -> names_kwfree E v = true ->
    lnames_kwfree L (Readme.lex_of_narsese F fshow E v) = true.
  Proof.
    destruct han_sent_side as (_ & _ & _ & Hfs & Hcov). destruct han_kwfree_sides as [Hko _].
    exact (lex_value_names_kwfree F fshow ia E L han_agree_value_kw Hko Hfs Hcov v).
  Qed.

  Theorem han_agree_value_tree_kwfree st v :
    odesugar st = Some (nv_term v) -> satoms_ok ia E st = true -> skwfree E st = true -> vals_ok F in01 v = true ->
    (exists st', parse_narsese F fread fzero in01 ia E (value_text F fshow E (render E st) v) = EnumParser.POk v st') /\
    lex_parse ia L (value_text F fshow E (render E st) v) = LOk (lex_value_of F fshow E (lex_tree E st) v) /\
    lex_then_fold_narsese F fread in01 ia L E (value_text F fshow E (render E st) v) = FOk v.
  Proof.
    destruct han_sent_side as (_ & Hso & Hft & _ & _). destruct han_kwfree_sides as [Hko Hks].
    exact (agree_value_tree_kw F fshow fread in01 ia E L han_agree_value_kw Hko H_rt H_cs fzero 0 1 Hso Hft Hks H_empty H_zero st v).
  Qed.

  (* C03 for whole Han values with keyword-free names: BOTH pipelines read the enum formatter's text back to v *)
  Theorem han_agree_value_kwfree v :
    wf_value ia E v = true -> names_kwfree E v = true -> vals_ok F in01 v = true ->
    (exists st, parse_narsese F fread fzero in01 ia E (fmt_narsese F fshow E v) = EnumParser.POk v st) /\
    lex_parse ia L (fmt_narsese F fshow E v) = LOk (Readme.lex_of_narsese F fshow E v) /\
    lex_then_fold_narsese F fread in01 ia L E (fmt_narsese F fshow E v) = FOk v.
  Proof.
    destruct han_sent_side as (_ & Hso & Hft & Hfs & Hcov). destruct han_kwfree_sides as [Hko Hks].
    exact (agree_value_fmt_kw F fshow fread in01 ia E L han_agree_value_kw Hko H_rt H_cs Hfs Hcov fzero 0 1 Hso Hft Hks
             H_empty H_zero v).
  Qed.

  Corollary han_agree_value_kwfree_eq v :
    wf_value ia E v = true -> names_kwfree E v = true -> vals_ok F in01 v = true ->
    of_door F (parse_narsese F fread fzero in01 ia E (fmt_narsese F fshow E v)) =
    lex_then_fold_narsese F fread in01 ia L E (fmt_narsese F fshow E v).
  Proof. intros Hw Hq Hv. destruct (han_agree_value_kwfree v Hw Hq Hv) as ([st ->] & _ & ->). reflexivity. Qed.
End HanStd.

(* ================================================================================== *)
(* 8. non-vacuity; the witnesses of the known classes are outside the subdomain         *)
(* the five Han values of Proofs/EnumHanP.v (task 预0.5、0.75、1算 「猫是鸟狗」。发生在-12真1、0.9值 ; question
   『abc，任一x1，间隔42』？ ; bare word 鸟狗 ; the task over the term with all 30 constructors ; the judgement on
   the lone variable 任一x) *)
Definition ex_hyp_han_std (v : narsese str) : bool :=
  wf_value std_alnum FORMAT_HAN v && names_kwfree FORMAT_HAN v && vals_ok str toy_in01 v.
Definition ex_han_text (v : narsese str) : str := fmt_narsese str toy_show FORMAT_HAN v.
Definition ex_han_lex (v : narsese str) : lnarsese := Readme.lex_of_narsese str toy_show FORMAT_HAN v.

(* the hypotheses hold, and -- re-computed by vm_compute, independently of the theorems -- both pipelines
   return each value on the enum formatter's text; the lexical parser reads that text and the lexical
   formatter's text as the same lexical value *)
Lemma ex_han_agree_kwfree :
  forallb ex_hyp_han_std ex_han_values = true /\
  map (fun v => of_door str (parse_narsese str toy_read toy_zero toy_in01 std_alnum FORMAT_HAN (ex_han_text v))) ex_han_values
    = map (@FOk _) ex_han_values /\
  map (fun v => lex_then_fold_narsese str toy_read toy_in01 std_alnum LEX_HAN FORMAT_HAN (ex_han_text v)) ex_han_values
    = map (@FOk _) ex_han_values /\
  map (fun v => lex_parse std_alnum LEX_HAN (ex_han_text v)) ex_han_values = map (fun v => LOk (ex_han_lex v)) ex_han_values /\
  map (fun v => lex_parse std_alnum LEX_HAN (lex_fmt LEX_HAN (ex_han_lex v))) ex_han_values
    = map (fun v => LOk (ex_han_lex v)) ex_han_values.
Proof. split; [|split; [|split; [|split]]]; vm_compute; reflexivity. Qed.

Lemma ex_han_roundtrips :
  map (fun v => lex_parse std_alnum LEX_HAN (lex_fmt LEX_HAN (ex_han_lex v))) ex_han_values
    = map (fun v => LOk (ex_han_lex v)) ex_han_values.
Proof. exact (proj2 (proj2 (proj2 (proj2 ex_han_agree_kwfree)))). Qed.

(* C02: four of the lexical values are in C02's vocabulary (the one over all 30 constructors contains images,
   i.e. prefix-only placeholders), all five in the extended domain; all have keyword-free names; one is a
   bare atom (鸟狗: none of the border conditions is assumed) *)
Lemma ex_han_c02_kwfree :
  map (fun v => vocab_ok LEX_HAN std_alnum (ex_han_lex v)) ex_han_values = [true; true; true; false; true] /\
  forallb (fun v => lvalue_ok std_alnum LEX_HAN (ex_han_lex v) && lnames_kwfree LEX_HAN (ex_han_lex v)) ex_han_values = true /\
  map (fun v => bare_atom (ex_han_lex v)) ex_han_values = [false; false; true; false; false] /\
  lex_fmt LEX_HAN (ex_han_lex ex_han_task) =
    [39044; 48; 46; 53; 12289; 48; 46; 55; 53; 12289; 49; 31639; 32; 12300; 29483; 26159; 40479; 29399; 12301; 12290; 32;
     21457; 29983; 22312; 45; 49; 50; 32; 30495; 49; 12289; 48; 46; 57; 20540]%N.
Proof. split; [|split; [|split]]; vm_compute; reflexivity. Qed.

(* the two surface trees of Proofs/EnumTermCor.v (derived copulas, both images, an interval, sets, every variable
   kind, a placeholder) at 0, 1 and 3 spaces per token boundary: well-formed keyword-free atoms in Han *)
Lemma ex_han_tree_kwfree :
  forallb (fun n => satoms_ok std_alnum FORMAT_HAN (ex_tree n) && skwfree FORMAT_HAN (ex_tree n) &&
                    satoms_ok std_alnum FORMAT_HAN (ex_tree2 n) && skwfree FORMAT_HAN (ex_tree2 n)) [0; 1; 3]%nat = true.
Proof. vm_compute. reflexivity. Qed.

(* K5 (C02): Statement("得", "x将", "y") is in the vocabulary, its name x将 contains the keyword character 将 *)
Lemma k5_outside_kwfree :
  vocab_ok LEX_HAN std_alnum k5_witness = true /\ lnames_kwfree LEX_HAN k5_witness = false /\
  lkwfree_name LEX_HAN [120; 23558]%N = false /\ kwfree_name FORMAT_HAN [120; 23558]%N = false.
Proof. repeat split; vm_compute; reflexivity. Qed.

(* K3 (C03 / C09): 「a具 有值」, on which the two pipelines disagree (Proofs/AgreeP.v ex_han_space_disagree): the
   name a具 contains the keyword character 具 (of the copula 具有), the name 值 IS a keyword character *)
Lemma k3_space_outside_kwfree :
  let t := SStmt arm_property 0 1 0 0 (SAtom arm_word [97; 20855]%N) (SAtom arm_word [20540]%N) in
  satoms_ok std_alnum FORMAT_HAN t = true /\ skwfree FORMAT_HAN t = false /\
  kwfree_name FORMAT_HAN [97; 20855]%N = false /\ kwfree_name FORMAT_HAN [20540]%N = false.
Proof. repeat split; vm_compute; reflexivity. Qed.

(* the checks that are false for Han and that the keyword-freeness checks replace *)
Lemma han_replaced_checks :
  lex_selfdelim LEX_HAN std_alnum = false /\ lex_clean_atoms_ok LEX_HAN std_alnum = false /\
  budget_left_nonident std_alnum LEX_HAN = false /\ same_layout FORMAT_HAN LEX_HAN = false /\
  lex_kwfree_term_ok LEX_HAN = true /\ lex_kwfree_atoms_ok LEX_HAN = true /\ lex_kw_sub FORMAT_HAN LEX_HAN = true.
Proof. repeat split; vm_compute; reflexivity. Qed.

(* the checks are not vacuous.  (a) A format whose prefix dictionary contains 某 and 某任 fails the term check.
   (b) The stamp clause of lex_kwfree_atoms_ok is NEEDED: let Han's bracket-less stamp form be opened by 某 (an
   atom prefix) instead of 发生在; every other table check of C02 still passes, the bare atom 某12 -- in the
   vocabulary, keyword-free name 12 -- is printed 某12 and read as a stamp without a term: the round trip
   fails (LErr), and the check is false.  (c) Formats of different names do not pass the keyword-character
   inclusion. *)
Definition with_prefixes_stamps (L : lfmt) (pre : list str) (st : list (str * str)) : lfmt := {|
  l_space_is_for_parse := l_space_is_for_parse L; l_remove_spaces_before_parse := l_remove_spaces_before_parse L;
  l_format_terms := l_format_terms L; l_format_items := l_format_items L;
  l_prefixes_raw := pre; l_is_identifier := l_is_identifier L; l_set_brackets_raw := l_set_brackets_raw L;
  l_compound_brackets := l_compound_brackets L; l_separator := l_separator L; l_connecters_raw := l_connecters_raw L;
  l_statement_brackets := l_statement_brackets L; l_copulas_raw := l_copulas_raw L;
  l_punctuations_raw := l_punctuations_raw L; l_truth_brackets := l_truth_brackets L;
  l_truth_separator := l_truth_separator L; l_is_truth_content := l_is_truth_content L;
  l_stamp_brackets_raw := st; l_is_stamp_content := l_is_stamp_content L;
  l_budget_brackets := l_budget_brackets L; l_budget_separator := l_budget_separator L;
  l_is_budget_content := l_is_budget_content L
|}.
Definition ex_han_bad_prefixes : lfmt :=
  with_prefixes_stamps LEX_HAN (l_prefixes_raw LEX_HAN ++ [[26576; 20219]%N]) (l_stamp_brackets_raw LEX_HAN).
Definition ex_han_bad_stamp : lfmt :=
  with_prefixes_stamps LEX_HAN (l_prefixes_raw LEX_HAN)
    (map (fun t => match snd t with [] => ([26576]%N, []) | _ => t end) (l_stamp_brackets_raw LEX_HAN)).

Lemma kw_checks_discriminate :
  lex_kwfree_term_ok ex_han_bad_prefixes = false /\
  (let x := NTerm (LAtom [26576]%N [49; 50]%N) in
   lex_kwfree_atoms_ok ex_han_bad_stamp = false /\ lex_kwfree_term_ok ex_han_bad_stamp = true /\
   lex_c02_ok ex_han_bad_stamp std_alnum = true /\
   vocab_ok ex_han_bad_stamp std_alnum x = true /\ lnames_kwfree ex_han_bad_stamp x = true /\
   lex_fmt ex_han_bad_stamp x = [26576; 49; 50]%N /\
   lex_parse std_alnum ex_han_bad_stamp (lex_fmt ex_han_bad_stamp x) = LErr) /\
  lex_kw_sub FORMAT_ASCII LEX_HAN = false /\ lex_kw_sub FORMAT_HAN LEX_ASCII = false.
Proof. repeat split; vm_compute; reflexivity. Qed.

(* ================================================================================== *)
(* 9. statements for Props/C02e.v, Props/C03e.v                                         *)
Lemma lkwfree_name_meaning : forall (L : lfmt) (n : str),
  lkwfree_name L n = forallb (fun c => negb (memb c (concat (keywords L)))) n.
Proof. reflexivity. Qed.

Lemma lterm_kwfree_meaning : forall (L : lfmt) (t : lterm),
  lterm_kwfree L t =
  match t with
  | LAtom _ n => lkwfree_name L n
  | LCompound _ ts | LSet _ ts _ => forallb (lterm_kwfree L) ts
  | LStatement _ s p => lterm_kwfree L s && lterm_kwfree L p
  end.
Proof. intros L t. destruct t; reflexivity. Qed.

Lemma lnames_kwfree_meaning : forall (L : lfmt) (v : lnarsese),
  lnames_kwfree L v =
  lterm_kwfree L (match v with NTerm t => t | NSentence s => ls_term s | NTask k => ls_term (lt_sentence k) end).
Proof. intros L v. destruct v; reflexivity. Qed.

Lemma lex_kwfree_term_ok_meaning : forall L : lfmt,
  lex_kwfree_term_ok L =
  prefix_first_kw (c_prefixes (compile L)) && forallb LexParser.nonempty (c_copulas (compile L)).
Proof. reflexivity. Qed.

Lemma prefix_first_kw_meaning : forall (q : str) (rest : list str),
  prefix_first_kw (q :: rest) =
  forallb (fun p => match p with [] => LexParser.nonempty q | _ => negb (compat q p) end) rest && prefix_first_kw rest.
Proof. reflexivity. Qed.

Lemma lex_kwfree_atoms_ok_meaning : forall L : lfmt,
  lex_kwfree_atoms_ok L =
  LexParser.nonempty (snd (l_truth_brackets L)) &&
  forallb LexParser.nonempty (c_punctuations (compile L)) &&
  forallb (fun t => match snd t with
                    | [] => last_is (fun e => forallb (fun p => negb (memb e p)) (c_prefixes (compile L))) (fst t)
                    | _ => true
                    end) (c_stamp_brackets (compile L)).
Proof. reflexivity. Qed.

Lemma lex_c02_kw_ok_meaning : forall (L : lfmt) (ia : N -> bool),
  lex_c02_kw_ok L ia = lex_c02_ok L ia && lex_kwfree_term_ok L && lex_kwfree_atoms_ok L.
Proof. reflexivity. Qed.

Lemma agree_value_kw_meaning : forall (ia : N -> bool) (E : efmt) (L : lfmt),
  agree_value_kw ia E L =
  agree_all ia E L && lex_c02_kw_ok L ia && agree_items E L && lefts_nonempty (compile L) && door_fmt_ok E &&
  forallb (fun c => memb c (concat (probe_fields E))) (concat (keywords L)).
Proof. reflexivity. Qed.

Lemma toy_oracles_agree :
  toy_read [] = None /\ toy_in01 toy_zero = true /\
  (forall x, toy_in01 x = true -> toy_read (toy_show x) = Some x) /\
  (forall x, toy_in01 x = true -> toy_show x <> [] /\ Forall (fun c => is_float_char c = true) (toy_show x)).
Proof. exact toy_oracles_ok. Qed.
