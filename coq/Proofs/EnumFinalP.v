(* Proofs/EnumFinalP.v -- the FINAL assembly of C01 / C09 / C15 for whole enum Narsese values (terms,
   sentences, tasks) in the ASCII and LaTeX formats: every hypothesis of the sentence-level theorems of
   Proofs/EnumSentP.v that is not the property's own well-formedness is discharged here.

     term level      p_term_render (Proofs/EnumTermP.v)       discharges  TermParses
     name condition  unamb_ctx_ok  (Proofs/EnumUnambP.v)      discharges  unamb (sn_term s) (tail0 E s)
                                                              and "the term's text does not start with a space"
     back-off chain  sent_unamb_intro (Proofs/EnumSentP.v)    + the budget clause, proved here:
                     the text of a term starts with the budget's left bracket only when the term is an
                     atom whose prefix IS that bracket (ASCII `$x`, LaTeX `\$x`: the independent variable);
                     then one character of the budget's RIGHT bracket (`$`) occurs nowhere in the rest of
                     the input -- not in the name (not a name character), not in a punctuation / stamp /
                     truth keyword (table check), not in an integer or a number text -- so the budget
                     attempt fails (budget_attempt_fails_no_close) and consume_one backs off to the term.
     formatter side  sst_renders / sst_of_desugar (Proofs/EnumFmtP.v), fmt_narsese_canon, and the
                     canonical input means the value (odesugar_canon, re-proved here for the HONEST float
                     oracle: only non-negative-signed numbers of [0,1] are assumed to print as digits and
                     dots -- Rust prints -0.0, which passes the range test, as `-0`).

   Sections:
     1. alnum_facts2: the facts about char::is_alphanumeric needed beyond alnum_facts
     2. final_fmt_ok ia E: ONE finite boolean table check per format, true of ASCII and LaTeX given the facts
     3. characters of the text that follows the term
     4. sent_unamb of every surface input whose atoms are well-formed (any spacing)
     5. the canonical input of a value means the value (honest float oracle)
     6. THE theorems: parse_wf_input (any surface input), C01_value, C09_value, C15_cast, generic in E
     7. instances: ASCII, LaTeX, Rust's Unicode table; Han: conditional form + K2 / K3
     8. non-vacuity examples *)
From Nv Require Import Base.FloatDec Gen.Unicode Model.SstOf Model.SstOk Model.SstSent Proofs.DecP Proofs.EnumTotalP
  Proofs.EnumParseP Proofs.EnumFmtP Proofs.EnumTermP Proofs.EnumTermCor Proofs.EnumRoundP Proofs.EnumUnambP Proofs.EnumSentP.

(* ================================================================================== *)
(* 0. strings                                                                          *)
(* d does not occur in text *)
Definition absent (d : N) (text : str) : bool := forallb (fun c => negb (c =? d)) text.

Lemma absent_app d a b : absent d (a ++ b) = absent d a && absent d b.
Proof. apply forallb_app. Qed.

Lemma absent_In d text : absent d text = true -> ~ In d text.
Proof.
  unfold absent. rewrite forallb_forall. intros H Hin. specialize (H d Hin). now rewrite N.eqb_refl in H.
Qed.

Lemma absent_rep d n kw : absent d kw = true -> absent d (rep n kw) = true.
Proof. intros H. induction n as [|n IH]; cbn [rep]; [reflexivity|]. now rewrite absent_app, H, IH. Qed.

Lemma absent_class (P : N -> bool) d text : P d = false -> forallb P text = true -> absent d text = true.
Proof.
  intros Hd H. unfold absent. apply forallb_forall. intros c Hc. rewrite forallb_forall in H. specialize (H c Hc).
  destruct (N.eqb_spec c d) as [->|]; [congruence | reflexivity].
Qed.

Lemma absent_concat d l : forallb (absent d) l = true -> absent d (concat l) = true.
Proof.
  induction l as [|x l IH]; cbn [forallb concat]; [reflexivity|]. rewrite andb_true_iff. intros [Hx Hl].
  now rewrite absent_app, Hx, IH.
Qed.

Lemma In_drop {A} (x : A) n : forall l, In x (drop n l) -> In x l.
Proof.
  induction n as [|n IH]; intros l H; [exact H|]. destruct l as [|y l]; [exact H|]. right. now apply IH.
Qed.

(* a keyword one of whose characters does not occur in the text occurs nowhere in it *)
Lemma absent_no_occ d kw text : In d kw -> absent d text = true -> no_occ kw text = true.
Proof.
  intros Hd Ha. unfold no_occ. apply forallb_forall. intros n _. apply negb_true_iff.
  destruct (starts kw (drop n text)) eqn:Hs; [exfalso | reflexivity].
  apply starts_spec in Hs as [r Hr]. apply (absent_In _ _ Ha). apply (In_drop d n). rewrite Hr. apply in_or_app. now left.
Qed.

Lemma erase_t_shape : forall t, SstOk.erase (erase_t t) = SstOk.erase t.
Proof.
  assert (Hl : forall items, Forall (fun t => SstOk.erase (erase_t t) = SstOk.erase t) items ->
            map SstOk.erase (map erase_t items) = map SstOk.erase items).
  { induction 1 as [|x l Hx _ IH]; [reflexivity|]. cbn [map]. now rewrite Hx, IH. }
  induction t as [arm name|ext sp0 gaps items sp1 IH|arm sp0 gaps items sp1 IH|arm sp0 sp1 sp2 sp3 x y IHx IHy] using sterm_ind';
    cbn [erase_t SstOk.erase]; [reflexivity | now rewrite Hl | now rewrite Hl | now rewrite IHx, IHy].
Qed.

(* equal spacing erasures (Model/SstSent.v) = same shape (Model/SstOk.v) *)
Lemma erase_t_same_shape a b : erase_t a = erase_t b -> same_shape a b.
Proof. intros H. unfold same_shape. now rewrite <- (erase_t_shape a), H, erase_t_shape. Qed.

(* ================================================================================== *)
(* 1. the Unicode facts beyond alnum_facts                                             *)
(* characters that must NOT be alphanumeric:  ! $ . ? @ ¿
   `. ! ? @` (ASCII), `. ! ? ¿` (LaTeX): the punctuation marks -- the name scan of the last atom of the
   term must stop in front of the punctuation written directly after it (`<a --> b>.` has `>` in front,
   but the sentence `b.` has not);
   `$`: the budget's right bracket `$` (ASCII) / the second character of `\$` (LaTeX) must not occur in a
   name, so that `$x.` / `\$x.` is not taken for a task with budget `$x.$` (see section 4).
   The stamp / truth brackets and separators  : % ;  \langle{} \rangle{} ,  are NOT needed: in the
   texts of values a punctuation always stands between the term and them. *)
Definition nonalnum_chars2 : list N := [33; 36; 46; 63; 64; 191].

Definition alnum_facts2 (ia : N -> bool) : bool := forallb (fun c => negb (ia c)) nonalnum_chars2.

Lemma alnum_facts2_std : alnum_facts2 is_alnum_std = true.
Proof. vm_compute. reflexivity. Qed.

Lemma alnum_facts2_unpack ia : alnum_facts2 ia = true -> forall c, memb c nonalnum_chars2 = true -> ia c = false.
Proof.
  unfold alnum_facts2. intros H c Hc. apply memb_In in Hc. apply negb_true_iff. exact (forallb_In _ _ _ H Hc).
Qed.

(* ================================================================================== *)
(* 2. the table check                                                                  *)
Section Defs.
  Variable ia : N -> bool.
  Variable E : efmt.

  (* every keyword that can be written after the term *)
  Definition tail_keywords : list str :=
    space_parse E :: map (fun x => fst (fst x) E) punct_arms
    ++ sentence_stamp_brackets_0 E :: sentence_stamp_brackets_1 E :: map (fun x => fst (fst x) E) stamp_arms
    ++ [sentence_truth_brackets_0 E; sentence_truth_brackets_1 E; sentence_truth_separator E].

  (* the character of the budget's right bracket that occurs nowhere after a term: its last one *)
  Definition close_char : N := last (task_budget_brackets_1 E) 0.

  (* the text of an atom with prefix p starts with the budget's left bracket b0 only if p = b0 *)
  Definition prefix_vs_budget (p : str) : bool :=
    let b0 := task_budget_brackets_0 E in
    match p with
    | [] => head_not_name ia E b0          (* the text starts with the name *)
    | _ => diverge b0 p || str_eqb p b0
    end.

  Definition final_fmt_ok : bool :=
    (* the name scan stops in front of every punctuation mark *)
    forallb (fun x => head_not_name ia E (fst (fst x) E)) punct_arms
    (* budget back-off *)
    && budget_requires_close
    && nonempty (task_budget_brackets_1 E) && memb close_char (task_budget_brackets_1 E)
    && forallb (fun lb => diverge (task_budget_brackets_0 E) lb) (left_brackets E)
    && forallb prefix_vs_budget (prefixes E)
    && negb (NC ia E close_char) && negb (is_int_char close_char) && negb (is_float_char close_char)
    && forallb (absent close_char) tail_keywords.

  (* what may follow the term directly: a punctuation is written, or nothing but spaces follows
     (true of every text of a value: stamp and truth only occur in sentences) *)
  Definition follows_ok (s : snarsese) : bool :=
    has (sn_punct s) || (negb (has (sn_stamp s)) && negb (has (sn_truth s))).

  (* normal form of the stamp annotation: with an empty left stamp bracket (LaTeX, Han) the spaces
     "after the bracket" are written as part of the gap before the stamp -- the same text *)
  Definition stamp_nf (s : snarsese) : bool :=
    match sn_stamp s with
    | Some (_, x) => nonempty (sentence_stamp_brackets_0 E) || Nat.eqb (ss_sp0 x) 0
    | None => true
    end.

  Definition norm_stamp (s : snarsese) : snarsese :=
    match sentence_stamp_brackets_0 E, sn_stamp s with
    | [], Some (g, x) =>
        {| sn_lead := sn_lead s; sn_budget := sn_budget s; sn_term := sn_term s; sn_punct := sn_punct s;
           sn_stamp := Some ((g + ss_sp0 x)%nat,
                             {| ss_arm := ss_arm x; ss_sp0 := 0; ss_sp1 := ss_sp1 x; ss_int := ss_int x; ss_sp2 := ss_sp2 x |});
           sn_truth := sn_truth s; sn_trail := sn_trail s |}
    | _, _ => s
    end.
End Defs.

Ltac use_alnum_facts2 Hn Hd Hn2 ia :=
  repeat match goal with
         | |- context [ia ?c] =>
             first [rewrite (Hn c) by reflexivity | rewrite (Hd c) by reflexivity | rewrite (Hn2 c) by reflexivity]
         end;
  cbv iota;
  repeat match goal with |- context [ia ?c] => destruct (ia c); cbv iota end.

Lemma final_fmt_ok_ascii ia : alnum_facts ia = true -> alnum_facts2 ia = true -> final_fmt_ok ia FORMAT_ASCII = true.
Proof.
  intros H H2. destruct (alnum_facts_unpack ia H) as [Hn Hd]. pose proof (alnum_facts2_unpack ia H2) as Hn2.
  vm_compute. use_alnum_facts2 Hn Hd Hn2 ia; reflexivity.
Qed.

Lemma final_fmt_ok_latex ia : alnum_facts ia = true -> alnum_facts2 ia = true -> final_fmt_ok ia FORMAT_LATEX = true.
Proof.
  intros H H2. destruct (alnum_facts_unpack ia H) as [Hn Hd]. pose proof (alnum_facts2_unpack ia H2) as Hn2.
  vm_compute. use_alnum_facts2 Hn Hd Hn2 ia; reflexivity.
Qed.

(* Han fails the check, and must: its punctuation passes but 预 / 算 are name characters (class K2) *)
Lemma final_fmt_ok_han_fails : final_fmt_ok is_alnum_std FORMAT_HAN = false.
Proof. vm_compute. reflexivity. Qed.

(* every listed fact is used: flipping the oracle on ONE listed character breaks the check of a format *)
Lemma alnum_facts2_all_needed :
  alnum_facts2 ascii_alnum = true /\
  forallb (fun c => negb (final_fmt_ok (flip ascii_alnum c) FORMAT_ASCII && final_fmt_ok (flip ascii_alnum c) FORMAT_LATEX))
          nonalnum_chars2 = true.
Proof. split; vm_compute; reflexivity. Qed.

(* ================================================================================== *)
(* 3. the characters of the text that follows the term                                 *)
(* what odesugar_narsese guarantees about the written items, as a boolean: the punctuation arm exists,
   the integer of a fixed stamp is a string of integer characters, number texts of the truth are
   strings of digits and dots *)
Definition sitems_ok (s : snarsese) : bool :=
  match sn_punct s with Some (_, a) => is_some (nth_error punct_arms a) | None => true end
  && match sn_stamp s with
     | Some (_, x) => match stamp_kind (ss_arm x) with Some SAFixed => forallb is_int_char (ss_int x) | _ => true end
     | None => true
     end
  && match sn_truth s with Some (_, n) => forallb (forallb is_float_char) (nl_texts n) | None => true end.

Section Items.
  Variable F : Type.
  Variable fread : str -> option F.
  Variable in01 : F -> bool.

  Lemma omap_read_float texts : forall vs, omap (read_num F fread in01) texts = Some vs ->
    forallb (forallb is_float_char) texts = true.
  Proof.
    induction texts as [|x l IH]; intros vs H; [reflexivity|]. rewrite EnumFmtP.omap_cons in H.
    destruct (read_num F fread in01 x) as [y|] eqn:Hx; [|discriminate].
    destruct (omap (read_num F fread in01) l) as [ys|] eqn:Hl; [|discriminate].
    cbn [forallb]. rewrite (IH ys eq_refl), andb_true_r. unfold read_num in Hx.
    destruct (forallb is_float_char x); [reflexivity | discriminate].
  Qed.

  Lemma odesugar_sitems s v : odesugar_narsese F fread in01 s = Some v -> sitems_ok s = true.
  Proof.
    unfold odesugar_narsese. destruct (odesugar (sn_term s)) as [t|]; [|discriminate].
    destruct (opt_read (sn_budget s) _) as [ob|]; [|discriminate].
    destruct (opt_read (sn_punct s) _) as [op|] eqn:Hop; [|discriminate].
    destruct (opt_read (sn_stamp s) _) as [os|] eqn:Hos; [|discriminate].
    destruct (opt_read (sn_truth s) _) as [ot|] eqn:Hot; [|discriminate]. intros _.
    apply opt_read_spec in Hop, Hos, Hot. unfold sitems_ok. rewrite !andb_true_iff. repeat split.
    - destruct (sn_punct s) as [[g a]|]; [|reflexivity]. destruct Hop as (p & Hp & _). cbn [snd] in Hp.
      unfold opunct in Hp. destruct (nth_error punct_arms a); [reflexivity | discriminate].
    - destruct (sn_stamp s) as [[g x]|]; [|reflexivity]. destruct Hos as (sv & Hs & _). cbn [snd] in Hs.
      unfold ostamp in Hs. destruct (stamp_kind (ss_arm x)) as [[| | |]|]; try reflexivity.
      destruct (nonempty (ss_int x) && forallb is_int_char (ss_int x)) eqn:Hi; [|discriminate].
      now apply andb_true_iff in Hi as [_ Hi].
    - destruct (sn_truth s) as [[g n]|]; [|reflexivity]. destruct Hot as (tv & Ht & _). cbn [snd] in Ht.
      unfold otruth, read_nums in Ht. destruct (Nat.leb _ _); [|discriminate].
      destruct (omap (read_num F fread in01) (nl_texts n)) as [l|] eqn:Hl; [|discriminate].
      exact (omap_read_float _ _ Hl).
  Qed.
End Items.

Section Tail.
  Variable E : efmt.
  Variable d : N.
  Hypothesis Hkw : forallb (absent d) (tail_keywords E) = true.
  Hypothesis Hint : is_int_char d = false.
  Hypothesis Hfl : is_float_char d = false.

  Lemma kw_absent kw : In kw (tail_keywords E) -> absent d kw = true.
  Proof. intros H. exact (forallb_In _ _ _ Hkw H). Qed.

  Lemma tk_space : In (space_parse E) (tail_keywords E).
  Proof. left. reflexivity. Qed.
  Lemma tk_punct x : In x punct_arms -> In (fst (fst x) E) (tail_keywords E).
  Proof. intros H. right. apply in_or_app. left. apply in_map_iff. eauto. Qed.
  Lemma tk_mid kw :
    In kw (sentence_stamp_brackets_0 E :: sentence_stamp_brackets_1 E :: map (fun x => fst (fst x) E) stamp_arms
           ++ [sentence_truth_brackets_0 E; sentence_truth_brackets_1 E; sentence_truth_separator E]) ->
    In kw (tail_keywords E).
  Proof. intros H. right. apply in_or_app. now right. Qed.
  Lemma tk_sb0 : In (sentence_stamp_brackets_0 E) (tail_keywords E).
  Proof. apply tk_mid. left. reflexivity. Qed.
  Lemma tk_sb1 : In (sentence_stamp_brackets_1 E) (tail_keywords E).
  Proof. apply tk_mid. right. left. reflexivity. Qed.
  Lemma tk_marker x : In x stamp_arms -> In (fst (fst x) E) (tail_keywords E).
  Proof. intros H. apply tk_mid. right. right. apply in_or_app. left. apply in_map_iff. eauto. Qed.
  Lemma tk_truth kw : In kw [sentence_truth_brackets_0 E; sentence_truth_brackets_1 E; sentence_truth_separator E] ->
    In kw (tail_keywords E).
  Proof. intros H. apply tk_mid. right. right. apply in_or_app. now right. Qed.

  Lemma sp_absent n : absent d (sp E n) = true.
  Proof. apply absent_rep, kw_absent, tk_space. Qed.

  Lemma punct_kw_absent a : absent d (punct_kw E a) = true.
  Proof.
    unfold punct_kw. destruct (nth_error punct_arms a) as [[[g g'] p]|] eqn:Hn; [|reflexivity].
    exact (kw_absent _ (tk_punct _ (nth_error_In _ _ Hn))).
  Qed.

  Lemma stamp_marker_absent a : absent d (stamp_marker E a) = true.
  Proof.
    unfold stamp_marker. destruct (nth_error stamp_arms a) as [[[g g'] k]|] eqn:Hn; [|reflexivity].
    exact (kw_absent _ (tk_marker _ (nth_error_In _ _ Hn))).
  Qed.

  Lemma render_nums_from_absent sep gaps texts : absent d sep = true -> forallb (forallb is_float_char) texts = true ->
    forall lead i, absent d (render_nums_from E sep gaps lead i texts) = true.
  Proof.
    intros Hsep. induction texts as [|x l IH]; intros Ht lead i; cbn [render_nums_from]; [reflexivity|].
    cbn [forallb] in Ht. apply andb_true_iff in Ht as [Hx Hl].
    rewrite !absent_app, (absent_class is_float_char d x Hfl Hx), (IH Hl), !andb_true_r.
    destruct lead; [|reflexivity]. unfold ngap. now rewrite !absent_app, !sp_absent, Hsep.
  Qed.

  Lemma render_truth_absent n : forallb (forallb is_float_char) (nl_texts n) = true -> absent d (render_truth E n) = true.
  Proof.
    intros Ht. unfold render_truth, render_nums.
    assert (H0 : absent d (sentence_truth_brackets_0 E) = true) by (apply kw_absent, tk_truth; cbn; tauto).
    assert (H1 : absent d (sentence_truth_brackets_1 E) = true) by (apply kw_absent, tk_truth; cbn; tauto).
    assert (Hs : absent d (sentence_truth_separator E) = true) by (apply kw_absent, tk_truth; cbn; tauto).
    now rewrite !absent_app, !sp_absent, (render_nums_from_absent _ _ _ Hs Ht), H0, H1.
  Qed.

  Lemma render_stamp_absent x :
    match stamp_kind (ss_arm x) with Some SAFixed => forallb is_int_char (ss_int x) | _ => true end = true ->
    absent d (render_stamp E x) = true.
  Proof.
    intros Hx. unfold render_stamp. rewrite !absent_app, !sp_absent, stamp_marker_absent, (kw_absent _ tk_sb0), (kw_absent _ tk_sb1).
    cbn [andb]. rewrite andb_true_r.
    destruct (stamp_kind (ss_arm x)) as [[| | |]|]; try reflexivity.
    now rewrite absent_app, sp_absent, (absent_class is_int_char d _ Hint Hx).
  Qed.

  Lemma tail0_absent s : sitems_ok s = true -> absent d (tail0 E s) = true.
  Proof.
    unfold sitems_ok. rewrite !andb_true_iff. intros [[_ Hst] Htr].
    unfold tail0, tail1, tail2, tail3, ropt.
    assert (H3 : absent d (sp E (sn_trail s)) = true) by apply sp_absent.
    destruct (sn_truth s) as [[gt n]|]; destruct (sn_punct s) as [[gp a]|]; destruct (sn_stamp s) as [[gs x]|];
      rewrite ?absent_app, ?sp_absent, ?punct_kw_absent, ?render_stamp_absent, ?render_truth_absent; auto.
  Qed.
End Tail.

(* ================================================================================== *)
(* 4. the back-off conditions of consume_one hold of every surface input whose atoms   *)
(*    are well-formed and whose items are readable -- at ANY spacing                   *)
Section SentUnamb.
  Variable F : Type.
  Variable fread : str -> option F.
  Variable fzero : F.
  Variable in01 : F -> bool.
  Variable ia : N -> bool.
  Variable E : efmt.
  Hypothesis Hpo : parse_ok E = true.
  Hypothesis Hfo : unamb_fmt_ok ia E = true.
  Hypothesis Hso : sent_ok E = true.
  Hypothesis Hff : final_fmt_ok ia E = true.

  Notation b0 := (task_budget_brackets_0 E).
  Notation b1 := (task_budget_brackets_1 E).
  Notation cc := (close_char E).

  Lemma ff_unpack :
    forallb (fun x => head_not_name ia E (fst (fst x) E)) punct_arms = true /\
    budget_requires_close = true /\ b1 <> [] /\ In cc b1 /\
    forallb (fun lb => diverge b0 lb) (left_brackets E) = true /\
    forallb (prefix_vs_budget ia E) (prefixes E) = true /\
    NC ia E cc = false /\ is_int_char cc = false /\ is_float_char cc = false /\
    forallb (absent cc) (tail_keywords E) = true.
  Proof.
    pose proof Hff as H. unfold final_fmt_ok in H. rewrite !andb_true_iff, !negb_true_iff in H.
    repeat match goal with H : _ /\ _ |- _ => destruct H end.
    repeat split; try assumption; [now apply EnumSentP.nonempty_ne | now apply memb_In].
  Qed.

  Lemma satom_name_nc arm name : satom_ok ia E arm name = true -> forallb (NC ia E) name = true.
  Proof.
    unfold satom_ok. destruct (nth_error parse_atom_arms arm) as [[pf [c|c|c]]|]; [| | |discriminate]; intros H.
    - now destruct (scan_of_name ia E name H).
    - destruct name as [|x n]; [reflexivity|]. unfold scan_pre in H. rewrite !andb_true_iff in H. tauto.
    - apply andb_true_iff in H as [_ H]. now destruct (scan_of_digits ia E Hfo name H).
  Qed.

  (* the name scan of the term's last atom stops in front of what follows the term *)
  Lemma stop_tail0 s : sitems_ok s = true -> follows_ok s = true -> stop_ok ia E (tail0 E s) = true.
  Proof.
    intros Hi Hf. destruct ff_unpack as (Hp & _). unfold sitems_ok in Hi. rewrite !andb_true_iff in Hi. destruct Hi as [[Hi _] _].
    unfold follows_ok in Hf. unfold tail0, ropt. destruct (sn_punct s) as [[g a]|].
    - apply (stop_sp ia E Hfo), head_not_name_stop. unfold punct_kw.
      destruct (nth_error punct_arms a) as [[[kw kw'] p]|] eqn:Hn; [|discriminate].
      exact (forallb_In _ _ _ Hp (nth_error_In _ _ Hn)).
    - cbn [has orb] in Hf. apply andb_true_iff in Hf as [H1 H2].
      unfold tail1, tail2, tail3, ropt. destruct (sn_stamp s); [discriminate|]. destruct (sn_truth s); [discriminate|].
      rewrite <- (app_nil_r (sp E (sn_trail s))). now apply (stop_sp ia E Hfo).
  Qed.

  (* the text of a term does not start with the space keyword *)
  Lemma term_no_space t k : satoms_ok ia E t = true -> stop_ok ia E k = true -> starts (space_parse E) (render E t ++ k) = false.
  Proof.
    intros Ht Hk. apply (unamb_forbid ia E Hpo [space_parse E] t k (space_parse E)); [| left; reflexivity | left; reflexivity].
    apply (unamb_ctx_ok ia E Hpo Hfo t [space_parse E] k Ht); [|exact Hk]. intros kw [<-|[]]. left. reflexivity.
  Qed.

  (* the text of a term is not taken for a budget: it does not start with the budget's left bracket, or
     (independent variable) no right bracket can follow, because one of its characters occurs neither in
     the name nor in the text k after the term *)
  Lemma term_vs_budget t k : satoms_ok ia E t = true -> absent cc k = true ->
    starts b0 (render E t ++ k) = false \/ no_occ b1 (drop (length b0) (render E t ++ k)) = true.
  Proof.
    intros Ht Hk. destruct ff_unpack as (_ & _ & _ & Hcc & Hlb & Hpre & Hnc & _).
    destruct (render_lb E t) as (lb & r & [[Hin Hr]|(arm & name & ->)]).
    - left. rewrite Hr, <- app_assoc. apply diverge_starts. exact (forallb_In _ _ _ Hlb Hin).
    - cbn [satoms_ok render] in *. pose proof (satom_name_nc _ _ Ht) as Hname. unfold satom_ok in Ht. unfold atom_prefix.
      destruct (nth_error parse_atom_arms arm) as [[pf init]|] eqn:Hn; [|discriminate].
      pose proof (forallb_In _ _ _ Hpre (nth_error_In _ _ (prefix_In E _ _ _ Hn))) as Hp. unfold prefix_vs_budget in Hp.
      rewrite <- app_assoc. destruct (pf E) as [|p0 pr] eqn:Hpf.
      + left. cbn [app].
        assert (Hne : name <> []).
        { destruct init as [c|c|c].
          - destruct name; [|discriminate]. exfalso. unfold name_ok in Ht. cbn [nonempty andb] in Ht. discriminate.
          - pose proof (tk_atoms E Hpo) as Ha. pose proof (forallb_In _ _ _ Ha (nth_error_In _ _ Hn)) as Hx.
            cbn [snd fst] in Hx. rewrite Hpf in Hx. discriminate.
          - apply andb_true_iff in Ht as [Ht _]. destruct name; discriminate. }
        destruct name as [|c n]; [congruence|]. cbn [forallb] in Hname. apply andb_true_iff in Hname as [Hc _].
        destruct b0 as [|d0 b0']; [discriminate|]. cbn [head_not_name] in Hp. apply negb_true_iff in Hp. cbn [app starts].
        destruct (N.eqb_spec d0 c) as [->|]; [unfold NC in *; congruence | reflexivity].
      + apply orb_true_iff in Hp as [Hp|Hp].
        * left. now apply diverge_starts.
        * right. apply str_eqb_eq in Hp. rewrite Hp, drop_app_length.
          apply (absent_no_occ cc); [exact Hcc|]. now rewrite absent_app, (absent_class (NC ia E) cc name Hnc Hname), Hk.
  Qed.

  Theorem sent_unamb_wf s :
    sitems_ok s = true -> satoms_ok ia E (sn_term s) = true -> follows_ok s = true -> stamp_nf E s = true ->
    sent_unamb F fread fzero in01 E (unamb ia E) s = true.
  Proof.
    intros Hi Ht Hf Hnf. destruct ff_unpack as (_ & Hclose & Hb1 & _ & _ & _ & _ & Hint & Hfl & Hkw).
    pose proof (stop_tail0 s Hi Hf) as Hstop.
    apply sent_unamb_intro.
    - exact (pk_total E Hpo).
    - pose proof Hso as H. unfold sent_ok in H. rewrite !andb_true_iff in H. tauto.
    - exact Hclose.
    - exact Hb1.
    - now apply unamb_of_satoms_ok.
    - now apply term_no_space.
    - right. apply term_vs_budget; [exact Ht|]. now apply tail0_absent.
    - unfold stamp_nf in Hnf. destruct (sn_stamp s) as [[g x]|]; [exact Hnf | exact I].
  Qed.
End SentUnamb.

(* ================================================================================== *)
(* 5. the canonical input of a value means the value -- with the HONEST float oracle   *)
(* A stricter range test reads fewer inputs, to the same values. *)
Section Mono.
  Variable F : Type.
  Variable fread : str -> option F.
  Variables okn in01 : F -> bool.
  Hypothesis Hsub : forall x, okn x = true -> in01 x = true.

  Lemma read_num_mono t x : read_num F fread okn t = Some x -> read_num F fread in01 t = Some x.
  Proof.
    unfold read_num. destruct (forallb is_float_char t); [|discriminate]. destruct (fread t) as [y|]; [|discriminate].
    destruct (okn y) eqn:Hy; [|discriminate]. intros [= <-]. now rewrite (Hsub y Hy).
  Qed.

  Lemma omap_mono {A B} (f g : A -> option B) : (forall a b, f a = Some b -> g a = Some b) ->
    forall l r, omap f l = Some r -> omap g l = Some r.
  Proof.
    intros H. induction l as [|x l IH]; intros r Hr; [exact Hr|]. rewrite EnumFmtP.omap_cons in *.
    destruct (f x) as [y|] eqn:Hx; [|discriminate]. destruct (omap f l) as [ys|]; [|discriminate].
    now rewrite (H x y Hx), (IH ys eq_refl).
  Qed.

  Lemma read_nums_mono max n l : read_nums F fread okn max n = Some l -> read_nums F fread in01 max n = Some l.
  Proof. unfold read_nums. destruct (Nat.leb _ _); [|discriminate]. apply omap_mono. exact read_num_mono. Qed.

  Lemma mk_budget_mono l b : mk_budget F okn l = Some b -> mk_budget F in01 l = Some b.
  Proof.
    destruct l as [|p [|d [|q r]]]; cbn [mk_budget]; [auto | | |].
    - destruct (okn p) eqn:Hp; [|discriminate]. now rewrite (Hsub p Hp).
    - destruct (okn p) eqn:Hp; [|discriminate]. destruct (okn d) eqn:Hd; [|discriminate]. now rewrite (Hsub p Hp), (Hsub d Hd).
    - destruct (okn p) eqn:Hp; [|discriminate]. destruct (okn d) eqn:Hd; [|discriminate]. destruct (okn q) eqn:Hq; [|discriminate].
      now rewrite (Hsub p Hp), (Hsub d Hd), (Hsub q Hq).
  Qed.

  Lemma mk_truth_mono l t : mk_truth F okn l = Some t -> mk_truth F in01 l = Some t.
  Proof.
    destruct l as [|f [|c r]]; cbn [mk_truth]; [auto | |].
    - destruct (okn f) eqn:Hf; [|discriminate]. now rewrite (Hsub f Hf).
    - destruct (okn f) eqn:Hf; [|discriminate]. destruct (okn c) eqn:Hc; [|discriminate]. now rewrite (Hsub f Hf), (Hsub c Hc).
  Qed.

  Lemma obudget_mono n b : obudget F fread okn n = Some b -> obudget F fread in01 n = Some b.
  Proof.
    unfold obudget. destruct (read_nums F fread okn 3 n) as [l|] eqn:Hl; [|discriminate].
    rewrite (read_nums_mono _ _ _ Hl). apply mk_budget_mono.
  Qed.

  Lemma otruth_mono n t : otruth F fread okn n = Some t -> otruth F fread in01 n = Some t.
  Proof.
    unfold otruth. destruct (read_nums F fread okn 2 n) as [l|] eqn:Hl; [|discriminate].
    rewrite (read_nums_mono _ _ _ Hl). apply mk_truth_mono.
  Qed.

  Lemma opt_read_mono {A B} (f g : A -> option B) o r : (forall a b, f a = Some b -> g a = Some b) ->
    opt_read o f = Some r -> opt_read o g = Some r.
  Proof.
    intros H. destruct o as [a|]; cbn [opt_read]; [|auto]. destruct (f a) as [b|] eqn:Ha; [|discriminate]. now rewrite (H a b Ha).
  Qed.

  Lemma odesugar_narsese_mono s v : odesugar_narsese F fread okn s = Some v -> odesugar_narsese F fread in01 s = Some v.
  Proof.
    unfold odesugar_narsese. destruct (odesugar (sn_term s)) as [t|]; [|discriminate].
    destruct (opt_read (sn_budget s) _) as [ob|] eqn:Hob; [|discriminate].
    destruct (opt_read (sn_punct s) _) as [op|]; [|discriminate].
    destruct (opt_read (sn_stamp s) _) as [os|]; [|discriminate].
    destruct (opt_read (sn_truth s) _) as [ot|] eqn:Hot; [|discriminate].
    rewrite (opt_read_mono _ (fun x => obudget F fread in01 (fst x)) _ _ (fun a b => obudget_mono (fst a) b) Hob).
    rewrite (opt_read_mono _ (fun x => otruth F fread in01 (snd x)) _ _ (fun a b => otruth_mono (snd a) b) Hot).
    auto.
  Qed.
End Mono.

(* ================================================================================== *)
(* 6. the theorems, generic in the format record                                       *)
Section Main.
  Variable F : Type.
  Variable fshow : F -> str.          (* f64::to_string *)
  Variable fread : str -> option F.   (* f64::from_str *)
  Variable fzero : F.                 (* 0.0 *)
  Variable in01 : F -> bool.          (* the parser's range test (0.0..=1.0).contains(&x) *)
  Variable okn : F -> bool.           (* the PROPERTY's condition on a number: finite, non-negative-signed, within [0,1] *)
  Variable ia : N -> bool.            (* char::is_alphanumeric *)
  Variable E : efmt.
  Variables kt ki : nat.
  (* finite checks on the regenerated tables *)
  Hypothesis Hpo : parse_ok E = true.
  Hypothesis Hso : sent_ok E = true.
  Hypothesis Hft : fmt_tables_ok E kt ki = true.
  Hypothesis Hsp : fmt_space_ok E = true.
  Hypothesis Hcov : arms_cover E = true.
  (* float oracles *)
  Hypothesis H_empty : fread [] = None.
  Hypothesis H_zero : in01 fzero = true.
  Hypothesis H_ok01 : forall x, okn x = true -> in01 x = true.
  Hypothesis H_rt : forall x, okn x = true -> fread (fshow x) = Some x.
  Hypothesis H_cs : forall x, okn x = true -> fshow x <> [] /\ Forall (fun c => is_float_char c = true) (fshow x).

  Lemma Hterm : SstSent.TermParses F ia E (unamb ia E).
  Proof. exact (p_term_render F ia E Hpo). Qed.

  Lemma wf_value_term (v : narsese F) : wf_value ia E v = wf_term ia E (nv_term v).
  Proof. destruct v as [t|s|[s b]]; reflexivity. Qed.

  Lemma canon_term st (v : narsese F) : sn_term (canon_narsese F fshow kt ki st v) = st.
  Proof. destruct v as [t|s|[s b]]; reflexivity. Qed.

  Lemma canon_follows st (v : narsese F) : follows_ok (canon_narsese F fshow kt ki st v) = true.
  Proof. destruct v as [t|s|[s b]]; reflexivity. Qed.

  (* the canonical input means the value *)
  Lemma canon_meaning st v : vals_ok F okn v = true -> odesugar st = Some (nv_term v) ->
    odesugar_narsese F fread in01 (canon_narsese F fshow kt ki st v) = Some v.
  Proof.
    intros Hv Ht. apply (odesugar_narsese_mono F fread okn in01 H_ok01).
    now apply (odesugar_canon F fshow fread okn E kt ki Hft H_rt H_cs).
  Qed.

  (* the facts about the canonical tree of the term inside a well-formed value *)
  Lemma value_term_facts (v : narsese F) : wf_value ia E v = true ->
    fmt_term E (nv_term v) = render E (sst E (nv_term v)) /\ odesugar (sst E (nv_term v)) = Some (nv_term v) /\
    satoms_ok ia E (sst E (nv_term v)) = true.
  Proof.
    rewrite wf_value_term. intros Hw. split; [now apply (sst_renders ia)|]. split; [|now apply sst_satoms_ok].
    destruct (sst_of_desugar ia E Hcov _ Hw) as (s & Hs & Hd). unfold sst. now rewrite Hs.
  Qed.

  (* ---- Han and any other format: C01 for whole values GIVEN the back-off conditions on the canonical
     input (sent_unamb; its first clause is the name condition unamb).  For Han these do not follow from
     well-formedness: K2 (sent_unamb_han_K2, Proofs/EnumSentP.v: the word 预算 is taken for an empty budget),
     K3 (K3_witness, Proofs/EnumUnambP.v: 「x将得y」). ---- *)
  Theorem C01_value_cond (v : narsese F) :
    wf_value ia E v = true -> vals_ok F okn v = true ->
    sent_unamb F fread fzero in01 E (unamb ia E) (canon_narsese F fshow kt ki (sst E (nv_term v)) v) = true ->
    exists st, parse_narsese F fread fzero in01 ia E (fmt_narsese F fshow E v) = POk v st.
  Proof.
    intros Hw Hv Hu. destruct (value_term_facts v Hw) as (Hr & Hd & _).
    rewrite (fmt_narsese_canon F fshow E kt ki Hft _ v Hr).
    apply (parse_narsese_render F fread fzero in01 ia E Hso H_empty H_zero _ Hterm); [|exact Hu]. now apply canon_meaning.
  Qed.

  (* ---- from here on: formats passing the two name-level table checks (ASCII, LaTeX) ---- *)
  Hypothesis Hfo : unamb_fmt_ok ia E = true.
  Hypothesis Hff : final_fmt_ok ia E = true.

  (* moving the spaces after an empty left stamp bracket into the gap before the stamp: same text, same meaning *)
  Lemma norm_stamp_render s : render_narsese E (norm_stamp E s) = render_narsese E s.
  Proof.
    unfold norm_stamp. destruct (sentence_stamp_brackets_0 E) eqn:Hb0; [|reflexivity].
    destruct (sn_stamp s) as [[g x]|] eqn:Hs; [|reflexivity].
    unfold render_narsese, from_term, tail0, tail1, tail2, tail3. cbn [sn_lead sn_budget sn_term sn_punct sn_stamp sn_truth sn_trail].
    rewrite Hs. cbn [ropt]. unfold render_stamp. cbn [ss_arm ss_sp0 ss_sp1 ss_int ss_sp2]. rewrite Hb0. cbn [app Sst.sp rep].
    unfold Sst.sp. rewrite rep_add, <- !app_assoc. reflexivity.
  Qed.

  Lemma norm_stamp_facts s :
    odesugar_narsese F fread in01 (norm_stamp E s) = odesugar_narsese F fread in01 s /\
    sn_term (norm_stamp E s) = sn_term s /\ follows_ok (norm_stamp E s) = follows_ok s /\ stamp_nf E (norm_stamp E s) = true.
  Proof.
    unfold norm_stamp, stamp_nf. destruct (sentence_stamp_brackets_0 E) eqn:Hb0.
    - destruct (sn_stamp s) as [[g x]|] eqn:Hs.
      + repeat split. unfold odesugar_narsese. cbn [sn_budget sn_term sn_punct sn_stamp sn_truth]. rewrite Hs. reflexivity.
        unfold follows_ok. cbn [sn_punct sn_stamp sn_truth]. now rewrite Hs.
      + repeat split. now rewrite Hs.
    - repeat split. destruct (sn_stamp s) as [[g x]|]; reflexivity.
  Qed.

  (* THE sentence-level parser theorem without side conditions on the text: ANY surface input (any
     spacing everywhere, any readable items) whose term has well-formed atoms and in which a punctuation
     is written whenever a stamp or a truth is, parses to its documented meaning *)
  Theorem parse_wf_input s v :
    odesugar_narsese F fread in01 s = Some v -> satoms_ok ia E (sn_term s) = true -> follows_ok s = true ->
    exists st, parse_narsese F fread fzero in01 ia E (render_narsese E s) = POk v st.
  Proof.
    intros Hv Ht Hf. destruct (norm_stamp_facts s) as (Hv' & Ht' & Hf' & Hnf).
    rewrite <- norm_stamp_render.
    apply (parse_narsese_render F fread fzero in01 ia E Hso H_empty H_zero _ Hterm); [now rewrite Hv'|].
    apply (sent_unamb_wf F fread fzero in01 ia E Hpo Hfo Hso Hff); [| now rewrite Ht' | now rewrite Hf' | exact Hnf].
    apply (odesugar_sitems F fread in01 _ v). now rewrite Hv'.
  Qed.

  (* C01 for whole values *)
  Theorem C01_value (v : narsese F) :
    wf_value ia E v = true -> vals_ok F okn v = true ->
    exists st, parse_narsese F fread fzero in01 ia E (fmt_narsese F fshow E v) = POk v st.
  Proof.
    intros Hw Hv. destruct (value_term_facts v Hw) as (Hr & Hd & Ha).
    rewrite (fmt_narsese_canon F fshow E kt ki Hft _ v Hr).
    apply parse_wf_input; [now apply canon_meaning | now rewrite canon_term | apply canon_follows].
  Qed.

  (* C09 for whole values: every re-spacing of the formatter's output *)
  Lemma follows_ok_erase s : follows_ok (erase s) = follows_ok s.
  Proof. unfold follows_ok, erase. cbn [sn_punct sn_stamp sn_truth]. destruct (sn_punct s), (sn_stamp s), (sn_truth s); reflexivity. Qed.

  Theorem C09_value (v : narsese F) s' :
    wf_value ia E v = true -> vals_ok F okn v = true ->
    erase s' = erase (canon_narsese F fshow kt ki (sst E (nv_term v)) v) ->
    exists st, parse_narsese F fread fzero in01 ia E (render_narsese E s') = POk v st.
  Proof.
    intros Hw Hv He. destruct (value_term_facts v Hw) as (Hr & Hd & Ha).
    apply parse_wf_input.
    - rewrite <- odesugar_narsese_erase, He, odesugar_narsese_erase. now apply canon_meaning.
    - pose proof (f_equal sn_term He) as Ht. cbn [erase sn_term] in Ht. rewrite canon_term in Ht.
      now rewrite (satoms_ok_shape ia E _ _ (erase_t_same_shape _ _ Ht)).
    - now rewrite <- follows_ok_erase, He, follows_ok_erase, canon_follows.
  Qed.

  (* C15: the text of cast_to_task s parses to the task with the empty budget *)
  Theorem C15_cast (s : sentence F) :
    wf_term ia E (s_term s) = true -> sent_vals_ok F okn s = true ->
    exists st, parse_narsese F fread fzero in01 ia E (fmt_task F fshow E (cast_to_task s)) = POk (NTask (s, BudgetEmpty)) st.
  Proof.
    intros Hw Hv. apply (C01_value (NTask (cast_to_task s))); [exact Hw|].
    cbn [vals_ok cast_to_task budget_list forallb]. now rewrite Hv.
  Qed.
End Main.

(* ================================================================================== *)
(* 7. the two formats; Rust's Unicode table; Han                                        *)
Lemma plain_sent_side ia E : alnum_facts ia = true -> alnum_facts2 ia = true -> plain E ->
  parse_ok E = true /\ sent_ok E = true /\ fmt_tables_ok E 1 1 = true /\ fmt_space_ok E = true /\ arms_cover E = true /\
  unamb_fmt_ok ia E = true /\ final_fmt_ok ia E = true.
Proof.
  intros H H2 HE. destruct (plain_side ia E H HE) as (H1 & H3 & H4 & H5).
  destruct shipped_fmt_tables_ok as (Ha & Hl & _).
  destruct HE as [->| ->]; repeat split; auto;
    try (apply sent_ok_shipped; unfold shipped, shipped_formats; cbn [In]; tauto);
    [now apply final_fmt_ok_ascii | now apply final_fmt_ok_latex].
Qed.

Section Plain.
  Variable ia : N -> bool.
  Variable E : efmt.
  Hypothesis Hia : alnum_facts ia = true.
  Hypothesis Hia2 : alnum_facts2 ia = true.
  Hypothesis HE : plain E.
  Variable F : Type.
  Variable fshow : F -> str.
  Variable fread : str -> option F.
  Variable fzero : F.
  Variables in01 okn : F -> bool.
  Hypothesis H_empty : fread [] = None.
  Hypothesis H_zero : in01 fzero = true.
  Hypothesis H_ok01 : forall x, okn x = true -> in01 x = true.
  Hypothesis H_rt : forall x, okn x = true -> fread (fshow x) = Some x.
  Hypothesis H_cs : forall x, okn x = true -> fshow x <> [] /\ Forall (fun c => is_float_char c = true) (fshow x).

  Theorem parse_wf_input_plain (s : snarsese) (v : narsese F) :
    odesugar_narsese F fread in01 s = Some v -> satoms_ok ia E (sn_term s) = true -> follows_ok s = true ->
    exists st, parse_narsese F fread fzero in01 ia E (render_narsese E s) = POk v st.
  Proof.
    destruct (plain_sent_side ia E Hia Hia2 HE) as (H1 & H2 & H3 & H4 & H5 & H6 & H7).
    now apply parse_wf_input.
  Qed.

  (* C09 in its general form: two surface inputs that differ only in spacing (equal erasures) parse to the
     same value -- not only formatter output: derived copulas, any readable number texts, ... *)
  Theorem C09_inputs_plain (s s' : snarsese) (v : narsese F) :
    erase s = erase s' ->
    odesugar_narsese F fread in01 s = Some v -> satoms_ok ia E (sn_term s) = true -> follows_ok s = true ->
    (exists st, parse_narsese F fread fzero in01 ia E (render_narsese E s) = POk v st) /\
    (exists st, parse_narsese F fread fzero in01 ia E (render_narsese E s') = POk v st).
  Proof.
    intros He Hv Ht Hf. split; [now apply parse_wf_input_plain|]. apply parse_wf_input_plain.
    - now rewrite <- odesugar_narsese_erase, <- He, odesugar_narsese_erase.
    - pose proof (f_equal sn_term He) as Hte. cbn [erase sn_term] in Hte.
      now rewrite <- (satoms_ok_shape ia E _ _ (erase_t_same_shape _ _ Hte)).
    - now rewrite <- follows_ok_erase, <- He, follows_ok_erase.
  Qed.

  Theorem C01_value_plain (v : narsese F) :
    wf_value ia E v = true -> vals_ok F okn v = true ->
    exists st, parse_narsese F fread fzero in01 ia E (fmt_narsese F fshow E v) = POk v st.
  Proof.
    destruct (plain_sent_side ia E Hia Hia2 HE) as (H1 & H2 & H3 & H4 & H5 & H6 & H7).
    now apply (C01_value F fshow fread fzero in01 okn ia E 1 1).
  Qed.

  (* the formatter's output is the rendering of the canonical surface input (spacing: one space keyword
     after each separator, around copulas, between the items; none elsewhere) ... *)
  Theorem value_canonical (v : narsese F) : wf_value ia E v = true ->
    fmt_narsese F fshow E v = render_narsese E (canon_narsese F fshow 1 1 (sst E (nv_term v)) v).
  Proof.
    destruct (plain_sent_side ia E Hia Hia2 HE) as (H1 & H2 & H3 & H4 & H5 & H6 & H7). intros Hw.
    apply (fmt_narsese_canon F fshow E 1 1 H3).
    now destruct (value_term_facts F ia E H4 H5 v Hw).
  Qed.

  (* ... and EVERY surface input with the same erasure -- the same tokens with any number of space keywords
     at every boundary, none included -- parses to the value *)
  Theorem C09_value_plain (v : narsese F) (s' : snarsese) :
    wf_value ia E v = true -> vals_ok F okn v = true ->
    erase s' = erase (canon_narsese F fshow 1 1 (sst E (nv_term v)) v) ->
    exists st, parse_narsese F fread fzero in01 ia E (render_narsese E s') = POk v st.
  Proof.
    destruct (plain_sent_side ia E Hia Hia2 HE) as (H1 & H2 & H3 & H4 & H5 & H6 & H7).
    now apply (C09_value F fshow fread fzero in01 okn ia E 1 1).
  Qed.

  Lemma erase_idem_t : forall t, erase_t (erase_t t) = erase_t t.
  Proof.
    assert (Hl : forall items, Forall (fun t => erase_t (erase_t t) = erase_t t) items ->
              map erase_t (map erase_t items) = map erase_t items).
    { induction 1 as [|x l Hx _ IH]; [reflexivity|]. cbn [map]. now rewrite Hx, IH. }
    induction t as [arm name|ext sp0 gaps items sp1 IH|arm sp0 gaps items sp1 IH|arm sp0 sp1 sp2 sp3 x y IHx IHy] using sterm_ind';
      cbn [erase_t]; [reflexivity | now rewrite Hl | now rewrite Hl | now rewrite IHx, IHy].
  Qed.

  Lemma erase_idem s : erase (erase s) = erase s.
  Proof.
    unfold erase. cbn [sn_lead sn_budget sn_term sn_punct sn_stamp sn_truth sn_trail]. rewrite erase_idem_t.
    destruct (sn_budget s) as [[b g]|], (sn_punct s) as [[g1 a]|], (sn_stamp s) as [[g2 x]|], (sn_truth s) as [[g3 n]|]; reflexivity.
  Qed.

  (* instance: the formatter's output with every space removed *)
  Corollary C09_value_nospace (v : narsese F) :
    wf_value ia E v = true -> vals_ok F okn v = true ->
    exists st, parse_narsese F fread fzero in01 ia E
                 (render_narsese E (erase (canon_narsese F fshow 1 1 (sst E (nv_term v)) v))) = POk v st.
  Proof. intros Hw Hv. apply C09_value_plain; auto. apply erase_idem. Qed.

  Theorem C15_cast_plain (s : sentence F) :
    wf_term ia E (s_term s) = true -> sent_vals_ok F okn s = true ->
    exists st, parse_narsese F fread fzero in01 ia E (fmt_task F fshow E (cast_to_task s)) = POk (NTask (s, BudgetEmpty)) st.
  Proof.
    destruct (plain_sent_side ia E Hia Hia2 HE) as (H1 & H2 & H3 & H4 & H5 & H6 & H7).
    now apply (C15_cast F fshow fread fzero in01 okn ia E 1 1).
  Qed.
End Plain.

(* ---- spelled out per format ---- *)
Theorem C01_value_ascii : forall ia : N -> bool, alnum_facts ia = true -> alnum_facts2 ia = true ->
  forall (F : Type) (fshow : F -> str) (fread : str -> option F) (fzero : F) (in01 okn : F -> bool),
    fread [] = None -> in01 fzero = true -> (forall x, okn x = true -> in01 x = true) ->
    (forall x, okn x = true -> fread (fshow x) = Some x) ->
    (forall x, okn x = true -> fshow x <> [] /\ Forall (fun c => is_float_char c = true) (fshow x)) ->
    forall v : narsese F, wf_value ia FORMAT_ASCII v = true -> vals_ok F okn v = true ->
      exists st, parse_narsese F fread fzero in01 ia FORMAT_ASCII (fmt_narsese F fshow FORMAT_ASCII v) = POk v st.
Proof. intros ia H H2. apply C01_value_plain; auto. now left. Qed.

Theorem C01_value_latex : forall ia : N -> bool, alnum_facts ia = true -> alnum_facts2 ia = true ->
  forall (F : Type) (fshow : F -> str) (fread : str -> option F) (fzero : F) (in01 okn : F -> bool),
    fread [] = None -> in01 fzero = true -> (forall x, okn x = true -> in01 x = true) ->
    (forall x, okn x = true -> fread (fshow x) = Some x) ->
    (forall x, okn x = true -> fshow x <> [] /\ Forall (fun c => is_float_char c = true) (fshow x)) ->
    forall v : narsese F, wf_value ia FORMAT_LATEX v = true -> vals_ok F okn v = true ->
      exists st, parse_narsese F fread fzero in01 ia FORMAT_LATEX (fmt_narsese F fshow FORMAT_LATEX v) = POk v st.
Proof. intros ia H H2. apply C01_value_plain; auto. now right. Qed.

Theorem C01_value_ascii_std :
  forall (F : Type) (fshow : F -> str) (fread : str -> option F) (fzero : F) (in01 okn : F -> bool),
    fread [] = None -> in01 fzero = true -> (forall x, okn x = true -> in01 x = true) ->
    (forall x, okn x = true -> fread (fshow x) = Some x) ->
    (forall x, okn x = true -> fshow x <> [] /\ Forall (fun c => is_float_char c = true) (fshow x)) ->
    forall v : narsese F, wf_value is_alnum_std FORMAT_ASCII v = true -> vals_ok F okn v = true ->
      exists st, parse_narsese F fread fzero in01 is_alnum_std FORMAT_ASCII (fmt_narsese F fshow FORMAT_ASCII v) = POk v st.
Proof. exact (C01_value_ascii is_alnum_std alnum_facts_std alnum_facts2_std). Qed.

Theorem C01_value_latex_std :
  forall (F : Type) (fshow : F -> str) (fread : str -> option F) (fzero : F) (in01 okn : F -> bool),
    fread [] = None -> in01 fzero = true -> (forall x, okn x = true -> in01 x = true) ->
    (forall x, okn x = true -> fread (fshow x) = Some x) ->
    (forall x, okn x = true -> fshow x <> [] /\ Forall (fun c => is_float_char c = true) (fshow x)) ->
    forall v : narsese F, wf_value is_alnum_std FORMAT_LATEX v = true -> vals_ok F okn v = true ->
      exists st, parse_narsese F fread fzero in01 is_alnum_std FORMAT_LATEX (fmt_narsese F fshow FORMAT_LATEX v) = POk v st.
Proof. exact (C01_value_latex is_alnum_std alnum_facts_std alnum_facts2_std). Qed.

(* ---- Han: conditional on the back-off conditions of the canonical input ---- *)
Lemma han_sent_side :
  parse_ok FORMAT_HAN = true /\ sent_ok FORMAT_HAN = true /\ fmt_tables_ok FORMAT_HAN 0 1 = true /\
  fmt_space_ok FORMAT_HAN = true /\ arms_cover FORMAT_HAN = true.
Proof. vm_compute. repeat split; reflexivity. Qed.

Theorem C01_value_han : forall (ia : N -> bool)
  (F : Type) (fshow : F -> str) (fread : str -> option F) (fzero : F) (in01 okn : F -> bool),
    fread [] = None -> in01 fzero = true -> (forall x, okn x = true -> in01 x = true) ->
    (forall x, okn x = true -> fread (fshow x) = Some x) ->
    (forall x, okn x = true -> fshow x <> [] /\ Forall (fun c => is_float_char c = true) (fshow x)) ->
    forall v : narsese F, wf_value ia FORMAT_HAN v = true -> vals_ok F okn v = true ->
      sent_unamb F fread fzero in01 FORMAT_HAN (unamb ia FORMAT_HAN)
                 (canon_narsese F fshow 0 1 (sst FORMAT_HAN (nv_term v)) v) = true ->
      exists st, parse_narsese F fread fzero in01 ia FORMAT_HAN (fmt_narsese F fshow FORMAT_HAN v) = POk v st.
Proof.
  intros ia F fshow fread fzero in01 okn H1 H2 H3 H4 H5. destruct han_sent_side as (S1 & S2 & S3 & S4 & S5).
  now apply (C01_value_cond F fshow fread fzero in01 okn ia FORMAT_HAN 0 1).
Qed.

(* ================================================================================== *)
(* 8. non-vacuity                                                                       *)
(* the toy float oracle of Proofs/EnumSentP.v (a number IS its text) satisfies the oracle hypotheses with
   okn := in01 := toy_in01; Rust's Unicode table satisfies alnum_facts and alnum_facts2 *)
Lemma toy_oracles_final :
  toy_read [] = None /\ toy_in01 toy_zero = true /\ (forall x, toy_in01 x = true -> toy_in01 x = true) /\
  (forall x, toy_in01 x = true -> toy_read (toy_show x) = Some x) /\
  (forall x, toy_in01 x = true -> toy_show x <> [] /\ Forall (fun c => is_float_char c = true) (toy_show x)).
Proof. destruct toy_oracles_ok as (H1 & H2 & H3 & H4). repeat split; auto; now apply H4. Qed.

(* a task with a budget, a fixed stamp and a truth over the term that uses all 30 constructors:
   $0.5;0.75;1$ <...>. :!-12: %1;0.9% *)
Definition ex_task_value : narsese str :=
  NTask (SJudgement ex_term (TruthDouble [49]%N [48; 46; 57]%N) (Fixed (-12)),
         BudgetTriple [48; 46; 53]%N [48; 46; 55; 53]%N [49]%N).
(* the back-off case: the judgement `$x. :|: %1;0.9%` (ASCII) / `\$x. |\!\!\!\!\!\Rightarrow{} \langle{}1,0.9\rangle{}` (LaTeX) *)
Definition ex_dollar_value : narsese str :=
  NSentence (SJudgement (TName VariableIndependent [120]%N) (TruthDouble [49]%N [48; 46; 57]%N) Present).

Definition ex_hyp (E : efmt) (v : narsese str) : bool := wf_value is_alnum_std E v && vals_ok str toy_in01 v.
Definition ex_roundtrip (E : efmt) (v : narsese str) : option (narsese str) :=
  match parse_narsese str toy_read toy_zero toy_in01 is_alnum_std E (fmt_narsese str toy_show E v) with POk r _ => Some r | _ => None end.
Definition ex_nospace (E : efmt) (v : narsese str) : option (narsese str) :=
  match parse_narsese str toy_read toy_zero toy_in01 is_alnum_std E
          (render_narsese E (erase (canon_narsese str toy_show 1 1 (sst E (nv_term v)) v))) with POk r _ => Some r | _ => None end.

Lemma ex_final_task :
  alnum_facts is_alnum_std = true /\ alnum_facts2 is_alnum_std = true /\
  forallb (fun E => ex_hyp E ex_task_value) [FORMAT_ASCII; FORMAT_LATEX] = true /\
  map (fun E => ex_roundtrip E ex_task_value) [FORMAT_ASCII; FORMAT_LATEX] = [Some ex_task_value; Some ex_task_value] /\
  map (fun E => ex_nospace E ex_task_value) [FORMAT_ASCII; FORMAT_LATEX] = [Some ex_task_value; Some ex_task_value].
Proof. split; [|split; [|split; [|split]]]; vm_compute; reflexivity. Qed.

Lemma ex_final_dollar :
  forallb (fun E => ex_hyp E ex_dollar_value) [FORMAT_ASCII; FORMAT_LATEX] = true /\
  fmt_narsese str toy_show FORMAT_ASCII ex_dollar_value = [36; 120; 46; 32; 58; 124; 58; 32; 37; 49; 59; 48; 46; 57; 37]%N /\
  forallb (fun E => starts (task_budget_brackets_0 E) (fmt_narsese str toy_show E ex_dollar_value)) [FORMAT_ASCII; FORMAT_LATEX] = true /\
  map (fun E => ex_roundtrip E ex_dollar_value) [FORMAT_ASCII; FORMAT_LATEX] = [Some ex_dollar_value; Some ex_dollar_value] /\
  map (fun E => ex_nospace E ex_dollar_value) [FORMAT_ASCII; FORMAT_LATEX] = [Some ex_dollar_value; Some ex_dollar_value] /\
  render_narsese FORMAT_ASCII (erase (canon_narsese str toy_show 1 1 (sst FORMAT_ASCII (nv_term ex_dollar_value)) ex_dollar_value))
    = [36; 120; 46; 58; 124; 58; 37; 49; 59; 48; 46; 57; 37]%N.
Proof. split; [|split; [|split; [|split; [|split]]]]; vm_compute; reflexivity. Qed.

(* C15: the text of cast_to_task of a question *)
Definition ex_question_sentence : sentence str := SQuestion ex_term Eternal.
Lemma ex_final_cast :
  forallb (fun E => wf_term is_alnum_std E (s_term ex_question_sentence) && sent_vals_ok str toy_in01 ex_question_sentence)
          [FORMAT_ASCII; FORMAT_LATEX] = true /\
  map (fun E => match parse_narsese str toy_read toy_zero toy_in01 is_alnum_std E
                        (fmt_task str toy_show E (cast_to_task ex_question_sentence)) with POk r _ => Some r | _ => None end)
      [FORMAT_ASCII; FORMAT_LATEX] =
  [Some (NTask (ex_question_sentence, BudgetEmpty)); Some (NTask (ex_question_sentence, BudgetEmpty))].
Proof. split; vm_compute; reflexivity. Qed.

Lemma ex_final_nospace :
  map (fun E => ex_nospace E ex_task_value) [FORMAT_ASCII; FORMAT_LATEX] = [Some ex_task_value; Some ex_task_value] /\
  map (fun E => ex_nospace E ex_dollar_value) [FORMAT_ASCII; FORMAT_LATEX] = [Some ex_dollar_value; Some ex_dollar_value] /\
  render_narsese FORMAT_ASCII (erase (canon_narsese str toy_show 1 1 (sst FORMAT_ASCII (nv_term ex_dollar_value)) ex_dollar_value))
    = [36; 120; 46; 58; 124; 58; 37; 49; 59; 48; 46; 57; 37]%N.
Proof. split; [|split]; vm_compute; reflexivity. Qed.

(* ================================================================================== *)
(* 9. statements for the Props files                                                   *)
Theorem C15_cast_std : forall E : efmt, plain E ->
  forall (F : Type) (fshow : F -> str) (fread : str -> option F) (fzero : F) (in01 okn : F -> bool),
    fread [] = None -> in01 fzero = true -> (forall x : F, okn x = true -> in01 x = true) ->
    (forall x : F, okn x = true -> fread (fshow x) = Some x) ->
    (forall x : F, okn x = true -> fshow x <> [] /\ Forall (fun c : N => is_float_char c = true) (fshow x)) ->
    forall s : sentence F,
      wf_term is_alnum_std E (s_term s) = true -> sent_vals_ok F okn s = true ->
      exists st : pstate F,
        parse_narsese F fread fzero in01 is_alnum_std E (fmt_task F fshow E (cast_to_task s)) = POk (NTask (s, BudgetEmpty)) st.
Proof. intros E HE. exact (C15_cast_plain is_alnum_std E alnum_facts_std alnum_facts2_std HE). Qed.

Lemma alnum_facts2_meaning : forall ia : N -> bool,
  alnum_facts2 ia = forallb (fun c => negb (ia c)) [33; 36; 46; 63; 64; 191].
Proof. reflexivity. Qed.

Lemma final_fmt_ok_meaning : forall (ia : N -> bool) (E : efmt),
  final_fmt_ok ia E =
  forallb (fun x => head_not_name ia E (fst (fst x) E)) punct_arms
  && budget_requires_close
  && nonempty (task_budget_brackets_1 E) && memb (last (task_budget_brackets_1 E) 0) (task_budget_brackets_1 E)
  && forallb (fun lb => diverge (task_budget_brackets_0 E) lb) (left_brackets E)
  && forallb (fun p => match p with
                       | [] => head_not_name ia E (task_budget_brackets_0 E)
                       | _ => diverge (task_budget_brackets_0 E) p || str_eqb p (task_budget_brackets_0 E)
                       end) (map (fun a => fst a E) parse_atom_arms)
  && negb (name_charb ia E (last (task_budget_brackets_1 E) 0))
  && negb (is_int_char (last (task_budget_brackets_1 E) 0)) && negb (is_float_char (last (task_budget_brackets_1 E) 0))
  && forallb (fun kw => forallb (fun c => negb (c =? last (task_budget_brackets_1 E) 0)) kw)
       (space_parse E :: map (fun x => fst (fst x) E) punct_arms
        ++ sentence_stamp_brackets_0 E :: sentence_stamp_brackets_1 E :: map (fun x => fst (fst x) E) stamp_arms
        ++ [sentence_truth_brackets_0 E; sentence_truth_brackets_1 E; sentence_truth_separator E]).
Proof. reflexivity. Qed.

Lemma final_fmt_ok_plain : forall ia : N -> bool, alnum_facts ia = true -> alnum_facts2 ia = true ->
  final_fmt_ok ia FORMAT_ASCII = true /\ final_fmt_ok ia FORMAT_LATEX = true.
Proof. intros ia H H2. split; [now apply final_fmt_ok_ascii | now apply final_fmt_ok_latex]. Qed.

Lemma follows_ok_meaning : forall s : snarsese,
  follows_ok s = has (sn_punct s) || (negb (has (sn_stamp s)) && negb (has (sn_truth s))).
Proof. reflexivity. Qed.

Lemma sitems_ok_meaning : forall s : snarsese,
  sitems_ok s =
  match sn_punct s with Some (_, a) => is_some (nth_error punct_arms a) | None => true end
  && match sn_stamp s with
     | Some (_, x) => match stamp_kind (ss_arm x) with Some SAFixed => forallb is_int_char (ss_int x) | _ => true end
     | None => true
     end
  && match sn_truth s with Some (_, n) => forallb (forallb is_float_char) (nl_texts n) | None => true end.
Proof. reflexivity. Qed.
