(* Proofs/LexPTotal.v -- C05, parser half: the lexical parser model never reaches LPanic or LFuel.
   Invariants: (a) every border a segmenter returns lies inside the slice it was given, (b) every
   successful term segment consumes at least one character, (c) no suffix item (truth, stamp,
   punctuation) reaches into the budget (a table fact: the last character of the budget's closing
   bracket is not a character of any suffix item). *)
From Nv Require Import Model.LexParser Proofs.LexPBase.
From Coq Require Import Lia.
Import ListNotations.

(* ---- the boolean table obligation ---- *)
Definition suffix_char (C : lcfmt) (c : N) : bool :=
  let F := c_fmt C in
  in_class (l_is_truth_content F) c || memb c (fst (l_truth_brackets F) ++ snd (l_truth_brackets F)) ||
  in_class (l_is_stamp_content F) c || memb c (concat (map (fun t => fst t ++ snd t) (c_stamp_brackets C))) ||
  memb c (concat (c_punctuations C)).

Definition budget_close_ok (C : lcfmt) : bool :=
  match rev (snd (l_budget_brackets (c_fmt C))) with
  | [] => false
  | c :: _ => negb (suffix_char C c)
  end.

Definition lefts_nonempty (C : lcfmt) : bool :=
  forallb (fun t => nonempty (fst t)) (c_set_brackets C) &&
  nonempty (fst (l_compound_brackets (c_fmt C))) &&
  nonempty (fst (l_statement_brackets (c_fmt C))).

(* what totality needs from a format (and from the source: the length guard of slice_starts_with_str) *)
Definition lex_total_ok (F : lfmt) : bool :=
  lex_starts_len_guard && lefts_nonempty (compile F) && budget_close_ok (compile F).

(* ---- slices ---- *)
Lemma slice_from_ok env a : (a <= length env)%nat -> slice_from env a = LOk (drop a env).
Proof. intros H. unfold slice_from. now rewrite (proj2 (Nat.leb_le _ _) H). Qed.
Lemma slice_to_ok env b : (b <= length env)%nat -> slice_to env b = LOk (take b env).
Proof. intros H. unfold slice_to. now rewrite (proj2 (Nat.leb_le _ _) H). Qed.
Lemma slice_ok env a b : (a <= b)%nat -> (b <= length env)%nat -> slice env a b = LOk (take (b - a) (drop a env)).
Proof. intros H1 H2. unfold slice. now rewrite (proj2 (Nat.leb_le _ _) H1), (proj2 (Nat.leb_le _ _) H2). Qed.
Lemma usub_ok a b : (b <= a)%nat -> usub a b = LOk (a - b)%nat.
Proof. intros H. unfold usub. now rewrite (proj2 (Nat.leb_le _ _) H). Qed.

Lemma nonempty_length (s : str) : nonempty s = true -> (1 <= length s)%nat.
Proof. destruct s; cbn; [discriminate | lia]. Qed.

Lemma slice_starts_length s n :
  lex_starts_len_guard = true -> slice_starts_with_str s n = true -> (length n <= length s)%nat.
Proof.
  intros G H. unfold slice_starts_with_str in H. rewrite G in H.
  apply andb_true_iff in H as [H _]. now apply Nat.leb_le.
Qed.

(* ---- results ---- *)
Definition term_res_ok (env : str) (r : lres (lterm * nat)) : Prop :=
  match r with
  | LOk (_, n) => (1 <= n <= length env)%nat
  | LErr => True
  | LPanic | LFuel => False
  end.

Definition no_panic {A} (r : lres A) : Prop := r <> LPanic /\ r <> LFuel.

Lemma term_res_ok_or_else env r k : term_res_ok env r ->
  term_res_ok env k -> term_res_ok env (or_else r k).
Proof. intros Hr Hk. destruct r; cbn [or_else]; auto. Qed.

Section Total.
  Variable C : lcfmt.
  Variable is_alnum : N -> bool.
  Hypothesis Hguard : lex_starts_len_guard = true.
  Hypothesis Hlefts : lefts_nonempty C = true.

  (* -- atoms -- *)
  Lemma csp_loop_bounds verify rest i :
    (i <= csp_loop verify rest i <= i + length rest)%nat.
  Proof.
    revert i; induction rest as [|c r IH]; intros i; cbn [csp_loop length]; [lia|].
    destruct (verify (c :: r)); [specialize (IH (S i)); lia | lia].
  Qed.

  Lemma collect_some_prefix_bounds env start verify :
    (start <= length env)%nat ->
    (start <= collect_some_prefix env start verify <= length env)%nat.
  Proof.
    intros H. unfold collect_some_prefix. destruct (Nat.ltb_spec start (length env)); [|lia].
    pose proof (csp_loop_bounds verify (drop start env) start) as B. rewrite drop_length in B. lia.
  Qed.

  Lemma match_prefix_starts dict env p : match_prefix dict env = Some p -> In p dict /\ starts p env = true.
  Proof. unfold match_prefix. intros H. apply find_some in H. exact H. Qed.

  Lemma segment_atom_ok env : term_res_ok env (segment_atom C is_alnum env).
  Proof.
    unfold segment_atom. destruct (match_prefix (c_prefixes C) env) as [p|] eqn:E; cbn [ok_or lbind]; [|exact I].
    apply match_prefix_starts in E as [_ Hs]. apply starts_length in Hs.
    pose proof (collect_some_prefix_bounds env (length p) (atom_verify C is_alnum) Hs) as B.
    set (rb := collect_some_prefix env (length p) (atom_verify C is_alnum)) in *.
    destruct ((rb <=? length p)%nat && negb (nonempty p)) eqn:E2; [exact I|].
    rewrite slice_ok by lia. cbn [lbind term_res_ok]. split; [|lia].
    apply andb_false_iff in E2 as [E2|E2].
    - apply Nat.leb_gt in E2. lia.
    - apply negb_false_iff in E2. apply nonempty_length in E2. lia.
  Qed.

  (* -- the component loop -- *)
  Definition loop_res_ok (env : str) (tb : nat) (r : lres (list lterm * nat)) : Prop :=
    match r with
    | LOk (_, b) => (tb <= b <= length env)%nat
    | LErr => True
    | LPanic | LFuel => False
    end.

  Lemma seg_loop_ok rec right n : forall env tb acc,
    (forall s, (length s < length env)%nat -> term_res_ok s (rec s)) ->
    (1 <= tb <= length env)%nat -> (length env - tb < n)%nat ->
    loop_res_ok env tb (seg_loop C rec right n env tb acc).
  Proof.
    induction n as [|n IH]; intros env tb acc Hrec Htb Hn; [lia|].
    cbn [seg_loop]. rewrite slice_from_ok by lia. cbn [lbind].
    destruct (slice_starts_with_str (drop tb env) right) eqn:Er.
    - cbn [loop_res_ok]. apply slice_starts_length in Er; auto. rewrite drop_length in Er. lia.
    - set (tb' := if slice_starts_with_str (drop tb env) (l_separator (c_fmt C))
                  then (tb + length (l_separator (c_fmt C)))%nat else tb).
      assert (Htb' : (tb <= tb' <= length env)%nat).
      { unfold tb'. destruct (slice_starts_with_str (drop tb env) (l_separator (c_fmt C))) eqn:Es; [|lia].
        apply slice_starts_length in Es; auto. rewrite drop_length in Es. lia. }
      cbv zeta. fold tb'. rewrite slice_from_ok by lia. cbn [lbind].
      assert (Hlen : (length (drop tb' env) < length env)%nat) by (rewrite drop_length; lia).
      pose proof (Hrec _ Hlen) as Hr. destruct (rec (drop tb' env)) as [[t l]| | |]; cbn [lbind term_res_ok] in *; auto.
      rewrite drop_length in Hr. cbn [fst snd].
      assert (G : loop_res_ok env (tb' + l) (seg_loop C rec right n env (tb' + l) (t :: acc))).
      { apply IH; auto; lia. }
      revert G. unfold loop_res_ok. destruct (seg_loop C rec right n env (tb' + l) (t :: acc)) as [[ts b]| | |]; auto. lia.
  Qed.

  Lemma lefts_set l r : In (l, r) (c_set_brackets C) -> (1 <= length l)%nat.
  Proof.
    intros Hin. pose proof Hlefts as H. unfold lefts_nonempty in H. rewrite !andb_true_iff in H.
    destruct H as [[H _] _]. rewrite forallb_forall in H. specialize (H _ Hin). now apply nonempty_length in H.
  Qed.
  Lemma lefts_compound : (1 <= length (fst (l_compound_brackets (c_fmt C))))%nat.
  Proof.
    pose proof Hlefts as H. unfold lefts_nonempty in H. rewrite !andb_true_iff in H.
    destruct H as [[_ H] _]. now apply nonempty_length in H.
  Qed.
  Lemma lefts_statement : (1 <= length (fst (l_statement_brackets (c_fmt C))))%nat.
  Proof.
    pose proof Hlefts as H. unfold lefts_nonempty in H. rewrite !andb_true_iff in H.
    destruct H as [_ H]. now apply nonempty_length in H.
  Qed.

  Lemma segment_term_set_ok rec env :
    (forall s, (length s < length env)%nat -> term_res_ok s (rec s)) ->
    term_res_ok env (segment_term_set C rec env).
  Proof.
    intros Hrec. unfold segment_term_set.
    destruct (match_prefix_pair (c_set_brackets C) env) as [[l r]|] eqn:E; cbn [ok_or lbind]; [|exact I].
    unfold match_prefix_pair in E. apply find_some in E as [Hin Hs]. cbn [fst] in Hs.
    pose proof (lefts_set _ _ Hin) as Hl. pose proof (starts_length _ _ Hs) as Hle.
    cbn [fst snd]. rewrite slice_from_ok by lia. cbn [lbind].
    pose proof (Hrec (drop (length l) env)) as Hr. rewrite drop_length in Hr. specialize (Hr ltac:(lia)).
    destruct (rec (drop (length l) env)) as [[t n]| | |]; cbn [lbind term_res_ok] in *; auto.
    rewrite drop_length in Hr. cbn [fst snd].
    pose proof (seg_loop_ok rec r (S (length env)) env (length l + n) [t] Hrec ltac:(lia) ltac:(lia)) as G.
    destruct (seg_loop C rec r (S (length env)) env (length l + n) [t]) as [[ts b]| | |]; cbn [loop_res_ok lbind term_res_ok fst snd] in *; auto.
    lia.
  Qed.

  Lemma segment_compound_ok rec env :
    (forall s, (length s < length env)%nat -> term_res_ok s (rec s)) ->
    term_res_ok env (segment_compound C rec env).
  Proof.
    intros Hrec. unfold segment_compound. cbv zeta.
    destruct (starts (fst (l_compound_brackets (c_fmt C))) env) eqn:Hs; [|exact I].
    pose proof lefts_compound as Hl. pose proof (starts_length _ _ Hs) as Hle.
    rewrite slice_from_ok by lia. cbn [lbind].
    destruct (match_prefix (c_connecters C) (drop (length (fst (l_compound_brackets (c_fmt C)))) env)) as [conn|] eqn:E;
      cbn [ok_or lbind]; [|exact I].
    apply match_prefix_starts in E as [_ Hc]. apply starts_length in Hc. rewrite drop_length in Hc.
    pose proof (seg_loop_ok rec (snd (l_compound_brackets (c_fmt C))) (S (length env)) env
                  (length (fst (l_compound_brackets (c_fmt C))) + length conn) [] Hrec ltac:(lia) ltac:(lia)) as G.
    destruct (seg_loop C rec (snd (l_compound_brackets (c_fmt C))) (S (length env)) env
                  (length (fst (l_compound_brackets (c_fmt C))) + length conn) []) as [[ts b]| | |];
      cbn [loop_res_ok lbind term_res_ok fst snd] in *; auto.
    lia.
  Qed.

  Lemma segment_statement_ok rec env :
    (forall s, (length s < length env)%nat -> term_res_ok s (rec s)) ->
    term_res_ok env (segment_statement C rec env).
  Proof.
    intros Hrec. unfold segment_statement. cbv zeta.
    set (lb := fst (l_statement_brackets (c_fmt C))). set (rb := snd (l_statement_brackets (c_fmt C))).
    destruct (starts lb env) eqn:Hs; [|exact I].
    pose proof lefts_statement as Hl. fold lb in Hl. pose proof (starts_length _ _ Hs) as Hle.
    rewrite slice_from_ok by lia. cbn [lbind].
    pose proof (Hrec (drop (length lb) env)) as Hr. rewrite drop_length in Hr. specialize (Hr ltac:(lia)).
    destruct (rec (drop (length lb) env)) as [[subj n]| | |]; cbn [lbind term_res_ok] in *; auto.
    rewrite drop_length in Hr. cbn [fst snd]. rewrite slice_from_ok by lia. cbn [lbind].
    destruct (match_prefix (c_copulas C) (drop (length lb + n) env)) as [cop|] eqn:E; cbn [ok_or lbind]; [|exact I].
    apply match_prefix_starts in E as [_ Hc]. apply starts_length in Hc. rewrite drop_length in Hc.
    rewrite slice_from_ok by lia. cbn [lbind].
    pose proof (Hrec (drop (length lb + n + length cop) env)) as Hp. rewrite drop_length in Hp. specialize (Hp ltac:(lia)).
    destruct (rec (drop (length lb + n + length cop) env)) as [[pred m]| | |]; cbn [lbind term_res_ok] in *; auto.
    rewrite drop_length in Hp. cbn [fst snd]. rewrite slice_from_ok by lia. cbn [lbind].
    destruct (slice_starts_with_str (drop (length lb + n + length cop + m) env) rb) eqn:Er; [|exact I].
    apply slice_starts_length in Er; auto. rewrite drop_length in Er. cbn [term_res_ok]. lia.
  Qed.

  Lemma segment_term_ok fuel : forall env, (length env < fuel)%nat -> term_res_ok env (segment_term C is_alnum fuel env).
  Proof.
    induction fuel as [|f IH]; intros env H; [lia|].
    cbn [segment_term].
    assert (Hrec : forall s, (length s < length env)%nat -> term_res_ok s (segment_term C is_alnum f s)).
    { intros s Hs. apply IH. lia. }
    repeat apply term_res_ok_or_else.
    - now apply segment_term_set_ok.
    - now apply segment_compound_ok.
    - now apply segment_statement_ok.
    - apply segment_atom_ok.
  Qed.
End Total.
