(* Proofs/LexPRound.v -- C02, item layer and assembly: on the whitespace-free text of a value of
   the vocabulary, parse_items cuts the budget prefix and the truth / stamp / punctuation
   suffixes exactly where the formatter put them, and hands the term text to segment_term. *)
From Nv Require Import Model.LexSpec Proofs.LexPBase Proofs.LexPTotal Proofs.LexPDict Proofs.LexPStr Proofs.LexPTerm.
From Coq Require Import Lia.
Import ListNotations.

Lemma negb_nonempty_list_nil {A} (l : list A) : negb (nonempty_list l) = true -> l = [].
Proof. destruct l; [reflexivity | discriminate]. Qed.

Lemma nonempty_ne (s : str) : nonempty s = true -> s <> [].
Proof. destruct s; [discriminate | discriminate]. Qed.

Lemma first_is_ne P (s : str) : first_is P s = true -> s <> [].
Proof. destruct s; [discriminate | discriminate]. Qed.

Lemma last_is_ne P (s : str) : last_is P s = true -> s <> [].
Proof. intros H. apply last_is_nonempty in H as [s' [c [-> _]]]. destruct s'; discriminate. Qed.

Lemma forallb_imp {A} (P Q : A -> bool) l :
  (forall x, P x = true -> Q x = true) -> forallb P l = true -> forallb Q l = true.
Proof. intros H. rewrite !forallb_forall. auto. Qed.

Section ItemLayer.
  Variable F : lfmt.
  Variable ia : N -> bool.
  Let C := compile F.
  Hypothesis Hitems : lex_items_ok F = true.

  Local Notation bl := (fst (l_budget_brackets F)).
  Local Notation br := (snd (l_budget_brackets F)).
  Local Notation bsep := (l_budget_separator F).
  Local Notation bc := (in_class (l_is_budget_content F)).
  Local Notation tl := (fst (l_truth_brackets F)).
  Local Notation tr := (snd (l_truth_brackets F)).
  Local Notation tsep := (l_truth_separator F).
  Local Notation tc := (in_class (l_is_truth_content F)).
  Local Notation sc := (stampc F).
  Local Notation nsc := (fun c => negb (stampc F c)).

  Lemma items_all :
    first_is nnum bl = true /\ first_is (fun c => negb (bc c)) br = true /\ last_is nnum br = true /\
    first_is nnum bsep = true /\ forallb bc bsep = true /\ forallb bc number_chars = true /\
    split_values bl br bsep (bl ++ br) = [] /\
    first_is nnum tl = true /\ last_is (fun c => negb (tc c)) tl = true /\ last_is nnum tr = true /\
    first_is nnum tsep = true /\ forallb tc tsep = true /\ forallb tc number_chars = true /\
    suffix_first_ok (c_punctuations C) = true /\ forallb nonempty (c_punctuations C) = true /\
    stamp_first_ok F (c_stamp_brackets C) = true /\
    forallb (fun t => (negb (nonempty (fst t)) || last_is nsc (fst t)) && nonempty (fst t ++ snd t)) (c_stamp_brackets C) = true /\
    forallb (fun q => negb (scompat tr q)) (c_punctuations C) = true /\
    forallb (fun t => match snd t with
                      | [] => last_is nsc tr && negb (scompat tr (fst t))
                      | r => negb (scompat tr r)
                      end) (c_stamp_brackets C) = true /\
    forallb (fun q => forallb (fun t => match snd t with
                                        | [] => negb (scompat (fst t) q) && last_is nsc q
                                        | r => negb (scompat r q)
                                        end) (c_stamp_brackets C)) (c_punctuations C) = true.
  Proof.
    pose proof Hitems as H. unfold lex_items_ok in H. cbv zeta in H. rewrite !andb_true_iff in H.
    repeat match goal with H : _ /\ _ |- _ => destruct H end.
    repeat split; try assumption. now apply negb_nonempty_list_nil.
  Qed.

  (* numbers consist of characters of a class that contains the digits and the dot *)
  Lemma class_numbers (k : N -> bool) e : forallb k number_chars = true -> forallb numc e = true -> forallb k e = true.
  Proof.
    intros Hk He. rewrite forallb_forall in *. intros c Hc. specialize (He c Hc). apply Hk.
    unfold numc, is_ascii_digit in He. unfold number_chars.
    apply orb_true_iff in He as [He|He].
    - apply andb_true_iff in He as [H1 H2]. apply N.leb_le in H1, H2.
      assert (Hd : c = 48 \/ c = 49 \/ c = 50 \/ c = 51 \/ c = 52 \/ c = 53 \/ c = 54 \/ c = 55 \/ c = 56 \/ c = 57) by lia.
      cbn [In]. intuition auto.
    - apply N.eqb_eq in He. subst. cbn [In]. intuition auto.
  Qed.

  Lemma numbers_all bs : forallb number_ok bs = true -> forallb (forallb numc) bs = true.
  Proof.
    apply forallb_imp. intros e He. unfold number_ok in He. now apply andb_true_iff in He as [_ He].
  Qed.

  (* ---- budget, positive ---- *)
  Lemma segment_budget_pos bs rest : forallb number_ok bs = true ->
    segment_budget C (lex_fmt_budget F bs ++ rest) = LOk (Some (bs, length (lex_fmt_budget F bs))).
  Proof.
    intros Hbs. destruct items_all as [B1 [B2 [B3 [B4 [B5 [B6 [B7 _]]]]]]].
    unfold segment_budget, segment_brackets_prefix, lex_fmt_budget. change (c_fmt C) with F.
    set (J := ljoin_to bsep bs). rewrite <- !app_assoc. rewrite starts_app.
    unfold segment_some_prefix. rewrite drop_app_length.
    assert (HJ : forallb bc J = true).
    { apply ljoin_all; auto. eapply forallb_imp; [|apply numbers_all; exact Hbs].
      intros e He. now apply class_numbers. }
    rewrite ssp_loop_content by auto.
    assert (Hlen : (length bl + length J + length br = length (bl ++ J ++ br))%nat) by (rewrite !app_length; lia).
    rewrite Hlen. replace (bl ++ J ++ br ++ rest) with ((bl ++ J ++ br) ++ rest) by now rewrite <- !app_assoc.
    rewrite slice_to_ok by (rewrite !app_length; lia). rewrite take_app_length. cbn [lbind].
    f_equal. f_equal. f_equal. destruct bs as [|e bs'].
    - cbn [ljoin_to] in J. subst J. cbn [app]. exact B7.
    - apply split_values_join; auto. discriminate.
  Qed.

  (* ---- truth ---- *)
  Lemma segment_truth_none env : ends tr env = false -> segment_truth C env = LOk None.
  Proof.
    intros H. unfold segment_truth, segment_brackets_suffix, match_suffix_pair. change (c_fmt C) with F.
    cbn [find snd]. now rewrite H.
  Qed.

  Lemma segment_truth_pos pre ts : ts <> [] -> forallb number_ok ts = true ->
    segment_truth C (pre ++ lex_fmt_truth F ts) = LOk (Some (ts, length pre)).
  Proof.
    intros Hne Hts. destruct items_all as [_ [_ [_ [_ [_ [_ [_ [T1 [T2 [T3 [T4 [T5 [T6 _]]]]]]]]]]]]].
    unfold lex_fmt_truth, segment_truth, segment_brackets_suffix, match_suffix_pair. change (c_fmt C) with F.
    destruct (l_truth_brackets F) as [tl0 tr0] eqn:Etb. cbn [fst snd] in *.
    destruct ts as [|e ts']; [congruence|]. set (J := ljoin_to tsep (e :: ts')). cbn [find snd].
    replace (pre ++ tl0 ++ J ++ tr0) with ((pre ++ tl0 ++ J) ++ tr0) by now rewrite <- !app_assoc.
    rewrite ends_app. rewrite app_length. rewrite usub_ok by lia. cbn [lbind].
    replace (length (pre ++ tl0 ++ J) + length tr0 - length tr0)%nat with (length (pre ++ tl0 ++ J)) by lia.
    rewrite slice_to_ok by (rewrite !app_length; lia). rewrite take_app_length. cbn [lbind fst].
    assert (HJ : forallb tc J = true).
    { apply ljoin_all; auto. eapply forallb_imp; [|apply numbers_all; exact Hts].
      intros e0 He. now apply class_numbers. }
    unfold segment_some_suffix. rewrite !rev_app_distr, <- app_assoc.
    rewrite sss_loop_content; [|rewrite forallb_forall in *; intros x Hx; apply HJ; now apply in_rev|exact T2].
    rewrite rev_length. rewrite <- !app_assoc. rewrite slice_from_ok by (rewrite !app_length; lia).
    rewrite drop_app_length. cbn [lbind]. f_equal. f_equal. f_equal.
    apply split_values_join; auto.
  Qed.

  (* ---- punctuation ---- *)
  Lemma match_suffix_first dict q : suffix_first_ok dict = true -> In q dict ->
    forall x, match_suffix dict (x ++ q) = Some q.
  Proof.
    unfold match_suffix. induction dict as [|q' d IH]; intros H Hin x; [destruct Hin|].
    cbn [suffix_first_ok] in H. apply andb_true_iff in H as [H1 H2]. cbn [find].
    destruct (str_eqb_spec q' q) as [->|Hne].
    - now rewrite ends_app.
    - destruct Hin as [Hq|Hin]; [congruence|].
      rewrite forallb_forall in H1. specialize (H1 _ Hin). apply negb_true_iff in H1.
      rewrite (scompat_false_ends _ _ H1). apply IH; auto.
  Qed.

  Lemma segment_punctuation_pos x q : In q (c_punctuations C) ->
    segment_punctuation C (x ++ q) = LOk (Some (q, length x)).
  Proof.
    intros Hq. destruct items_all as [_ [_ [_ [_ [_ [_ [_ [_ [_ [_ [_ [_ [_ [P1 _]]]]]]]]]]]]]].
    unfold segment_punctuation. rewrite (match_suffix_first _ _ P1 Hq). rewrite app_length.
    rewrite usub_ok by lia. cbn [lbind]. f_equal. f_equal. f_equal. lia.
  Qed.

  Lemma punct_nonempty q : In q (c_punctuations C) -> q <> [].
  Proof.
    intros Hq. destruct items_all as [_ [_ [_ [_ [_ [_ [_ [_ [_ [_ [_ [_ [_ [_ [P2 _]]]]]]]]]]]]]]].
    rewrite forallb_forall in P2. apply nonempty_ne. auto.
  Qed.

  (* ---- stamps ---- *)
  (* the shape of a non-empty stamp of the vocabulary *)
  Lemma stamp_form_split st t : stamp_form F st t = true ->
    exists content, st = fst t ++ content ++ snd t /\ forallb sc content = true /\
                    (nonempty (fst t) = true \/ content = []).
  Proof.
    unfold stamp_form. cbv zeta. rewrite !andb_true_iff. intros [[[Hs He] Hl] [Hc Hn]].
    apply Nat.leb_le in Hl. apply starts_spec in Hs as [s1 Hs1]. apply ends_spec in He as [x Hx].
    assert (Hs1' : s1 = drop (length (fst t)) x ++ snd t).
    { assert (Hlen : (length (fst t) <= length x)%nat).
      { apply (f_equal (@length N)) in Hx. rewrite app_length in Hx. lia. }
      apply (f_equal (drop (length (fst t)))) in Hs1. rewrite drop_app_length in Hs1.
      rewrite <- Hs1, Hx. apply drop_app_le. exact Hlen. }
    exists (drop (length (fst t)) x). rewrite Hs1 at 1. rewrite Hs1'. split; [reflexivity|].
    assert (Hcontent : take (length st - length (fst t) - length (snd t)) (drop (length (fst t)) st) =
                       drop (length (fst t)) x).
    { rewrite Hs1 at 2. rewrite drop_app_length, Hs1'.
      replace (length st - length (fst t) - length (snd t))%nat with (length (drop (length (fst t)) x)).
      - apply take_app_length.
      - rewrite Hs1, Hs1', !app_length. lia. }
    rewrite Hcontent in Hc, Hn. split; [exact Hc|].
    apply orb_true_iff in Hn as [Hn|Hn]; [left; exact Hn|right].
    destruct (drop (length (fst t)) x); [reflexivity | discriminate].
  Qed.

  (* an entry tried earlier does not match the text of a later entry's stamp *)
  Lemma stamp_earlier_no_match e l r pre content :
    stamp_pair_ok F e (l, r) = true -> forallb sc content = true ->
    (nonempty l = true \/ content = []) ->
    ends (snd e) (pre ++ l ++ content ++ r) = false.
  Proof.
    unfold stamp_pair_ok. cbv zeta. cbn [fst snd]. intros H Hc Hl.
    destruct r as [|c0 r0].
    - apply andb_true_iff in H as [H1 H2]. apply negb_true_iff in H2. rewrite app_nil_r.
      destruct (rev content) as [|d rc] eqn:Er.
      + apply (f_equal (@rev N)) in Er. rewrite rev_involutive in Er. cbn in Er. subst content.
        rewrite app_nil_r. now apply scompat_false_ends.
      + assert (Hcontent : content = rev rc ++ [d]) by (rewrite <- (rev_involutive content), Er; reflexivity).
        rewrite Hcontent, !app_assoc. eapply (ends_last_mismatch sc); [exact H1|].
        rewrite forallb_forall in Hc. apply Hc. rewrite Hcontent. apply in_or_app. right. now left.
    - set (r := c0 :: r0) in *. apply orb_true_iff in H as [H|H].
      + apply negb_true_iff in H. rewrite !app_assoc. now apply scompat_false_ends.
      + rewrite !andb_true_iff in H. destruct H as [He [[Ha Hn] Hs]]. apply negb_true_iff in Hs.
        apply ends_split in He. set (a := take (length (snd e) - length r) (snd e)) in *.
        rewrite He. rewrite !app_assoc. rewrite ends_app_same. rewrite <- !app_assoc.
        destruct (rev content) as [|d rc] eqn:Er.
        * apply (f_equal (@rev N)) in Er. rewrite rev_involutive in Er. cbn in Er. subst content.
          rewrite app_nil_r. now apply scompat_false_ends.
        * assert (Hcontent : content = rev rc ++ [d]) by (rewrite <- (rev_involutive content), Er; reflexivity).
          rewrite Hcontent, !app_assoc. eapply (ends_last_mismatch sc); [exact Ha|].
          rewrite forallb_forall in Hc. apply Hc. rewrite Hcontent. apply in_or_app. right. now left.
  Qed.

  Lemma match_suffix_pair_stamp dict l r pre content :
    stamp_first_ok F dict = true -> In (l, r) dict -> forallb sc content = true ->
    (nonempty l = true \/ content = []) ->
    match_suffix_pair dict (pre ++ l ++ content ++ r) = Some (l, r).
  Proof.
    unfold match_suffix_pair. induction dict as [|e d IH]; intros H Hin Hc Hl; [destruct Hin|].
    cbn [stamp_first_ok] in H. apply andb_true_iff in H as [H1 H2]. cbn [find].
    destruct Hin as [->|Hin].
    - cbn [snd]. replace (pre ++ l ++ content ++ r) with ((pre ++ l ++ content) ++ r) by now rewrite <- !app_assoc.
      now rewrite ends_app.
    - rewrite forallb_forall in H1. specialize (H1 _ Hin).
      rewrite (stamp_earlier_no_match e l r pre content H1 Hc Hl). apply IH; auto.
  Qed.

  Lemma segment_stamp_pos pre st : st <> [] -> stamp_ok F st = true ->
    segment_stamp C (pre ++ st) = LOk (Some (st, length pre)).
  Proof.
    intros Hne Hst. destruct items_all as [_ [_ [_ [_ [_ [_ [_ [_ [_ [_ [_ [_ [_ [_ [_ [S1 [S2 _]]]]]]]]]]]]]]]]].
    unfold stamp_ok in Hst. apply orb_true_iff in Hst as [Hst|Hst].
    { destruct st; [congruence | discriminate]. }
    apply existsb_exists in Hst as [[l r] [Hin Hform]]. fold C in Hin.
    apply stamp_form_split in Hform as [content [Hst [Hc Hl]]]. cbn [fst snd] in *.
    rewrite forallb_forall in S2. pose proof (S2 _ Hin) as Hlr. cbn [fst snd] in Hlr.
    apply andb_true_iff in Hlr as [Hlast _].
    unfold segment_stamp, segment_brackets_suffix. change (c_fmt C) with F. rewrite Hst.
    rewrite (match_suffix_pair_stamp _ l r pre content S1 Hin Hc Hl).
    assert (Hlen : length (pre ++ l ++ content ++ r) = (length (pre ++ l ++ content) + length r)%nat)
      by (rewrite !app_length; lia).
    rewrite Hlen. rewrite usub_ok by lia. cbn [lbind].
    replace (length (pre ++ l ++ content) + length r - length r)%nat with (length (pre ++ l ++ content)) by lia.
    replace (pre ++ l ++ content ++ r) with ((pre ++ l ++ content) ++ r) by now rewrite <- !app_assoc.
    rewrite slice_to_ok by (rewrite !app_length; lia). rewrite take_app_length. cbn [lbind].
    assert (Hss : segment_some_suffix (pre ++ l ++ content) l (in_class (l_is_stamp_content F)) = Some (length pre)).
    { unfold segment_some_suffix. rewrite !rev_app_distr, <- app_assoc.
      destruct l as [|c0 l0].
      - destruct Hl as [Hl|Hl]; [discriminate|]. subst content. cbn [rev app].
        rewrite sss_loop_nil. now rewrite rev_length.
      - apply orb_true_iff in Hlast as [Hlast|Hlast]; [discriminate|].
        rewrite sss_loop_content; [now rewrite rev_length| |exact Hlast].
        rewrite forallb_forall in *. intros x Hx. apply Hc. now apply in_rev. }
    rewrite Hss. rewrite <- !app_assoc. rewrite slice_from_ok by (rewrite !app_length; lia).
    rewrite drop_app_length. reflexivity.
  Qed.

  (* no stamp is found where the condition of every dictionary entry fails *)
  Lemma segment_stamp_none env :
    (forall t, In t (c_stamp_brackets C) ->
       match snd t with
       | [] => segment_some_suffix env (fst t) (in_class (l_is_stamp_content F)) = None
       | r => ends r env = false
       end) ->
    segment_stamp C env = LOk None.
  Proof.
    intros H. unfold segment_stamp, segment_brackets_suffix. change (c_fmt C) with F.
    destruct (match_suffix_pair (c_stamp_brackets C) env) as [[l r]|] eqn:E; [|reflexivity].
    unfold match_suffix_pair in E. apply find_some in E as [Hin He]. cbn [snd] in He.
    specialize (H _ Hin). cbn [fst snd] in H. destruct r as [|c r0]; [|congruence].
    cbn [length]. rewrite usub_ok by lia. cbn [lbind]. rewrite Nat.sub_0_r.
    rewrite slice_to_ok by lia. rewrite take_all by lia. cbn [lbind]. now rewrite H.
  Qed.

  (* behind a punctuation *)
  Lemma segment_stamp_none_punct x q : In q (c_punctuations C) -> segment_stamp C (x ++ q) = LOk None.
  Proof.
    intros Hq. destruct items_all as [_ [_ [_ [_ [_ [_ [_ [_ [_ [_ [_ [_ [_ [_ [_ [_ [_ [_ [_ N3]]]]]]]]]]]]]]]]]]].
    rewrite forallb_forall in N3. specialize (N3 _ Hq). rewrite forallb_forall in N3.
    apply segment_stamp_none. intros [l r] Hin. specialize (N3 _ Hin). cbn [fst snd] in *.
    destruct r as [|c r0].
    - apply andb_true_iff in N3 as [H1 H2]. apply negb_true_iff in H1.
      unfold segment_some_suffix. apply last_is_nonempty in H2 as [q' [d [Hq' Hd]]].
      rewrite Hq', app_assoc, rev_app_distr. cbn [rev app sss_loop].
      assert (Hst : starts (rev l) (d :: rev (x ++ q')) = false).
      { pose proof (scompat_false_ends _ _ H1 x) as He. unfold ends in He.
        rewrite Hq', app_assoc, rev_app_distr in He. exact He. }
      rewrite Hst. apply negb_true_iff in Hd. unfold stampc in Hd. now rewrite Hd.
    - apply negb_true_iff in N3. now apply scompat_false_ends.
  Qed.

  (* an absent truth behind a punctuation or a stamp *)
  Lemma truth_none_punct x q : In q (c_punctuations C) -> segment_truth C (x ++ q) = LOk None.
  Proof.
    intros Hq. destruct items_all as [_ [_ [_ [_ [_ [_ [_ [_ [_ [_ [_ [_ [_ [_ [_ [_ [_ [N1 _]]]]]]]]]]]]]]]]]].
    rewrite forallb_forall in N1. specialize (N1 _ Hq). apply negb_true_iff in N1.
    apply segment_truth_none. now apply scompat_false_ends.
  Qed.

  Lemma truth_none_stamp x st : st <> [] -> stamp_ok F st = true -> segment_truth C (x ++ st) = LOk None.
  Proof.
    intros Hne Hst. destruct items_all as [_ [_ [_ [_ [_ [_ [_ [_ [_ [_ [_ [_ [_ [_ [_ [_ [_ [_ [N2 _]]]]]]]]]]]]]]]]]]].
    unfold stamp_ok in Hst. apply orb_true_iff in Hst as [Hst|Hst].
    { destruct st; [congruence | discriminate]. }
    apply existsb_exists in Hst as [[l r] [Hin Hform]]. fold C in Hin.
    apply stamp_form_split in Hform as [content [Hst [Hc Hl]]]. cbn [fst snd] in *.
    rewrite forallb_forall in N2. specialize (N2 _ Hin). cbn [fst snd] in N2.
    apply segment_truth_none. rewrite Hst. destruct r as [|c0 r0].
    - apply andb_true_iff in N2 as [H1 H2]. apply negb_true_iff in H2. rewrite app_nil_r.
      destruct (rev content) as [|d rc] eqn:Er.
      + apply (f_equal (@rev N)) in Er. rewrite rev_involutive in Er. cbn in Er. subst content.
        rewrite app_nil_r. now apply scompat_false_ends.
      + assert (Hcontent : content = rev rc ++ [d]) by (rewrite <- (rev_involutive content), Er; reflexivity).
        rewrite Hcontent, !app_assoc. eapply (ends_last_mismatch sc); [exact H1|].
        rewrite forallb_forall in Hc. apply Hc. rewrite Hcontent. apply in_or_app. right. now left.
    - apply negb_true_iff in N2. rewrite !app_assoc. now apply scompat_false_ends.
  Qed.
End ItemLayer.
