(* Proofs/LexPClean.v -- C02: the border conditions [top_clean] follow from vocab_ok and boolean
   table obligations: always for sentences (and trivially for tasks), for bare terms that are
   compounds / sets / statements, and for bare atoms in formats satisfying [lex_clean_atoms_ok]. *)
From Nv Require Import Model.LexSpec Proofs.LexPBase Proofs.LexPTotal Proofs.LexPDict Proofs.LexPStr
                       Proofs.LexPTerm Proofs.LexPRound Proofs.LexPAssemble.
From Coq Require Import Lia.
Import ListNotations.

Lemma ssp_loop_absent right v e : In e right -> forall s i, ~ In e s -> ssp_loop right v s i = None.
Proof.
  intros He. induction s as [|c s IH]; intros i Hn; cbn [ssp_loop]; [reflexivity|].
  destruct (starts right (c :: s)) eqn:Es.
  - exfalso. apply Hn. apply starts_spec in Es as [r ->]. apply in_or_app. now left.
  - destruct (v c); [|reflexivity]. apply IH. intros H. apply Hn. now right.
Qed.

Lemma sss_loop_absent rleft v e : In e rleft -> forall s, ~ In e s -> sss_loop rleft v s = None.
Proof.
  intros He. induction s as [|c s IH]; intros Hn; cbn [sss_loop].
  - destruct rleft; [destruct He | reflexivity].
  - destruct (starts rleft (c :: s)) eqn:Es.
    + exfalso. apply Hn. apply starts_spec in Es as [r ->]. apply in_or_app. now left.
    + destruct (v c); [|reflexivity]. apply IH. intros H. apply Hn. now right.
Qed.

Lemma join_chars sep c : forall bs, In c (ljoin_to sep bs) -> In c sep \/ exists b, In b bs /\ In c b.
Proof.
  induction bs as [|e [|e2 r] IH]; intros H; [destruct H| |].
  - right. exists e. split; [now left | exact H].
  - rewrite ljoin_cons2 in H. apply in_app_or in H as [H|H]; [right; exists e; split; [now left|exact H]|].
    apply in_app_or in H as [H|H]; [now left|]. destruct (IH H) as [G|[b [Hb Hc]]]; [now left|].
    right. exists b. split; [now right | exact Hc].
Qed.

Lemma match_suffix_none dict env :
  (forall q, In q dict -> ends q env = false) -> match_suffix dict env = None.
Proof.
  unfold match_suffix. induction dict as [|q d IH]; intros H; cbn [find]; [reflexivity|].
  rewrite (H q (or_introl eq_refl)). apply IH. intros q' Hq. apply H. now right.
Qed.

Section Clean.
  Variable F : lfmt.
  Variable ia : N -> bool.
  Let C := compile F.
  Hypothesis Hterm : lex_term_ok F ia = true.
  Hypothesis Hclean : lex_clean_ok F ia = true.

  Local Notation bl := (fst (l_budget_brackets F)).
  Local Notation br := (snd (l_budget_brackets F)).
  Local Notation tr := (snd (l_truth_brackets F)).
  Local Notation f0 := (f0 F).
  Local Notation nid := (fun c => negb (ident F ia c)).

  Lemma clean_all :
    forallb (fun b => negb (compat bl b)) (bracket_lefts F) = true /\
    forallb (tail_clean F) (bracket_rights F) = true /\
    (first_is nid bl || (length bl =? 1)%nat) = true /\ nonempty bl = true /\
    forallb (fun p => negb (nonempty p) || negb (compat bl p) ||
                      (str_eqb p bl && existsb (budget_key_char F ia) br)) (c_prefixes C) = true.
  Proof.
    pose proof Hclean as H. unfold lex_clean_ok in H. cbv zeta in H. rewrite !andb_true_iff in H.
    repeat match goal with H : _ /\ _ |- _ => destruct H end. repeat split; assumption.
  Qed.

  (* ---- budget ---- *)
  Lemma segment_budget_nostart env : starts bl env = false -> segment_budget C env = LOk None.
  Proof.
    intros H. unfold segment_budget, segment_brackets_prefix. change (c_fmt C) with F. now rewrite H.
  Qed.

  Lemma segment_budget_keychar env e :
    In e br -> ~ In e (drop (length bl) env) -> segment_budget C env = LOk None.
  Proof.
    intros He Hn. unfold segment_budget, segment_brackets_prefix. change (c_fmt C) with F.
    destruct (starts bl env); [|reflexivity]. unfold segment_some_prefix.
    now rewrite (ssp_loop_absent _ _ e He).
  Qed.

  (* ---- tails ---- *)
  Lemma tail_truth x z : tail_clean F z = true -> segment_truth C (x ++ z) = LOk None.
  Proof.
    unfold tail_clean. rewrite !andb_true_iff. intros [[H _] _]. apply negb_true_iff in H.
    apply segment_truth_none. now apply scompat_false_ends.
  Qed.

  Lemma tail_punct x z : tail_clean F z = true -> segment_punctuation C (x ++ z) = LOk None.
  Proof.
    unfold tail_clean. rewrite !andb_true_iff. intros [[_ H] _]. rewrite forallb_forall in H.
    unfold segment_punctuation. rewrite match_suffix_none; [reflexivity|].
    intros q Hq. specialize (H _ Hq). apply negb_true_iff in H. now apply scompat_false_ends.
  Qed.

  Lemma tail_stamp x z : tail_clean F z = true -> segment_stamp C (x ++ z) = LOk None.
  Proof.
    unfold tail_clean. rewrite !andb_true_iff. intros [_ H]. rewrite forallb_forall in H.
    apply segment_stamp_none. intros [l r] Hin. specialize (H _ Hin). cbn [fst snd] in *.
    destruct r as [|c r0].
    - apply andb_true_iff in H as [H1 H2]. apply negb_true_iff in H1.
      unfold segment_some_suffix. apply last_is_nonempty in H2 as [z' [d [Hz' Hd]]].
      rewrite Hz', app_assoc, rev_app_distr. cbn [rev app sss_loop].
      assert (Hst : starts (rev l) (d :: rev (x ++ z')) = false).
      { pose proof (scompat_false_ends _ _ H1 x) as He. unfold ends in He.
        rewrite Hz', app_assoc, rev_app_distr in He. exact He. }
      rewrite Hst. apply negb_true_iff in Hd. unfold stampc in Hd. now rewrite Hd.
    - apply negb_true_iff in H. now apply scompat_false_ends.
  Qed.

  (* ---- first and last token of a term text ---- *)
  Definition is_atom (t : lterm) : bool := match t with LAtom _ _ => true | _ => false end.

  Lemma f0_head t : term_ok F ia t = true -> is_atom t = false ->
    exists b rest, In b (bracket_lefts F) /\ f0 t = b ++ rest.
  Proof.
    destruct t as [p n | c ts | l ts rb | c s p]; cbn [term_ok is_atom]; rewrite ?andb_true_iff; intros Hok Ha.
    - discriminate.
    - destruct Hok as [[_ Hne] _]. destruct ts as [|t r]; [discriminate|]. rewrite f0_compound.
      eexists _, _. split; [apply In_cl | reflexivity].
    - destruct Hok as [[Hin Hne] _]. destruct ts as [|t r]; [discriminate|]. rewrite f0_set.
      apply pair_in_In in Hin. eexists _, _. split; [eapply In_setl; eauto | reflexivity].
    - rewrite f0_statement. eexists _, _. split; [apply In_sl | reflexivity].
  Qed.

  Lemma f0_tail t : term_ok F ia t = true -> is_atom t = false ->
    exists x rb, In rb (bracket_rights F) /\ f0 t = x ++ rb.
  Proof.
    destruct t as [p n | c ts | l ts rb | c s p]; cbn [term_ok is_atom]; rewrite ?andb_true_iff; intros Hok Ha.
    - discriminate.
    - destruct Hok as [[_ Hne] _]. destruct ts as [|t r]; [discriminate|]. rewrite f0_compound.
      exists (cl F ++ c ++ comps_text F (t :: r)), (cr F). split; [apply In_cr | now rewrite <- !app_assoc].
    - destruct Hok as [[Hin Hne] _]. destruct ts as [|t r]; [discriminate|]. rewrite f0_set.
      apply pair_in_In in Hin. exists (l ++ f0 t ++ comps_text F r), rb.
      split; [eapply In_setr; eauto | now rewrite <- !app_assoc].
    - rewrite f0_statement. exists (sl F ++ f0 s ++ c ++ f0 p), (sr F).
      split; [apply In_sr | now rewrite <- !app_assoc].
  Qed.

  Lemma keyword_single k : In k [cl F; cr F; sep F; sl F; sr F; fst (l_truth_brackets F); snd (l_truth_brackets F);
                                 l_truth_separator F; bl; br; l_budget_separator F] -> k <> [] -> In k (keywords F).
  Proof.
    intros Hk Hne. unfold keywords. apply filter_In. split; [|destruct k; [congruence | reflexivity]].
    apply in_or_app. right. apply in_or_app. right. apply in_or_app. right. apply in_or_app. right.
    apply in_or_app. right. exact Hk.
  Qed.

  (* ---- no budget in front of a term of the vocabulary followed by sentence items ---- *)
  Lemma no_budget t rest :
    term_ok F ia t = true ->
    (forall e, budget_key_char F ia e = true -> ~ In e rest) ->
    segment_budget C (f0 t ++ rest) = LOk None.
  Proof.
    intros Hok Hrest. destruct clean_all as [HB [_ [Hbl [Hblne HP]]]].
    destruct (is_atom t) eqn:Ea.
    - destruct t as [p n | | |]; try discriminate. cbn [term_ok] in Hok. apply andb_true_iff in Hok as [Hp Hn].
      apply str_in_In in Hp. rewrite forallb_forall in HP. specialize (HP _ Hp).
      unfold name_ok in Hn. rewrite !andb_true_iff in Hn. destruct Hn as [[Hnne Hid] Hkw].
      rewrite f0_atom, <- app_assoc. rewrite !orb_true_iff in HP. destruct HP as [[HP|HP]|HP].
      + (* word: the name does not start with the budget bracket *)
        destruct p; [|discriminate]. cbn [app]. apply segment_budget_nostart.
        destruct n as [|c n']; [discriminate|]. cbn [forallb] in Hid. apply andb_true_iff in Hid as [Hc _].
        apply orb_true_iff in Hbl as [Hbl|Hbl].
        * cbn [app]. eapply (first_is_mismatch (ident F ia)); eauto.
        * apply Nat.eqb_eq in Hbl. destruct bl as [|x [|y b']] eqn:Ebl; try discriminate.
          cbn [app starts]. destruct (N.eqb_spec x c) as [->|]; [|reflexivity]. exfalso.
          rewrite forallb_forall in Hkw.
          assert (Hk : In [c] (keywords F)).
          { apply keyword_single; [|discriminate]. rewrite <- Ebl. cbn. auto 15. }
          specialize (Hkw _ Hk). apply negb_true_iff in Hkw.
          assert (Hcon : contains [c] (c :: n') = true) by (cbn [contains starts]; now rewrite N.eqb_refl).
          congruence.
      + apply negb_true_iff in HP. apply segment_budget_nostart. now apply compat_false_starts.
      + apply andb_true_iff in HP as [Heq Hkey]. apply str_eqb_eq in Heq. subst p.
        apply existsb_exists in Hkey as [e [He Hkey]].
        apply (segment_budget_keychar _ e He). rewrite drop_app_length. intros Hin.
        apply in_app_or in Hin as [Hin|Hin]; [|exact (Hrest e Hkey Hin)].
        unfold budget_key_char in Hkey. rewrite !andb_true_iff in Hkey. destruct Hkey as [[[[[Hk _] _] _] _] _].
        rewrite forallb_forall in Hid. rewrite (Hid _ Hin) in Hk. discriminate.
    - destruct (f0_head t Hok Ea) as [b [r [Hb ->]]]. rewrite forallb_forall in HB. specialize (HB _ Hb).
      apply negb_true_iff in HB. apply segment_budget_nostart. rewrite <- app_assoc. now apply compat_false_starts.
  Qed.

  (* the key character occurs in no item of a sentence of the vocabulary *)
  Lemma key_char_rest s e : sentence_ok F ia s = true -> budget_key_char F ia e = true -> ~ In e (rest_text F s).
  Proof.
    intros Hok Hkey Hin. unfold sentence_ok in Hok. rewrite !andb_true_iff in Hok. destruct Hok as [[[_ Hq] Hst] Htv].
    apply str_in_In in Hq. unfold budget_key_char in Hkey. rewrite !andb_true_iff in Hkey.
    destruct Hkey as [[[[[K1 K2] K3] K4] K5] K6]. apply negb_true_iff in K1, K2, K3, K4, K5, K6. fold C in K4, K5.
    unfold rest_text in Hin. apply in_app_or in Hin as [Hin|Hin].
    - (* punctuation *)
      assert (memb e (concat (c_punctuations C)) = true) by (apply memb_In; apply in_concat; eauto). congruence.
    - apply in_app_or in Hin as [Hin|Hin].
      + (* stamp *)
        unfold stamp_ok in Hst. apply orb_true_iff in Hst as [Hst|Hst].
        { destruct (ls_stamp s); [destruct Hin | discriminate]. }
        apply existsb_exists in Hst as [[l r] [Hlr Hform]].
        apply (stamp_form_split F) in Hform as [content [Heq [Hc _]]]. cbn [fst snd] in *.
        rewrite Heq in Hin. apply in_app_or in Hin as [Hin|Hin]; [|apply in_app_or in Hin as [Hin|Hin]].
        * assert (memb e (concat (map (fun t => fst t ++ snd t) (c_stamp_brackets C))) = true).
          { apply memb_In. apply in_concat. exists (l ++ r). split; [|apply in_or_app; now left].
            apply in_map_iff. exists (l, r). auto. }
          congruence.
        * rewrite forallb_forall in Hc. rewrite (Hc _ Hin) in K2. discriminate.
        * assert (memb e (concat (map (fun t => fst t ++ snd t) (c_stamp_brackets C))) = true).
          { apply memb_In. apply in_concat. exists (l ++ r). split; [|apply in_or_app; now right].
            apply in_map_iff. exists (l, r). auto. }
          congruence.
      + (* truth *)
        unfold lex_fmt_truth in Hin. destruct (ls_truth s) as [|e0 tv'] eqn:Etv; [destruct Hin|].
        assert (Hm : forall c, In c (fst (l_truth_brackets F)) \/ In c tr \/ In c (l_truth_separator F) ->
                     memb c (fst (l_truth_brackets F) ++ tr ++ l_truth_separator F) = true).
        { intros c Hc. apply memb_In. rewrite !in_app_iff. tauto. }
        apply in_app_or in Hin as [Hin|Hin]; [rewrite Hm in K6 by auto; discriminate|].
        apply in_app_or in Hin as [Hin|Hin]; [|rewrite Hm in K6 by auto; discriminate].
        apply join_chars in Hin as [Hin|[b [Hb Hcb]]]; [rewrite Hm in K6 by auto; discriminate|].
        rewrite forallb_forall in Htv. specialize (Htv _ Hb). unfold number_ok in Htv.
        apply andb_true_iff in Htv as [_ Hnum]. rewrite forallb_forall in Hnum.
        specialize (Hnum _ Hcb). unfold numc in K3. congruence.
  Qed.

  Theorem top_clean_sentence s : sentence_ok F ia s = true -> top_clean F (NSentence s).
  Proof.
    intros Hok. cbn [top_clean]. fold C. apply no_budget.
    - unfold sentence_ok in Hok. rewrite !andb_true_iff in Hok. tauto.
    - intros e He. now apply key_char_rest.
  Qed.

  Theorem top_clean_bracketed t : term_ok F ia t = true -> is_atom t = false -> top_clean F (NTerm t).
  Proof.
    intros Hok Ha. cbn [top_clean]. fold C. destruct clean_all as [_ [HT _]].
    destruct (f0_tail t Hok Ha) as [x [rb [Hrb Heq]]]. rewrite forallb_forall in HT. specialize (HT _ Hrb).
    split; [|rewrite Heq; repeat split].
    - rewrite <- (app_nil_r (f0 t)). apply no_budget; auto.
    - now apply tail_truth.
    - now apply tail_stamp.
    - now apply tail_punct.
  Qed.

  (* ---- bare atoms ---- *)
  Hypothesis Hatoms : lex_clean_atoms_ok F ia = true.

  Theorem top_clean_atom p n : term_ok F ia (LAtom p n) = true -> top_clean F (NTerm (LAtom p n)).
  Proof.
    intros Hok. cbn [top_clean]. fold C. split.
    { rewrite <- (app_nil_r (f0 (LAtom p n))). apply no_budget; auto. }
    cbn [term_ok] in Hok. apply andb_true_iff in Hok as [Hp Hn]. apply str_in_In in Hp.
    unfold name_ok in Hn. rewrite !andb_true_iff in Hn. destruct Hn as [[Hne Hid] _].
    pose proof Hatoms as H. unfold lex_clean_atoms_ok in H. cbv zeta in H. rewrite !andb_true_iff in H.
    destruct H as [[A1 A2] A3].
    (* the name ends with an identifier character *)
    assert (Hlast : exists n' c, n = n' ++ [c] /\ ident F ia c = true).
    { destruct (rev n) as [|c rn] eqn:Er.
      - apply (f_equal (@rev N)) in Er. rewrite rev_involutive in Er. subst n. discriminate.
      - exists (rev rn), c. split; [rewrite <- (rev_involutive n), Er; reflexivity|].
        rewrite forallb_forall in Hid. apply Hid. apply in_rev. rewrite Er. now left. }
    destruct Hlast as [n' [c [Hn Hc]]]. rewrite f0_atom. repeat split.
    - apply segment_truth_none. rewrite Hn, app_assoc. eapply (ends_last_mismatch (ident F ia)); eauto.
    - apply segment_stamp_none. intros [l r] Hin. rewrite forallb_forall in A3. specialize (A3 _ Hin).
      cbn [fst snd] in *. destruct r as [|c0 r0].
      + apply last_is_nonempty in A3 as [l' [e [Hl He]]]. apply andb_true_iff in He as [He1 He2].
        unfold segment_some_suffix. apply (sss_loop_absent _ _ e).
        * rewrite Hl, rev_app_distr. now left.
        * intros Hin'. apply in_rev in Hin'. apply in_app_or in Hin' as [Hin'|Hin'].
          -- rewrite forallb_forall in He2. specialize (He2 _ Hp). apply negb_true_iff in He2.
             assert (memb e p = true) by now apply memb_In. congruence.
          -- rewrite forallb_forall in Hid. rewrite (Hid _ Hin') in He1. discriminate.
      + rewrite Hn, app_assoc. eapply (ends_last_mismatch (ident F ia)); eauto.
    - unfold segment_punctuation. rewrite match_suffix_none; [reflexivity|]. intros q Hq.
      rewrite forallb_forall in A2. rewrite Hn, app_assoc. eapply (ends_last_mismatch (ident F ia)); eauto.
  Qed.

  Theorem top_clean_term t : term_ok F ia t = true -> top_clean F (NTerm t).
  Proof.
    intros Hok. destruct (is_atom t) eqn:Ea.
    - destruct t; try discriminate. now apply top_clean_atom.
    - now apply top_clean_bracketed.
  Qed.
End Clean.

Definition bare_atom (v : lnarsese) : bool :=
  match v with NTerm (LAtom _ _) => true | _ => false end.

(* sentences, tasks and bracketed bare terms need no border condition; bare atoms need
   lex_clean_atoms_ok (true for ASCII and LaTeX) *)
Theorem top_clean_vocab F ia v :
  lex_term_ok F ia = true -> lex_clean_ok F ia = true ->
  (lex_clean_atoms_ok F ia = true \/ bare_atom v = false) ->
  vocab_ok F ia v = true -> top_clean F v.
Proof.
  intros Ht Hc Ha Hv. destruct v as [t | s | k]; cbn [vocab_ok] in Hv.
  - destruct Ha as [Ha|Ha].
    + eapply top_clean_term; eauto.
    + eapply top_clean_bracketed; eauto.
  - eapply top_clean_sentence; eauto.
  - exact I.
Qed.
