(* Proofs/AccessP.v -- C14: component access, category and capacity of terms (Model/Access.v)
   against the regenerated tables of Gen/TermGen.v.
   Every lemma "by destruct c; reflexivity" and the boolean [access_tables_ok] are re-checked
   whenever the tables are regenerated: a moved arm makes this file fail to compile. *)
From Nv Require Import Base.Str Base.Dec Model.Term Model.EqHash Model.Access.

(* ------------------------------------------------------------------ *)
(* list toolkit *)

Lemma nlen_nil {A} : nlen (@nil A) = 0.
Proof. reflexivity. Qed.

Lemma nlen_cons {A} (x : A) l : nlen (x :: l) = nlen l + 1.
Proof. unfold nlen. cbn [length]. lia. Qed.

Lemma take_app_length {A} (p r : list A) : take (length p) (p ++ r) = p.
Proof. induction p as [|x p IH]; cbn [length take app]; [now destruct r | now rewrite IH]. Qed.

Lemma take_length_le {A} n (l : list A) : (n <= length l)%nat -> length (take n l) = n.
Proof. intros H. rewrite take_length. lia. Qed.

Lemma take_all {A} n (l : list A) : (length l <= n)%nat -> take n l = l.
Proof.
  revert l; induction n as [|n IH]; intros [|x l] H; cbn [take length] in *; try reflexivity; try lia.
  rewrite IH; [reflexivity | lia].
Qed.

Lemma drop_all {A} n (l : list A) : (length l <= n)%nat -> drop n l = [].
Proof.
  revert l; induction n as [|n IH]; intros [|x l] H; cbn [drop length] in *; try reflexivity; try lia.
  apply IH; lia.
Qed.

Lemma drop_S_app_length {A} (p r : list A) x : drop (S (length p)) (p ++ x :: r) = r.
Proof. induction p as [|y p IH]; cbn [length drop app]; [reflexivity | exact IH]. Qed.

(* ------------------------------------------------------------------ *)
(* table obligations *)

Definition comps_kind_eqb (a b : comps_kind) : bool :=
  match a, b with
  | CompsSelf, CompsSelf | CompsPayloadOrdered, CompsPayloadOrdered
  | CompsPayloadSet, CompsPayloadSet | CompsNone, CompsNone => true
  | _, _ => false
  end.

Definition extract_kind_eqb (a b : extract_kind) : bool :=
  match a, b with
  | ExSelf, ExSelf | ExPayload, ExPayload
  | ExInsertPlaceholder, ExInsertPlaceholder | ExSetCollect, ExSetCollect => true
  | _, _ => false
  end.

(* the two box2 sub-classes the claim names *)
Definition box2_is_difference (c : box2_ctor) : bool :=
  match c with DifferenceExtension | DifferenceIntension => true | _ => false end.
Definition box2_is_symmetric (c : box2_ctor) : bool :=
  match c with Similarity | Equivalence | EquivalenceConcurrent => true | _ => false end.

Definition row_ok (ck : comps_kind) (ek : extract_kind) (cat : category) (cap : capacity)
                  (ck' : comps_kind) (ek' : extract_kind) (cat' : category) (cap' : capacity) : bool :=
  comps_kind_eqb ck ck' && extract_kind_eqb ek ek' && category_eqb cat cat' && capacity_eqb cap cap'.

Definition access_tables_ok : bool :=
  forallb (fun c => row_ok (compsk_name c) (extractk_name c) (category_name c) (capacity_name c)
                           CompsSelf ExSelf CatAtom CapAtom) all_name_ctor &&
  forallb (fun c => row_ok (compsk_unit c) (extractk_unit c) (category_unit c) (capacity_unit c)
                           CompsSelf ExSelf CatAtom CapAtom) all_unit_ctor &&
  forallb (fun c => row_ok (compsk_num c) (extractk_num c) (category_num c) (capacity_num c)
                           CompsSelf ExSelf CatAtom CapAtom) all_num_ctor &&
  forallb (fun c => row_ok (compsk_set c) (extractk_set c) (category_set c) (capacity_set c)
                           CompsPayloadSet ExSetCollect CatCompound CapSet) all_set_ctor &&
  forallb (fun c => row_ok (compsk_vec c) (extractk_vec c) (category_vec c) (capacity_vec c)
                           CompsPayloadOrdered ExPayload CatCompound CapVec) all_vec_ctor &&
  forallb (fun c => row_ok (compsk_img c) (extractk_img c) (category_img c) (capacity_img c)
                           CompsPayloadOrdered ExInsertPlaceholder CatCompound CapVec) all_img_ctor &&
  forallb (fun c => row_ok (compsk_box1 c) (extractk_box1 c) (category_box1 c) (capacity_box1 c)
                           CompsPayloadOrdered ExPayload CatCompound CapUnary) all_box1_ctor &&
  forallb (fun c => row_ok (compsk_box2 c) (extractk_box2 c) (category_box2 c) (capacity_box2 c)
                           CompsPayloadOrdered ExPayload
                           (if box2_is_difference c then CatCompound else CatStatement)
                           (if box2_is_symmetric c then CapBinarySet else CapBinaryVec)) all_box2_ctor.

Lemma access_tables_ok_true : access_tables_ok = true.
Proof. vm_compute; reflexivity. Qed.

(* the enumerations the boolean ranges over are complete *)
Lemma all_ctor_complete :
  (forall c, In c all_name_ctor) /\ (forall c, In c all_unit_ctor) /\ (forall c, In c all_num_ctor) /\
  (forall c, In c all_set_ctor) /\ (forall c, In c all_vec_ctor) /\ (forall c, In c all_img_ctor) /\
  (forall c, In c all_box1_ctor) /\ (forall c, In c all_box2_ctor).
Proof. repeat split; intros c; destruct c; cbn; tauto. Qed.

(* the same content, per constructor, as rewriting lemmas *)
Lemma tbl_name c : compsk_name c = CompsSelf /\ extractk_name c = ExSelf /\ category_name c = CatAtom /\ capacity_name c = CapAtom.
Proof. destruct c; repeat split; reflexivity. Qed.
Lemma tbl_unit c : compsk_unit c = CompsSelf /\ extractk_unit c = ExSelf /\ category_unit c = CatAtom /\ capacity_unit c = CapAtom.
Proof. destruct c; repeat split; reflexivity. Qed.
Lemma tbl_num c : compsk_num c = CompsSelf /\ extractk_num c = ExSelf /\ category_num c = CatAtom /\ capacity_num c = CapAtom.
Proof. destruct c; repeat split; reflexivity. Qed.
Lemma tbl_set c : compsk_set c = CompsPayloadSet /\ extractk_set c = ExSetCollect /\ category_set c = CatCompound /\ capacity_set c = CapSet.
Proof. destruct c; repeat split; reflexivity. Qed.
Lemma tbl_vec c : compsk_vec c = CompsPayloadOrdered /\ extractk_vec c = ExPayload /\ category_vec c = CatCompound /\ capacity_vec c = CapVec.
Proof. destruct c; repeat split; reflexivity. Qed.
Lemma tbl_img c : compsk_img c = CompsPayloadOrdered /\ extractk_img c = ExInsertPlaceholder /\ category_img c = CatCompound /\ capacity_img c = CapVec.
Proof. destruct c; repeat split; reflexivity. Qed.
Lemma tbl_box1 c : compsk_box1 c = CompsPayloadOrdered /\ extractk_box1 c = ExPayload /\ category_box1 c = CatCompound /\ capacity_box1 c = CapUnary.
Proof. destruct c; repeat split; reflexivity. Qed.
Lemma tbl_box2 c :
  compsk_box2 c = CompsPayloadOrdered /\ extractk_box2 c = ExPayload /\
  category_box2 c = (if box2_is_difference c then CatCompound else CatStatement) /\
  capacity_box2 c = (if box2_is_symmetric c then CapBinarySet else CapBinaryVec).
Proof. destruct c; repeat split; reflexivity. Qed.

(* ordered / unordered nature, read off the equality and hash tables: the unordered capacity classes
   are exactly the ones compared and hashed without regard to order *)
Lemma tbl_order :
  (forall c, capacity_set c = CapSet /\ eqk_set c = EqPayload /\ hashk_set c = HashUnordered) /\
  (forall c, capacity_vec c = CapVec /\ eqk_vec c = EqPayload /\ hashk_vec c = HashOrdered) /\
  (forall c, capacity_img c = CapVec /\ eqk_img c = EqPayload /\ hashk_img c = HashIndexThenOrdered) /\
  (forall c, (capacity_box2 c = CapBinarySet /\ eqk_box2 c = EqSymmetric /\ hashk_box2 c = HashUnordered) \/
             (capacity_box2 c = CapBinaryVec /\ eqk_box2 c = EqPayload /\ hashk_box2 c = HashOrdered)).
Proof. repeat split; destruct c; auto. Qed.

Lemma base_num_values :
  base_num CapAtom = 1%N /\ base_num CapUnary = 1%N /\ base_num CapBinaryVec = 2%N /\ base_num CapBinarySet = 2%N.
Proof. repeat split; reflexivity. Qed.

(* ------------------------------------------------------------------ *)
(* closed forms of the table-driven accessors *)

Ltac term_cases t :=
  destruct t as [c ?|c|c ?|c ?|c ?|c ? ?|c ?|c ? ?]; destruct c.

Lemma get_components_eq t :
  get_components t = match t with TName _ _ | TUnit _ | TNum _ _ => [t] | _ => comps_payload t end.
Proof. term_cases t; reflexivity. Qed.

Lemma extract_terms_eq t :
  extract_terms t =
  match t with
  | TName _ _ | TUnit _ | TNum _ _ => ROk [t]
  | TImg _ i l => vec_insert l i placeholder
  | _ => ROk (comps_payload t)
  end.
Proof. term_cases t; reflexivity. Qed.

Lemma category_of_eq t :
  category_of t =
  match t with
  | TName _ _ | TUnit _ | TNum _ _ => CatAtom
  | TBox2 c _ _ => if box2_is_difference c then CatCompound else CatStatement
  | _ => CatCompound
  end.
Proof. term_cases t; reflexivity. Qed.

Lemma capacity_of_eq t :
  capacity_of t =
  match t with
  | TName _ _ | TUnit _ | TNum _ _ => CapAtom
  | TSet _ _ => CapSet
  | TVec _ _ | TImg _ _ _ => CapVec
  | TBox1 _ _ => CapUnary
  | TBox2 c _ _ => if box2_is_symmetric c then CapBinarySet else CapBinaryVec
  end.
Proof. term_cases t; reflexivity. Qed.

(* ------------------------------------------------------------------ *)
(* ImageIterator *)

Lemma img_iter_none : forall l now idx,
  (idx < now \/ nlen l < idx - now) -> img_iter now idx l = l.
Proof.
  induction l as [|x l IH]; intros now idx H; cbn [img_iter].
  - rewrite nlen_nil in H. destruct (N.eqb_spec now idx) as [E|E]; [lia | reflexivity].
  - rewrite nlen_cons in H. destruct (N.eqb_spec now idx) as [E|E]; [lia|].
    rewrite IH; [reflexivity | lia].
Qed.

Lemma img_iter_some : forall l now idx,
  now <= idx -> idx - now <= nlen l ->
  img_iter now idx l = take (N.to_nat (idx - now)) l ++ placeholder :: drop (N.to_nat (idx - now)) l.
Proof.
  induction l as [|x l IH]; intros now idx H1 H2; cbn [img_iter].
  - rewrite nlen_nil in H2. assert (idx = now) by lia. subst idx. rewrite N.eqb_refl, N.sub_diag. reflexivity.
  - rewrite nlen_cons in H2. destruct (N.eqb_spec now idx) as [E|E].
    + subst idx. rewrite N.sub_diag. cbn [N.to_nat take drop app].
      rewrite img_iter_none; [reflexivity | lia].
    + rewrite IH by lia.
      replace (N.to_nat (idx - now)) with (S (N.to_nat (idx - (now + 1)))) by lia.
      reflexivity.
Qed.

Lemma img_iter_0_le i l :
  i <= nlen l -> img_iter 0 i l = take (N.to_nat i) l ++ placeholder :: drop (N.to_nat i) l.
Proof. intros H. rewrite img_iter_some by lia. now rewrite N.sub_0_r. Qed.

Lemma img_iter_0_gt i l : nlen l < i -> img_iter 0 i l = l.
Proof. intros H. apply img_iter_none. right. now rewrite N.sub_0_r. Qed.

(* ------------------------------------------------------------------ *)
(* well-formed images, hereditarily *)

Fixpoint img_ok (t : term) : bool :=
  match t with
  | TName _ _ | TUnit _ | TNum _ _ => true
  | TSet _ l | TVec _ l => forallb img_ok l
  | TImg _ i l => (i <=? nlen l) && forallb img_ok l
  | TBox1 _ a => img_ok a
  | TBox2 _ a b => img_ok a && img_ok b
  end.

Definition img_top_ok (t : term) : Prop :=
  match t with TImg _ i l => i <= nlen l | _ => True end.

Lemma img_ok_top t : img_ok t = true -> img_top_ok t.
Proof.
  destruct t; cbn [img_ok img_top_ok]; auto. rewrite andb_true_iff, N.leb_le. tauto.
Qed.

(* ------------------------------------------------------------------ *)
(* the C14 statements *)

Lemma extract_eq_incl : forall t,
  (match t with TImg _ i l => (i <= nlen l)%N | _ => True end) ->
  extract_terms t = ROk (get_components_incl t).
Proof.
  intros t H. rewrite extract_terms_eq.
  destruct t as [c n|c|c i|c l|c l|c i l|c a|c a b]; cbn [get_components_incl];
    try (rewrite get_components_eq; reflexivity).
  unfold vec_insert. destruct (N.ltb_spec (nlen l) i) as [Hlt|_]; [lia|].
  now rewrite img_iter_0_le.
Qed.

Lemma extract_panics_iff : forall t,
  extract_terms t = RPanic <-> (exists c i l, t = TImg c i l /\ (nlen l < i)%N).
Proof.
  intros t. rewrite extract_terms_eq. split.
  - destruct t as [c n|c|c i|c l|c l|c i l|c a|c a b]; try discriminate.
    unfold vec_insert. destruct (N.ltb_spec (nlen l) i) as [Hlt|_]; [|discriminate].
    intros _. eauto.
  - intros (c & i & l & -> & Hlt). unfold vec_insert.
    destruct (N.ltb_spec (nlen l) i) as [_|Hge]; [reflexivity | lia].
Qed.

Lemma extract_never_err : forall t, extract_terms t <> RErr.
Proof.
  intros t. rewrite extract_terms_eq.
  destruct t as [c n|c|c i|c l|c l|c i l|c a|c a b]; try discriminate.
  unfold vec_insert. destruct (nlen l <? i); discriminate.
Qed.

Lemma incl_preserves_img_ok t :
  img_ok t = true -> Forall (fun x => img_ok x = true) (get_components_incl t).
Proof.
  intros H. destruct t as [c n|c|c i|c l|c l|c i l|c a|c a b]; cbn [get_components_incl];
    try (rewrite get_components_eq; cbn [comps_payload]).
  1-3: constructor; [exact H | constructor].
  - cbn [img_ok] in H. now apply Forall_forall, forallb_forall.
  - cbn [img_ok] in H. now apply Forall_forall, forallb_forall.
  - cbn [img_ok] in H. apply andb_true_iff in H as [Hi Hl]. apply N.leb_le in Hi.
    rewrite img_iter_0_le by exact Hi.
    assert (Hall : Forall (fun x => img_ok x = true) l) by now apply Forall_forall, forallb_forall.
    rewrite <- (take_drop (N.to_nat i) l) in Hall. apply Forall_app in Hall as [H1 H2].
    apply Forall_app; split; [exact H1 | constructor; [reflexivity | exact H2]].
  - constructor; [exact H | constructor].
  - cbn [img_ok] in H. apply andb_true_iff in H as [Ha Hb]. repeat constructor; assumption.
Qed.

Lemma extract_eq_incl_wf : forall t,
  img_ok t = true ->
  extract_terms t = ROk (get_components_incl t) /\
  Forall (fun x => img_ok x = true) (get_components_incl t).
Proof.
  intros t H. split; [apply extract_eq_incl; now apply img_ok_top | now apply incl_preserves_img_ok].
Qed.

Lemma image_placeholder : forall c i l, (i <= nlen l)%N ->
  nth_error (get_components_incl (TImg c i l)) (N.to_nat i) = Some placeholder /\
  length (get_components_incl (TImg c i l)) = S (length l) /\
  get_components (TImg c i l) = l /\
  get_components_incl (TImg c i l) = take (N.to_nat i) l ++ placeholder :: drop (N.to_nat i) l.
Proof.
  intros c i l H. cbn [get_components_incl]. rewrite get_components_eq. cbn [comps_payload].
  rewrite img_iter_0_le by exact H.
  assert (Hk : (N.to_nat i <= length l)%nat) by (unfold nlen in H; lia).
  pose proof (take_length_le _ _ Hk) as Ht.
  repeat split.
  - rewrite nth_error_app2 by lia. rewrite Ht, Nat.sub_diag. reflexivity.
  - rewrite app_length. cbn [length]. rewrite Ht, drop_length. lia.
Qed.

(* removing position i from the placeholder-including view gives back the placeholder-free view *)
Lemma image_remove_placeholder : forall c i l, (i <= nlen l)%N ->
  take (N.to_nat i) (get_components_incl (TImg c i l)) ++
  drop (S (N.to_nat i)) (get_components_incl (TImg c i l)) = get_components (TImg c i l).
Proof.
  intros c i l H. destruct (image_placeholder c i l H) as (_ & _ & -> & ->).
  assert (Hk : (N.to_nat i <= length l)%nat) by (unfold nlen in H; lia).
  pose proof (take_length_le _ _ Hk) as Ht.
  rewrite <- Ht at 1. rewrite take_app_length.
  rewrite <- Ht at 2. rewrite drop_S_app_length. apply take_drop.
Qed.

Lemma image_no_placeholder_beyond : forall c i l, (nlen l < i)%N -> get_components_incl (TImg c i l) = l.
Proof. intros c i l H. cbn [get_components_incl]. now apply img_iter_0_gt. Qed.

Lemma non_image_incl : forall t, (forall c i l, t <> TImg c i l) -> get_components_incl t = get_components t.
Proof. intros t H. destruct t; try reflexivity. exfalso; eapply H; reflexivity. Qed.

Lemma category_partition : forall t,
  (is_atom t = true /\ is_compound t = false /\ is_statement t = false) \/
  (is_atom t = false /\ is_compound t = true /\ is_statement t = false) \/
  (is_atom t = false /\ is_compound t = false /\ is_statement t = true).
Proof. intros t. unfold is_atom, is_compound, is_statement. destruct (category_of t); cbn; tauto. Qed.

(* which category each node form has *)
Lemma category_by_shape : forall t,
  is_atom t = (match t with TName _ _ | TUnit _ | TNum _ _ => true | _ => false end) /\
  is_statement t = (match t with TBox2 c _ _ => negb (box2_is_difference c) | _ => false end) /\
  is_compound t = (match t with
                   | TName _ _ | TUnit _ | TNum _ _ => false
                   | TBox2 c _ _ => box2_is_difference c
                   | _ => true end).
Proof.
  intros t. unfold is_atom, is_compound, is_statement. rewrite category_of_eq.
  destruct t as [c n|c|c i|c l|c l|c i l|c a|c a b]; try (repeat split; reflexivity).
  destruct (box2_is_difference c); repeat split; reflexivity.
Qed.

Lemma capacity_count : forall t,
  match capacity_of t with
  | CapAtom => is_atom t = true /\ get_components t = [t]
  | CapUnary => exists c a, t = TBox1 c a /\ get_components t = [a] /\ length (get_components t) = 1%nat
  | CapBinaryVec =>
      exists c a b, t = TBox2 c a b /\ get_components t = [a; b] /\ length (get_components t) = 2%nat /\
                    eqk_box2 c = EqPayload /\ hashk_box2 c = HashOrdered
  | CapBinarySet =>
      exists c a b, t = TBox2 c a b /\ get_components t = [a; b] /\ length (get_components t) = 2%nat /\
                    eqk_box2 c = EqSymmetric /\ hashk_box2 c = HashUnordered
  | CapVec =>
      (exists c l, t = TVec c l /\ get_components t = l /\ hashk_vec c = HashOrdered) \/
      (exists c i l, t = TImg c i l /\ get_components t = l /\ hashk_img c = HashIndexThenOrdered)
  | CapSet => exists c l, t = TSet c l /\ get_components t = l /\ hashk_set c = HashUnordered
  end.
Proof.
  intros t. rewrite get_components_eq.
  destruct t as [c n|c|c i|c l|c l|c i l|c a|c a b]; cbn [capacity_of comps_payload].
  - destruct (tbl_name c) as (_ & _ & Hc & ->). unfold is_atom; cbn [category_of]; now rewrite Hc.
  - destruct (tbl_unit c) as (_ & _ & Hc & ->). unfold is_atom; cbn [category_of]; now rewrite Hc.
  - destruct (tbl_num c) as (_ & _ & Hc & ->). unfold is_atom; cbn [category_of]; now rewrite Hc.
  - destruct (tbl_set c) as (_ & _ & _ & ->). destruct tbl_order as (Ho & _). destruct (Ho c) as (_ & _ & Hh).
    exists c, l. auto.
  - destruct (tbl_vec c) as (_ & _ & _ & ->). destruct tbl_order as (_ & Ho & _). destruct (Ho c) as (_ & _ & Hh).
    left. exists c, l. auto.
  - destruct (tbl_img c) as (_ & _ & _ & ->). destruct tbl_order as (_ & _ & Ho & _). destruct (Ho c) as (_ & _ & Hh).
    right. exists c, i, l. auto.
  - destruct (tbl_box1 c) as (_ & _ & _ & ->). exists c, a. auto.
  - destruct tbl_order as (_ & _ & _ & Ho).
    destruct (Ho c) as [(-> & He & Hh)|(-> & He & Hh)]; exists c, a, b; auto.
Qed.

Lemma atom_iff_capacity : forall t, is_atom t = true <-> capacity_of t = CapAtom.
Proof.
  intros t. unfold is_atom. rewrite category_of_eq, capacity_of_eq.
  destruct t as [c n|c|c i|c l|c l|c i l|c a|c a b]; cbn [category_eqb]; try (split; congruence).
  destruct (box2_is_difference c), (box2_is_symmetric c); cbn [category_eqb]; split; congruence.
Qed.

Lemma compound_components : forall t,
  get_compound_components t = if is_compound t then Some (get_components t) else None.
Proof. reflexivity. Qed.

Lemma compound_components_shape : forall t,
  get_compound_components t =
  match t with
  | TName _ _ | TUnit _ | TNum _ _ => None
  | TBox2 c a b => if box2_is_difference c then Some [a; b] else None
  | _ => Some (comps_payload t)
  end.
Proof.
  intros t. unfold get_compound_components. destruct (category_by_shape t) as (_ & _ & ->).
  rewrite get_components_eq. destruct t; reflexivity.
Qed.

Lemma lexical_extract : forall x,
  lextract x = match x with LAtom _ _ => [x] | LCompound _ ts => ts | LSet _ ts _ => ts | LStatement _ s p => [s; p] end.
Proof. intros x; destruct x; reflexivity. Qed.

Lemma lexical_category_partition : forall x,
  (category_eqb (lcategory x) CatAtom = true /\ category_eqb (lcategory x) CatCompound = false /\ category_eqb (lcategory x) CatStatement = false) \/
  (category_eqb (lcategory x) CatAtom = false /\ category_eqb (lcategory x) CatCompound = true /\ category_eqb (lcategory x) CatStatement = false) \/
  (category_eqb (lcategory x) CatAtom = false /\ category_eqb (lcategory x) CatCompound = false /\ category_eqb (lcategory x) CatStatement = true).
Proof. intros x. destruct (lcategory x); cbn; tauto. Qed.

Lemma lexical_capacity_count : forall x,
  match lcapacity x with
  | CapAtom => lcategory x = CatAtom /\ lextract x = [x]
  | CapBinaryVec => lcategory x = CatStatement /\ length (lextract x) = 2%nat
  | CapVec => lcategory x = CatCompound
  | _ => False
  end.
Proof. intros x; destruct x; cbn; auto. Qed.

(* ------------------------------------------------------------------ *)
(* non-vacuity *)

Definition ex_a : term := TName Word [97].
Definition ex_b : term := TName Word [98].

Example ex_img_end :   (* index = length: placeholder last *)
  img_ok (TImg ImageExtension 2 [ex_a; ex_b]) = true /\
  extract_terms (TImg ImageExtension 2 [ex_a; ex_b]) = ROk [ex_a; ex_b; placeholder] /\
  get_components_incl (TImg ImageExtension 2 [ex_a; ex_b]) = [ex_a; ex_b; placeholder].
Proof. vm_compute; auto. Qed.

Example ex_img_mid :
  extract_terms (TImg ImageIntension 1 [ex_a; ex_b]) = ROk [ex_a; placeholder; ex_b] /\
  get_components_incl (TImg ImageIntension 1 [ex_a; ex_b]) = [ex_a; placeholder; ex_b] /\
  get_components (TImg ImageIntension 1 [ex_a; ex_b]) = [ex_a; ex_b].
Proof. vm_compute; auto. Qed.

Example ex_img_beyond :   (* index > length: the borrowing accessor drops the placeholder, the consuming one panics *)
  extract_terms (TImg ImageExtension 3 [ex_a; ex_b]) = RPanic /\
  get_components_incl (TImg ImageExtension 3 [ex_a; ex_b]) = [ex_a; ex_b].
Proof. vm_compute; auto. Qed.

Example ex_nested_ok :
  img_ok (TBox2 Inheritance (TImg ImageExtension 0 []) (TSet SetExtension [TImg ImageIntension 1 [ex_a]])) = true.
Proof. vm_compute; reflexivity. Qed.

Example ex_non_image : forall c i l, TVec Product [ex_a] <> TImg c i l.
Proof. discriminate. Qed.

(* ------------------------------------------------------------------ *)
(* C15a: the Narsese value wrapper and its casts (generic payload types) *)

Definition is_some {A} (o : option A) : bool := match o with Some _ => true | None => false end.

Lemma nv_wrap_unwrap : forall (T S K : Type) (t : T) (s : S) (k : K),
  (* matching accessor returns the payload, the two others fail *)
  (try_into_term (NTerm t : nvalue T S K) = Some t /\
   try_into_sentence (NTerm t : nvalue T S K) = None /\
   try_into_task (NTerm t : nvalue T S K) = None) /\
  (try_into_term (NSentence s : nvalue T S K) = None /\
   try_into_sentence (NSentence s : nvalue T S K) = Some s /\
   try_into_task (NSentence s : nvalue T S K) = None) /\
  (try_into_term (NTask k : nvalue T S K) = None /\
   try_into_sentence (NTask k : nvalue T S K) = None /\
   try_into_task (NTask k : nvalue T S K) = Some k) /\
  (* the is_* predicates agree with the accessors, on every value, and exactly one holds *)
  (forall v : nvalue T S K,
     nv_is_term v = is_some (try_into_term v) /\
     nv_is_sentence v = is_some (try_into_sentence v) /\
     nv_is_task v = is_some (try_into_task v) /\
     ((nv_is_term v = true /\ nv_is_sentence v = false /\ nv_is_task v = false) \/
      (nv_is_term v = false /\ nv_is_sentence v = true /\ nv_is_task v = false) \/
      (nv_is_term v = false /\ nv_is_sentence v = false /\ nv_is_task v = true))).
Proof.
  intros. repeat split; try reflexivity; destruct v; cbn; tauto.
Qed.

(* try_into_X v = Some x  <->  v = from_X x *)
Lemma nv_unwrap_iff : forall (T S K : Type) (v : nvalue T S K),
  (forall t, try_into_term v = Some t <-> v = NTerm t) /\
  (forall s, try_into_sentence v = Some s <-> v = NSentence s) /\
  (forall k, try_into_task v = Some k <-> v = NTask k).
Proof.
  intros T S K v. repeat split; destruct v; cbn; congruence.
Qed.

Lemma nv_task_compatible : forall (T S K : Type) (cast : S -> K) (v : nvalue T S K),
  try_into_task_compatible cast v =
  match v with NTask k => Some k | NSentence s => Some (cast s) | NTerm _ => None end.
Proof. intros; destruct v; reflexivity. Qed.

Lemma nv_task_compatible_cor : forall (T S K : Type) (cast : S -> K) (v : nvalue T S K),
  (try_into_task_compatible cast v = None <-> nv_is_term v = true) /\
  (forall k, try_into_task v = Some k -> try_into_task_compatible cast v = Some k) /\
  (forall s, try_into_sentence v = Some s -> try_into_task_compatible cast v = Some (cast s)).
Proof. intros T S K cast v. repeat split; destruct v; cbn; congruence. Qed.

Lemma nv_value_cast : forall (T S K : Type) (tc : K -> S + K) (v : nvalue T S K),
  (* spelled out *)
  nv_try_cast_to_sentence tc v =
    match v with
    | NTerm t => inr (NTerm t)
    | NSentence s => inl (NSentence s)
    | NTask k => match tc k with inl s => inl (NSentence s) | inr k' => inr (NTask k') end
    end /\
  (* Ok only for a sentence (returned as is) or a task whose cast succeeds; the result is a sentence *)
  (forall r, nv_try_cast_to_sentence tc v = inl r ->
     nv_is_sentence r = true /\
     ((exists s, v = NSentence s /\ r = v) \/ (exists k s, v = NTask k /\ tc k = inl s /\ r = NSentence s))) /\
  (* Err only for a term (handed back as is) or a task whose cast fails; the value handed back has the
     same kind, and is the same value whenever the task cast hands its task back unchanged *)
  (forall r, nv_try_cast_to_sentence tc v = inr r ->
     ((exists t, v = NTerm t /\ r = v) \/ (exists k k', v = NTask k /\ tc k = inr k' /\ r = NTask k')) /\
     nv_is_term r = nv_is_term v /\ nv_is_sentence r = nv_is_sentence v /\ nv_is_task r = nv_is_task v /\
     ((forall k k', tc k = inr k' -> k' = k) -> r = v)).
Proof.
  intros T S K tc v. split; [destruct v; reflexivity|]. split.
  - intros r H. destruct v as [t|s|k]; cbn in H.
    + discriminate.
    + injection H as <-. split; [reflexivity|]. left; eauto.
    + destruct (tc k) as [s|k'] eqn:E; [|discriminate]. injection H as <-.
      split; [reflexivity|]. right; eauto.
  - intros r H. destruct v as [t|s|k]; cbn in H.
    + injection H as <-. split; [left; eauto|]. repeat split; reflexivity.
    + discriminate.
    + destruct (tc k) as [s|k'] eqn:E; [discriminate|]. injection H as <-.
      split; [right; eauto|]. repeat split; try reflexivity.
      intros Hback. now rewrite (Hback _ _ E).
Qed.

(* with lawful casts: sentence -> task -> sentence is the identity, through the wrapper too *)
Lemma nv_cast_roundtrip : forall (T S K : Type) (cast : S -> K) (tc : K -> S + K),
  (forall s, tc (cast s) = inl s) ->
  forall (s : S),
    nv_try_cast_to_sentence tc (NTask (cast s) : nvalue T S K) = inl (NSentence s) /\
    (forall k, try_into_task_compatible cast (NSentence s : nvalue T S K) = Some k ->
               nv_try_cast_to_sentence tc (NTask k : nvalue T S K) = inl (NSentence s)).
Proof.
  intros T S K cast tc Hlaw s. split.
  - cbn. now rewrite Hlaw.
  - cbn. intros k H. injection H as <-. now rewrite Hlaw.
Qed.

(* non-vacuity: sentences = N, tasks = N * bool ("budget empty?"), the cast laws hold *)
Definition ex_cast (s : N) : N * bool := (s, true).
Definition ex_tc (k : N * bool) : N + N * bool := if snd k then inl (fst k) else inr k.

Example ex_cast_law : forall s, ex_tc (ex_cast s) = inl s.
Proof. reflexivity. Qed.

Example ex_tc_back : forall k k', ex_tc k = inr k' -> k' = k.
Proof. intros [n [|]] k'; cbn; congruence. Qed.

Example ex_value_cast :
  nv_try_cast_to_sentence ex_tc (NTask (5, true) : nvalue unit N (N * bool)) = inl (NSentence 5) /\
  nv_try_cast_to_sentence ex_tc (NTask (5, false) : nvalue unit N (N * bool)) = inr (NTask (5, false)) /\
  nv_try_cast_to_sentence ex_tc (NTerm tt : nvalue unit N (N * bool)) = inr (NTerm tt) /\
  nv_try_cast_to_sentence ex_tc (NSentence 5 : nvalue unit N (N * bool)) = inl (NSentence 5) /\
  try_into_task_compatible ex_cast (NSentence 5 : nvalue unit N (N * bool)) = Some (5, true).
Proof. vm_compute; auto. Qed.
