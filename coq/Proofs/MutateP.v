(* Proofs/MutateP.v -- C17: Term::set_atom_name / push_components (Model/Mutate.v) and get_atom_name
   (Model/Access.v) against the regenerated tables of Gen/TermGen.v. *)
From Nv Require Import Base.Str Base.Dec Model.Term Model.EqHash Model.Access Model.Mutate.
From Nv Require Import Proofs.DecP Proofs.AccessP.

(* ------------------------------------------------------------------ *)
(* table obligations *)

Definition setname_kind_eqb (a b : setname_kind) : bool :=
  match a, b with
  | SnReplace, SnReplace | SnNoop, SnNoop | SnParseUInt, SnParseUInt | SnErr, SnErr => true
  | _, _ => false
  end.

Definition push_kind_eqb (a b : push_kind) : bool :=
  match a, b with
  | PushErr, PushErr | PushVecExtend, PushVecExtend | PushSetExtend, PushSetExtend => true
  | _, _ => false
  end.

Definition getname_kind_eqb (a b : getname_kind) : bool :=
  match a, b with
  | GnPayload, GnPayload | GnEmpty, GnEmpty | GnDecimal, GnDecimal | GnPanic, GnPanic => true
  | _, _ => false
  end.

Definition mrow_ok (s : setname_kind) (p : push_kind) (g : getname_kind)
                   (s' : setname_kind) (p' : push_kind) (g' : getname_kind) : bool :=
  setname_kind_eqb s s' && push_kind_eqb p p' && getname_kind_eqb g g'.

Definition mutate_tables_ok : bool :=
  forallb (fun c => mrow_ok (setnamek_name c) (pushk_name c) (getnamek_name c) SnReplace PushErr GnPayload) all_name_ctor &&
  forallb (fun c => mrow_ok (setnamek_unit c) (pushk_unit c) (getnamek_unit c) SnNoop PushErr GnEmpty) all_unit_ctor &&
  forallb (fun c => mrow_ok (setnamek_num c) (pushk_num c) (getnamek_num c) SnParseUInt PushErr GnDecimal) all_num_ctor &&
  forallb (fun c => mrow_ok (setnamek_set c) (pushk_set c) (getnamek_set c) SnErr PushSetExtend GnPanic) all_set_ctor &&
  forallb (fun c => mrow_ok (setnamek_vec c) (pushk_vec c) (getnamek_vec c) SnErr PushVecExtend GnPanic) all_vec_ctor &&
  forallb (fun c => mrow_ok (setnamek_img c) (pushk_img c) (getnamek_img c) SnErr PushVecExtend GnPanic) all_img_ctor &&
  forallb (fun c => mrow_ok (setnamek_box1 c) (pushk_box1 c) (getnamek_box1 c) SnErr PushErr GnPanic) all_box1_ctor &&
  forallb (fun c => mrow_ok (setnamek_box2 c) (pushk_box2 c) (getnamek_box2 c) SnErr PushErr GnPanic) all_box2_ctor.

Lemma mutate_tables_ok_true : mutate_tables_ok = true.
Proof. vm_compute; reflexivity. Qed.

(* the same content per constructor *)
Lemma mtbl_name c : setnamek_name c = SnReplace /\ pushk_name c = PushErr /\ getnamek_name c = GnPayload.
Proof. destruct c; repeat split; reflexivity. Qed.
Lemma mtbl_unit c : setnamek_unit c = SnNoop /\ pushk_unit c = PushErr /\ getnamek_unit c = GnEmpty.
Proof. destruct c; repeat split; reflexivity. Qed.
Lemma mtbl_num c : setnamek_num c = SnParseUInt /\ pushk_num c = PushErr /\ getnamek_num c = GnDecimal.
Proof. destruct c; repeat split; reflexivity. Qed.
Lemma mtbl_set c : setnamek_set c = SnErr /\ pushk_set c = PushSetExtend /\ getnamek_set c = GnPanic.
Proof. destruct c; repeat split; reflexivity. Qed.
Lemma mtbl_vec c : setnamek_vec c = SnErr /\ pushk_vec c = PushVecExtend /\ getnamek_vec c = GnPanic.
Proof. destruct c; repeat split; reflexivity. Qed.
Lemma mtbl_img c : setnamek_img c = SnErr /\ pushk_img c = PushVecExtend /\ getnamek_img c = GnPanic.
Proof. destruct c; repeat split; reflexivity. Qed.
Lemma mtbl_box1 c : setnamek_box1 c = SnErr /\ pushk_box1 c = PushErr /\ getnamek_box1 c = GnPanic.
Proof. destruct c; repeat split; reflexivity. Qed.
Lemma mtbl_box2 c : setnamek_box2 c = SnErr /\ pushk_box2 c = PushErr /\ getnamek_box2 c = GnPanic.
Proof. destruct c; repeat split; reflexivity. Qed.

(* ------------------------------------------------------------------ *)
(* closed forms *)

Lemma set_atom_name_eq t new :
  set_atom_name t new =
  match t with
  | TName c _ => (true, TName c new)
  | TUnit _ => (true, t)
  | TNum c _ => match read_usize new with Some v => (true, TNum c v) | None => (false, t) end
  | _ => (false, t)
  end.
Proof. term_cases t; reflexivity. Qed.

Lemma push_components_eq t news :
  push_components t news =
  match t with
  | TVec c l => (true, TVec c (l ++ news))
  | TImg c i l => (true, TImg c i (l ++ news))
  | TSet c l => (true, TSet c (set_extend l news))
  | _ => (false, t)
  end.
Proof. term_cases t; reflexivity. Qed.

Lemma get_atom_name_unchecked_eq t :
  get_atom_name_unchecked t =
  match t with
  | TName _ n => ROk n
  | TUnit _ => ROk []
  | TNum _ i => ROk (show_N i)
  | _ => RPanic
  end.
Proof. term_cases t; reflexivity. Qed.

Lemma get_atom_name_eq t :
  get_atom_name t =
  match t with
  | TName _ n => ROk (Some n)
  | TUnit _ => ROk (Some [])
  | TNum _ i => ROk (Some (show_N i))
  | _ => ROk None
  end.
Proof. term_cases t; reflexivity. Qed.

(* ------------------------------------------------------------------ *)
(* set_atom_name *)

Lemma set_name_named : forall c n new,
  set_atom_name (TName c n) new = (true, TName c new) /\ get_atom_name (TName c new) = ROk (Some new).
Proof. intros. now rewrite set_atom_name_eq, get_atom_name_eq. Qed.

Lemma set_name_interval : forall c i new,
  set_atom_name (TNum c i) new =
  match read_usize new with Some v => (true, TNum c v) | None => (false, TNum c i) end.
Proof. intros. now rewrite set_atom_name_eq. Qed.

(* succeeds iff optional '+', then >= 1 ASCII digits only, value <= usize_max; then stores that value;
   otherwise fails and leaves the interval unchanged; a successful rename to the canonical decimal
   is read back verbatim *)
Lemma set_name_interval_spec :
  (forall c i new v,
     set_atom_name (TNum c i) new = (true, TNum c v) <->
     exists body, (new = body \/ new = 43 :: body) /\ body <> [] /\
                  Forall (fun ch => is_ascii_digit ch = true) body /\
                  read_digits body = Some v /\ v = dec_val body /\ (v <= usize_max)%N) /\
  (forall c i new,
     fst (set_atom_name (TNum c i) new) = true <->
     exists body, (new = body \/ new = 43 :: body) /\ body <> [] /\
                  Forall (fun ch => is_ascii_digit ch = true) body /\ (dec_val body <= usize_max)%N) /\
  (forall c i new, fst (set_atom_name (TNum c i) new) = false -> set_atom_name (TNum c i) new = (false, TNum c i)) /\
  (forall c i v, (v <= usize_max)%N ->
     set_atom_name (TNum c i) (show_N v) = (true, TNum c v) /\
     set_atom_name (TNum c i) (43 :: show_N v) = (true, TNum c v) /\
     get_atom_name (TNum c v) = ROk (Some (show_N v))).
Proof.
  repeat split.
  - rewrite set_name_interval. destruct (read_usize new) as [w|] eqn:E; [|discriminate].
    intros H. injection H as <-. now apply read_usize_spec.
  - intros H. apply read_usize_spec in H. rewrite set_name_interval, H. reflexivity.
  - rewrite set_name_interval. destruct (read_usize new) as [w|] eqn:E; [|discriminate].
    intros _. apply read_usize_spec in E as (body & Hs & Hn & Hd & _ & -> & Hle). exists body; auto.
  - intros H. rewrite set_name_interval. destruct (read_usize new) as [w|] eqn:E; [reflexivity|].
    exfalso. apply read_usize_none_iff in E. exact (E H).
  - intros c i new. rewrite set_name_interval. destruct (read_usize new); [discriminate | reflexivity].
  - rewrite set_name_interval, read_usize_show by assumption. reflexivity.
  - rewrite set_name_interval, read_usize_plus by assumption. reflexivity.
  - now rewrite get_atom_name_eq.
Qed.

Lemma set_name_placeholder : forall c new, set_atom_name (TUnit c) new = (true, TUnit c).
Proof. intros. now rewrite set_atom_name_eq. Qed.

Lemma set_name_other : forall t new, is_atom t = false -> set_atom_name t new = (false, t).
Proof.
  intros t new H. rewrite set_atom_name_eq. destruct (category_by_shape t) as (Ha & _). rewrite H in Ha.
  destruct t; try discriminate; reflexivity.
Qed.

Lemma set_name_err_unchanged : forall t new b t', set_atom_name t new = (b, t') -> b = false -> t' = t.
Proof.
  intros t new b t' H ->. rewrite set_atom_name_eq in H.
  destruct t; try congruence. destruct (read_usize new); congruence.
Qed.

(* ------------------------------------------------------------------ *)
(* push_components *)

Lemma push_vec : forall c l news, push_components (TVec c l) news = (true, TVec c (l ++ news)).
Proof. intros. now rewrite push_components_eq. Qed.

Lemma push_img : forall c i l news, push_components (TImg c i l) news = (true, TImg c i (l ++ news)).
Proof. intros. now rewrite push_components_eq. Qed.

Lemma push_set : forall c l news, push_components (TSet c l) news = (true, TSet c (set_extend l news)).
Proof. intros. now rewrite push_components_eq. Qed.

Lemma set_mem_app x l r : set_mem x (l ++ r) = set_mem x l || set_mem x r.
Proof. unfold set_mem. apply existsb_app. Qed.

(* old elements are kept, in order, as a prefix; everything after them comes from the new list *)
Lemma set_extend_prefix : forall news l,
  exists suffix, set_extend l news = l ++ suffix /\ (forall y, In y suffix -> In y news).
Proof.
  unfold set_extend. induction news as [|x news IH]; intros l; cbn [fold_left].
  - exists []. split; [now rewrite app_nil_r | intros y []].
  - destruct (IH (set_insert l x)) as (suf & E & Hs). unfold set_insert in *.
    destruct (set_mem x l).
    + exists suf. split; [exact E | intros y Hy; right; auto].
    + exists (x :: suf). split.
      * rewrite E, <- app_assoc. reflexivity.
      * intros y [<-|Hy]; [now left | right; auto].
Qed.

Lemma set_extend_mem_old : forall l news x, set_mem x l = true -> set_mem x (set_extend l news) = true.
Proof.
  intros l news x H. destruct (set_extend_prefix news l) as (suf & -> & _).
  now rewrite set_mem_app, H.
Qed.

(* every new element whose self-comparison succeeds is a member afterwards *)
Lemma set_extend_mem_new : forall news l x,
  In x news -> term_eqb x x = true -> set_mem x (set_extend l news) = true.
Proof.
  induction news as [|y news IH]; intros l x Hin Hrefl; [destruct Hin|].
  change (set_extend l (y :: news)) with (set_extend (set_insert l y) news).
  destruct Hin as [->|Hin]; [|now apply IH].
  apply set_extend_mem_old. unfold set_insert. destruct (set_mem x l) eqn:E; [exact E|].
  rewrite set_mem_app. unfold set_mem at 2. cbn [existsb]. rewrite Hrefl. now rewrite orb_true_r.
Qed.

(* nothing foreign is added: a member afterwards is equal (term_eqb) to an old or a new element *)
Lemma set_extend_mem_inv : forall l news x,
  set_mem x (set_extend l news) = true -> set_mem x l = true \/ set_mem x news = true.
Proof.
  intros l news x H. destruct (set_extend_prefix news l) as (suf & E & Hs). rewrite E, set_mem_app in H.
  apply orb_true_iff in H as [H|H]; [now left | right].
  unfold set_mem in *. apply existsb_exists in H as (e & He & Hx). apply existsb_exists. exists e; auto.
Qed.

Lemma push_set_members : forall l news,
  (exists suffix, set_extend l news = l ++ suffix /\ (forall y, In y suffix -> In y news)) /\
  (forall x, In x l -> In x (set_extend l news)) /\
  (forall x, set_mem x l = true -> set_mem x (set_extend l news) = true) /\
  (forall x, In x news -> term_eqb x x = true -> set_mem x (set_extend l news) = true) /\
  (forall x, set_mem x (set_extend l news) = true -> set_mem x l = true \/ set_mem x news = true).
Proof.
  intros l news. split; [apply set_extend_prefix|]. split.
  - intros x H. destruct (set_extend_prefix news l) as (suf & -> & _). apply in_or_app; now left.
  - split; [intros; now apply set_extend_mem_old|]. split; [intros; now apply set_extend_mem_new|].
    intros; now apply set_extend_mem_inv.
Qed.

Lemma push_fixed : forall t news,
  (match t with TVec _ _ | TImg _ _ _ | TSet _ _ => False | _ => True end) ->
  push_components t news = (false, t).
Proof. intros t news H. rewrite push_components_eq. destruct t; try reflexivity; destruct H. Qed.

(* the fixed-arity forms, by category/capacity: atoms, negation, differences, statements *)
Lemma push_fixed_capacity : forall t news,
  fst (push_components t news) = false <->
  (capacity_of t <> CapVec /\ capacity_of t <> CapSet).
Proof.
  intros t news. rewrite push_components_eq, capacity_of_eq.
  destruct t as [c n|c|c i|c l|c l|c i l|c a|c a b]; cbn [fst];
    try (split; [intros _; split; discriminate | reflexivity]);
    try (split; [discriminate | intros [H1 H2]; congruence]).
  destruct (box2_is_symmetric c); split; try reflexivity; intros _; split; discriminate.
Qed.

Lemma push_err_unchanged : forall t news b t', push_components t news = (b, t') -> b = false -> t' = t.
Proof. intros t news b t' H ->. rewrite push_components_eq in H. destruct t; congruence. Qed.

(* ------------------------------------------------------------------ *)
(* non-vacuity *)

Example ex_set_name_interval_ok :
  set_atom_name (TNum Interval 7) [43; 48; 52; 50] = (true, TNum Interval 42).
Proof. vm_compute; reflexivity. Qed.

Example ex_set_name_interval_bad :
  set_atom_name (TNum Interval 7) [45; 53] = (false, TNum Interval 7) /\
  set_atom_name (TNum Interval 7) [] = (false, TNum Interval 7) /\
  set_atom_name (TNum Interval 7) (show_N (usize_max + 1)) = (false, TNum Interval 7) /\
  set_atom_name (TNum Interval 7) (show_N usize_max) = (true, TNum Interval usize_max).
Proof. vm_compute; auto. Qed.

Example ex_set_name_other :
  is_atom (TBox1 Negation ex_a) = false /\ set_atom_name (TBox1 Negation ex_a) [97] = (false, TBox1 Negation ex_a).
Proof. vm_compute; auto. Qed.

Example ex_push_set :
  push_components (TSet SetExtension [ex_a]) [ex_b; ex_a; ex_b] = (true, TSet SetExtension [ex_a; ex_b]).
Proof. vm_compute; reflexivity. Qed.

Example ex_push_img :
  push_components (TImg ImageExtension 1 [ex_a]) [ex_b] = (true, TImg ImageExtension 1 [ex_a; ex_b]).
Proof. vm_compute; reflexivity. Qed.

Example ex_push_fixed :
  push_components (TBox2 Inheritance ex_a ex_b) [ex_a] = (false, TBox2 Inheritance ex_a ex_b) /\
  push_components (TBox2 DifferenceExtension ex_a ex_b) [ex_a] = (false, TBox2 DifferenceExtension ex_a ex_b) /\
  push_components ex_a [ex_b] = (false, ex_a).
Proof. vm_compute; auto. Qed.

Example ex_refl_premise : term_eqb ex_b ex_b = true.
Proof. vm_compute; reflexivity. Qed.

(* ------------------------------------------------------------------ *)
(* push on a set, full membership law -- relative to transitivity of term_eqb (C06 territory) *)

Lemma set_extend_mem_new_trans :
  (forall a b c, term_eqb a b = true -> term_eqb b c = true -> term_eqb a c = true) ->
  forall news l x, set_mem x news = true -> set_mem x (set_extend l news) = true.
Proof.
  intros Htr. induction news as [|y news IH]; intros l x H; [discriminate|].
  change (set_extend l (y :: news)) with (set_extend (set_insert l y) news).
  unfold set_mem in H. cbn [existsb] in H. apply orb_true_iff in H as [H|H]; [|now apply IH].
  apply set_extend_mem_old. unfold set_insert. destruct (set_mem y l) eqn:E.
  - unfold set_mem in *. apply existsb_exists in E as (e & He & Hye). apply existsb_exists.
    exists e. split; [exact He | eapply Htr; eauto].
  - rewrite set_mem_app. unfold set_mem at 2. cbn [existsb]. rewrite H. now rewrite orb_true_r.
Qed.

Lemma push_set_members_trans :
  (forall a b c, term_eqb a b = true -> term_eqb b c = true -> term_eqb a c = true) ->
  forall l news x, set_mem x (set_extend l news) = set_mem x l || set_mem x news.
Proof.
  intros Htr l news x. destruct (set_mem x (set_extend l news)) eqn:E.
  - symmetry. apply orb_true_iff. now apply set_extend_mem_inv.
  - symmetry. apply orb_false_iff. split.
    + destruct (set_mem x l) eqn:E1; [|reflexivity]. rewrite set_extend_mem_old in E; congruence.
    + destruct (set_mem x news) eqn:E2; [|reflexivity].
      rewrite (set_extend_mem_new_trans Htr) in E; congruence.
Qed.

(* pushing = rebuilding the set from old ++ new *)
Lemma push_set_mk_set : forall l news, mk_set (l ++ news) = set_extend (mk_set l) news.
Proof. intros. unfold mk_set, set_extend. apply fold_left_app. Qed.

(* ------------------------------------------------------------------ *)
(* transitivity of term_eqb, for every content of the eqk_* tables (proved locally so that the
   membership law of push on sets is unconditional) *)

Lemma eq1_trans k p1 p2 p3 :
  (p1 = true -> p2 = true -> p3 = true) -> eq1 k p1 = true -> eq1 k p2 = true -> eq1 k p3 = true.
Proof. destruct k; cbn [eq1]; auto. Qed.

Lemma list_eqb_trans {A} (f : A -> A -> bool) : forall l,
  Forall (fun x => forall y z, f x y = true -> f y z = true -> f x z = true) l ->
  forall l' l'', list_eqb f l l' = true -> list_eqb f l' l'' = true -> list_eqb f l l'' = true.
Proof.
  induction 1 as [|x l Hx _ IH]; intros [|y l'] [|z l'']; cbn [list_eqb]; try discriminate; auto.
  rewrite !andb_true_iff. intros [H1 H2] [H3 H4]. split; [eapply Hx; eauto | eapply IH; eauto].
Qed.

Lemma sub_eqb_trans {A} (f : A -> A -> bool) : forall l,
  Forall (fun x => forall y z, f x y = true -> f y z = true -> f x z = true) l ->
  forall l' l'',
    forallb (fun k => existsb (fun e => f k e) l') l = true ->
    forallb (fun k => existsb (fun e => f k e) l'') l' = true ->
    forallb (fun k => existsb (fun e => f k e) l'') l = true.
Proof.
  intros l HP l' l'' H1 H2. rewrite forallb_forall in *. rewrite Forall_forall in HP.
  intros k Hk. specialize (H1 k Hk). apply existsb_exists in H1 as (e' & He' & Hke').
  specialize (H2 e' He'). apply existsb_exists in H2 as (e'' & He'' & Hee).
  apply existsb_exists. exists e''. split; [exact He'' | eapply HP; eauto].
Qed.

Lemma name_ctor_eqb_eq a b : name_ctor_eqb a b = true -> a = b.
Proof. destruct a, b; try discriminate; reflexivity. Qed.
Lemma unit_ctor_eqb_eq a b : unit_ctor_eqb a b = true -> a = b.
Proof. destruct a, b; try discriminate; reflexivity. Qed.
Lemma num_ctor_eqb_eq a b : num_ctor_eqb a b = true -> a = b.
Proof. destruct a, b; try discriminate; reflexivity. Qed.
Lemma set_ctor_eqb_eq a b : set_ctor_eqb a b = true -> a = b.
Proof. destruct a, b; try discriminate; reflexivity. Qed.
Lemma vec_ctor_eqb_eq a b : vec_ctor_eqb a b = true -> a = b.
Proof. destruct a, b; try discriminate; reflexivity. Qed.
Lemma img_ctor_eqb_eq a b : img_ctor_eqb a b = true -> a = b.
Proof. destruct a, b; try discriminate; reflexivity. Qed.
Lemma box1_ctor_eqb_eq a b : box1_ctor_eqb a b = true -> a = b.
Proof. destruct a, b; try discriminate; reflexivity. Qed.
Lemma box2_ctor_eqb_eq a b : box2_ctor_eqb a b = true -> a = b.
Proof. destruct a, b; try discriminate; reflexivity. Qed.

Lemma term_eqb_trans : forall a b c,
  term_eqb a b = true -> term_eqb b c = true -> term_eqb a c = true.
Proof.
  induction a as [k n|k|k i|k l IH|k l IH|k i l IH|k x IHx|k x y IHx IHy] using term_ind';
    intros b c Hab Hbc;
    destruct b as [k1 n1|k1|k1 i1|k1 l1|k1 l1|k1 i1 l1|k1 x1|k1 x1 y1]; try discriminate Hab;
    destruct c as [k2 n2|k2|k2 i2|k2 l2|k2 l2|k2 i2 l2|k2 x2|k2 x2 y2]; try discriminate Hbc;
    cbn [term_eqb] in *;
    apply andb_true_iff in Hab as [Hk Hab]; apply andb_true_iff in Hbc as [Hk' Hbc];
    apply andb_true_iff.
  - apply name_ctor_eqb_eq in Hk as <-. split; [exact Hk'|]. apply name_ctor_eqb_eq in Hk' as <-.
    revert Hab Hbc. apply eq1_trans. rewrite !str_eqb_eq. congruence.
  - apply unit_ctor_eqb_eq in Hk as <-. split; [exact Hk'|]. exact Hab.
  - apply num_ctor_eqb_eq in Hk as <-. split; [exact Hk'|]. apply num_ctor_eqb_eq in Hk' as <-.
    revert Hab Hbc. apply eq1_trans. rewrite !N.eqb_eq. congruence.
  - apply set_ctor_eqb_eq in Hk as <-. split; [exact Hk'|]. apply set_ctor_eqb_eq in Hk' as <-.
    revert Hab Hbc. apply eq1_trans. rewrite !andb_true_iff, !Nat.eqb_eq.
    intros [E1 S1] [E2 S2]. split; [congruence|]. eapply sub_eqb_trans; eauto.
  - apply vec_ctor_eqb_eq in Hk as <-. split; [exact Hk'|]. apply vec_ctor_eqb_eq in Hk' as <-.
    revert Hab Hbc. apply eq1_trans. intros; eapply list_eqb_trans; eauto.
  - apply img_ctor_eqb_eq in Hk as <-. split; [exact Hk'|]. apply img_ctor_eqb_eq in Hk' as <-.
    destruct (eqk_img k); try discriminate; auto.
    + apply andb_true_iff in Hab as [A1 A2]. apply andb_true_iff in Hbc as [B1 B2].
      apply andb_true_iff. split.
      * apply N.eqb_eq in A1, B1. apply N.eqb_eq. congruence.
      * eapply list_eqb_trans; eauto.
    + apply N.eqb_eq in Hab, Hbc. apply N.eqb_eq. congruence.
    + eapply list_eqb_trans; eauto.
  - apply box1_ctor_eqb_eq in Hk as <-. split; [exact Hk'|]. apply box1_ctor_eqb_eq in Hk' as <-.
    revert Hab Hbc. apply eq1_trans. intros; eapply IHx; eauto.
  - apply box2_ctor_eqb_eq in Hk as <-. split; [exact Hk'|]. apply box2_ctor_eqb_eq in Hk' as <-.
    destruct (eqk_box2 k); try discriminate; auto.
    + apply andb_true_iff in Hab as [A1 A2]. apply andb_true_iff in Hbc as [B1 B2].
      apply andb_true_iff. split; [eapply IHx | eapply IHy]; eauto.
    + apply orb_true_iff in Hab as [Hab|Hab]; apply andb_true_iff in Hab as [A1 A2];
      apply orb_true_iff in Hbc as [Hbc|Hbc]; apply andb_true_iff in Hbc as [B1 B2];
      apply orb_true_iff.
      * left. apply andb_true_iff. split; [eapply IHx | eapply IHy]; eauto.
      * right. apply andb_true_iff. split; [eapply IHx | eapply IHy]; eauto.
      * right. apply andb_true_iff. split; [eapply IHx | eapply IHy]; eauto.
      * left. apply andb_true_iff. split; [eapply IHx | eapply IHy]; eauto.
Qed.

Lemma push_set_members_full : forall l news x,
  set_mem x (set_extend l news) = set_mem x l || set_mem x news.
Proof. exact (push_set_members_trans term_eqb_trans). Qed.
