(* Proofs/FoldP2.v -- C03 / C10 at the fold level:
   (iv) the lexical and the enum format instance of the same name describe the same vocabulary
        ([vocab_same]); every fold arm builds what the enum parser's arm for the same keyword builds
        ([fold_arms_match_parser], both directions) and what the enum formatter prints that keyword for;
   (v)  desugaring equations: derived copulas, image index, interval, placeholder;
        folding is invariant under expanding the derived copulas at any nesting depth ([fold_unsugar]);
   (vi) folding the lexical tree of what the enum formatter prints for a term gives the term back
        ([fold_lex_of_term]) -- the fold third of C03 (the other two thirds, "the lexical parser returns
        that tree" and "the enum parser returns the term", are C02 / C01). *)
From Nv Require Import Base.Str Base.Dec Model.Term Model.EqHash Model.Access Model.Sentence.
From Nv Require Import Model.EnumFormat Model.EnumFormatter Model.EnumParser Model.Fold Gen.LexVocab.
From Nv Require Import Proofs.EqHashP Proofs.AccessP Proofs.DecP Proofs.FoldP.

(* ------------------------------------------------------------------ *)
(* (iv.a) same vocabulary *)

Definition str_mem (x : str) (l : list str) : bool := existsb (str_eqb x) l.
Definition str_set_eqb (a b : list str) : bool :=
  Nat.eqb (length a) (length b) && str_nodup a && str_nodup b &&
  forallb (fun x => str_mem x b) a && forallb (fun x => str_mem x a) b.

Definition pair_eqb (p q : str * str) : bool := str_eqb (fst p) (fst q) && str_eqb (snd p) (snd q).
Fixpoint pair_nodup (l : list (str * str)) : bool :=
  match l with
  | [] => true
  | x :: l' => negb (existsb (pair_eqb x) l') && pair_nodup l'
  end.
Definition pair_set_eqb (a b : list (str * str)) : bool :=
  Nat.eqb (length a) (length b) && pair_nodup a && pair_nodup b &&
  forallb (fun x => existsb (pair_eqb x) b) a && forallb (fun x => existsb (pair_eqb x) a) b.

Definition keys2 {A} (E : efmt) (arms : list ((efmt -> str) * (efmt -> str) * A)) : list (str * str) :=
  map (fun a => (fst (fst a) E, snd (fst a) E)) arms.

(* the stamp forms of an enum format as (left, right) bracket pairs around the content, the way the
   lexical format lists them: the three enumerated stamps have an empty left part and the whole text as
   right part; the fixed stamp has its number between `left bracket + marker` and `right bracket` *)
Definition enum_stamp_pairs (E : efmt) : list (str * str) :=
  map (fun a : (efmt -> str) * (efmt -> str) * stamp_arm =>
         match snd a with
         | SAFixed => (sentence_stamp_brackets_0 E ++ snd (fst a) E, sentence_stamp_brackets_1 E)
         | _ => ([], sentence_stamp_brackets_0 E ++ snd (fst a) E ++ sentence_stamp_brackets_1 E)
         end) stamp_arms.

(* every keyword class of the lexical format is, as a set, the key set of the corresponding FOLD arm
   table (resp. of the enum parser's punctuation / stamp arm tables) evaluated in the enum format;
   brackets, separators and formatting spaces are equal field by field *)
Definition vocab_same (L : lexvocab) (E : efmt) : bool :=
  str_set_eqb (lv_prefixes L) (keys E fold_atom_arms) &&
  str_set_eqb (lv_connecters L) (keys E fold_compound_arms) &&
  str_set_eqb (lv_copulas L) (keys E fold_statement_arms) &&
  str_set_eqb (lv_copulas L) (gen_copulas E) &&
  pair_set_eqb (lv_set_brackets L) (keys2 E fold_set_arms) &&
  str_set_eqb (lv_punctuations L) (map (fun a : (efmt -> str) * (efmt -> str) * punct => snd (fst a) E) punct_arms) &&
  pair_set_eqb (lv_stamp_brackets L) (enum_stamp_pairs E) &&
  pair_eqb (lv_brackets L) (compound_brackets_0 E, compound_brackets_1 E) &&
  str_eqb (lv_separator L) (compound_separator E) &&
  pair_eqb (lv_statement_brackets L) (statement_brackets_0 E, statement_brackets_1 E) &&
  pair_eqb (lv_truth_brackets L) (sentence_truth_brackets_0 E, sentence_truth_brackets_1 E) &&
  str_eqb (lv_truth_separator L) (sentence_truth_separator E) &&
  pair_eqb (lv_budget_brackets L) (task_budget_brackets_0 E, task_budget_brackets_1 E) &&
  str_eqb (lv_budget_separator L) (task_budget_separator E) &&
  str_eqb (lv_format_terms L) (space_format_terms E) &&
  str_eqb (lv_format_items L) (space_format_items E).

Lemma vocab_same_shipped :
  vocab_same LEX_FORMAT_ASCII FORMAT_ASCII = true /\
  vocab_same LEX_FORMAT_LATEX FORMAT_LATEX = true /\
  vocab_same LEX_FORMAT_HAN FORMAT_HAN = true.
Proof. repeat split; vm_compute; reflexivity. Qed.

(* the check is not vacuous: formats of different names do not pass it *)
Lemma vocab_same_discriminates :
  vocab_same LEX_FORMAT_ASCII FORMAT_LATEX = false /\ vocab_same LEX_FORMAT_HAN FORMAT_ASCII = false.
Proof. split; vm_compute; reflexivity. Qed.

(* ------------------------------------------------------------------ *)
(* (iv.b) fold arms vs. enum parser arms *)

Definition helper_eqb (a b : helper_kind) : bool :=
  match a, b with
  | HelperInstance, HelperInstance | HelperProperty, HelperProperty
  | HelperInstanceProperty, HelperInstanceProperty | HelperSwapEquivPred, HelperSwapEquivPred => true
  | _, _ => false
  end.

Definition atom_match (i : atom_init) (a : atom_fold) : bool :=
  match i, a with
  | AIName c, AFName c' => name_ctor_eqb c c'
  | AIUnit c, AFUnit c' => unit_ctor_eqb c c'
  | AINum c, AFParseUInt c' => num_ctor_eqb c c'
  | _, _ => false
  end.
Definition comp_match (i : comp_init) (a : comp_fold) : bool :=
  match i, a with
  | CISet c, CFSet c' => set_ctor_eqb c c'
  | CIVec c, CFVec c' => vec_ctor_eqb c c'
  | CIImg c, CFImage c' => img_ctor_eqb c c'
  | CIBox1 c, CFFirst c' => box1_ctor_eqb c c'
  | CIBox2 c, CFFirstTwo c' => box2_ctor_eqb c c'
  | _, _ => false
  end.
Definition stmt_match (b b' : stmt_build) : bool :=
  match b, b' with
  | SBCtor c, SBCtor c' => box2_ctor_eqb c c'
  | SBHelper h, SBHelper h' => helper_eqb h h'
  | _, _ => false
  end.

(* membership of an arm with a given KEY FIELD: the key is compared as a record projection
   (by conversion), so the proofs below do not depend on any keyword text *)
Ltac find_in := cbn [In]; repeat first [left; reflexivity | right].
Ltac arms_related :=
  repeat constructor; cbn [fst snd]; eexists; (split; [solve [find_in] | reflexivity]).

Lemma atom_arms_parser_to_fold :
  Forall (fun gi => exists a, In (fst gi, a) fold_atom_arms /\ atom_match (snd gi) a = true) parse_atom_arms.
Proof. arms_related. Qed.
Lemma atom_arms_fold_to_parser :
  Forall (fun ga => exists i, In (fst ga, i) parse_atom_arms /\ atom_match i (snd ga) = true) fold_atom_arms.
Proof. arms_related. Qed.
Lemma compound_arms_parser_to_fold :
  Forall (fun gi => exists a, In (fst gi, a) fold_compound_arms /\ comp_match (snd gi) a = true) parse_compound_arms.
Proof. arms_related. Qed.
Lemma compound_arms_fold_to_parser :
  Forall (fun ga => exists i, In (fst ga, i) parse_compound_arms /\ comp_match i (snd ga) = true) fold_compound_arms.
Proof. arms_related. Qed.
Lemma statement_arms_parser_to_fold :
  Forall (fun gi => exists a, In (fst gi, a) fold_statement_arms /\ stmt_match (snd gi) a = true) parse_statement_arms.
Proof. arms_related. Qed.
Lemma statement_arms_fold_to_parser :
  Forall (fun ga => exists i, In (fst ga, i) parse_statement_arms /\ stmt_match i (snd ga) = true) fold_statement_arms.
Proof. arms_related. Qed.

(* distinct keywords inside every class the fold compares with *)
Definition fold_kw_distinct (E : efmt) : bool :=
  str_nodup (keys E fold_atom_arms) && str_nodup (keys E fold_compound_arms) &&
  str_nodup (keys E fold_statement_arms) && pair_nodup (keys2 E fold_set_arms).

Lemma fold_kw_distinct_shipped : forallb fold_kw_distinct shipped_formats = true.
Proof. vm_compute. reflexivity. Qed.

Lemma fold_kw_distinct_atoms E : fold_kw_distinct E = true -> str_nodup (keys E fold_atom_arms) = true.
Proof. unfold fold_kw_distinct. rewrite !andb_true_iff. tauto. Qed.
Lemma fold_kw_distinct_compounds E : fold_kw_distinct E = true -> str_nodup (keys E fold_compound_arms) = true.
Proof. unfold fold_kw_distinct. rewrite !andb_true_iff. tauto. Qed.
Lemma fold_kw_distinct_statements E : fold_kw_distinct E = true -> str_nodup (keys E fold_statement_arms) = true.
Proof. unfold fold_kw_distinct. rewrite !andb_true_iff. tauto. Qed.
Lemma fold_kw_distinct_sets E : fold_kw_distinct E = true -> pair_nodup (keys2 E fold_set_arms) = true.
Proof. unfold fold_kw_distinct. rewrite !andb_true_iff. tauto. Qed.

Lemma pair_eqb_refl p : pair_eqb p p = true.
Proof. unfold pair_eqb. now rewrite !str_eqb_refl. Qed.
Lemma pair_eqb_eq p q : pair_eqb p q = true <-> p = q.
Proof.
  destruct p as [a b], q as [c d]. unfold pair_eqb. cbn [fst snd]. rewrite andb_true_iff, !str_eqb_eq.
  split; [intros [-> ->]; reflexivity | intros H; injection H as -> ->; tauto].
Qed.

Lemma first_eq2_found {A} E (arms : list ((efmt -> str) * (efmt -> str) * A)) gl gr a :
  pair_nodup (keys2 E arms) = true -> In (gl, gr, a) arms -> first_eq2 E (gl E) (gr E) arms = Some a.
Proof.
  induction arms as [|[[gl' gr'] b] arms IH]; cbn [In]; [tauto|].
  unfold keys2. cbn [map pair_nodup fst snd first_eq2]. rewrite andb_true_iff, negb_true_iff.
  intros [Hnot Hnd] [Heq|Hin].
  - injection Heq as -> -> ->. now rewrite !str_eqb_refl.
  - destruct (str_eqb (gl E) (gl' E) && str_eqb (gr E) (gr' E)) eqn:Hb.
    + exfalso. apply andb_true_iff in Hb as [H1 H2]. apply str_eqb_eq in H1, H2.
      assert (Hx : existsb (pair_eqb (gl' E, gr' E)) (map (fun a0 => (fst (fst a0) E, snd (fst a0) E)) arms) = true).
      { apply existsb_exists. exists (gl E, gr E). split.
        - apply in_map_iff. exists (gl, gr, a). split; [reflexivity | exact Hin].
        - rewrite H1, H2. apply pair_eqb_refl. }
      congruence.
    + now apply IH.
Qed.

(* C03, arm level: when the lexical prefix / connecter / copula is the keyword an arm of the ENUM PARSER
   tests, the fold's first matching arm builds the same constructor (or calls the same helper) *)
Theorem fold_atom_arm_matches_parser E g i :
  fold_kw_distinct E = true -> In (g, i) parse_atom_arms ->
  exists a, first_eq E (g E) fold_atom_arms = Some a /\ atom_match i a = true.
Proof.
  intros Hd Hin. pose proof atom_arms_parser_to_fold as H. rewrite Forall_forall in H.
  destruct (H _ Hin) as [a [Ha Hm]]. exists a. split; [|exact Hm].
  apply first_eq_found; [now apply fold_kw_distinct_atoms | exact Ha].
Qed.

Theorem fold_compound_arm_matches_parser E g i :
  fold_kw_distinct E = true -> In (g, i) parse_compound_arms ->
  exists a, first_eq E (g E) fold_compound_arms = Some a /\ comp_match i a = true.
Proof.
  intros Hd Hin. pose proof compound_arms_parser_to_fold as H. rewrite Forall_forall in H.
  destruct (H _ Hin) as [a [Ha Hm]]. exists a. split; [|exact Hm].
  apply first_eq_found; [now apply fold_kw_distinct_compounds | exact Ha].
Qed.

Theorem fold_statement_arm_matches_parser E g b :
  fold_kw_distinct E = true -> In (g, b) parse_statement_arms ->
  exists b', first_eq E (g E) fold_statement_arms = Some b' /\ stmt_match b b' = true.
Proof.
  intros Hd Hin. pose proof statement_arms_parser_to_fold as H. rewrite Forall_forall in H.
  destruct (H _ Hin) as [a [Ha Hm]]. exists a. split; [|exact Hm].
  apply first_eq_found; [now apply fold_kw_distinct_statements | exact Ha].
Qed.

(* no fold arm without a parser arm: the two sides know the same keywords *)
Theorem fold_arm_keys_are_parser_keys :
  (forall g a, In (g, a) fold_atom_arms -> exists i, In (g, i) parse_atom_arms /\ atom_match i a = true) /\
  (forall g a, In (g, a) fold_compound_arms -> exists i, In (g, i) parse_compound_arms /\ comp_match i a = true) /\
  (forall g b, In (g, b) fold_statement_arms -> exists b', In (g, b') parse_statement_arms /\ stmt_match b' b = true).
Proof.
  repeat split; intros g a Hin.
  - pose proof atom_arms_fold_to_parser as H. rewrite Forall_forall in H. exact (H _ Hin).
  - pose proof compound_arms_fold_to_parser as H. rewrite Forall_forall in H. exact (H _ Hin).
  - pose proof statement_arms_fold_to_parser as H. rewrite Forall_forall in H. exact (H _ Hin).
Qed.

(* ------------------------------------------------------------------ *)
(* (iv.c) fold arms vs. the enum FORMATTER: the arm selected by the keyword the formatter prints for a
   constructor builds that constructor *)
Lemma fmt_fold_name c :
  exists p, fmt_arm_name c = FmtAtom p /\ In (p, AFName c) fold_atom_arms.
Proof. destruct c; eexists; (split; [reflexivity | solve [find_in]]). Qed.
Lemma fmt_fold_unit c :
  exists p, fmt_arm_unit c = FmtAtom p /\ In (p, AFUnit c) fold_atom_arms /\ fold_atom_empty_name_exempt = Some p.
Proof. destruct c; eexists; (split; [reflexivity | split; [solve [find_in] | reflexivity]]). Qed.
Lemma fmt_fold_num c :
  exists p, fmt_arm_num c = FmtAtom p /\ In (p, AFParseUInt c) fold_atom_arms.
Proof. destruct c; eexists; (split; [reflexivity | solve [find_in]]). Qed.
Lemma fmt_fold_set c :
  match fmt_arm_set c with
  | FmtSet l r => In (l, r, c) fold_set_arms
  | FmtCompound kw => In (kw, CFSet c) fold_compound_arms
  | _ => False
  end.
Proof. destruct c; cbn [fmt_arm_set]; solve [find_in]. Qed.
Lemma fmt_fold_vec c :
  match fmt_arm_vec c with FmtCompound kw => In (kw, CFVec c) fold_compound_arms | _ => False end.
Proof. destruct c; cbn [fmt_arm_vec]; solve [find_in]. Qed.
Lemma fmt_fold_img c :
  match fmt_arm_img c with FmtImage kw => In (kw, CFImage c) fold_compound_arms | _ => False end.
Proof. destruct c; cbn [fmt_arm_img]; solve [find_in]. Qed.
Lemma fmt_fold_box1 c :
  match fmt_arm_box1 c with FmtCompound kw => In (kw, CFFirst c) fold_compound_arms | _ => False end.
Proof. destruct c; cbn [fmt_arm_box1]; solve [find_in]. Qed.
Lemma fmt_fold_box2 c :
  match fmt_arm_box2 c with
  | FmtCompound kw => In (kw, CFFirstTwo c) fold_compound_arms
  | FmtStatement kw => In (kw, SBCtor c) fold_statement_arms
  | _ => False
  end.
Proof. destruct c; cbn [fmt_arm_box2]; solve [find_in]. Qed.

(* ------------------------------------------------------------------ *)
(* (v) desugaring at the fold level (C10) *)

(* the arms the equations below are about, as table facts *)
Lemma arm_inheritance : In (statement_copula_inheritance, SBCtor Inheritance) fold_statement_arms. Proof. find_in. Qed.
Lemma arm_instance : In (statement_copula_instance, SBHelper HelperInstance) fold_statement_arms. Proof. find_in. Qed.
Lemma arm_property : In (statement_copula_property, SBHelper HelperProperty) fold_statement_arms. Proof. find_in. Qed.
Lemma arm_instance_property :
  In (statement_copula_instance_property, SBHelper HelperInstanceProperty) fold_statement_arms. Proof. find_in. Qed.
Lemma arm_equivalence_predictive :
  In (statement_copula_equivalence_predictive, SBCtor EquivalencePredictive) fold_statement_arms. Proof. find_in. Qed.
Lemma arm_equivalence_retrospective :
  In (statement_copula_equivalence_retrospective, SBHelper HelperSwapEquivPred) fold_statement_arms. Proof. find_in. Qed.
Lemma arm_set_extension :
  In (compound_brackets_set_extension_0, compound_brackets_set_extension_1, SetExtension) fold_set_arms. Proof. find_in. Qed.
Lemma arm_set_intension :
  In (compound_brackets_set_intension_0, compound_brackets_set_intension_1, SetIntension) fold_set_arms. Proof. find_in. Qed.
Lemma arm_image_extension : In (compound_connecter_image_extension, CFImage ImageExtension) fold_compound_arms. Proof. find_in. Qed.
Lemma arm_image_intension : In (compound_connecter_image_intension, CFImage ImageIntension) fold_compound_arms. Proof. find_in. Qed.
Lemma arm_interval : In (atom_prefix_interval, AFParseUInt Interval) fold_atom_arms. Proof. find_in. Qed.
Lemma arm_placeholder : In (atom_prefix_placeholder, AFUnit Placeholder) fold_atom_arms. Proof. find_in. Qed.
Lemma exempt_placeholder : fold_atom_empty_name_exempt = Some atom_prefix_placeholder. Proof. reflexivity. Qed.

Section Desugar.
  Variable E : efmt.
  Hypothesis Hd : fold_kw_distinct E = true.

  Lemma fold_statement_kw g b s p :
    In (g, b) fold_statement_arms -> fold_statement E s (g E) p = FOk (build_statement b s p).
  Proof.
    intros Hin. unfold fold_statement. now rewrite (first_eq_found E _ g b (fold_kw_distinct_statements E Hd) Hin).
  Qed.

  Lemma fold_set_kw gl gr c ts :
    In (gl, gr, c) fold_set_arms -> fold_set E (gl E) (gr E) ts = FOk (TSet c (mk_set ts)).
  Proof.
    intros Hin. unfold fold_set. now rewrite (first_eq2_found E _ gl gr c (fold_kw_distinct_sets E Hd) Hin).
  Qed.

  Lemma fold_compound_kw g a :
    In (g, a) fold_compound_arms -> first_eq E (g E) fold_compound_arms = Some a.
  Proof. intros Hin. now apply first_eq_found; [apply fold_kw_distinct_compounds|]. Qed.

  Lemma fold_atom_kw g a : In (g, a) fold_atom_arms -> first_eq E (g E) fold_atom_arms = Some a.
  Proof. intros Hin. now apply first_eq_found; [apply fold_kw_distinct_atoms|]. Qed.

  (* derived copulas: <S {-- P> = <{S} --> P>, <S --] P> = <S --> [P]>, <S {-] P> = <{S} --> [P]>,
     <S <\> P> = <P </> S>  (on folded subject and predicate) *)
  Theorem fold_instance s p :
    fold_statement E s (statement_copula_instance E) p = FOk (TBox2 Inheritance (TSet SetExtension [s]) p).
  Proof. now rewrite (fold_statement_kw _ _ s p arm_instance). Qed.
  Theorem fold_property s p :
    fold_statement E s (statement_copula_property E) p = FOk (TBox2 Inheritance s (TSet SetIntension [p])).
  Proof. now rewrite (fold_statement_kw _ _ s p arm_property). Qed.
  Theorem fold_instance_property s p :
    fold_statement E s (statement_copula_instance_property E) p =
    FOk (TBox2 Inheritance (TSet SetExtension [s]) (TSet SetIntension [p])).
  Proof. now rewrite (fold_statement_kw _ _ s p arm_instance_property). Qed.
  Theorem fold_equivalence_retrospective s p :
    fold_statement E s (statement_copula_equivalence_retrospective E) p = FOk (TBox2 EquivalencePredictive p s).
  Proof. now rewrite (fold_statement_kw _ _ s p arm_equivalence_retrospective). Qed.

  (* an image connecter yields the image whose index is the position of the FIRST placeholder, the other
     components in order (later placeholders stay components) *)
  Theorem fold_image g c l1 l2 :
    In (g, CFImage c) fold_compound_arms ->
    forallb (fun x => negb (is_placeholder x)) l1 = true ->
    fold_compound E (g E) (l1 ++ placeholder :: l2) = FOk (TImg c (nlen l1) (l1 ++ l2)).
  Proof.
    intros Hin Hl1. unfold fold_compound. rewrite (fold_compound_kw _ _ Hin).
    unfold to_image_with_placeholder. rewrite (to_terms_with_image_found 0 l1 l2 Hl1).
    rewrite N.add_0_l. apply new_image_no_panic; [exact fold_static_ok_true|].
    unfold nlen. rewrite app_length. lia.
  Qed.

  Theorem fold_image_no_placeholder g c l :
    In (g, CFImage c) fold_compound_arms ->
    forallb (fun x => negb (is_placeholder x)) l = true -> fold_compound E (g E) l = FErr.
  Proof.
    intros Hin Hl. unfold fold_compound. rewrite (fold_compound_kw _ _ Hin). unfold to_image_with_placeholder.
    assert (H : forall i, to_terms_with_image i l = (None, l)).
    { induction l as [|x l IH]; intros i; cbn [to_terms_with_image]; [reflexivity|].
      cbn [forallb] in Hl. apply andb_true_iff in Hl as [Hx Hl]. apply negb_true_iff in Hx. rewrite Hx, (IH Hl). reflexivity. }
    now rewrite H.
  Qed.

  (* `+0007` is the interval 7: an interval atom folds to the value its decimal name denotes *)
  Theorem fold_interval name n :
    read_usize name = Some n -> fold_atom E (atom_prefix_interval E) name = FOk (TNum Interval n).
  Proof.
    intros Hn. unfold fold_atom. rewrite exempt_placeholder.
    assert (Hne : name <> []) by (intros ->; discriminate).
    destruct name as [|ch name]; [congruence|]. rewrite (fold_atom_kw _ _ arm_interval), Hn. reflexivity.
  Qed.

  Theorem fold_interval_show n :
    (n <= usize_max)%N -> fold_atom E (atom_prefix_interval E) (show_N n) = FOk (TNum Interval n).
  Proof. intros Hn. apply fold_interval. now apply read_usize_show. Qed.

  (* a placeholder ignores what follows its prefix *)
  Theorem fold_placeholder name : fold_atom E (atom_prefix_placeholder E) name = FOk (TUnit Placeholder).
  Proof.
    unfold fold_atom. rewrite exempt_placeholder. rewrite (fold_atom_kw _ _ arm_placeholder).
    destruct name; [now rewrite str_eqb_refl | reflexivity].
  Qed.

  (* ---- expanding the derived copulas anywhere in a lexical term does not change what it folds to ---- *)
  Definition unsugar_stmt (c : str) (s p : lterm) : lterm :=
    let ext x := LSet (compound_brackets_set_extension_0 E) [x] (compound_brackets_set_extension_1 E) in
    let int x := LSet (compound_brackets_set_intension_0 E) [x] (compound_brackets_set_intension_1 E) in
    if str_eqb c (statement_copula_instance E) then LStatement (statement_copula_inheritance E) (ext s) p
    else if str_eqb c (statement_copula_property E) then LStatement (statement_copula_inheritance E) s (int p)
    else if str_eqb c (statement_copula_instance_property E) then LStatement (statement_copula_inheritance E) (ext s) (int p)
    else if str_eqb c (statement_copula_equivalence_retrospective E) then LStatement (statement_copula_equivalence_predictive E) p s
    else LStatement c s p.

  Fixpoint unsugar (x : lterm) : lterm :=
    match x with
    | LAtom _ _ => x
    | LCompound c l => LCompound c (map unsugar l)
    | LSet a l b => LSet a (map unsugar l) b
    | LStatement c s p => unsugar_stmt c (unsugar s) (unsugar p)
    end.

  Lemma fold_terms_single x : fold_terms E [x] = fbind (fold_term E x) (fun t => FOk [t]).
  Proof. rewrite fold_terms_cons. destruct (fold_term E x); reflexivity. Qed.

  Lemma fold_singleton_set gl gr c x :
    In (gl, gr, c) fold_set_arms ->
    fold_term E (LSet (gl E) [x] (gr E)) = fbind (fold_term E x) (fun t => FOk (TSet c [t])).
  Proof.
    intros Hin. rewrite fold_term_set, fold_terms_single. destruct (fold_term E x) as [t| |]; cbn [fbind]; try reflexivity.
    now rewrite (fold_set_kw _ _ _ _ Hin).
  Qed.

  Lemma fold_unsugar_stmt c s p s0 p0 :
    fold_term E s = fold_term E s0 -> fold_term E p = fold_term E p0 ->
    fold_term E (unsugar_stmt c s p) = fold_term E (LStatement c s0 p0).
  Proof.
    intros Hs Hp. unfold unsugar_stmt. rewrite (fold_term_statement E c s0 p0), <- Hs, <- Hp.
    pose proof (fold_term_never_panics E s) as Ns. pose proof (fold_term_never_panics E p) as Np.
    destruct (str_eqb_spec c (statement_copula_instance E)) as [->|N1].
    { rewrite fold_term_statement, (fold_singleton_set _ _ _ s arm_set_extension).
      destruct (fold_term E s) as [s'| |]; cbn [fbind]; try reflexivity.
      destruct (fold_term E p) as [p'| |]; cbn [fbind]; try reflexivity.
      now rewrite fold_instance, (fold_statement_kw _ _ _ _ arm_inheritance). }
    destruct (str_eqb_spec c (statement_copula_property E)) as [->|N2].
    { rewrite fold_term_statement, (fold_singleton_set _ _ _ p arm_set_intension).
      destruct (fold_term E s) as [s'| |]; cbn [fbind]; try reflexivity.
      destruct (fold_term E p) as [p'| |]; cbn [fbind]; try reflexivity.
      now rewrite fold_property, (fold_statement_kw _ _ _ _ arm_inheritance). }
    destruct (str_eqb_spec c (statement_copula_instance_property E)) as [->|N3].
    { rewrite fold_term_statement, (fold_singleton_set _ _ _ s arm_set_extension), (fold_singleton_set _ _ _ p arm_set_intension).
      destruct (fold_term E s) as [s'| |]; cbn [fbind]; try reflexivity.
      destruct (fold_term E p) as [p'| |]; cbn [fbind]; try reflexivity.
      now rewrite fold_instance_property, (fold_statement_kw _ _ _ _ arm_inheritance). }
    destruct (str_eqb_spec c (statement_copula_equivalence_retrospective E)) as [->|N4].
    { rewrite fold_term_statement.
      destruct (fold_term E s) as [s'| |]; destruct (fold_term E p) as [p'| |]; cbn [fbind]; try reflexivity; try congruence.
      now rewrite fold_equivalence_retrospective, (fold_statement_kw _ _ _ _ arm_equivalence_predictive). }
    now rewrite fold_term_statement.
  Qed.

  Lemma fold_terms_map_unsugar l :
    Forall (fun x => fold_term E (unsugar x) = fold_term E x) l -> fold_terms E (map unsugar l) = fold_terms E l.
  Proof.
    induction 1 as [|x l Hx Hl IH]; [reflexivity|]. cbn [map]. rewrite !fold_terms_cons, Hx, IH. reflexivity.
  Qed.

  Theorem fold_unsugar x : fold_term E (unsugar x) = fold_term E x.
  Proof.
    induction x as [p n | c l IH | a l b IH | c s p IHs IHp] using lterm_ind'; cbn [unsugar].
    - reflexivity.
    - now rewrite !fold_term_compound, fold_terms_map_unsugar.
    - now rewrite !fold_term_set, fold_terms_map_unsugar.
    - now apply fold_unsugar_stmt.
  Qed.
End Desugar.

(* ------------------------------------------------------------------ *)
(* (vi) folding the lexical tree of the enum formatter's output *)

(* the lexical tree of fmt_term E t: EnumFormatter.fmt_term with trees in place of strings *)
Section LexOfTerm.
  Variable E : efmt.

  Definition lex_atom (a : fmt_arm) (name : str) : lterm :=
    match a with FmtAtom p => LAtom (p E) name | _ => LAtom [] name end.
  Definition lex_list (a : fmt_arm) (items : list lterm) : lterm :=
    match a with
    | FmtSet l r => LSet (l E) items (r E)
    | FmtCompound kw | FmtImage kw => LCompound (kw E) items
    | _ => LCompound [] items
    end.
  Definition lex_placeholder : lterm := lex_atom (fmt_arm_unit Placeholder) [].
  Definition lex_img (a : fmt_arm) (i : N) (items : list lterm) : lterm :=
    match a with
    | FmtImage _ => lex_list a (img_iter_gen lex_placeholder 0 i items)
    | _ => lex_list a items
    end.
  Definition lex_box2 (a : fmt_arm) (x y : lterm) : lterm :=
    match a with
    | FmtStatement kw => LStatement (kw E) x y
    | _ => lex_list a [x; y]
    end.

  Fixpoint lex_of_term (t : term) : lterm :=
    match t with
    | TName c n => lex_atom (fmt_arm_name c) n
    | TUnit c => lex_atom (fmt_arm_unit c) []
    | TNum c i => lex_atom (fmt_arm_num c) (show_N i)
    | TSet c l => lex_list (fmt_arm_set c) (map lex_of_term l)
    | TVec c l => lex_list (fmt_arm_vec c) (map lex_of_term l)
    | TImg c i l => lex_img (fmt_arm_img c) i (map lex_of_term l)
    | TBox1 c a => lex_list (fmt_arm_box1 c) [lex_of_term a]
    | TBox2 c a b => lex_box2 (fmt_arm_box2 c) (lex_of_term a) (lex_of_term b)
    end.
End LexOfTerm.

(* the value folding reconstructs: set payloads pass through HashSet insertion once more *)
Fixpoint norm (t : term) : term :=
  match t with
  | TName _ _ | TUnit _ | TNum _ _ => t
  | TSet c l => TSet c (mk_set (map norm l))
  | TVec c l => TVec c (map norm l)
  | TImg c i l => TImg c i (map norm l)
  | TBox1 c a => TBox1 c (norm a)
  | TBox2 c a b => TBox2 c (norm a) (norm b)
  end.

(* the domain: what the enum formatter prints unambiguously at the tree level.  Names non-empty, intervals
   in usize range, image index within the components and NO placeholder among the components before the
   index (otherwise the text shows an earlier placeholder: class K1 of the known findings). *)
Fixpoint lex_wf (t : term) : bool :=
  match t with
  | TName _ n => negb (is_nil n)
  | TUnit _ => true
  | TNum _ i => i <=? usize_max
  | TSet _ l | TVec _ l => forallb lex_wf l
  | TImg _ i l => (i <=? nlen l) && forallb (fun x => negb (is_placeholder x)) (take (N.to_nat i) l) && forallb lex_wf l
  | TBox1 _ a => lex_wf a
  | TBox2 _ a b => lex_wf a && lex_wf b
  end.

Lemma img_iter_gen_take_drop {A} (ph : A) l : forall now idx,
  now <= idx -> idx - now <= nlen l ->
  img_iter_gen ph now idx l = take (N.to_nat (idx - now)) l ++ ph :: drop (N.to_nat (idx - now)) l.
Proof.
  induction l as [|x l IH]; intros now idx Hle Hlen; cbn [img_iter_gen].
  - unfold nlen in Hlen. cbn [length] in Hlen. assert (idx = now) as -> by lia. rewrite N.eqb_refl, N.sub_diag. reflexivity.
  - destruct (N.eqb_spec now idx) as [->|Hne].
    + rewrite N.sub_diag. cbn [N.to_nat take drop app]. f_equal. f_equal.
      (* the rest is emitted without a second placeholder *)
      clear IH Hle Hlen. assert (H : forall (l : list A) n, idx < n -> img_iter_gen ph n idx l = l).
      { induction l0 as [|y l0 IH0]; intros n Hn; cbn [img_iter_gen]; destruct (N.eqb_spec n idx); try lia; [reflexivity|].
        now rewrite IH0 by lia. }
      apply H. lia.
    + rewrite nlen_cons in Hlen. rewrite IH by lia.
      replace (N.to_nat (idx - now)) with (S (N.to_nat (idx - (now + 1)))) by lia. reflexivity.
Qed.

Lemma is_placeholder_norm t : is_placeholder (norm t) = is_placeholder t.
Proof. destruct t; reflexivity. Qed.

Lemma take_map {A B} (f : A -> B) n l : take n (map f l) = map f (take n l).
Proof. revert l; induction n as [|n IH]; intros [|x l]; cbn [take map]; try reflexivity. now rewrite IH. Qed.

Lemma drop_map {A B} (f : A -> B) n l : drop n (map f l) = map f (drop n l).
Proof. revert l; induction n as [|n IH]; intros [|x l]; cbn [drop map]; try reflexivity. apply IH. Qed.

Lemma forallb_map {A B} (f : B -> bool) (g : A -> B) l : forallb f (map g l) = forallb (fun x => f (g x)) l.
Proof. induction l as [|x l IH]; cbn [map forallb]; [reflexivity | now rewrite IH]. Qed.

Lemma forallb_ext' {A} (f g : A -> bool) l : (forall x, f x = g x) -> forallb f l = forallb g l.
Proof. intros H. induction l as [|x l IH]; cbn [forallb]; [reflexivity | now rewrite H, IH]. Qed.

Section FoldLex.
  Variable E : efmt.
  Hypothesis Hd : fold_kw_distinct E = true.

  Lemma fold_terms_map_lex l :
    Forall (fun t => lex_wf t = true -> fold_term E (lex_of_term E t) = FOk (norm t)) l ->
    forallb lex_wf l = true -> fold_terms E (map (lex_of_term E) l) = FOk (map norm l).
  Proof.
    induction 1 as [|t l Ht Hl IH]; [reflexivity|]. cbn [forallb map]. rewrite andb_true_iff. intros [Hwt Hwl].
    rewrite fold_terms_cons, (Ht Hwt). cbn [fbind]. rewrite (IH Hwl). reflexivity.
  Qed.

  Lemma fold_terms_app l1 l2 t1 t2 :
    fold_terms E l1 = FOk t1 -> fold_terms E l2 = FOk t2 -> fold_terms E (l1 ++ l2) = FOk (t1 ++ t2).
  Proof.
    revert t1; induction l1 as [|x l1 IH]; intros t1 H1 H2.
    - cbn [fold_terms] in H1. injection H1 as <-. exact H2.
    - cbn [app]. rewrite fold_terms_cons in *. destruct (fold_term E x) as [t| |]; cbn [fbind] in *; try discriminate.
      destruct (fold_terms E l1) as [ts| |] eqn:Hts; cbn [fbind] in *; try discriminate.
      injection H1 as <-. rewrite (IH ts eq_refl H2). reflexivity.
  Qed.

  Lemma fold_lex_placeholder : fold_term E (lex_placeholder E) = FOk placeholder.
  Proof.
    unfold lex_placeholder. destruct (fmt_fold_unit Placeholder) as [p [Hp [Hin Hex]]]. rewrite Hp. cbn [lex_atom].
    rewrite fold_term_atom. unfold fold_atom. rewrite Hex, str_eqb_refl. cbn [negb].
    now rewrite (fold_atom_kw E Hd _ _ Hin).
  Qed.

  Theorem fold_lex_of_term t : lex_wf t = true -> fold_term E (lex_of_term E t) = FOk (norm t).
  Proof.
    induction t as [c n | c | c i | c l IH | c l IH | c i l IH | c a IHa | c a b IHa IHb] using term_ind';
      cbn [lex_wf lex_of_term norm].
    - (* named atoms *)
      intros Hn. destruct (fmt_fold_name c) as [p [Hp Hin]]. rewrite Hp. cbn [lex_atom].
      rewrite fold_term_atom. unfold fold_atom. destruct n as [|ch n]; [discriminate|].
      destruct fold_atom_empty_name_exempt; now rewrite (fold_atom_kw E Hd _ _ Hin).
    - (* placeholder *)
      intros _. destruct (fmt_fold_unit c) as [p [Hp [Hin Hex]]]. rewrite Hp. cbn [lex_atom].
      rewrite fold_term_atom. unfold fold_atom. rewrite Hex, str_eqb_refl. cbn [negb].
      now rewrite (fold_atom_kw E Hd _ _ Hin).
    - (* interval *)
      intros Hi. apply N.leb_le in Hi. destruct (fmt_fold_num c) as [p [Hp Hin]]. rewrite Hp. cbn [lex_atom].
      rewrite fold_term_atom. unfold fold_atom. destruct (show_N_head i) as [ch [s [Hs _]]]. rewrite Hs.
      destruct fold_atom_empty_name_exempt; rewrite (fold_atom_kw E Hd _ _ Hin), <- Hs, (read_usize_show i Hi); reflexivity.
    - (* sets, intersections, conjunction, disjunction, parallel conjunction *)
      intros Hl. pose proof (fmt_fold_set c) as Hin. destruct (fmt_arm_set c) as [| gl gr | kw | |]; try contradiction; cbn [lex_list].
      + rewrite fold_term_set, (fold_terms_map_lex _ IH Hl). cbn [fbind]. now rewrite (fold_set_kw E Hd _ _ _ _ Hin).
      + rewrite fold_term_compound, (fold_terms_map_lex _ IH Hl). cbn [fbind]. unfold fold_compound.
        now rewrite (fold_compound_kw E Hd _ _ Hin).
    - (* product, sequential conjunction *)
      intros Hl. pose proof (fmt_fold_vec c) as Hin. destruct (fmt_arm_vec c) as [| | kw | |]; try contradiction; cbn [lex_list].
      rewrite fold_term_compound, (fold_terms_map_lex _ IH Hl). cbn [fbind]. unfold fold_compound.
      now rewrite (fold_compound_kw E Hd _ _ Hin).
    - (* images *)
      rewrite !andb_true_iff. intros [[Hi Hph] Hl]. apply N.leb_le in Hi.
      pose proof (fmt_fold_img c) as Hin. destruct (fmt_arm_img c) as [| | | kw |]; try contradiction; cbn [lex_img lex_list].
      rewrite fold_term_compound.
      rewrite (img_iter_gen_take_drop (lex_placeholder E) (map (lex_of_term E) l) 0 i) by (unfold nlen; rewrite ?map_length; unfold nlen in Hi; lia).
      rewrite N.sub_0_r.
      assert (Hall : fold_terms E (map (lex_of_term E) l) = FOk (map norm l)) by (apply fold_terms_map_lex; assumption).
      rewrite take_map, drop_map.
      assert (Hwf_take : forallb lex_wf (take (N.to_nat i) l) = true).
      { rewrite forallb_forall in *. intros x Hx. apply Hl. rewrite <- (take_drop (N.to_nat i) l). apply in_app_iff. now left. }
      assert (Hwf_drop : forallb lex_wf (drop (N.to_nat i) l) = true).
      { rewrite forallb_forall in *. intros x Hx. apply Hl. rewrite <- (take_drop (N.to_nat i) l). apply in_app_iff. now right. }
      assert (IHt : Forall (fun t => lex_wf t = true -> fold_term E (lex_of_term E t) = FOk (norm t)) (take (N.to_nat i) l)).
      { rewrite Forall_forall in *. intros x Hx. apply IH. rewrite <- (take_drop (N.to_nat i) l). apply in_app_iff. now left. }
      assert (IHd : Forall (fun t => lex_wf t = true -> fold_term E (lex_of_term E t) = FOk (norm t)) (drop (N.to_nat i) l)).
      { rewrite Forall_forall in *. intros x Hx. apply IH. rewrite <- (take_drop (N.to_nat i) l). apply in_app_iff. now right. }
      rewrite (fold_terms_app _ _ (map norm (take (N.to_nat i) l)) (placeholder :: map norm (drop (N.to_nat i) l))).
      + cbn [fbind].
        assert (Hnp : forallb (fun x => negb (is_placeholder x)) (map norm (take (N.to_nat i) l)) = true).
        { rewrite forallb_map, <- Hph. apply forallb_ext'. intros x. now rewrite is_placeholder_norm. }
        rewrite (fold_image E Hd _ _ _ _ Hin Hnp).
        rewrite <- map_app, take_drop. unfold nlen. rewrite map_length, take_length.
        f_equal. f_equal. unfold nlen in Hi. lia.
      + now apply fold_terms_map_lex.
      + rewrite fold_terms_cons, fold_lex_placeholder. cbn [fbind]. now rewrite (fold_terms_map_lex _ IHd Hwf_drop).
    - (* negation *)
      intros Ha. pose proof (fmt_fold_box1 c) as Hin. destruct (fmt_arm_box1 c) as [| | kw | |]; try contradiction; cbn [lex_list].
      rewrite fold_term_compound, fold_terms_single, (IHa Ha). cbn [fbind]. unfold fold_compound.
      now rewrite (fold_compound_kw E Hd _ _ Hin).
    - (* differences and statements *)
      rewrite andb_true_iff. intros [Ha Hb].
      pose proof (fmt_fold_box2 c) as Hin. destruct (fmt_arm_box2 c) as [| | kw | | kw]; try contradiction; cbn [lex_box2 lex_list].
      + rewrite fold_term_compound, fold_terms_cons, (IHa Ha). cbn [fbind]. rewrite fold_terms_single, (IHb Hb). cbn [fbind].
        unfold fold_compound. now rewrite (fold_compound_kw E Hd _ _ Hin).
      + rewrite fold_term_statement, (IHa Ha), (IHb Hb). cbn [fbind]. now rewrite (fold_statement_kw E Hd _ _ _ _ Hin).
  Qed.
End FoldLex.

(* for values as the library holds them (set payloads duplicate-free up to ==) folding gives the value itself *)
Lemma fold_left_set_insert_fresh l : forall acc,
  Forall (fun x => set_ok x = true) l -> Forall (fun x => set_ok x = true) acc ->
  (forall x, In x l -> set_mem x acc = false) -> nodup_eqb l = true ->
  fold_left set_insert l acc = acc ++ l.
Proof.
  induction l as [|x l IH]; intros acc Hl Hacc Hfresh Hnd; cbn [fold_left]; [now rewrite app_nil_r|].
  inversion Hl as [|? ? Hx Hl']; subst. cbn [nodup_eqb] in Hnd. apply andb_true_iff in Hnd as [Hxl Hnd].
  apply negb_true_iff in Hxl. unfold set_insert at 2. rewrite (Hfresh x (or_introl eq_refl)).
  rewrite IH; [now rewrite <- app_assoc | exact Hl' | | | exact Hnd].
  - apply Forall_app. split; [exact Hacc | now constructor].
  - intros y Hy. rewrite set_mem_app, (Hfresh y (or_intror Hy)). cbn [orb set_mem existsb]. rewrite orb_false_r.
    rewrite Forall_forall in Hl'. rewrite term_eqb_sym by (auto).
    rewrite set_mem_false in Hxl. now apply Hxl.
Qed.

Lemma mk_set_id l : Forall (fun x => set_ok x = true) l -> nodup_eqb l = true -> mk_set l = l.
Proof.
  intros Hl Hnd. unfold mk_set. rewrite fold_left_set_insert_fresh; auto.
Qed.

Lemma norm_id t : set_ok t = true -> norm t = t.
Proof.
  induction t as [c n | c | c i | c l IH | c l IH | c i l IH | c a IHa | c a b IHa IHb] using term_ind';
    cbn [set_ok norm]; try reflexivity.
  - rewrite andb_true_iff. intros [Hl Hnd]. rewrite forallb_forall in Hl.
    assert (Hm : map norm l = l).
    { rewrite <- (map_id l) at 2. apply map_ext_in. intros x Hx. rewrite Forall_forall in IH. now apply IH; [|apply Hl]. }
    rewrite Hm, mk_set_id; [reflexivity | | exact Hnd]. apply Forall_forall. exact Hl.
  - intros Hl. rewrite forallb_forall in Hl. f_equal. rewrite <- (map_id l) at 2. apply map_ext_in.
    intros x Hx. rewrite Forall_forall in IH. now apply IH; [|apply Hl].
  - intros Hl. rewrite forallb_forall in Hl. f_equal. rewrite <- (map_id l) at 2. apply map_ext_in.
    intros x Hx. rewrite Forall_forall in IH. now apply IH; [|apply Hl].
  - intros Ha. now rewrite IHa.
  - rewrite andb_true_iff. intros [Ha Hb]. now rewrite IHa, IHb.
Qed.

(* C03, fold third: for a format with pairwise distinct keywords per class, a value with duplicate-free
   sets in the domain [lex_wf]: folding the lexical tree of what the enum formatter prints returns it *)
Theorem fold_lex_of_term_id E t :
  fold_kw_distinct E = true -> set_ok t = true -> lex_wf t = true -> fold_term E (lex_of_term E t) = FOk t.
Proof. intros Hd Hok Hwf. rewrite (fold_lex_of_term E Hd t Hwf), (norm_id t Hok). reflexivity. Qed.

(* and the same through any sugared spelling: if expanding the derived copulas of x gives that tree *)
Theorem fold_sugared_lex_of_term E x t :
  fold_kw_distinct E = true -> set_ok t = true -> lex_wf t = true ->
  unsugar E x = lex_of_term E t -> fold_term E x = FOk t.
Proof. intros Hd Hok Hwf Hx. rewrite <- (fold_unsugar E Hd x), Hx. now apply fold_lex_of_term_id. Qed.

(* the hypotheses are satisfiable, with a derived copula: ASCII  <S {-- P>  folds to  <{S} --> P> *)
Example ex_fold_sugared :
  let S := TName Word [83] in let P := TName Word [80] in
  let t := TBox2 Inheritance (TSet SetExtension [S]) P in
  let x := LStatement (statement_copula_instance FORMAT_ASCII) (LAtom [] [83]) (LAtom [] [80]) in
  fold_kw_distinct FORMAT_ASCII = true /\ set_ok t = true /\ lex_wf t = true /\
  unsugar FORMAT_ASCII x = lex_of_term FORMAT_ASCII t /\ fold_term FORMAT_ASCII x = FOk t.
Proof. repeat split; vm_compute; reflexivity. Qed.

(* outside [lex_wf]: class K1 (an image with a placeholder component before its index) does not fold back *)
Lemma fold_lex_K1_witness :
  let t := TImg ImageExtension 1 [placeholder; TName Word [66]] in
  set_ok t = true /\ lex_wf t = false /\
  fold_term FORMAT_ASCII (lex_of_term FORMAT_ASCII t) = FOk (TImg ImageExtension 0 [placeholder; TName Word [66]]).
Proof. repeat split; vm_compute; reflexivity. Qed.

(* `+0007` is the interval 7 *)
Example interval_0007_example : read_usize [48; 48; 48; 55]%N = Some 7%N.
Proof. reflexivity. Qed.
