(* Proofs/LexPStrip.v -- C02: `idealize_env` applied to the formatter's output leaves the same text
   the formatter would have produced with empty spacing strings (text0), for values of the
   vocabulary and formats whose table satisfies [lex_space_ok]. *)
From Nv Require Import Model.LexSpec Proofs.LexPBase Proofs.LexPDict Proofs.LexPTerm Proofs.LexPRound Proofs.LexPAssemble.
From Coq Require Import Lia.
Import ListNotations.

Section Strip.
  Variable F : lfmt.
  Variable ia : N -> bool.
  Let C := compile F.
  Hypothesis Hsp : lex_space_ok F ia = true.

  Local Notation strip := (strip F).
  Local Notation nows := (nows F).
  Local Notation allws := (allws F).
  Local Notation f0 := (f0 F).

  Lemma strip_app a b : strip (a ++ b) = strip a ++ strip b.
  Proof. apply filter_app. Qed.

  Lemma strip_nows s : nows s = true -> strip s = s.
  Proof.
    unfold LexSpec.nows, LexSpec.strip. induction s as [|c s IH]; cbn [forallb filter]; [reflexivity|].
    intros H. apply andb_true_iff in H as [Hc Hs]. rewrite Hc. f_equal. auto.
  Qed.

  Lemma strip_allws s : allws s = true -> strip s = [].
  Proof.
    unfold LexSpec.allws, LexSpec.strip. induction s as [|c s IH]; cbn [forallb filter]; [reflexivity|].
    intros H. apply andb_true_iff in H as [Hc Hs]. rewrite Hc. cbn [negb]. auto.
  Qed.

  Lemma nows_app a b : nows (a ++ b) = nows a && nows b.
  Proof. apply forallb_app. Qed.

  Lemma space_all :
    l_remove_spaces_before_parse F = true /\ allws (l_format_terms F) = true /\ allws (l_format_items F) = true /\
    forallb nows (c_prefixes C) = true /\ forallb nows (c_connecters C) = true /\ forallb nows (c_copulas C) = true /\
    forallb nows (c_punctuations C) = true /\
    forallb (fun t => nows (fst t) && nows (snd t)) (c_set_brackets C) = true /\
    forallb (fun t => nows (fst t) && nows (snd t)) (c_stamp_brackets C) = true /\
    forallb nows [cl F; cr F; sep F; sl F; sr F; fst (l_truth_brackets F); snd (l_truth_brackets F); l_truth_separator F;
                  fst (l_budget_brackets F); snd (l_budget_brackets F); l_budget_separator F] = true /\
    forallb (fun c => negb (space_for_parse F c) || (negb (ident F ia c) && negb (stampc F c) && negb (numc c)))
            white_space_points = true.
  Proof.
    pose proof Hsp as H. unfold lex_space_ok in H. rewrite !andb_true_iff in H.
    repeat match goal with H : _ /\ _ |- _ => destruct H end. repeat split; assumption.
  Qed.

  Lemma ws_char c : space_for_parse F c = true ->
    ident F ia c = false /\ stampc F c = false /\ numc c = false.
  Proof.
    intros Hc. destruct space_all as [_ [_ [_ [_ [_ [_ [_ [_ [_ [_ H]]]]]]]]]].
    rewrite forallb_forall in H. assert (Hin : In c white_space_points).
    { unfold space_for_parse in Hc. destruct (l_space_is_for_parse F). unfold is_whitespace in Hc. now apply memb_In. }
    specialize (H _ Hin). rewrite Hc in H. cbn [negb orb] in H. rewrite !andb_true_iff in H.
    destruct H as [[H1 H2] H3]. apply negb_true_iff in H1, H2, H3. auto.
  Qed.

  Lemma class_nows (P : N -> bool) s :
    (forall c, space_for_parse F c = true -> P c = false) -> forallb P s = true -> nows s = true.
  Proof.
    intros HP. unfold LexSpec.nows. rewrite !forallb_forall. intros H c Hc. specialize (H c Hc).
    destruct (space_for_parse F c) eqn:E; [|reflexivity]. rewrite (HP c E) in H. discriminate.
  Qed.

  Lemma ident_nows s : forallb (ident F ia) s = true -> nows s = true.
  Proof. apply class_nows. intros c Hc. now apply ws_char. Qed.
  Lemma stamp_nows s : forallb (stampc F) s = true -> nows s = true.
  Proof. apply class_nows. intros c Hc. now apply ws_char. Qed.
  Lemma num_nows s : forallb numc s = true -> nows s = true.
  Proof. apply class_nows. intros c Hc. now apply ws_char. Qed.

  Lemma single_nows k : In k [cl F; cr F; sep F; sl F; sr F; fst (l_truth_brackets F); snd (l_truth_brackets F); l_truth_separator F;
                  fst (l_budget_brackets F); snd (l_budget_brackets F); l_budget_separator F] -> nows k = true.
  Proof.
    destruct space_all as [_ [_ [_ [_ [_ [_ [_ [_ [_ [H _]]]]]]]]]]. rewrite forallb_forall in H. apply H.
  Qed.

  (* ---- terms ---- *)
  Lemma strip_components sp ts :
    allws sp = true -> Forall (fun t => strip (lex_fmt_term_g F sp t) = f0 t) ts ->
    strip (ltemplate_components (l_separator F) sp (map (lex_fmt_term_g F sp) ts)) =
    ltemplate_components (l_separator F) [] (map f0 ts).
  Proof.
    intros Hws HF. assert (Hsep : strip (l_separator F) = l_separator F).
    { apply strip_nows. apply (single_nows (sep F)). cbn. auto 15. }
    destruct ts as [|x rest]; [reflexivity|]. inversion HF as [|? ? Hx Hrest]; subst.
    unfold ltemplate_components. cbn [map]. rewrite strip_app, Hx. f_equal.
    clear Hx HF. induction rest as [|y rest IH]; [reflexivity|]. inversion Hrest as [|? ? Hy Hr]; subst.
    cbn [map concat]. rewrite !strip_app, Hsep, (strip_allws sp Hws), Hy. rewrite (IH Hr). reflexivity.
  Qed.

  Lemma strip_term sp : allws sp = true -> forall t, term_ok F ia t = true -> strip (lex_fmt_term_g F sp t) = f0 t.
  Proof.
    intros Hws. destruct space_all as [_ [_ [_ [Hpre [Hcon [Hcop [_ [Hset _]]]]]]]].
    rewrite forallb_forall in Hpre, Hcon, Hcop, Hset.
    induction t as [p n | c ts IHts | l ts rb IHts | c s p IHs IHp] using lterm_ind2; intros Hok.
    - cbn [term_ok] in Hok. apply andb_true_iff in Hok as [Hp Hn]. apply str_in_In in Hp.
      unfold name_ok in Hn. rewrite !andb_true_iff in Hn. destruct Hn as [[_ Hid] _].
      unfold LexSpec.f0. cbn [lex_fmt_term_g]. rewrite strip_app.
      rewrite (strip_nows p) by (apply Hpre; exact Hp). now rewrite (strip_nows n) by (apply ident_nows; exact Hid).
    - cbn [term_ok] in Hok. rewrite !andb_true_iff in Hok. destruct Hok as [[Hc _] Hts]. apply str_in_In in Hc.
      unfold LexSpec.f0. cbn [lex_fmt_term_g]. unfold ltemplate_compound. rewrite !strip_app.
      rewrite strip_components; auto.
      2:{ rewrite Forall_forall in *. rewrite forallb_forall in Hts. intros t Ht. apply IHts; auto. }
      rewrite (strip_nows (fst (l_compound_brackets F))) by (apply (single_nows (cl F)); cbn; auto 15).
      rewrite (strip_nows (snd (l_compound_brackets F))) by (apply (single_nows (cr F)); cbn; auto 15).
      rewrite (strip_nows (l_separator F)) by (apply (single_nows (sep F)); cbn; auto 15).
      rewrite (strip_nows c) by (apply Hcon; exact Hc). now rewrite (strip_allws sp Hws).
    - cbn [term_ok] in Hok. rewrite !andb_true_iff in Hok. destruct Hok as [[Hc _] Hts]. apply pair_in_In in Hc.
      specialize (Hset _ Hc). cbn [fst snd] in Hset. apply andb_true_iff in Hset as [Hl Hr].
      unfold LexSpec.f0. cbn [lex_fmt_term_g]. unfold ltemplate_compound_set. rewrite !strip_app.
      rewrite strip_components; auto.
      2:{ rewrite Forall_forall in *. rewrite forallb_forall in Hts. intros t Ht. apply IHts; auto. }
      now rewrite (strip_nows l Hl), (strip_nows rb Hr).
    - cbn [term_ok] in Hok. rewrite !andb_true_iff in Hok. destruct Hok as [[Hc Hs] Hp]. apply str_in_In in Hc.
      unfold LexSpec.f0. cbn [lex_fmt_term_g]. unfold ltemplate_statement. rewrite !strip_app.
      fold (LexSpec.f0 F). rewrite IHs, IHp by assumption.
      rewrite (strip_nows (fst (l_statement_brackets F))) by (apply (single_nows (sl F)); cbn; auto 15).
      rewrite (strip_nows (snd (l_statement_brackets F))) by (apply (single_nows (sr F)); cbn; auto 15).
      rewrite (strip_nows c) by (apply Hcop; exact Hc). rewrite (strip_allws sp Hws). reflexivity.
  Qed.

  (* ---- items ---- *)
  Lemma join_nows sepk bs : nows sepk = true -> forallb nows bs = true -> nows (ljoin_to sepk bs) = true.
  Proof.
    intros Hs. induction bs as [|e [|e2 r] IH]; intros H; [reflexivity| |].
    - cbn [ljoin_to forallb] in *. now apply andb_true_iff in H as [H _].
    - change (ljoin_to sepk (e :: e2 :: r)) with (e ++ sepk ++ ljoin_to sepk (e2 :: r)).
      cbn [forallb] in H. apply andb_true_iff in H as [He H]. rewrite !nows_app, He, Hs. cbn [andb]. auto.
  Qed.

  Lemma numbers_nows bs : forallb number_ok bs = true -> forallb nows bs = true.
  Proof.
    apply forallb_imp. intros e He. unfold number_ok in He. apply andb_true_iff in He as [_ He]. now apply num_nows.
  Qed.

  Lemma truth_nows tv : forallb number_ok tv = true -> nows (lex_fmt_truth F tv) = true.
  Proof.
    intros H. unfold lex_fmt_truth. destruct tv as [|e tv']; [reflexivity|]. rewrite !nows_app.
    rewrite (single_nows (fst (l_truth_brackets F))) by (cbn; auto 15).
    rewrite (single_nows (snd (l_truth_brackets F))) by (cbn; auto 15).
    rewrite join_nows; auto; [apply single_nows; cbn; auto 15 | now apply numbers_nows].
  Qed.

  Lemma budget_nows bs : forallb number_ok bs = true -> nows (lex_fmt_budget F bs) = true.
  Proof.
    intros H. unfold lex_fmt_budget. rewrite !nows_app.
    rewrite (single_nows (fst (l_budget_brackets F))) by (cbn; auto 15).
    rewrite (single_nows (snd (l_budget_brackets F))) by (cbn; auto 15).
    rewrite join_nows; auto; [apply single_nows; cbn; auto 15 | now apply numbers_nows].
  Qed.

  Lemma stamp_nows_ok st : stamp_ok F st = true -> nows st = true.
  Proof.
    intros Hst. unfold stamp_ok in Hst. apply orb_true_iff in Hst as [Hst|Hst].
    { destruct st; [reflexivity | discriminate]. }
    apply existsb_exists in Hst as [[l r] [Hin Hform]].
    apply (stamp_form_split F) in Hform as [content [-> [Hc _]]]. cbn [fst snd].
    destruct space_all as [_ [_ [_ [_ [_ [_ [_ [_ [H _]]]]]]]]]. rewrite forallb_forall in H.
    specialize (H _ Hin). cbn [fst snd] in H. apply andb_true_iff in H as [Hl Hr].
    rewrite !nows_app, Hl, Hr, (stamp_nows content Hc). reflexivity.
  Qed.

  Lemma strip_sentence s : sentence_ok F ia s = true ->
    strip (lex_fmt_sentence F s) = text0 F (NSentence s).
  Proof.
    intros Hok. destruct space_all as [_ [Hft [Hfi [_ [_ [_ [Hpun _]]]]]]].
    unfold sentence_ok in Hok. rewrite !andb_true_iff in Hok. destruct Hok as [[[Ht Hq] Hst] Htv].
    apply str_in_In in Hq. rewrite forallb_forall in Hpun.
    unfold lex_fmt_sentence, text0. cbn [lex_fmt_g]. unfold lex_fmt_sentence_g.
    rewrite strip_app. rewrite (strip_term _ Hft _ Ht). fold f0. f_equal.
    rewrite ljoin_lest3_nil. unfold ljoin_lest. cbn [map concat]. rewrite !strip_app.
    rewrite (strip_nows (ls_punct s)) by (apply Hpun; exact Hq). f_equal. rewrite app_nil_r.
    assert (Hs : strip (ls_stamp s) = ls_stamp s) by (apply strip_nows; now apply stamp_nows_ok).
    assert (Htt : strip (lex_fmt_truth F (ls_truth s)) = lex_fmt_truth F (ls_truth s))
      by (apply strip_nows; now apply truth_nows).
    destruct (ls_stamp s) as [|c st]; destruct (lex_fmt_truth F (ls_truth s)) as [|d tt];
      cbn [app]; rewrite ?strip_app, ?(strip_allws _ Hfi), ?Hs, ?Htt; cbn [app]; try reflexivity.
  Qed.

  Theorem strip_fmt v : vocab_ok F ia v = true -> strip (lex_fmt F v) = text0 F v.
  Proof.
    destruct space_all as [_ [Hft [Hfi _]]].
    destruct v as [t | s | k]; cbn [vocab_ok]; intros Hok.
    - apply strip_term; auto.
    - now apply strip_sentence.
    - apply andb_true_iff in Hok as [Hs Hb].
      unfold lex_fmt, text0. cbn [lex_fmt_g]. unfold lex_fmt_task_g. cbv zeta.
      change (lex_fmt_sentence_g F (l_format_terms F) (l_format_items F) (lt_sentence k)) with (lex_fmt_sentence F (lt_sentence k)).
      change (lex_fmt_sentence_g F [] [] (lt_sentence k)) with (text0 F (NSentence (lt_sentence k))).
      rewrite <- (strip_sentence _ Hs).
      assert (Hbud : strip (lex_fmt_budget F (lt_budget k)) = lex_fmt_budget F (lt_budget k))
        by (apply strip_nows; now apply budget_nows).
      destruct (lex_fmt_sentence F (lt_sentence k)) as [|c stxt] eqn:E.
      + cbn [LexSpec.strip filter]. exact Hbud.
      + rewrite !strip_app, Hbud, (strip_allws _ Hfi). cbn [app].
        destruct (strip (c :: stxt)); [now rewrite app_nil_r | reflexivity].
  Qed.

  Lemma idealize_fmt v : vocab_ok F ia v = true -> idealize_env C (lex_fmt F v) = text0 F v.
  Proof.
    intros Hok. destruct space_all as [Hrm _]. unfold idealize_env. change (c_fmt C) with F. rewrite Hrm.
    now apply strip_fmt.
  Qed.

  Lemma strip_length s : (length (strip s) <= length s)%nat.
  Proof. apply filter_length_le. Qed.
End Strip.
