(* Proofs/EnumRoundP.v -- C01 at the term level, unconditional: the parser-side theorem
   (Proofs/EnumTermP.v, p_term_render) discharges the premise TermParses of the formatter-side
   round trip (Proofs/EnumFmtP.v). *)
From Nv Require Import Model.SstOf Model.SstOk Proofs.EnumTotalP Proofs.EnumFmtP Proofs.EnumTermP.

Lemma TermParses_same F is_alnum E u : EnumTermP.TermParses F is_alnum E u -> EnumFmtP.TermParses F is_alnum E u.
Proof. intros H. exact H. Qed.

Theorem term_roundtrip :
  forall (F : Type) (is_alnum : N -> bool) (E : efmt),
    parse_ok E = true -> total_ok E = true -> fmt_space_ok E = true -> arms_cover E = true ->
    forall t : term, wf_term is_alnum E t = true -> unamb is_alnum E (sst E t) [] = true ->
      parse_term F is_alnum E (new_state F (fmt_term E t)) =
      POk t (step F (length (fmt_term E t)) (new_state F (fmt_term E t))).
Proof.
  intros F is_alnum E Hp Ht Hs Hc t Hw Hu.
  apply (C01_term_roundtrip F is_alnum E (unamb is_alnum E)); auto.
  apply TermParses_same. now apply p_term_render.
Qed.

Theorem term_roundtrip_shipped :
  forall (F : Type) (is_alnum : N -> bool) (E : efmt), In E shipped_formats ->
    forall t : term, wf_term is_alnum E t = true -> unamb is_alnum E (sst E t) [] = true ->
      parse_term F is_alnum E (new_state F (fmt_term E t)) =
      POk t (step F (length (fmt_term E t)) (new_state F (fmt_term E t))).
Proof.
  intros F is_alnum E HE. 
  assert (H : parse_ok E = true /\ total_ok E = true /\ fmt_space_ok E = true /\ arms_cover E = true).
  { destruct HE as [<-|[<-|[<-|[]]]]; vm_compute; repeat split; reflexivity. }
  destruct H as (H1 & H2 & H3 & H4). now apply term_roundtrip.
Qed.
