(* Proofs/TypstValueInj.v -- C16 part E6: injectivity for whole Narsese values.
   For a float printer that, on the floats considered (a domain [okf]: in the harness and for the
   property, the well-formed numbers in [0,1]), prints digits, '.' and '-' only and is injective
   -- the shortest-round-trip contract of f64::to_string -- two well-formed values (term,
   sentence or task) that render to the same text are the same value. *)
From Nv Require Export Proofs.TypstValue.
From Nv Require Import Proofs.EqHashP Proofs.DecP.
From Coq Require Import Lia.

Definition numch (c : N) : bool := is_ascii_digit c || (c =? 46) || (c =? 45).
Definition hd_numch (t : str) : bool := match t with [] => false | c :: _ => numch c end.

Definition stamp_eqb (a b : stamp) : bool :=
  match a, b with
  | Eternal, Eternal | Past, Past | Present, Present | Future, Future => true
  | Fixed x, Fixed y => Z.eqb x y
  | _, _ => false
  end.
Definition punct_eqb (a b : punct) : bool :=
  match a, b with
  | Judgement, Judgement | Goal, Goal | Question, Question | Quest, Quest => true
  | _, _ => false
  end.
Definition skey (s : stamp) : list str := words (typst_stamp_prefix s).
Definition srep (s : stamp) : stamp := match s with Fixed _ => Fixed 0 | _ => s end.
Definition ptok (p : punct) : str := tok1 (typst_punct p).
Definition b_open : str := tok1 (fst typst_budget_brackets).
Definition b_close : str := tok1 (snd typst_budget_brackets).

Definition value_dec_ok : bool :=
  (* punctuations: one token each, pairwise distinct *)
  forallb (fun p => single (typst_punct p)) all_punct &&
  forallb (fun a => forallb (fun b => punct_eqb a b || negb (str_eqb (ptok a) (ptok b))) all_punct) all_punct &&
  (* item separators: one token each *)
  single sent_sep && single task_sep1 && single task_sep2 && single task_sep3 &&
  (* stamps: at most one prefix token, the prefixes tell the kinds apart, no prefix token is the separator after a stamp *)
  forallb (fun s => (length (skey s) <=? 1)%nat && negb (mem_str (tok1 sent_sep) (skey s)) &&
                    negb (mem_str (tok1 task_sep3) (skey s)) &&
                    (if is_fixed s then negb (is_nil (skey s)) else true)) stamp_reps &&
  forallb (fun a => forallb (fun b => stamp_eqb a b || negb (list_eqb str_eqb (skey a) (skey b))) stamp_reps) stamp_reps &&
  (* brackets of numbers: one token each; the budget closer and the separators do not look like numbers *)
  single (fst typst_truth_brackets) && single (snd typst_truth_brackets) &&
  single (fst typst_budget_brackets) && single (snd typst_budget_brackets) &&
  negb (hd_numch b_close) && negb (hd_numch typst_truth_sep) && negb (hd_numch typst_budget_sep) &&
  negb (is_nil typst_truth_sep) && negb (is_nil typst_budget_sep) &&
  (* a task begins with a token no term begins with *)
  negb (q34 b_open) && negb (mem_str b_open initial_consts).

Lemma value_dec_ok_true : value_dec_ok = true.
Proof. vm_compute. reflexivity. Qed.

Lemma list_eqb_str_refl l : list_eqb str_eqb l l = true.
Proof.
  induction l as [|x l IH]; [reflexivity|].
  change (list_eqb str_eqb (x :: l) (x :: l)) with (str_eqb x x && list_eqb str_eqb l l).
  now rewrite str_eqb_refl, IH.
Qed.

(* ---- numbers ---- *)
Lemma show_N_numch n : forallb numch (show_N n) = true.
Proof.
  destruct (show_N_digits n) as [_ H]. rewrite forallb_forall. rewrite Forall_forall in H.
  intros c Hc. unfold numch. now rewrite (H c Hc).
Qed.

Lemma show_Z_inj a b : show_Z a = show_Z b -> a = b.
Proof.
  assert (H0 : forall p, show_N (N.pos p) <> [48]).
  { intros p E. change [48] with (show_N 0) in E. apply show_N_inj in E. discriminate. }
  assert (Hm : forall p s, show_N (N.pos p) <> 45 :: s).
  { intros p s E. destruct (show_N_head (N.pos p)) as (c & r & E2 & Hd). rewrite E in E2. injection E2 as <- _. discriminate Hd. }
  destruct a as [|p|p], b as [|q|q]; cbn [show_Z]; intros E; try reflexivity;
    try (exfalso; first [now apply (H0 _ E) | now apply (H0 _ (eq_sym E)) | now apply (Hm _ _ E) | now apply (Hm _ _ (eq_sym E)) | discriminate E]).
  - apply show_N_inj in E. now injection E as ->.
  - injection E as E. apply show_N_inj in E. now injection E as ->.
Qed.

(* a run of number characters ends where a non-number character (or nothing) follows *)
Lemma num_prefix_split x : forall y T T',
  forallb numch x = true -> forallb numch y = true ->
  (T = [] \/ hd_numch T = false) -> (T' = [] \/ hd_numch T' = false) ->
  x ++ T = y ++ T' -> x = y /\ T = T'.
Proof.
  induction x as [|c x IH]; intros [|d y] T T' Hx Hy HT HT' E; cbn [app] in E.
  - auto.
  - exfalso. subst T. cbn [forallb] in Hy. apply andb_true_iff in Hy as [Hd _].
    destruct HT as [HT|HT]; [discriminate | cbn in HT; congruence].
  - exfalso. subst T'. cbn [forallb] in Hx. apply andb_true_iff in Hx as [Hc _].
    destruct HT' as [HT'|HT']; [discriminate | cbn in HT'; congruence].
  - injection E as -> E. cbn [forallb] in Hx, Hy. apply andb_true_iff in Hx as [_ Hx]. apply andb_true_iff in Hy as [_ Hy].
    destruct (IH y T T' Hx Hy HT HT' E) as [-> ->]. auto.
Qed.

Section Join.
  Variable sep : str.
  Hypothesis Hsep : sep <> [] /\ hd_numch sep = false.

  Definition tailstr (xs : list str) : str := concat (map (fun y => sep ++ y) xs).

  Lemma tailstr_head xs : tailstr xs = [] \/ hd_numch (tailstr xs) = false.
  Proof.
    destruct xs as [|x xs]; [now left|]. right. unfold tailstr. cbn [map concat].
    destruct Hsep as [Hne Hh]. destruct sep; [congruence | exact Hh].
  Qed.

  Lemma join_inj xs : forall x y ys,
    forallb numch x = true -> forallb numch y = true ->
    Forall (fun s => forallb numch s = true) xs -> Forall (fun s => forallb numch s = true) ys ->
    x ++ tailstr xs = y ++ tailstr ys -> x :: xs = y :: ys.
  Proof.
    induction xs as [|x1 xs IH]; intros x y ys Hx Hy Hxs Hys E.
    - destruct (num_prefix_split x y _ _ Hx Hy (tailstr_head []) (tailstr_head ys) E) as [-> E2].
      destruct ys as [|y1 ys]; [reflexivity|]. unfold tailstr in E2. cbn [map concat] in E2.
      destruct Hsep as [Hne _]. destruct sep; [congruence | discriminate].
    - destruct (num_prefix_split x y _ _ Hx Hy (tailstr_head (x1 :: xs)) (tailstr_head ys) E) as [-> E2].
      destruct ys as [|y1 ys].
      + unfold tailstr in E2. cbn [map concat] in E2. destruct Hsep as [Hne _]. destruct sep; [congruence | discriminate].
      + unfold tailstr in E2. cbn [map concat] in E2. rewrite <- !app_assoc in E2. apply app_inv_head in E2.
        inversion Hxs; subst. inversion Hys; subst. f_equal. apply IH; auto.
  Qed.
End Join.

Section VInj.
  Variable to_debug : str -> str.
  Hypothesis Hdbg_sp : forall n, only_sp (to_debug n) = true.
  Hypothesis Hdbg_inj : forall n n', to_debug n = to_debug n' -> n = n'.
  Hypothesis Hdbg_q : forall n, q34 (to_debug n) = true.
  Hypothesis Hdbg_wsfree : forall n, ws_free n = true -> ws_free (to_debug n) = true.
  Variable F : Type.
  Variable fshow : F -> str.
  Variable okf : F -> Prop.
  Hypothesis Hf_tok : forall f, is_token (fshow f) = true.
  Hypothesis Hf_num : forall f, okf f -> forallb numch (fshow f) = true.
  Hypothesis Hf_inj : forall f g, okf f -> okf g -> fshow f = fshow g -> f = g.
  Hypothesis Hok : tok_tables_ok = true.
  Hypothesis Hdec : dec_tables_ok = true.
  Hypothesis Hval : value_tables_ok = true.
  Hypothesis Hvd : value_dec_ok = true.

  Notation toks' := (toks to_debug).

  (* the conjuncts of value_dec_ok *)
  Lemma Hvd_parts :
    (forall p, words (typst_punct p) = [ptok p]) /\
    (forall a b, ptok a = ptok b -> a = b) /\
    words sent_sep = [tok1 sent_sep] /\ words task_sep1 = [tok1 task_sep1] /\
    words task_sep2 = [tok1 task_sep2] /\ words task_sep3 = [tok1 task_sep3] /\
    (forall s, (length (skey s) <= 1)%nat /\ ~ In (tok1 sent_sep) (skey s) /\ ~ In (tok1 task_sep3) (skey s) /\
               (is_fixed s = true -> skey s <> [])) /\
    (forall a b, skey a = skey b -> srep a = srep b) /\
    words (fst typst_truth_brackets) = [tok1 (fst typst_truth_brackets)] /\
    words (snd typst_truth_brackets) = [tok1 (snd typst_truth_brackets)] /\
    words (fst typst_budget_brackets) = [b_open] /\ words (snd typst_budget_brackets) = [b_close] /\
    hd_numch b_close = false /\
    (typst_truth_sep <> [] /\ hd_numch typst_truth_sep = false) /\
    (typst_budget_sep <> [] /\ hd_numch typst_budget_sep = false) /\
    q34 b_open = false /\ ~ In b_open initial_consts.
  Proof.
    unfold value_dec_ok in Hvd.
    apply andb_true_iff in Hvd as [Hv Q19]. apply andb_true_iff in Hv as [Hv Q18].
    apply andb_true_iff in Hv as [Hv Q17]. apply andb_true_iff in Hv as [Hv Q16].
    apply andb_true_iff in Hv as [Hv Q15]. apply andb_true_iff in Hv as [Hv Q14].
    apply andb_true_iff in Hv as [Hv Q13]. apply andb_true_iff in Hv as [Hv Q12].
    apply andb_true_iff in Hv as [Hv Q11]. apply andb_true_iff in Hv as [Hv Q10].
    apply andb_true_iff in Hv as [Hv Q9]. apply andb_true_iff in Hv as [Hv Q8].
    apply andb_true_iff in Hv as [Hv Q7]. apply andb_true_iff in Hv as [Hv Q6].
    apply andb_true_iff in Hv as [Hv Q5]. apply andb_true_iff in Hv as [Hv Q4].
    apply andb_true_iff in Hv as [Hv Q3]. apply andb_true_iff in Hv as [Q1 Q2].
    rewrite forallb_forall in Q1, Q2, Q7, Q8.
    assert (Pin : forall p, In p all_punct) by (intros []; cbn; auto).
    assert (Sin : forall s, In (srep s) stamp_reps) by (intros []; cbn; auto 10).
    assert (Sk : forall s, skey (srep s) = skey s) by (intros []; reflexivity).
    assert (Sf : forall s, is_fixed (srep s) = is_fixed s) by (intros []; reflexivity).
    repeat apply conj; try (apply single_words; assumption); try (now apply negb_true_iff).
    - intros p. apply single_words. apply Q1, Pin.
    - intros a b E. specialize (Q2 a (Pin a)). rewrite forallb_forall in Q2. specialize (Q2 b (Pin b)).
      rewrite E, str_eqb_refl in Q2. cbn [negb] in Q2. rewrite orb_false_r in Q2. destruct a, b; try discriminate; reflexivity.
    - intros s. specialize (Q7 (srep s) (Sin s)). rewrite Sk, Sf in Q7.
      apply andb_true_iff in Q7 as [Q7 D]. apply andb_true_iff in Q7 as [Q7 C]. apply andb_true_iff in Q7 as [A B].
      apply Nat.leb_le in A. apply negb_true_iff in B, C. repeat apply conj; auto.
      + intros Hin. apply (proj2 (mem_str_true _ _)) in Hin. congruence.
      + intros Hin. apply (proj2 (mem_str_true _ _)) in Hin. congruence.
      + intros Hf Ek. rewrite Hf, Ek in D. discriminate.
    - intros a b E. specialize (Q8 (srep a) (Sin a)). rewrite forallb_forall in Q8. specialize (Q8 (srep b) (Sin b)).
      rewrite !Sk, E in Q8.
      rewrite list_eqb_str_refl in Q8. cbn [negb] in Q8. rewrite orb_false_r in Q8.
      destruct a, b; cbn [srep stamp_eqb] in *; try discriminate; reflexivity.
    - apply negb_true_iff in Q16. intros E. rewrite E in Q16. discriminate.
    - apply negb_true_iff in Q17. intros E. rewrite E in Q17. discriminate.
    - apply negb_true_iff in Q19. intros Hin. apply (proj2 (mem_str_true _ _)) in Hin. congruence.
  Qed.

  (* ---- a rendered term is self-delimiting ---- *)
  Lemma term_prefix_inj a b R R' :
    wf_term a = true -> wf_term b = true -> toks' a ++ R = toks' b ++ R' -> a = b /\ R = R'.
  Proof.
    intros Ha Hb E. unfold toks in E.
    pose proof (skel_wf to_debug Hdbg_q Hdbg_wsfree Hok a Ha) as Wa.
    pose proof (skel_wf to_debug Hdbg_q Hdbg_wsfree Hok b Hb) as Wb.
    pose proof (parse_ok Hok Hdec (dsize (skel to_debug a) + dsize (skel to_debug b)) _ R Wa ltac:(lia)) as Pa.
    pose proof (parse_ok Hok Hdec (dsize (skel to_debug a) + dsize (skel to_debug b)) _ R' Wb ltac:(lia)) as Pb.
    rewrite E in Pa. rewrite Pa in Pb. injection Pb as E1 E2. split; [|exact E2].
    now apply (skel_inj to_debug Hdbg_inj Hdbg_q Hdbg_wsfree).
  Qed.

  Lemma toks_head a : wf_term a = true -> exists t0 r, toks' a = t0 :: r /\ initial t0.
  Proof. intros Ha. apply (dflat_head Hok Hdec). now apply skel_wf. Qed.

  (* ---- stamps ---- *)
  Lemma srep_fixed s : is_fixed s = false -> srep s = s.
  Proof. destruct s; try reflexivity. discriminate. Qed.

  Lemma stamp_prefix_inj st st' sep X X' :
    (sep = tok1 sent_sep \/ sep = tok1 task_sep3) ->
    stamp_toks st ++ sep :: X = stamp_toks st' ++ sep :: X' -> st = st' /\ X = X'.
  Proof.
    intros Hsep E.
    destruct Hvd_parts as (_ & _ & _ & _ & _ & _ & SK & SI & _).
    destruct (SK st) as (L1 & N1 & N1' & _). destruct (SK st') as (L2 & N2 & N2' & _).
    assert (Ns : ~ In sep (skey st) /\ ~ In sep (skey st')) by (destruct Hsep as [->| ->]; auto).
    destruct Ns as [Ns Ns'].
    assert (Kf : forall s, is_fixed s = true -> skey s <> []) by (intros s; apply SK).
    unfold stamp_toks in E. fold (skey st) in E. fold (skey st') in E.
    destruct (skey st) as [|k [|? ?]] eqn:K1; [| |cbn [length] in L1; lia];
    destruct (skey st') as [|k' [|? ?]] eqn:K2; try (cbn [length] in L2; lia).
    - (* no prefix tokens on either side *)
      assert (Es : srep st = srep st') by (apply SI; congruence).
      destruct (is_fixed st) eqn:F1; [exfalso; now apply (Kf st F1)|].
      destruct (is_fixed st') eqn:F2; [exfalso; now apply (Kf st' F2)|].
      rewrite (srep_fixed st F1), (srep_fixed st' F2) in Es. subst st'.
      destruct st; try discriminate F1; cbn [app] in E; injection E as E; auto.
    - destruct (is_fixed st) eqn:F1; [exfalso; now apply (Kf st F1)|].
      destruct st; try discriminate F1; cbn [app] in E; injection E as E _; exfalso; apply Ns'; rewrite E; now left.
    - destruct (is_fixed st') eqn:F2; [exfalso; now apply (Kf st' F2)|].
      destruct st'; try discriminate F2; cbn [app] in E; injection E as E _; exfalso; apply Ns; rewrite <- E; now left.
    - cbn [app] in E. injection E as Ek E. subst k'.
      assert (Es : srep st = srep st') by (apply SI; congruence).
      destruct st, st'; cbn [srep] in Es; try discriminate Es; cbn [app] in E; try (injection E as E; auto; fail).
      injection E as E1 E2. apply show_Z_inj in E1. subst. auto.
  Qed.

  (* ---- numbers ---- *)
  Lemma fshow_nonempty f : fshow f <> [].
  Proof. pose proof (Hf_tok f) as H. destruct (fshow f); [discriminate | discriminate]. Qed.

  Lemma map_fshow_inj fs : forall gs, Forall okf fs -> Forall okf gs -> map fshow fs = map fshow gs -> fs = gs.
  Proof.
    induction fs as [|f fs IH]; intros [|g gs] Hf Hg E; cbn [map] in E; try discriminate; [reflexivity|].
    injection E as E1 E2. inversion Hf; subst. inversion Hg; subst. f_equal; auto.
  Qed.

  Lemma floats_tok_cons sep f fs : floats_tok F fshow sep (f :: fs) = fshow f ++ tailstr sep (map fshow fs).
  Proof. reflexivity. Qed.

  Lemma floats_tok_inj sep fs gs :
    sep <> [] /\ hd_numch sep = false -> fs <> [] -> gs <> [] -> Forall okf fs -> Forall okf gs ->
    floats_tok F fshow sep fs = floats_tok F fshow sep gs -> fs = gs.
  Proof.
    intros Hs Hfs Hgs Of Og E. destruct fs as [|f fs]; [congruence|]. destruct gs as [|g gs]; [congruence|].
    rewrite !floats_tok_cons in E. inversion Of; subst. inversion Og; subst.
    apply (join_inj sep Hs) in E; auto.
    - apply (map_fshow_inj (f :: fs) (g :: gs)); auto.
    - apply Forall_forall. intros s Hin. apply in_map_iff in Hin as (x & <- & Hx). apply Hf_num.
      rewrite Forall_forall in *. auto.
    - apply Forall_forall. intros s Hin. apply in_map_iff in Hin as (x & <- & Hx). apply Hf_num.
      rewrite Forall_forall in *. auto.
  Qed.

  Lemma floats_tok_head sep f fs : okf f -> hd_numch (floats_tok F fshow sep (f :: fs)) = true.
  Proof.
    intros Hf. rewrite floats_tok_cons. pose proof (Hf_num f Hf) as Hn. pose proof (fshow_nonempty f) as Hne.
    destruct (fshow f) as [|c r]; [congruence|]. cbn [forallb] in Hn. apply andb_true_iff in Hn as [Hc _]. exact Hc.
  Qed.

  Lemma truth_toks_inj tr tr' :
    Forall okf (truth_list tr) -> Forall okf (truth_list tr') ->
    truth_toks F fshow tr = truth_toks F fshow tr' -> tr = tr'.
  Proof.
    intros Hf Hg E. destruct Hvd_parts as (_ & _ & _ & _ & _ & _ & _ & _ & T1 & T2 & _ & _ & _ & TS & _).
    unfold truth_toks in E.
    destruct tr as [|f|f c], tr' as [|f'|f' c']; try reflexivity; rewrite ?T1, ?T2 in E; cbn [app] in E; try discriminate E;
      injection E as E; apply (floats_tok_inj _ _ _ TS) in E; try discriminate; auto; try (injection E; intros; subst; reflexivity).
  Qed.

  Lemma budget_list_inj (b b' : budgetv F) : budget_list b = budget_list b' -> b = b'.
  Proof. destruct b, b'; cbn [budget_list]; intros E; try discriminate; try reflexivity; injection E; intros; subst; reflexivity. Qed.

  Lemma budget_prefix_inj b b' R R' :
    Forall okf (budget_list b) -> Forall okf (budget_list b') ->
    budget_toks F fshow b ++ R = budget_toks F fshow b' ++ R' -> b = b' /\ R = R'.
  Proof.
    intros Hf Hg E. destruct Hvd_parts as (_ & _ & _ & _ & _ & _ & _ & _ & _ & _ & B1 & B2 & BC & _ & BS & _).
    unfold budget_toks in E. rewrite B1, B2 in E.
    destruct (budget_list b) as [|f fs] eqn:E1; destruct (budget_list b') as [|g gs] eqn:E2; cbn [app] in E.
    - injection E as E. split; [|exact E]. apply budget_list_inj. congruence.
    - injection E as E _. exfalso. inversion Hg; subst. rewrite E, (floats_tok_head _ g gs) in BC; [discriminate | assumption].
    - injection E as E _. exfalso. inversion Hf; subst. rewrite <- E, (floats_tok_head _ f fs) in BC; [discriminate | assumption].
    - injection E as E E'. apply (floats_tok_inj _ _ _ BS) in E; try discriminate; auto. split; [|exact E'].
      apply budget_list_inj. congruence.
  Qed.

  (* ---- sentences ---- *)
  Definition wf_sentence (s : sentence F) : Prop :=
    wf_term (s_term s) = true /\ Forall okf (truth_list (s_truth0 F s)).

  Lemma sentence_ext s s' :
    s_term s = s_term s' -> s_punct s = s_punct s' -> s_stamp s = s_stamp s' -> s_truth0 F s = s_truth0 F s' -> s = s'.
  Proof.
    destruct s, s'; cbn [s_term s_punct s_stamp s_truth0 s_truth]; intros; try discriminate; subst; reflexivity.
  Qed.

  (* what follows the term in a sentence *)
  Lemma sentence_tail_inj s s' :
    Forall okf (truth_list (s_truth0 F s)) -> Forall okf (truth_list (s_truth0 F s')) ->
    words (typst_punct (s_punct s)) ++ stamp_toks (s_stamp s) ++ words sent_sep ++ truth_toks F fshow (s_truth0 F s) =
    words (typst_punct (s_punct s')) ++ stamp_toks (s_stamp s') ++ words sent_sep ++ truth_toks F fshow (s_truth0 F s') ->
    s_punct s = s_punct s' /\ s_stamp s = s_stamp s' /\ s_truth0 F s = s_truth0 F s'.
  Proof.
    intros Hf Hg E. destruct Hvd_parts as (P1 & P2 & S1 & _).
    rewrite !P1, S1 in E. cbn [app] in E. injection E as Ep E. apply P2 in Ep.
    apply (stamp_prefix_inj _ _ (tok1 sent_sep)) in E as [Es Et]; [|now left].
    repeat split; auto. now apply truth_toks_inj.
  Qed.

  Lemma task_tail_inj s s' :
    Forall okf (truth_list (s_truth0 F s)) -> Forall okf (truth_list (s_truth0 F s')) ->
    words (typst_punct (s_punct s)) ++ words task_sep2 ++ stamp_toks (s_stamp s) ++ words task_sep3 ++ truth_toks F fshow (s_truth0 F s) =
    words (typst_punct (s_punct s')) ++ words task_sep2 ++ stamp_toks (s_stamp s') ++ words task_sep3 ++ truth_toks F fshow (s_truth0 F s') ->
    s_punct s = s_punct s' /\ s_stamp s = s_stamp s' /\ s_truth0 F s = s_truth0 F s'.
  Proof.
    intros Hf Hg E. destruct Hvd_parts as (P1 & P2 & _ & _ & S2 & S3 & _).
    rewrite !P1, S2, S3 in E. cbn [app] in E. injection E as Ep E. apply P2 in Ep.
    apply (stamp_prefix_inj _ _ (tok1 task_sep3)) in E as [Es Et]; [|now right].
    repeat split; auto. now apply truth_toks_inj.
  Qed.

  (* ---- whole values ---- *)
  Definition wf_value (v : narsese F) : Prop :=
    match v with
    | NTerm t => wf_term t = true
    | NSentence s => wf_sentence s
    | NTask k => wf_sentence (fst k) /\ Forall okf (budget_list (snd k))
    end.

  Lemma not_initial_b_open : ~ initial b_open.
  Proof.
    destruct Hvd_parts as (_ & _ & _ & _ & _ & _ & _ & _ & _ & _ & _ & _ & _ & _ & _ & Q & NI).
    intros [H|H]; [congruence | contradiction].
  Qed.

  Lemma term_not_task a X Y : wf_term a = true -> toks' a ++ X = b_open :: Y -> False.
  Proof.
    intros Ha E. destruct (toks_head a Ha) as (t0 & r & Et & Hi). rewrite Et in E. cbn [app] in E.
    injection E as E _. subst t0. now apply not_initial_b_open.
  Qed.

  Theorem value_toks_inj v v' : wf_value v -> wf_value v' ->
    value_toks to_debug F fshow v = value_toks to_debug F fshow v' -> v = v'.
  Proof.
    destruct Hvd_parts as (P1 & _ & _ & S1 & _ & _ & _ & _ & _ & _ & B1 & _).
    intros Hv Hv' E. destruct v as [a|s|[s b]], v' as [a'|s'|[s' b']]; cbn [value_toks wf_value fst snd] in *.
    - (* term / term *)
      rewrite <- (app_nil_r (toks' a)), <- (app_nil_r (toks' a')) in E.
      now destruct (term_prefix_inj a a' [] [] Hv Hv' E) as [-> _].
    - (* term / sentence *)
      destruct Hv' as [Ht' _]. unfold sentence_toks in E. rewrite <- (app_nil_r (toks' a)) in E.
      destruct (term_prefix_inj a (s_term s') _ _ Hv Ht' E) as [_ E2]. rewrite P1 in E2. discriminate.
    - (* term / task *)
      exfalso. unfold task_toks, budget_toks in E. cbn [fst snd] in E. rewrite B1 in E. cbn [app] in E.
      rewrite <- (app_nil_r (toks' a)) in E. exact (term_not_task a [] _ Hv E).
    - destruct Hv as [Ht _]. unfold sentence_toks in E. rewrite <- (app_nil_r (toks' a')) in E.
      destruct (term_prefix_inj (s_term s) a' _ _ Ht Hv' E) as [_ E2]. rewrite P1 in E2. discriminate.
    - (* sentence / sentence *)
      destruct Hv as [Ht Hf]. destruct Hv' as [Ht' Hf']. unfold sentence_toks in E.
      destruct (term_prefix_inj _ _ _ _ Ht Ht' E) as [Et E2].
      destruct (sentence_tail_inj s s' Hf Hf' E2) as (Ep & Es & Etr). f_equal. now apply sentence_ext.
    - (* sentence / task *)
      exfalso. destruct Hv as [Ht _]. unfold sentence_toks, task_toks, budget_toks in E. cbn [fst snd] in E.
      rewrite B1 in E. cbn [app] in E. exact (term_not_task _ _ _ Ht E).
    - exfalso. unfold task_toks, budget_toks in E. cbn [fst snd] in E. rewrite B1 in E. cbn [app] in E.
      rewrite <- (app_nil_r (toks' a')) in E. exact (term_not_task a' [] _ Hv' (eq_sym E)).
    - exfalso. destruct Hv' as [Ht' _]. unfold sentence_toks, task_toks, budget_toks in E. cbn [fst snd] in E.
      rewrite B1 in E. cbn [app] in E. exact (term_not_task _ _ _ Ht' (eq_sym E)).
    - (* task / task *)
      destruct Hv as [[Ht Hf] Hb]. destruct Hv' as [[Ht' Hf'] Hb']. unfold task_toks in E. cbn [fst snd] in E.
      destruct (budget_prefix_inj b b' _ _ Hb Hb' E) as [-> E2].
      rewrite S1 in E2. cbn [app] in E2. injection E2 as E2.
      destruct (term_prefix_inj _ _ _ _ Ht Ht' E2) as [Et E3].
      destruct (task_tail_inj s s' Hf Hf' E3) as (Ep & Es & Etr).
      do 2 f_equal. now apply sentence_ext.
  Qed.

  Theorem typst_value_injective_proof v v' : wf_value v -> wf_value v' ->
    typst_narsese F fshow to_debug v = typst_narsese F fshow to_debug v' -> v = v'.
  Proof.
    intros Hv Hv' E.
    rewrite !(typst_value_tokens_proof to_debug Hdbg_sp F fshow Hf_tok Hok Hval) in E. injection E as E.
    apply unwords_inj in E; try apply (value_toks_tokens to_debug Hdbg_sp F fshow Hf_tok Hok Hval).
    now apply value_toks_inj.
  Qed.
End VInj.
