(* Proofs/FoldP.v -- lexical folding (Model/Fold.v): totality (C05, fold half), well-formedness of
   every Ok result (C12, fold half), preservation of the term category (C14, fold half), agreement of
   the fold arms with the enum parser's arms and of the lexical with the enum vocabulary (C03), and
   the desugaring equations at the fold level (C10).
   Table side-conditions are boolean functions of the REGENERATED tables (Gen/FoldArms.v, Gen/EnumArms.v,
   Gen/TermGen.v, Gen/EnumFormats.v, Gen/LexVocab.v), discharged by computation: an edited arm makes
   this file fail to compile. *)
From Nv Require Import Base.Str Base.Dec Model.Term Model.EqHash Model.Access Model.Sentence.
From Nv Require Import Model.EnumFormat Model.EnumParser Model.Fold Gen.LexVocab.
From Nv Require Import Proofs.EqHashP Proofs.AccessP Proofs.DecP.

(* ------------------------------------------------------------------ *)
(* induction on lexical terms that reaches into the component lists *)
Section lterm_ind_strong.
  Variable P : lterm -> Prop.
  Hypothesis HAtom : forall p n, P (LAtom p n).
  Hypothesis HCompound : forall c l, Forall P l -> P (LCompound c l).
  Hypothesis HSet : forall a l b, Forall P l -> P (LSet a l b).
  Hypothesis HStatement : forall c s p, P s -> P p -> P (LStatement c s p).

  Fixpoint lterm_ind' (x : lterm) : P x :=
    let fix go (l : list lterm) : Forall P l :=
      match l with
      | [] => Forall_nil P
      | y :: l' => Forall_cons y (lterm_ind' y) (go l')
      end in
    match x with
    | LAtom p n => HAtom p n
    | LCompound c l => HCompound c l (go l)
    | LSet a l b => HSet a l b (go l)
    | LStatement c s p => HStatement c s p (lterm_ind' s) (lterm_ind' p)
    end.
End lterm_ind_strong.

(* ------------------------------------------------------------------ *)
(* unfolding equations of fold_term *)
Lemma fold_terms_eq E l :
  (fix fold_terms (l : list lterm) : fres (list term) :=
     match l with
     | [] => FOk []
     | y :: l' => fbind (fold_term E y) (fun t => fbind (fold_terms l') (fun ts => FOk (t :: ts)))
     end) l = fold_terms E l.
Proof. induction l as [|y l IH]; cbn [fold_terms]; [reflexivity | now rewrite IH]. Qed.

Lemma fold_term_atom E p n : fold_term E (LAtom p n) = fold_atom E p n.
Proof. reflexivity. Qed.

Lemma fold_term_compound E c l :
  fold_term E (LCompound c l) = fbind (fold_terms E l) (fun ts => fold_compound E c ts).
Proof. cbn [fold_term]. now rewrite fold_terms_eq. Qed.

Lemma fold_term_set E a l b :
  fold_term E (LSet a l b) = fbind (fold_terms E l) (fun ts => fold_set E a b ts).
Proof. cbn [fold_term]. now rewrite fold_terms_eq. Qed.

Lemma fold_term_statement E c s p :
  fold_term E (LStatement c s p) =
  fbind (fold_term E s) (fun s' => fbind (fold_term E p) (fun p' => fold_statement E s' c p')).
Proof. reflexivity. Qed.

Lemma fold_terms_cons E y l :
  fold_terms E (y :: l) = fbind (fold_term E y) (fun t => fbind (fold_terms E l) (fun ts => FOk (t :: ts))).
Proof. reflexivity. Qed.

Lemma fbind_ok {A B} (r : fres A) (f : A -> fres B) b :
  fbind r f = FOk b -> exists a, r = FOk a /\ f a = FOk b.
Proof. destruct r as [a| |]; cbn [fbind]; intros H; try discriminate. now exists a. Qed.

Lemma fbind_no_panic {A B} (r : fres A) (f : A -> fres B) :
  r <> FPanic -> (forall a, r = FOk a -> f a <> FPanic) -> fbind r f <> FPanic.
Proof. destruct r as [a| |]; cbn [fbind]; intros H1 H2; [now apply H2 | discriminate | congruence]. Qed.

(* the results of fold_terms, pointwise *)
Lemma fold_terms_ok E l ts :
  fold_terms E l = FOk ts -> Forall2 (fun x t => fold_term E x = FOk t) l ts.
Proof.
  revert ts; induction l as [|y l IH]; intros ts H.
  - cbn [fold_terms] in H. injection H as <-. constructor.
  - rewrite fold_terms_cons in H. apply fbind_ok in H as [t [Ht H]].
    apply fbind_ok in H as [ts' [Hts H]]. injection H as <-. constructor; [exact Ht | now apply IH].
Qed.

Lemma fold_terms_no_panic E l :
  Forall (fun x => fold_term E x <> FPanic) l -> fold_terms E l <> FPanic.
Proof.
  induction 1 as [|y l Hy Hl IH]; [discriminate|].
  rewrite fold_terms_cons. apply fbind_no_panic; [exact Hy|]. intros t _.
  apply fbind_no_panic; [exact IH | discriminate].
Qed.

(* ------------------------------------------------------------------ *)
(* first_eq: the arm that is found belongs to the table, and its keyword is the compared string *)
Lemma first_eq_In {A} E x (arms : list ((efmt -> str) * A)) a :
  first_eq E x arms = Some a -> exists g, In (g, a) arms /\ x = g E.
Proof.
  induction arms as [|[g b] arms IH]; cbn [first_eq]; [discriminate|].
  destruct (str_eqb_spec x (g E)) as [-> |Hne].
  - intros H; injection H as ->. exists g. split; [now left | reflexivity].
  - intros H. destruct (IH H) as [g' [Hin Hx]]. exists g'. split; [now right | exact Hx].
Qed.

Lemma first_eq2_In {A} E l r (arms : list ((efmt -> str) * (efmt -> str) * A)) a :
  first_eq2 E l r arms = Some a -> exists gl gr, In (gl, gr, a) arms /\ l = gl E /\ r = gr E.
Proof.
  induction arms as [|[[gl gr] b] arms IH]; cbn [first_eq2]; [discriminate|].
  destruct (str_eqb_spec l (gl E)) as [-> |Hne]; cbn [andb].
  - destruct (str_eqb_spec r (gr E)) as [-> |Hne].
    + intros H; injection H as ->. exists gl, gr. split; [now left | split; reflexivity].
    + intros H. destruct (IH H) as [gl' [gr' [Hin Hx]]]. exists gl', gr'. split; [now right | exact Hx].
  - intros H. destruct (IH H) as [gl' [gr' [Hin Hx]]]. exists gl', gr'. split; [now right | exact Hx].
Qed.

(* keywords of a table, evaluated in a format, pairwise distinct *)
Fixpoint str_nodup (l : list str) : bool :=
  match l with
  | [] => true
  | x :: l' => negb (existsb (str_eqb x) l') && str_nodup l'
  end.

Definition keys {A} (E : efmt) (arms : list ((efmt -> str) * A)) : list str := map (fun ga => fst ga E) arms.

Lemma existsb_str_eqb_In x l : existsb (str_eqb x) l = true <-> In x l.
Proof.
  rewrite existsb_exists. split.
  - intros [y [Hy He]]. apply str_eqb_eq in He. now subst.
  - intros H. exists x. split; [exact H | apply str_eqb_refl].
Qed.

(* with distinct keywords, looking a table keyword up finds its own arm *)
Lemma first_eq_found {A} E (arms : list ((efmt -> str) * A)) g a :
  str_nodup (keys E arms) = true -> In (g, a) arms -> first_eq E (g E) arms = Some a.
Proof.
  induction arms as [|[g' b] arms IH]; cbn [In]; [tauto|].
  unfold keys. cbn [map str_nodup fst first_eq]. rewrite andb_true_iff, negb_true_iff.
  intros [Hnot Hnd] [Heq|Hin].
  - injection Heq as -> ->. now rewrite str_eqb_refl.
  - destruct (str_eqb_spec (g E) (g' E)) as [Heq|Hne].
    + exfalso. assert (Hx : existsb (str_eqb (g' E)) (map (fun ga => fst ga E) arms) = true).
      { apply existsb_str_eqb_In. rewrite <- Heq. apply in_map_iff. exists (g, a). split; [reflexivity | exact Hin]. }
      congruence.
    + now apply IH.
Qed.

(* ------------------------------------------------------------------ *)
(* to_terms_with_image *)
Lemma to_terms_with_image_spec i l idx rest :
  to_terms_with_image i l = (Some idx, rest) ->
  exists l1 l2, l = l1 ++ placeholder :: l2 /\ rest = l1 ++ l2 /\ idx = i + nlen l1 /\
                forallb (fun x => negb (is_placeholder x)) l1 = true.
Proof.
  revert i idx rest; induction l as [|x l IH]; intros i idx rest; cbn [to_terms_with_image]; [discriminate|].
  destruct (is_placeholder x) eqn:Hp.
  - intros H; injection H as <- <-. exists [], l. cbn [app nlen length forallb]. repeat split; try reflexivity.
    + destruct x as [| c | | | | | |]; try discriminate. cbn [is_placeholder] in Hp.
      apply unit_ctor_eqb_eq in Hp. now subst.
    + unfold nlen. cbn. lia.
  - destruct (to_terms_with_image (i + 1) l) as [o r] eqn:Hrec. intros H; injection H as -> <-.
    destruct (IH _ _ _ Hrec) as [l1 [l2 [-> [-> [-> Hall]]]]].
    exists (x :: l1), l2. cbn [app forallb]. rewrite Hp, Hall. repeat split; try reflexivity.
    rewrite nlen_cons. lia.
Qed.

Lemma to_terms_with_image_index i l idx rest :
  to_terms_with_image i l = (Some idx, rest) -> idx <= i + nlen rest.
Proof.
  intros H. destruct (to_terms_with_image_spec _ _ _ _ H) as [l1 [l2 [_ [-> [-> _]]]]].
  unfold nlen. rewrite app_length. lia.
Qed.

Lemma to_terms_with_image_In i l o rest x :
  to_terms_with_image i l = (o, rest) -> In x rest -> In x l.
Proof.
  revert i o rest; induction l as [|y l IH]; intros i o rest; cbn [to_terms_with_image].
  - intros H; injection H as <- <-. tauto.
  - destruct (is_placeholder y).
    + intros H; injection H as <- <-. now right.
    + destruct (to_terms_with_image (i + 1) l) as [o' r] eqn:Hrec. intros H; injection H as <- <-.
      intros [-> |Hin]; [now left | right; eapply IH; eauto].
Qed.

(* the first placeholder is found when there is one before which no placeholder occurs *)
Lemma to_terms_with_image_found i l1 l2 :
  forallb (fun x => negb (is_placeholder x)) l1 = true ->
  to_terms_with_image i (l1 ++ placeholder :: l2) = (Some (i + nlen l1), l1 ++ l2).
Proof.
  revert i; induction l1 as [|x l1 IH]; intros i; cbn [forallb app to_terms_with_image].
  - intros _. unfold placeholder. cbn [is_placeholder]. rewrite unit_ctor_eqb_refl.
    f_equal. f_equal. unfold nlen. cbn. lia.
  - rewrite andb_true_iff, negb_true_iff. intros [Hx Hall]. rewrite Hx, (IH (i + 1) Hall).
    f_equal. f_equal. rewrite nlen_cons. lia.
Qed.

(* ------------------------------------------------------------------ *)
(* mk_set keeps only elements of its argument *)
Lemma set_insert_In l x y : In y (set_insert l x) -> In y l \/ y = x.
Proof.
  unfold set_insert. destruct (set_mem x l); [tauto|]. rewrite in_app_iff. cbn [In]. intuition.
Qed.

Lemma fold_left_set_insert_In news : forall l y, In y (fold_left set_insert news l) -> In y l \/ In y news.
Proof.
  induction news as [|x news IH]; intros l y; cbn [fold_left]; [tauto|].
  intros H. destruct (IH _ _ H) as [H1|H1].
  - destruct (set_insert_In _ _ _ H1) as [H2| ->]; [now left | right; now left].
  - right; now right.
Qed.

Lemma mk_set_In l y : In y (mk_set l) -> In y l.
Proof. unfold mk_set. intros H. destruct (fold_left_set_insert_In _ _ _ H) as [[]|H1]; exact H1. Qed.

Lemma mk_set_single x : mk_set [x] = [x].
Proof. reflexivity. Qed.

(* ------------------------------------------------------------------ *)
(* (i) totality: folding never panics                                   *)
(* ------------------------------------------------------------------ *)

(* the static (format-independent) table facts totality rests on:
   - test_term_vec_for_image panics for index > len only (so the index of the first placeholder,
     which is <= the number of remaining components, is always accepted);
   - the error window of the enum parser is clamped (so building a ParseError never panics:
     the side doors for stamp and punctuation build one eagerly) *)
Definition fold_static_ok : bool :=
  match image_index_panic_op with OpGt => true | _ => false end && err_window_clamped.

Lemma fold_static_ok_true : fold_static_ok = true.
Proof. reflexivity. Qed.

Lemma new_image_no_panic c i l :
  fold_static_ok = true -> i <= nlen l -> new_image c i l = FOk (TImg c i l).
Proof.
  unfold fold_static_ok, new_image. destruct image_index_panic_op; cbn [andb]; try discriminate.
  intros _ H. cbn [cmp_holds]. destruct (N.ltb_spec (nlen l) i); [lia | reflexivity].
Qed.

Lemma to_image_no_panic c ts : fold_static_ok = true -> to_image_with_placeholder c ts <> FPanic.
Proof.
  intros Hs. unfold to_image_with_placeholder.
  destruct (to_terms_with_image 0 ts) as [[idx|] rest] eqn:H; [|discriminate].
  apply to_terms_with_image_index in H. rewrite new_image_no_panic; [discriminate | exact Hs | lia].
Qed.

Lemma fold_atom_no_panic E p n : fold_atom E p n <> FPanic.
Proof.
  unfold fold_atom. destruct (match fold_atom_empty_name_exempt with Some g => _ | None => false end); [discriminate|].
  destruct (first_eq E p fold_atom_arms) as [[c|c|c]|]; try discriminate.
  destruct (read_usize n); discriminate.
Qed.

Lemma fold_compound_no_panic E c ts : fold_static_ok = true -> fold_compound E c ts <> FPanic.
Proof.
  intros Hs. unfold fold_compound.
  destruct (first_eq E c fold_compound_arms) as [[k|k|k|k|k]|]; try discriminate.
  - now apply to_image_no_panic.
  - destruct ts; discriminate.
  - destruct ts as [|x [|y ts]]; discriminate.
Qed.

Lemma fold_set_no_panic E a b ts : fold_set E a b ts <> FPanic.
Proof. unfold fold_set. destruct (first_eq2 E a b fold_set_arms); discriminate. Qed.

Lemma fold_statement_no_panic E s c p : fold_statement E s c p <> FPanic.
Proof. unfold fold_statement. destruct (first_eq E c fold_statement_arms); discriminate. Qed.

Theorem fold_term_total E x : fold_static_ok = true -> fold_term E x <> FPanic.
Proof.
  intros Hs. induction x as [p n | c l IH | a l b IH | c s p IHs IHp] using lterm_ind'.
  - apply fold_atom_no_panic.
  - rewrite fold_term_compound. apply fbind_no_panic; [now apply fold_terms_no_panic|].
    intros ts _. now apply fold_compound_no_panic.
  - rewrite fold_term_set. apply fbind_no_panic; [now apply fold_terms_no_panic|].
    intros ts _. apply fold_set_no_panic.
  - rewrite fold_term_statement. apply fbind_no_panic; [exact IHs|]. intros s' _.
    apply fbind_no_panic; [exact IHp|]. intros p' _. apply fold_statement_no_panic.
Qed.

Section Numbers.
  Variable F : Type.
  Variable fread : str -> option F.
  Variable in01 : F -> bool.

  Lemma try_fold_float_vec_no_panic l : try_fold_float_vec F fread l <> FPanic.
  Proof.
    induction l as [|s l IH]; cbn [try_fold_float_vec]; [discriminate|].
    destruct (fread s); [|discriminate]. apply fbind_no_panic; [exact IH | discriminate].
  Qed.

  Lemma try_validate_ok v w : try_validate F in01 v = FOk w -> w = v /\ in01 v = true.
  Proof. unfold try_validate. destruct (in01 v); [intros H; injection H as <-; tauto | discriminate]. Qed.

  Lemma validate_in01 v : in01 v = true -> validate F in01 v = FOk v.
  Proof. unfold validate. now intros ->. Qed.

  (* range validation precedes the panicking constructors *)
  Lemma truth_try_from_floats_spec l :
    match truth_try_from_floats F in01 l with
    | FOk t => forallb in01 (truth_list t) = true /\ truth_list t = firstn 2 l
    | FErr => forallb in01 (firstn 2 l) = false
    | FPanic => False
    end.
  Proof.
    destruct l as [|v [|v2 l]]; cbn [truth_try_from_floats firstn].
    - cbn. tauto.
    - unfold try_validate. destruct (in01 v) eqn:Hv; cbn [fbind forallb andb]; [|cbn [forallb]; now rewrite ?Hv].
      unfold truth_new_single. rewrite (validate_in01 _ Hv). cbn [fbind truth_list forallb]. now rewrite Hv.
    - unfold try_validate. destruct (in01 v) eqn:Hv; cbn [fbind forallb andb]; [|cbn [forallb]; now rewrite ?Hv].
      destruct (in01 v2) eqn:Hv2; cbn [fbind]; [|cbn [forallb]; now rewrite ?Hv, ?Hv2].
      unfold truth_new_double. rewrite (validate_in01 _ Hv), (validate_in01 _ Hv2).
      cbn [fbind truth_list forallb]. now rewrite ?Hv, ?Hv2.
  Qed.

  Lemma budget_try_from_floats_spec l :
    match budget_try_from_floats F in01 l with
    | FOk b => forallb in01 (budget_list b) = true /\ budget_list b = firstn 3 l
    | FErr => forallb in01 (firstn 3 l) = false
    | FPanic => False
    end.
  Proof.
    destruct l as [|v [|v2 [|v3 l]]]; cbn [budget_try_from_floats firstn].
    - cbn. tauto.
    - unfold try_validate. destruct (in01 v) eqn:Hv; cbn [fbind forallb andb]; [|cbn [forallb]; now rewrite ?Hv].
      unfold budget_new_single. rewrite (validate_in01 _ Hv). cbn [fbind budget_list forallb]. now rewrite Hv.
    - unfold try_validate. destruct (in01 v) eqn:Hv; cbn [fbind forallb andb]; [|cbn [forallb]; now rewrite ?Hv].
      destruct (in01 v2) eqn:Hv2; cbn [fbind]; [|cbn [forallb]; now rewrite ?Hv, ?Hv2].
      unfold budget_new_double. rewrite (validate_in01 _ Hv), (validate_in01 _ Hv2).
      cbn [fbind budget_list forallb]. now rewrite Hv, Hv2.
    - unfold try_validate. destruct (in01 v) eqn:Hv; cbn [fbind forallb andb]; [|cbn [forallb]; now rewrite ?Hv].
      destruct (in01 v2) eqn:Hv2; cbn [fbind]; [|cbn [forallb]; now rewrite ?Hv, ?Hv2].
      destruct (in01 v3) eqn:Hv3; cbn [fbind]; [|cbn [forallb]; now rewrite ?Hv, ?Hv2, ?Hv3].
      unfold budget_new_triple. rewrite (validate_in01 _ Hv), (validate_in01 _ Hv2), (validate_in01 _ Hv3).
      cbn [fbind budget_list forallb]. now rewrite Hv, Hv2, Hv3.
  Qed.

  Lemma fold_truth_no_panic l : fold_truth F fread in01 l <> FPanic.
  Proof.
    unfold fold_truth. apply fbind_no_panic; [apply try_fold_float_vec_no_panic|].
    intros vs _ H. pose proof (truth_try_from_floats_spec vs) as S. now rewrite H in S.
  Qed.

  Lemma fold_budget_no_panic l : fold_budget F fread in01 l <> FPanic.
  Proof.
    unfold fold_budget. apply fbind_no_panic; [apply try_fold_float_vec_no_panic|].
    intros vs _ H. pose proof (budget_try_from_floats_spec vs) as S. now rewrite H in S.
  Qed.

  (* ---- the side doors: no panic, no fuel exhaustion (for every format and every string) ---- *)
  Variable E : efmt.

  Lemma err_window_ok_true (st : pstate F) : err_window_clamped = true -> err_window_ok F st = true.
  Proof.
    intros Hc. unfold err_window_ok, err_window. rewrite Hc.
    set (index := Nat.min (s_head F st) (s_len F st)).
    assert (Hi : (index <= s_len F st)%nat) by (unfold index; lia).
    apply Nat.leb_le.
    destruct (Nat.ltb_spec err_view_range index); destruct (Nat.ltb_spec (index + err_view_range + 1) (s_len F st)); lia.
  Qed.

  Lemma perr_no_panic {A} (st : pstate F) : err_window_clamped = true -> perr F st = @PErr F A st.
  Proof. intros Hc. unfold perr. now rewrite err_window_ok_true. Qed.

  Definition no_panic_fuel {A} (r : pres F A) : Prop := r <> PPanic /\ r <> PFuel.

  Lemma parse_isize_safe (st : pstate F) : err_window_clamped = true -> no_panic_fuel (parse_isize F st).
  Proof.
    intros Hc. unfold parse_isize.
    destruct (if can_consume F st then int_scan (s_rest F st) else []) as [|c buf].
    - rewrite perr_no_panic by exact Hc. split; discriminate.
    - destruct (read_isize (c :: buf)); [split; discriminate|].
      rewrite perr_no_panic by exact Hc. split; discriminate.
  Qed.

  Lemma consume_stamp_safe (st : pstate F) : err_window_clamped = true -> no_panic_fuel (consume_stamp F E st).
  Proof.
    intros Hc. unfold consume_stamp.
    destruct (find_arm F E _ _) as [[g [sk kind]]|].
    - destruct kind; try (split; discriminate).
      match goal with |- no_panic_fuel (pbind F ?r _) => destruct (parse_isize_safe (if stamp_fixed_skip_spaces then skip_spaces F E (skip F (sk E) (skip_and_spaces F E (sentence_stamp_brackets_0 E) st)) else skip F (sk E) (skip_and_spaces F E (sentence_stamp_brackets_0 E) st)) Hc) as [H1 H2]; destruct r; cbn [pbind]; try congruence; split; discriminate end.
    - rewrite perr_no_panic by exact Hc. split; discriminate.
  Qed.

  Lemma consume_punctuation_safe (st : pstate F) : err_window_clamped = true -> no_panic_fuel (consume_punctuation F E st).
  Proof.
    intros Hc. unfold consume_punctuation.
    destruct (find_arm F E _ _) as [[g [sk p]]|]; [split; discriminate|].
    rewrite perr_no_panic by exact Hc. split; discriminate.
  Qed.

  Lemma door_safe {A} consume (get : mid F -> option A) input :
    err_window_clamped = true -> (forall st, no_panic_fuel (consume st)) -> no_panic_fuel (door F consume get input).
  Proof.
    intros Hc Hcons. unfold door. destruct (Hcons (new_state F input)) as [H1 H2].
    destruct (consume (new_state F input)) as [u st'|st'| |]; cbn [pbind]; try congruence; try (split; discriminate).
    rewrite err_window_ok_true by exact Hc. destruct (get (s_mid F st')); split; discriminate.
  Qed.

  Lemma door_stamp_safe input : err_window_clamped = true -> no_panic_fuel (door_stamp F E input).
  Proof.
    intros Hc. unfold door_stamp. destruct input; [split; discriminate|].
    apply door_safe; [exact Hc | intros st; now apply consume_stamp_safe].
  Qed.

  Lemma door_punctuation_safe input : err_window_clamped = true -> no_panic_fuel (door_punctuation F E input).
  Proof.
    intros Hc. unfold door_punctuation. apply door_safe; [exact Hc | intros st; now apply consume_punctuation_safe].
  Qed.

  Lemma of_door_no_panic {A} (r : pres F A) : no_panic_fuel r -> of_door F r <> FPanic.
  Proof. intros [H1 H2]. destruct r; cbn [of_door]; congruence. Qed.

  Lemma static_clamped : fold_static_ok = true -> err_window_clamped = true.
  Proof. unfold fold_static_ok. rewrite andb_true_iff. tauto. Qed.

  Theorem fold_sentence_total s : fold_static_ok = true -> fold_sentence F fread in01 E s <> FPanic.
  Proof.
    intros Hs. pose proof (static_clamped Hs) as Hc. unfold fold_sentence.
    apply fbind_no_panic; [now apply fold_term_total|]. intros t _.
    apply fbind_no_panic; [apply fold_truth_no_panic|]. intros tr _.
    apply fbind_no_panic; [apply of_door_no_panic; now apply door_stamp_safe|]. intros st _.
    apply fbind_no_panic; [apply of_door_no_panic; now apply door_punctuation_safe|]. intros p _. discriminate.
  Qed.

  Theorem fold_task_total k : fold_static_ok = true -> fold_task F fread in01 E k <> FPanic.
  Proof.
    intros Hs. unfold fold_task. apply fbind_no_panic; [apply fold_budget_no_panic|]. intros b _.
    apply fbind_no_panic; [now apply fold_sentence_total|]. intros s _. discriminate.
  Qed.

  Theorem fold_narsese_total v : fold_static_ok = true -> fold_narsese F fread in01 E v <> FPanic.
  Proof.
    intros Hs. destruct v as [t|s|k]; cbn [fold_narsese].
    - apply fbind_no_panic; [now apply fold_term_total | discriminate].
    - apply fbind_no_panic; [now apply fold_sentence_total | discriminate].
    - apply fbind_no_panic; [now apply fold_task_total | discriminate].
  Qed.
End Numbers.

(* the statement of C05 (fold half): for EVERY lexical value, EVERY enum format, every float reader *)
Theorem fold_total : forall (F : Type) (fread : str -> option F) (in01 : F -> bool) (E : efmt) (x : lnarsese),
  fold_narsese F fread in01 E x <> FPanic.
Proof. intros. apply fold_narsese_total. exact fold_static_ok_true. Qed.

Theorem fold_term_never_panics : forall (E : efmt) (x : lterm), fold_term E x <> FPanic.
Proof. intros. apply fold_term_total. exact fold_static_ok_true. Qed.

(* ------------------------------------------------------------------ *)
(* (ii) well-formedness of every Ok result (C12, fold half)             *)
(* ------------------------------------------------------------------ *)

Definition is_nil {A} (l : list A) : bool := match l with [] => true | _ => false end.

(* names of non-placeholder atoms non-empty; image index <= number of components *)
Fixpoint wf_fold_term (t : term) : bool :=
  match t with
  | TName _ n => negb (is_nil n)
  | TUnit _ | TNum _ _ => true
  | TSet _ l | TVec _ l => forallb wf_fold_term l
  | TImg _ i l => (i <=? nlen l) && forallb wf_fold_term l
  | TBox1 _ a => wf_fold_term a
  | TBox2 _ a b => wf_fold_term a && wf_fold_term b
  end.

Section WfFold.
  Variable F : Type.
  Variable in01 : F -> bool.
  Definition wf_fold_sentence (s : sentence F) : bool :=
    wf_fold_term (s_term s) &&
    match s_truth s with Some tr => forallb in01 (truth_list tr) | None => true end.
  Definition wf_fold (v : narsese F) : bool :=
    match v with
    | NTerm t => wf_fold_term t
    | NSentence s => wf_fold_sentence s
    | NTask (s, b) => wf_fold_sentence s && forallb in01 (budget_list b)
    end.
End WfFold.

(* the format side-condition of C12: the prefix that exempts an empty name from rejection (the
   placeholder prefix) does not select an arm that stores the name.  True of the three shipped formats;
   false e.g. for a format whose placeholder prefix equals its (empty) word prefix. *)
Definition atom_empty_ok (E : efmt) : bool :=
  match fold_atom_empty_name_exempt with
  | Some g => match first_eq E (g E) fold_atom_arms with Some (AFName _) => false | _ => true end
  | None => false
  end.

Lemma atom_empty_ok_shipped : forallb atom_empty_ok shipped_formats = true.
Proof. vm_compute. reflexivity. Qed.

Lemma fold_atom_wf E p n t : atom_empty_ok E = true -> fold_atom E p n = FOk t -> wf_fold_term t = true.
Proof.
  unfold atom_empty_ok, fold_atom. destruct fold_atom_empty_name_exempt as [g|]; [|discriminate].
  intros Hok. destruct n as [|ch n].
  - destruct (str_eqb_spec p (g E)) as [->|Hne]; cbn [negb]; [|discriminate].
    destruct (first_eq E (g E) fold_atom_arms) as [[c|c|c]|]; try discriminate.
    (* the AFName case is excluded by the side condition; "" is no unsigned integer *)
    intros H; injection H as <-. reflexivity.
  - destruct (first_eq E p fold_atom_arms) as [[c|c|c]|]; try discriminate.
    + intros H; injection H as <-. reflexivity.
    + intros H; injection H as <-. reflexivity.
    + destruct (read_usize (ch :: n)); [intros H; injection H as <-; reflexivity | discriminate].
Qed.

Lemma forallb_mk_set f l : forallb f l = true -> forallb f (mk_set l) = true.
Proof.
  rewrite !forallb_forall. intros H x Hx. apply H. now apply mk_set_In.
Qed.

Lemma to_image_wf c ts t :
  forallb wf_fold_term ts = true -> to_image_with_placeholder c ts = FOk t -> wf_fold_term t = true.
Proof.
  intros Hts. unfold to_image_with_placeholder.
  destruct (to_terms_with_image 0 ts) as [[idx|] rest] eqn:H; [|discriminate].
  unfold new_image. destruct (cmp_holds _ _ _); [discriminate|]. intros Ht; injection Ht as <-.
  cbn [wf_fold_term]. pose proof (to_terms_with_image_index _ _ _ _ H) as Hidx.
  apply andb_true_iff. split; [apply N.leb_le; lia|].
  rewrite forallb_forall in *. intros x Hx. apply Hts. eapply to_terms_with_image_In; eauto.
Qed.

Lemma fold_compound_wf E c ts t :
  forallb wf_fold_term ts = true -> fold_compound E c ts = FOk t -> wf_fold_term t = true.
Proof.
  intros Hts. unfold fold_compound.
  destruct (first_eq E c fold_compound_arms) as [[k|k|k|k|k]|]; try discriminate.
  - intros H; injection H as <-. cbn [wf_fold_term]. now apply forallb_mk_set.
  - intros H; injection H as <-. exact Hts.
  - now apply to_image_wf.
  - destruct ts as [|x ts]; [discriminate|]. intros H; injection H as <-.
    cbn [forallb] in Hts. apply andb_true_iff in Hts. cbn [wf_fold_term]. tauto.
  - destruct ts as [|x [|y ts]]; try discriminate. intros H; injection H as <-.
    cbn [forallb] in Hts. rewrite !andb_true_iff in Hts. cbn [wf_fold_term]. apply andb_true_iff. tauto.
Qed.

Lemma fold_set_wf E a b ts t :
  forallb wf_fold_term ts = true -> fold_set E a b ts = FOk t -> wf_fold_term t = true.
Proof.
  intros Hts. unfold fold_set. destruct (first_eq2 E a b fold_set_arms); [|discriminate].
  intros H; injection H as <-. cbn [wf_fold_term]. now apply forallb_mk_set.
Qed.

Lemma build_statement_wf b s p :
  wf_fold_term s = true -> wf_fold_term p = true -> wf_fold_term (build_statement b s p) = true.
Proof.
  intros Hs Hp. destruct b as [c|[]]; cbn [build_statement wf_fold_term]; rewrite ?mk_set_single;
    cbn [forallb]; now rewrite ?Hs, ?Hp.
Qed.

Lemma fold_statement_wf E s c p t :
  wf_fold_term s = true -> wf_fold_term p = true -> fold_statement E s c p = FOk t -> wf_fold_term t = true.
Proof.
  intros Hs Hp. unfold fold_statement. destruct (first_eq E c fold_statement_arms); [|discriminate].
  intros H; injection H as <-. now apply build_statement_wf.
Qed.

Lemma Forall2_forallb_wf E l ts :
  Forall (fun x => forall t, fold_term E x = FOk t -> wf_fold_term t = true) l ->
  Forall2 (fun x t => fold_term E x = FOk t) l ts -> forallb wf_fold_term ts = true.
Proof.
  intros Hall H2. induction H2 as [|x t l ts Hxt H2 IH]; [reflexivity|].
  inversion Hall as [|? ? Hx Hl]; subst. cbn [forallb]. rewrite (Hx _ Hxt), (IH Hl). reflexivity.
Qed.

Theorem fold_term_wf E x t : atom_empty_ok E = true -> fold_term E x = FOk t -> wf_fold_term t = true.
Proof.
  intros Hok. revert t.
  induction x as [p n | c l IH | a l b IH | c s p IHs IHp] using lterm_ind'; intros t.
  - now apply fold_atom_wf.
  - rewrite fold_term_compound. intros H. apply fbind_ok in H as [ts [Hts H]].
    eapply fold_compound_wf; [|exact H]. eapply Forall2_forallb_wf; [exact IH | now apply fold_terms_ok].
  - rewrite fold_term_set. intros H. apply fbind_ok in H as [ts [Hts H]].
    eapply fold_set_wf; [|exact H]. eapply Forall2_forallb_wf; [exact IH | now apply fold_terms_ok].
  - rewrite fold_term_statement. intros H. apply fbind_ok in H as [s' [Hs H]].
    apply fbind_ok in H as [p' [Hp H]]. eapply fold_statement_wf; [| |exact H]; eauto.
Qed.

Section WfProof.
  Variable F : Type.
  Variable fread : str -> option F.
  Variable in01 : F -> bool.
  Variable E : efmt.

  Lemma fold_truth_wf l tr : fold_truth F fread in01 l = FOk tr -> forallb in01 (truth_list tr) = true.
  Proof.
    unfold fold_truth. intros H. apply fbind_ok in H as [vs [_ H]].
    pose proof (truth_try_from_floats_spec F in01 vs) as S. rewrite H in S. tauto.
  Qed.

  Lemma fold_budget_wf l b : fold_budget F fread in01 l = FOk b -> forallb in01 (budget_list b) = true.
  Proof.
    unfold fold_budget. intros H. apply fbind_ok in H as [vs [_ H]].
    pose proof (budget_try_from_floats_spec F in01 vs) as S. rewrite H in S. tauto.
  Qed.

  Lemma fold_sentence_wf s s' :
    atom_empty_ok E = true -> fold_sentence F fread in01 E s = FOk s' -> wf_fold_sentence F in01 s' = true.
  Proof.
    intros Hok. unfold fold_sentence. intros H.
    apply fbind_ok in H as [t [Ht H]]. apply fbind_ok in H as [tr [Htr H]].
    apply fbind_ok in H as [st [_ H]]. apply fbind_ok in H as [p [_ H]]. injection H as <-.
    pose proof (fold_term_wf _ _ _ Hok Ht) as Hwt. pose proof (fold_truth_wf _ _ Htr) as Hwtr.
    unfold wf_fold_sentence. destruct p; cbn [from_punctuation s_term s_truth]; now rewrite Hwt, ?Hwtr.
  Qed.

  Theorem fold_narsese_wf x v :
    atom_empty_ok E = true -> fold_narsese F fread in01 E x = FOk v -> wf_fold F in01 v = true.
  Proof.
    intros Hok. destruct x as [t|s|k]; cbn [fold_narsese]; intros H.
    - apply fbind_ok in H as [t' [Ht H]]. injection H as <-. cbn [wf_fold]. eapply fold_term_wf; eauto.
    - apply fbind_ok in H as [s' [Hs H]]. injection H as <-. cbn [wf_fold]. eapply fold_sentence_wf; eauto.
    - apply fbind_ok in H as [k' [Hk H]]. injection H as <-. unfold fold_task in Hk.
      apply fbind_ok in Hk as [b [Hb Hk]]. apply fbind_ok in Hk as [s' [Hs Hk]]. injection Hk as <-.
      cbn [wf_fold]. rewrite (fold_sentence_wf _ _ Hok Hs), (fold_budget_wf _ _ Hb). reflexivity.
  Qed.
End WfProof.

(* C12 (fold half): every value returned as Ok by folding ANY lexical value is well-formed *)
Theorem fold_wf : forall (F : Type) (fread : str -> option F) (in01 : F -> bool) (E : efmt) x v,
  atom_empty_ok E = true -> fold_narsese F fread in01 E x = FOk v -> wf_fold F in01 v = true.
Proof. intros. eapply fold_narsese_wf; eauto. Qed.

Theorem fold_wf_shipped : forall (F : Type) (fread : str -> option F) (in01 : F -> bool) (E : efmt) x v,
  In E shipped_formats -> fold_narsese F fread in01 E x = FOk v -> wf_fold F in01 v = true.
Proof.
  intros F fread in01 E x v HE. apply fold_wf.
  pose proof atom_empty_ok_shipped as H. rewrite forallb_forall in H. now apply H.
Qed.

(* the side condition is needed: a format whose placeholder prefix is the (empty) word prefix folds
   the lexical atom ("", "") to Word("") *)
Definition with_placeholder_prefix (B : efmt) (ph : str) : efmt :=
  {| name_char := name_char B; space_parse := space_parse B;
     space_format_terms := space_format_terms B; space_format_items := space_format_items B;
     atom_prefix_word := atom_prefix_word B; atom_prefix_variable_independent := atom_prefix_variable_independent B;
     atom_prefix_variable_dependent := atom_prefix_variable_dependent B;
     atom_prefix_variable_query := atom_prefix_variable_query B;
     atom_prefix_interval := atom_prefix_interval B; atom_prefix_operator := atom_prefix_operator B;
     atom_prefix_placeholder := ph;
     compound_brackets_0 := compound_brackets_0 B; compound_brackets_1 := compound_brackets_1 B;
     compound_separator := compound_separator B;
     compound_brackets_set_extension_0 := compound_brackets_set_extension_0 B;
     compound_brackets_set_extension_1 := compound_brackets_set_extension_1 B;
     compound_brackets_set_intension_0 := compound_brackets_set_intension_0 B;
     compound_brackets_set_intension_1 := compound_brackets_set_intension_1 B;
     compound_connecter_intersection_extension := compound_connecter_intersection_extension B;
     compound_connecter_intersection_intension := compound_connecter_intersection_intension B;
     compound_connecter_difference_extension := compound_connecter_difference_extension B;
     compound_connecter_difference_intension := compound_connecter_difference_intension B;
     compound_connecter_product := compound_connecter_product B;
     compound_connecter_image_extension := compound_connecter_image_extension B;
     compound_connecter_image_intension := compound_connecter_image_intension B;
     compound_connecter_conjunction := compound_connecter_conjunction B;
     compound_connecter_disjunction := compound_connecter_disjunction B;
     compound_connecter_negation := compound_connecter_negation B;
     compound_connecter_conjunction_sequential := compound_connecter_conjunction_sequential B;
     compound_connecter_conjunction_parallel := compound_connecter_conjunction_parallel B;
     statement_brackets_0 := statement_brackets_0 B; statement_brackets_1 := statement_brackets_1 B;
     statement_copula_inheritance := statement_copula_inheritance B;
     statement_copula_similarity := statement_copula_similarity B;
     statement_copula_implication := statement_copula_implication B;
     statement_copula_equivalence := statement_copula_equivalence B;
     statement_copula_instance := statement_copula_instance B;
     statement_copula_property := statement_copula_property B;
     statement_copula_instance_property := statement_copula_instance_property B;
     statement_copula_implication_predictive := statement_copula_implication_predictive B;
     statement_copula_implication_concurrent := statement_copula_implication_concurrent B;
     statement_copula_implication_retrospective := statement_copula_implication_retrospective B;
     statement_copula_equivalence_predictive := statement_copula_equivalence_predictive B;
     statement_copula_equivalence_concurrent := statement_copula_equivalence_concurrent B;
     statement_copula_equivalence_retrospective := statement_copula_equivalence_retrospective B;
     sentence_punctuation_judgement := sentence_punctuation_judgement B;
     sentence_punctuation_goal := sentence_punctuation_goal B;
     sentence_punctuation_question := sentence_punctuation_question B;
     sentence_punctuation_quest := sentence_punctuation_quest B;
     sentence_stamp_brackets_0 := sentence_stamp_brackets_0 B;
     sentence_stamp_brackets_1 := sentence_stamp_brackets_1 B;
     sentence_stamp_past := sentence_stamp_past B; sentence_stamp_present := sentence_stamp_present B;
     sentence_stamp_future := sentence_stamp_future B; sentence_stamp_fixed := sentence_stamp_fixed B;
     sentence_truth_brackets_0 := sentence_truth_brackets_0 B;
     sentence_truth_brackets_1 := sentence_truth_brackets_1 B;
     sentence_truth_separator := sentence_truth_separator B;
     task_budget_brackets_0 := task_budget_brackets_0 B; task_budget_brackets_1 := task_budget_brackets_1 B;
     task_budget_separator := task_budget_separator B |}.

Lemma fold_wf_needs_side_condition :
  let B := with_placeholder_prefix FORMAT_ASCII [] in
  atom_empty_ok B = false /\ exists t, fold_term B (LAtom [] []) = FOk t /\ wf_fold_term t = false.
Proof. split; [reflexivity|]. eexists. split; reflexivity. Qed.

(* ------------------------------------------------------------------ *)
(* (iii) the category of a lexical term is the category of what it folds to (C14, fold half) *)
(* ------------------------------------------------------------------ *)

Definition atom_arm_cat_ok (a : atom_fold) : bool :=
  match a with
  | AFName c => category_eqb (category_name c) CatAtom
  | AFUnit c => category_eqb (category_unit c) CatAtom
  | AFParseUInt c => category_eqb (category_num c) CatAtom
  end.
Definition comp_arm_cat_ok (a : comp_fold) : bool :=
  match a with
  | CFSet c => category_eqb (category_set c) CatCompound
  | CFVec c => category_eqb (category_vec c) CatCompound
  | CFImage c => category_eqb (category_img c) CatCompound
  | CFFirst c => category_eqb (category_box1 c) CatCompound
  | CFFirstTwo c => category_eqb (category_box2 c) CatCompound
  end.
Definition stmt_arm_cat_ok (b : stmt_build) : bool :=
  match b with
  | SBCtor c => category_eqb (category_box2 c) CatStatement
  | SBHelper HelperSwapEquivPred => category_eqb (category_box2 EquivalencePredictive) CatStatement
  | SBHelper _ => category_eqb (category_box2 Inheritance) CatStatement
  end.

Definition fold_category_tables_ok : bool :=
  forallb (fun ga => atom_arm_cat_ok (snd ga)) fold_atom_arms &&
  forallb (fun ga => comp_arm_cat_ok (snd ga)) fold_compound_arms &&
  forallb (fun ga => category_eqb (category_set (snd ga)) CatCompound) fold_set_arms &&
  forallb (fun ga => stmt_arm_cat_ok (snd ga)) fold_statement_arms.

Lemma fold_category_tables_ok_true : fold_category_tables_ok = true.
Proof. vm_compute. reflexivity. Qed.

Lemma category_eqb_eq a b : category_eqb a b = true -> a = b.
Proof. destruct a, b; cbn; congruence. Qed.

Theorem fold_term_category E x t :
  fold_category_tables_ok = true -> fold_term E x = FOk t -> lcategory x = category_of t.
Proof.
  unfold fold_category_tables_ok. rewrite !andb_true_iff, !forallb_forall. intros [[[Ha Hc] Hs] Hst].
  destruct x as [p n | c l | a l b | c s p].
  - rewrite fold_term_atom. unfold fold_atom.
    destruct (match fold_atom_empty_name_exempt with Some _ => _ | None => false end); [discriminate|].
    destruct (first_eq E p fold_atom_arms) as [af|] eqn:Hf; [|discriminate].
    apply first_eq_In in Hf as [g [Hin _]]. specialize (Ha _ Hin). cbn [snd] in Ha.
    destruct af as [k|k|k]; cbn [atom_arm_cat_ok] in Ha; apply category_eqb_eq in Ha.
    + intros H; injection H as <-. cbn [lcategory category_of]. congruence.
    + intros H; injection H as <-. cbn [lcategory category_of]. congruence.
    + destruct (read_usize n); [|discriminate]. intros H; injection H as <-. cbn [lcategory category_of]. congruence.
  - rewrite fold_term_compound. intros H. apply fbind_ok in H as [ts [_ H]]. unfold fold_compound in H.
    destruct (first_eq E c fold_compound_arms) as [cf|] eqn:Hf; [|discriminate].
    apply first_eq_In in Hf as [g [Hin _]]. specialize (Hc _ Hin). cbn [snd] in Hc.
    destruct cf as [k|k|k|k|k]; cbn [comp_arm_cat_ok] in Hc; apply category_eqb_eq in Hc.
    + injection H as <-. cbn [lcategory category_of]. congruence.
    + injection H as <-. cbn [lcategory category_of]. congruence.
    + unfold to_image_with_placeholder in H. destruct (to_terms_with_image 0 ts) as [[idx|] rest]; [|discriminate].
      unfold new_image in H. destruct (cmp_holds _ _ _); [discriminate|]. injection H as <-.
      cbn [lcategory category_of]. congruence.
    + destruct ts; [discriminate|]. injection H as <-. cbn [lcategory category_of]. congruence.
    + destruct ts as [|? [|? ?]]; try discriminate. injection H as <-. cbn [lcategory category_of]. congruence.
  - rewrite fold_term_set. intros H. apply fbind_ok in H as [ts [_ H]]. unfold fold_set in H.
    destruct (first_eq2 E a b fold_set_arms) as [k|] eqn:Hf; [|discriminate].
    apply first_eq2_In in Hf as [gl [gr [Hin _]]]. specialize (Hs _ Hin). cbn [snd] in Hs.
    apply category_eqb_eq in Hs. injection H as <-. cbn [lcategory category_of]. congruence.
  - rewrite fold_term_statement. intros H. apply fbind_ok in H as [s' [_ H]]. apply fbind_ok in H as [p' [_ H]].
    unfold fold_statement in H. destruct (first_eq E c fold_statement_arms) as [sb|] eqn:Hf; [|discriminate].
    apply first_eq_In in Hf as [g [Hin _]]. specialize (Hst _ Hin). cbn [snd] in Hst.
    injection H as <-. destruct sb as [k|[]]; cbn [stmt_arm_cat_ok] in Hst; apply category_eqb_eq in Hst;
      cbn [lcategory category_of build_statement]; congruence.
Qed.

(* C14 (fold half) *)
Theorem fold_category : forall (E : efmt) (x : lterm) (t : term),
  fold_term E x = FOk t -> lcategory x = category_of t.
Proof. intros. eapply fold_term_category; [exact fold_category_tables_ok_true | eassumption]. Qed.

(* the side doors, for the Props file *)
Theorem door_stamp_no_panic : forall (F : Type) (E : efmt) (input : str),
  door_stamp F E input <> PPanic /\ door_stamp F E input <> PFuel.
Proof. intros F E input. exact (door_stamp_safe F E input (static_clamped fold_static_ok_true)). Qed.

Theorem door_punctuation_no_panic : forall (F : Type) (E : efmt) (input : str),
  door_punctuation F E input <> PPanic /\ door_punctuation F E input <> PFuel.
Proof. intros F E input. exact (door_punctuation_safe F E input (static_clamped fold_static_ok_true)). Qed.

Example fold_ok_example :
  exists v, fold_narsese N (fun s => match s with [c] => Some c | _ => None end) (fun c => N.leb c 49) FORMAT_ASCII
              (NTask {| lt_budget := [[48]%N]; lt_sentence := {| ls_term := LCompound [47]%N [LAtom [] [82]%N; LAtom [95]%N []];
                          ls_punct := [46]%N; ls_stamp := [58; 33; 45; 49; 58]%N; ls_truth := [[49]%N; [48]%N] |} |}) = FOk v.
Proof. eexists. vm_compute. reflexivity. Qed.
