(* Proofs/LexFuelP.v -- C09, lexical side, full generality: the lexical parser model depends on its input
   only through the whitespace-free text [idealize_env].

   The model's nesting fuel is [lex_fuel input] = S (length input) of the ORIGINAL text (Model/LexParser.v),
   so two inputs with the same whitespace-free text run with different fuels.  Part 1 proves FUEL
   INDEPENDENCE: [segment_term] (hence [parse_items], [parse_env]) returns the same result for every fuel
   above the length of the text it is given.  The shape of the induction is the one of the totality proof
   (Proofs/LexPTotal.v): every recursive call is on a strictly shorter slice, because the opening brackets
   of sets, compounds and statements are non-empty ([lefts_nonempty], the progress half of lex_total_ok;
   with an empty opening bracket the recursion would be on the same text and the result WOULD depend on
   the fuel).  Part 2: the entry points. *)
From Nv Require Import Model.LexParser Proofs.LexPBase Proofs.LexPTotal.
From Coq Require Import Lia.
Import ListNotations.

Section Fuel.
  Variable C : lcfmt.
  Variable is_alnum : N -> bool.
  Hypothesis Hlefts : lefts_nonempty C = true.

  (* ---- the recursive segmenters call [rec] on strictly shorter texts only ---- *)
  Lemma seg_loop_ext rec1 rec2 right n env :
    (forall s, (length s < length env)%nat -> rec1 s = rec2 s) ->
    forall tb acc, (1 <= tb)%nat ->
    seg_loop C rec1 right n env tb acc = seg_loop C rec2 right n env tb acc.
  Proof.
    intros Hrec. induction n as [|n IH]; intros tb acc Htb; [reflexivity|].
    cbn [seg_loop]. unfold slice_from at 1 3.
    destruct (Nat.leb_spec tb (length env)) as [Hle|Hgt]; cbn [lbind]; [|reflexivity].
    destruct (slice_starts_with_str (drop tb env) right); [reflexivity|]. cbv zeta.
    set (tb' := if slice_starts_with_str (drop tb env) (l_separator (c_fmt C))
                then (tb + length (l_separator (c_fmt C)))%nat else tb).
    assert (Htb' : (1 <= tb')%nat) by (unfold tb'; destruct (slice_starts_with_str _ _); lia).
    unfold slice_from. destruct (Nat.leb_spec tb' (length env)) as [Hle'|Hgt']; cbn [lbind]; [|reflexivity].
    rewrite (Hrec (drop tb' env)) by (rewrite drop_length; lia).
    destruct (rec2 (drop tb' env)) as [[t l]| | |]; cbn [lbind]; try reflexivity.
    apply IH. cbn [snd]. lia.
  Qed.

  Lemma segment_term_set_ext rec1 rec2 env :
    (forall s, (length s < length env)%nat -> rec1 s = rec2 s) ->
    segment_term_set C rec1 env = segment_term_set C rec2 env.
  Proof.
    intros Hrec. unfold segment_term_set.
    destruct (match_prefix_pair (c_set_brackets C) env) as [[l r]|] eqn:E; cbn [ok_or lbind]; [|reflexivity].
    unfold match_prefix_pair in E. apply find_some in E as [Hin _].
    pose proof (lefts_set C Hlefts _ _ Hin) as Hl. cbn [fst snd].
    unfold slice_from. destruct (Nat.leb_spec (length l) (length env)) as [Hle|Hgt]; cbn [lbind]; [|reflexivity].
    rewrite (Hrec (drop (length l) env)) by (rewrite drop_length; lia).
    destruct (rec2 (drop (length l) env)) as [[t n]| | |]; cbn [lbind]; try reflexivity.
    rewrite (seg_loop_ext rec1 rec2 r (S (length env)) env Hrec) by (cbn [snd]; lia). reflexivity.
  Qed.

  Lemma segment_compound_ext rec1 rec2 env :
    (forall s, (length s < length env)%nat -> rec1 s = rec2 s) ->
    segment_compound C rec1 env = segment_compound C rec2 env.
  Proof.
    intros Hrec. unfold segment_compound. cbv zeta.
    destruct (starts (fst (l_compound_brackets (c_fmt C))) env); [|reflexivity].
    pose proof (lefts_compound C Hlefts) as Hl.
    destruct (slice_from env (length (fst (l_compound_brackets (c_fmt C))))) as [s0| | |]; cbn [lbind]; try reflexivity.
    destruct (ok_or (match_prefix (c_connecters C) s0)) as [conn| | |]; cbn [lbind]; try reflexivity.
    rewrite (seg_loop_ext rec1 rec2 _ (S (length env)) env Hrec) by lia. reflexivity.
  Qed.

  Lemma segment_statement_ext rec1 rec2 env :
    (forall s, (length s < length env)%nat -> rec1 s = rec2 s) ->
    segment_statement C rec1 env = segment_statement C rec2 env.
  Proof.
    intros Hrec. unfold segment_statement. cbv zeta.
    set (lb := fst (l_statement_brackets (c_fmt C))).
    destruct (starts lb env); [|reflexivity].
    pose proof (lefts_statement C Hlefts) as Hl. fold lb in Hl.
    unfold slice_from at 1 5. destruct (Nat.leb_spec (length lb) (length env)) as [Hle|Hgt]; cbn [lbind]; [|reflexivity].
    rewrite (Hrec (drop (length lb) env)) by (rewrite drop_length; lia).
    destruct (rec2 (drop (length lb) env)) as [[subj n]| | |]; cbn [lbind]; try reflexivity. cbn [fst snd].
    destruct (slice_from env (length lb + n)) as [s1| | |]; cbn [lbind]; try reflexivity.
    destruct (ok_or (match_prefix (c_copulas C) s1)) as [cop| | |]; cbn [lbind]; try reflexivity.
    unfold slice_from at 1 3.
    destruct (Nat.leb_spec (length lb + n + length cop) (length env)) as [Hle2|Hgt2]; cbn [lbind]; [|reflexivity].
    rewrite (Hrec (drop (length lb + n + length cop) env)) by (rewrite drop_length; lia).
    reflexivity.
  Qed.

  (* ---- fuel independence of the term layer ---- *)
  Theorem segment_term_fuel_indep : forall f1 f2 env,
    (length env < f1)%nat -> (length env < f2)%nat ->
    segment_term C is_alnum f1 env = segment_term C is_alnum f2 env.
  Proof.
    induction f1 as [|f1 IH]; intros f2 env H1 H2; [lia|]. destruct f2 as [|f2]; [lia|].
    cbn [segment_term].
    assert (Hrec : forall s, (length s < length env)%nat -> segment_term C is_alnum f1 s = segment_term C is_alnum f2 s).
    { intros s Hs. apply IH; lia. }
    rewrite (segment_term_set_ext _ _ env Hrec), (segment_compound_ext _ _ env Hrec),
            (segment_statement_ext _ _ env Hrec). reflexivity.
  Qed.

  Lemma slice_length env a b s : slice env a b = LOk s -> (length s <= length env)%nat.
  Proof.
    unfold slice. destruct ((a <=? b)%nat && (b <=? length env)%nat); [|discriminate].
    intros H. injection H as <-. rewrite take_length, drop_length. lia.
  Qed.

  (* ---- the item layer passes its fuel to segment_term on a slice of its environment ---- *)
  Theorem parse_items_fuel_indep f1 f2 env :
    (length env < f1)%nat -> (length env < f2)%nat ->
    parse_items C is_alnum f1 env = parse_items C is_alnum f2 env.
  Proof.
    intros H1 H2. unfold parse_items.
    destruct (segment_budget C env) as [budget| | |]; cbn [lbind]; try reflexivity.
    destruct (right_unwrap_or budget 0) as [bud begin_index].
    destruct (segment_truth C env) as [truth| | |]; cbn [lbind]; try reflexivity.
    destruct (right_unwrap_or truth (length env)) as [tru rb1].
    destruct (slice_to env rb1) as [e1| | |]; cbn [lbind]; try reflexivity.
    destruct (segment_stamp C e1) as [stamp| | |]; cbn [lbind]; try reflexivity.
    destruct (right_unwrap_or stamp rb1) as [sta rb2].
    destruct (slice_to env rb2) as [e2| | |]; cbn [lbind]; try reflexivity.
    destruct (segment_punctuation C e2) as [punct| | |]; cbn [lbind]; try reflexivity.
    destruct (right_unwrap_or punct rb2) as [pun rb3].
    destruct (slice env begin_index rb3) as [env_term| | |] eqn:Es; cbn [lbind]; try reflexivity.
    apply slice_length in Es.
    destruct (begin_index <? rb3)%nat; [|reflexivity].
    rewrite (segment_term_fuel_indep f1 f2 env_term) by lia. reflexivity.
  Qed.

  Corollary parse_env_fuel_indep f1 f2 env :
    (length env < f1)%nat -> (length env < f2)%nat ->
    parse_env C is_alnum f1 env = parse_env C is_alnum f2 env.
  Proof. intros H1 H2. unfold parse_env. now rewrite (parse_items_fuel_indep f1 f2 env H1 H2). Qed.

  Lemma idealize_env_length s : (length (idealize_env C s) <= length s)%nat.
  Proof. unfold idealize_env. destruct (l_remove_spaces_before_parse (c_fmt C)); [apply filter_length_le | lia]. Qed.

  (* ---- the entry points with an explicit fuel: any fuel above the length of the whitespace-free text ---- *)
  Theorem lex_parse_fuel_indep f1 f2 s :
    (length (idealize_env C s) < f1)%nat -> (length (idealize_env C s) < f2)%nat ->
    lex_parse_fuel C is_alnum f1 s = lex_parse_fuel C is_alnum f2 s.
  Proof. intros H1 H2. unfold lex_parse_fuel. now apply parse_env_fuel_indep. Qed.

  Theorem lex_parse_term_fuel_indep f1 f2 s :
    (length (idealize_env C s) < f1)%nat -> (length (idealize_env C s) < f2)%nat ->
    lex_parse_term_fuel C is_alnum f1 s = lex_parse_term_fuel C is_alnum f2 s.
  Proof. intros H1 H2. unfold lex_parse_term_fuel. now rewrite (segment_term_fuel_indep f1 f2 _ H1 H2). Qed.

  (* two inputs with the same whitespace-free text, each with any sufficient fuel *)
  Theorem lex_parse_fuel_idealize f1 f2 s1 s2 :
    idealize_env C s1 = idealize_env C s2 ->
    (length (idealize_env C s1) < f1)%nat -> (length (idealize_env C s2) < f2)%nat ->
    lex_parse_fuel C is_alnum f1 s1 = lex_parse_fuel C is_alnum f2 s2.
  Proof.
    intros He H1 H2. unfold lex_parse_fuel. rewrite <- He in *. now apply parse_env_fuel_indep.
  Qed.

  Theorem lex_parse_term_fuel_idealize f1 f2 s1 s2 :
    idealize_env C s1 = idealize_env C s2 ->
    (length (idealize_env C s1) < f1)%nat -> (length (idealize_env C s2) < f2)%nat ->
    lex_parse_term_fuel C is_alnum f1 s1 = lex_parse_term_fuel C is_alnum f2 s2.
  Proof.
    intros He H1 H2. unfold lex_parse_term_fuel. rewrite <- He in *.
    now rewrite (segment_term_fuel_indep f1 f2 _ H1 H2).
  Qed.
End Fuel.

(* ================================================================================== *)
(* 2. the entry points of the model (fuel = S (length input))                          *)
(* ================================================================================== *)
Section Entry.
  Variable ia : N -> bool.
  Variable L : lfmt.
  Hypothesis Hlefts : lefts_nonempty (compile L) = true.

  (* C09, lexical side, full generality: the result depends on the whitespace-free text only *)
  Theorem lex_parse_idealize s s' :
    idealize_env (compile L) s = idealize_env (compile L) s' -> lex_parse ia L s = lex_parse ia L s'.
  Proof.
    intros He. unfold lex_parse, lex_fuel. apply (lex_parse_fuel_idealize (compile L) ia Hlefts); auto.
    - pose proof (idealize_env_length (compile L) s). lia.
    - pose proof (idealize_env_length (compile L) s'). lia.
  Qed.

  Theorem lex_parse_term_idealize s s' :
    idealize_env (compile L) s = idealize_env (compile L) s' -> lex_parse_term ia L s = lex_parse_term ia L s'.
  Proof.
    intros He. unfold lex_parse_term, lex_fuel. apply (lex_parse_term_fuel_idealize (compile L) ia Hlefts); auto.
    - pose proof (idealize_env_length (compile L) s). lia.
    - pose proof (idealize_env_length (compile L) s'). lia.
  Qed.

  (* the entry points agree with the fuelled parser at every sufficient fuel *)
  Corollary lex_parse_any_fuel f s :
    (length (idealize_env (compile L) s) < f)%nat -> lex_parse_fuel (compile L) ia f s = lex_parse ia L s.
  Proof.
    intros H. unfold lex_parse, lex_fuel. apply (lex_parse_fuel_indep (compile L) ia Hlefts); auto.
    pose proof (idealize_env_length (compile L) s). lia.
  Qed.

  Corollary lex_parse_term_any_fuel f s :
    (length (idealize_env (compile L) s) < f)%nat -> lex_parse_term_fuel (compile L) ia f s = lex_parse_term ia L s.
  Proof.
    intros H. unfold lex_parse_term, lex_fuel. apply (lex_parse_term_fuel_indep (compile L) ia Hlefts); auto.
    pose proof (idealize_env_length (compile L) s). lia.
  Qed.

  (* ---- the Unicode clause of C09: every White_Space code point is ignored, wherever it stands ---- *)
  Hypothesis Hrm : l_remove_spaces_before_parse L = true.

  Lemma idealize_filter s : idealize_env (compile L) s = filter (fun c => negb (is_whitespace c)) s.
  Proof.
    unfold idealize_env. change (c_fmt (compile L)) with L. rewrite Hrm. unfold space_for_parse.
    destruct (l_space_is_for_parse L). reflexivity.
  Qed.

  Lemma filter_filter {A} (f : A -> bool) l : filter f (filter f l) = filter f l.
  Proof.
    induction l as [|x l IH]; cbn [filter]; [reflexivity|]. destruct (f x) eqn:E; cbn [filter]; [|exact IH].
    now rewrite E, IH.
  Qed.

  Lemma filter_app2 {A} (f : A -> bool) l1 l2 : filter f (l1 ++ l2) = filter f l1 ++ filter f l2.
  Proof. induction l1 as [|x l1 IH]; cbn [app filter]; [reflexivity|]. destruct (f x); cbn [app]; now rewrite IH. Qed.

  (* parsing a text = parsing the text with all 25 White_Space code points deleted *)
  Theorem lex_parse_strip_whitespace s :
    lex_parse ia L s = lex_parse ia L (filter (fun c => negb (is_whitespace c)) s).
  Proof. apply lex_parse_idealize. now rewrite !idealize_filter, filter_filter. Qed.

  Theorem lex_parse_term_strip_whitespace s :
    lex_parse_term ia L s = lex_parse_term ia L (filter (fun c => negb (is_whitespace c)) s).
  Proof. apply lex_parse_term_idealize. now rewrite !idealize_filter, filter_filter. Qed.

  (* inserting a string of White_Space code points ANYWHERE (inside a keyword, a name or a number as well
     as between tokens) does not change the result *)
  Lemma idealize_insert a w b :
    forallb is_whitespace w = true -> idealize_env (compile L) (a ++ w ++ b) = idealize_env (compile L) (a ++ b).
  Proof.
    intros Hw. rewrite !idealize_filter, !filter_app2. f_equal.
    replace (filter (fun c => negb (is_whitespace c)) w) with (@nil N); [reflexivity|].
    symmetry. induction w as [|c w IH]; [reflexivity|]. cbn [forallb] in Hw. apply andb_true_iff in Hw as [Hc Hw].
    cbn [filter]. rewrite Hc. cbn [negb]. now apply IH.
  Qed.

  Theorem lex_parse_insert_whitespace a w b :
    forallb is_whitespace w = true -> lex_parse ia L (a ++ w ++ b) = lex_parse ia L (a ++ b).
  Proof. intros Hw. apply lex_parse_idealize. now apply idealize_insert. Qed.

  Theorem lex_parse_term_insert_whitespace a w b :
    forallb is_whitespace w = true -> lex_parse_term ia L (a ++ w ++ b) = lex_parse_term ia L (a ++ b).
  Proof. intros Hw. apply lex_parse_term_idealize. now apply idealize_insert. Qed.
End Entry.

(* ---- the shipped tables ---- *)
Lemma shipped_lefts_rm :
  forallb (fun L => lefts_nonempty (compile L) && l_remove_spaces_before_parse L) shipped_lex_formats = true.
Proof. vm_compute. reflexivity. Qed.

Lemma shipped_lefts L : In L shipped_lex_formats ->
  lefts_nonempty (compile L) = true /\ l_remove_spaces_before_parse L = true.
Proof.
  intros H. pose proof shipped_lefts_rm as G. rewrite forallb_forall in G. specialize (G L H).
  now apply andb_true_iff in G.
Qed.

Theorem lex_parse_idealize_shipped ia L s s' : In L shipped_lex_formats ->
  idealize_env (compile L) s = idealize_env (compile L) s' -> lex_parse ia L s = lex_parse ia L s'.
Proof. intros H. apply lex_parse_idealize. now apply shipped_lefts. Qed.

Theorem lex_parse_term_idealize_shipped ia L s s' : In L shipped_lex_formats ->
  idealize_env (compile L) s = idealize_env (compile L) s' -> lex_parse_term ia L s = lex_parse_term ia L s'.
Proof. intros H. apply lex_parse_term_idealize. now apply shipped_lefts. Qed.

Theorem lex_parse_insert_whitespace_shipped ia L a w b : In L shipped_lex_formats ->
  forallb is_whitespace w = true -> lex_parse ia L (a ++ w ++ b) = lex_parse ia L (a ++ b).
Proof. intros H. destruct (shipped_lefts L H). now apply lex_parse_insert_whitespace. Qed.

Theorem lex_parse_term_insert_whitespace_shipped ia L a w b : In L shipped_lex_formats ->
  forallb is_whitespace w = true -> lex_parse_term ia L (a ++ w ++ b) = lex_parse_term ia L (a ++ b).
Proof. intros H. destruct (shipped_lefts L H). now apply lex_parse_term_insert_whitespace. Qed.

Theorem lex_parse_strip_whitespace_shipped ia L s : In L shipped_lex_formats ->
  lex_parse ia L s = lex_parse ia L (filter (fun c => negb (is_whitespace c)) s).
Proof. intros H. destruct (shipped_lefts L H). now apply lex_parse_strip_whitespace. Qed.

(* ---- non-vacuity: a text, the same text with tab / no-break space / ideographic space / line separator
   inserted inside keywords and names, same result (a task), in the three formats ---- *)
Example ex_ws_ascii :
  let s := [36; 48; 46; 53; 36; 32; 60; 97; 32; 45; 45; 62; 32; 98; 62; 46; 32; 37; 49; 37]%N in  (* $0.5$ <a --> b>. %1% *)
  let s' := [36; 48; 9; 46; 53; 36; 60; 97; 160; 45; 12288; 45; 62; 98; 8232; 62; 46; 37; 49; 37; 10]%N in
  idealize_env (compile LEX_ASCII) s = idealize_env (compile LEX_ASCII) s' /\
  lex_parse (fun _ => false) LEX_ASCII s = lex_parse (fun _ => false) LEX_ASCII s' /\
  lex_parse (fun c => ((97 <=? c) && (c <=? 122))%N) LEX_ASCII s' =
    LOk (NTask {| lt_budget := [[48; 46; 53]%N];
                  lt_sentence := {| ls_term := LStatement [45; 45; 62]%N (LAtom [] [97]%N) (LAtom [] [98]%N);
                                    ls_punct := [46]%N; ls_stamp := []; ls_truth := [[49]%N] |} |}).
Proof. vm_compute. repeat split; reflexivity. Qed.
