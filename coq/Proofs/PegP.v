(* Proofs/PegP.v -- generic lemmas about the PEG interpreter of Model/Readme.v.
   `evals e a s r`: with enough fuel (every amount above some bound) the interpreter returns `r`.
   The lemmas below are the big-step rules of PEG evaluation with pest's skipping, derived from
   the fuel-based definition; they are what the README-specific proofs compose. *)
From Nv Require Import Model.Readme.
Open Scope N_scope.

Section PegLemmas.
  Variable ucls : uclass -> N -> bool.
  Variable G : grammar.
  Variable n0 : nat.
  Notation run := (run ucls G n0).
  Notation rep := (rep ucls G n0).
  Notation skipw := (skipw ucls G n0).

  Definition evals (e : pexpr) (a : atomicity) (s : str) (r : pres) : Prop :=
    exists n, forall m, (n <= m)%nat -> run m e a s = r.
  Definition evals_rep (x : pexpr) (a : atomicity) (s : str) (r : pres) : Prop :=
    exists n, forall m, (n <= m)%nat -> rep m x a s = r.
  Definition evals_skip (a : atomicity) (s : str) (r : pres) : Prop :=
    exists n, forall m, (n <= m)%nat -> skipw m a s = r.

  (* ---- one-step unfoldings ---- *)
  Lemma run_str f l a s : run (S f) (PStr l) a s = if starts l s then POk (drop (length l) s) [] else PFail.
  Proof. reflexivity. Qed.
  Lemma run_class f c a s :
    run (S f) (PClass c) a s = match s with x :: r => if ucls c x then POk r [] else PFail | [] => PFail end.
  Proof. reflexivity. Qed.
  Lemma run_any f a s : run (S f) PAny a s = match s with _ :: r => POk r [] | [] => PFail end.
  Proof. reflexivity. Qed.
  Lemma run_soi f a s : run (S f) PSoi a s = if Nat.eqb (length s) n0 then POk s [] else PFail.
  Proof. reflexivity. Qed.
  Lemma run_eoi f a s : run (S f) PEoi a s = match s with [] => POk s [] | _ :: _ => PFail end.
  Proof. reflexivity. Qed.
  Lemma run_ref f name a s :
    run (S f) (PRef name) a s =
    match find_rule G name with
    | None => PStuck
    | Some r =>
        match run f (pr_body r) (enter (pr_mod r) name a) s with
        | POk s' kids => if emits (pr_mod r) a then POk s' [Node name (consumed s s') kids] else POk s' kids
        | other => other
        end
    end.
  Proof. reflexivity. Qed.
  Lemma run_seq f x y a s :
    run (S f) (PSeq x y) a s =
    match run f x a s with
    | POk s1 k1 =>
        match skipw f a s1 with
        | POk s2 kw => match run f y a s2 with POk s3 k2 => POk s3 (k1 ++ kw ++ k2) | other => other end
        | other => other
        end
    | other => other
    end.
  Proof. reflexivity. Qed.
  Lemma run_choice f x y a s :
    run (S f) (PChoice x y) a s = match run f x a s with PFail => run f y a s | other => other end.
  Proof. reflexivity. Qed.
  Lemma run_star f x a s :
    run (S f) (PStar x) a s =
    match run f x a s with
    | PFail => POk s []
    | POk s1 k1 => match rep f x a s1 with POk s2 k2 => POk s2 (k1 ++ k2) | other => other end
    | other => other
    end.
  Proof. reflexivity. Qed.
  Lemma run_plus f x a s : run (S f) (PPlus x) a s = run f (PSeq x (PStar x)) a s.
  Proof. reflexivity. Qed.
  Lemma run_opt f x a s :
    run (S f) (POpt x) a s = match run f x a s with PFail => POk s [] | other => other end.
  Proof. reflexivity. Qed.
  Lemma run_not f x a s :
    run (S f) (PNot x) a s = match run f x a s with PFail => POk s [] | POk _ _ => PFail | other => other end.
  Proof. reflexivity. Qed.
  Lemma run_and f x a s :
    run (S f) (PAnd x) a s = match run f x a s with POk _ _ => POk s [] | other => other end.
  Proof. reflexivity. Qed.
  Lemma rep_S f x a s :
    rep (S f) x a s =
    match skipw f a s with
    | POk s1 kw =>
        match run f x a s1 with
        | PFail => POk s []
        | POk s2 k => match rep f x a s2 with POk s3 k' => POk s3 (kw ++ k ++ k') | other => other end
        | other => other
        end
    | other => other
    end.
  Proof. reflexivity. Qed.
  Lemma skipw_S f a s :
    skipw (S f) a s =
    match a with
    | NonAtomic =>
        if has_ws G then
          match run f (PRef ws_name) NonAtomic s with
          | PFail => POk s []
          | POk s1 k => match skipw f a s1 with POk s2 k' => POk s2 (k ++ k') | other => other end
          | other => other
          end
        else POk s []
    | Atomic | CompoundAtomic => POk s []
    end.
  Proof. reflexivity. Qed.

  Ltac fuel m := destruct m as [|m]; [lia|].

  (* ---- leaves ---- *)
  Lemma ev_str l a s : evals (PStr l) a s (if starts l s then POk (drop (length l) s) [] else PFail).
  Proof. exists 1%nat. intros m Hm. fuel m. apply run_str. Qed.
  Lemma ev_str_ok l a k : evals (PStr l) a (l ++ k) (POk k []).
  Proof.
    exists 1%nat. intros m Hm. fuel m. rewrite run_str, starts_app, drop_app_length. reflexivity.
  Qed.
  Lemma ev_class c a s :
    evals (PClass c) a s (match s with x :: r => if ucls c x then POk r [] else PFail | [] => PFail end).
  Proof. exists 1%nat. intros m Hm. fuel m. apply run_class. Qed.
  Lemma ev_any a s : evals PAny a s (match s with _ :: r => POk r [] | [] => PFail end).
  Proof. exists 1%nat. intros m Hm. fuel m. apply run_any. Qed.
  Lemma ev_eoi a s : evals PEoi a s (match s with [] => POk s [] | _ :: _ => PFail end).
  Proof. exists 1%nat. intros m Hm. fuel m. apply run_eoi. Qed.
  Lemma ev_soi a s : evals PSoi a s (if Nat.eqb (length s) n0 then POk s [] else PFail).
  Proof. exists 1%nat. intros m Hm. fuel m. apply run_soi. Qed.

  (* ---- rule call ---- *)
  Lemma ev_ref name r a s res :
    find_rule G name = Some r ->
    evals (pr_body r) (enter (pr_mod r) name a) s res ->
    evals (PRef name) a s
      (match res with
       | POk s' kids => if emits (pr_mod r) a then POk s' [Node name (consumed s s') kids] else POk s' kids
       | other => other
       end).
  Proof.
    intros Hf [n H]. exists (S n). intros m Hm. fuel m. rewrite run_ref, Hf, H by lia. destruct res; reflexivity.
  Qed.

  (* ---- sequence ---- *)
  Lemma ev_seq_ok x y a s s1 k1 s2 kw s3 k2 :
    evals x a s (POk s1 k1) -> evals_skip a s1 (POk s2 kw) -> evals y a s2 (POk s3 k2) ->
    evals (PSeq x y) a s (POk s3 (k1 ++ kw ++ k2)).
  Proof.
    intros [n1 H1] [n2 H2] [n3 H3]. exists (S (Nat.max n1 (Nat.max n2 n3))). intros m Hm. fuel m.
    rewrite run_seq, H1, H2, H3 by lia. reflexivity.
  Qed.
  Lemma ev_seq_fail1 x y a s : evals x a s PFail -> evals (PSeq x y) a s PFail.
  Proof. intros [n1 H1]. exists (S n1). intros m Hm. fuel m. rewrite run_seq, H1 by lia. reflexivity. Qed.
  Lemma ev_seq_fail2 x y a s s1 k1 s2 kw :
    evals x a s (POk s1 k1) -> evals_skip a s1 (POk s2 kw) -> evals y a s2 PFail ->
    evals (PSeq x y) a s PFail.
  Proof.
    intros [n1 H1] [n2 H2] [n3 H3]. exists (S (Nat.max n1 (Nat.max n2 n3))). intros m Hm. fuel m.
    rewrite run_seq, H1, H2, H3 by lia. reflexivity.
  Qed.

  (* ---- ordered choice ---- *)
  Lemma ev_choice_l x y a s s1 k1 : evals x a s (POk s1 k1) -> evals (PChoice x y) a s (POk s1 k1).
  Proof. intros [n1 H1]. exists (S n1). intros m Hm. fuel m. rewrite run_choice, H1 by lia. reflexivity. Qed.
  Lemma ev_choice_r x y a s r : evals x a s PFail -> evals y a s r -> evals (PChoice x y) a s r.
  Proof.
    intros [n1 H1] [n2 H2]. exists (S (Nat.max n1 n2)). intros m Hm. fuel m.
    rewrite run_choice, H1, H2 by lia. reflexivity.
  Qed.

  (* ---- repetition ---- *)
  Lemma ev_star_nil x a s : evals x a s PFail -> evals (PStar x) a s (POk s []).
  Proof. intros [n1 H1]. exists (S n1). intros m Hm. fuel m. rewrite run_star, H1 by lia. reflexivity. Qed.
  Lemma ev_star_cons x a s s1 k1 s2 k2 :
    evals x a s (POk s1 k1) -> evals_rep x a s1 (POk s2 k2) -> evals (PStar x) a s (POk s2 (k1 ++ k2)).
  Proof.
    intros [n1 H1] [n2 H2]. exists (S (Nat.max n1 n2)). intros m Hm. fuel m.
    rewrite run_star, H1, H2 by lia. reflexivity.
  Qed.
  Lemma ev_rep_nil x a s s1 kw : evals_skip a s (POk s1 kw) -> evals x a s1 PFail -> evals_rep x a s (POk s []).
  Proof.
    intros [n1 H1] [n2 H2]. exists (S (Nat.max n1 n2)). intros m Hm. fuel m.
    rewrite rep_S, H1, H2 by lia. reflexivity.
  Qed.
  Lemma ev_rep_cons x a s s1 kw s2 k s3 k' :
    evals_skip a s (POk s1 kw) -> evals x a s1 (POk s2 k) -> evals_rep x a s2 (POk s3 k') ->
    evals_rep x a s (POk s3 (kw ++ k ++ k')).
  Proof.
    intros [n1 H1] [n2 H2] [n3 H3]. exists (S (Nat.max n1 (Nat.max n2 n3))). intros m Hm. fuel m.
    rewrite rep_S, H1, H2, H3 by lia. reflexivity.
  Qed.
  Lemma ev_plus x a s r : evals (PSeq x (PStar x)) a s r -> evals (PPlus x) a s r.
  Proof. intros [n H]. exists (S n). intros m Hm. fuel m. rewrite run_plus. apply H. lia. Qed.
  Lemma ev_opt_none x a s : evals x a s PFail -> evals (POpt x) a s (POk s []).
  Proof. intros [n H]. exists (S n). intros m Hm. fuel m. rewrite run_opt, H by lia. reflexivity. Qed.
  Lemma ev_opt_some x a s s1 k1 : evals x a s (POk s1 k1) -> evals (POpt x) a s (POk s1 k1).
  Proof. intros [n H]. exists (S n). intros m Hm. fuel m. rewrite run_opt, H by lia. reflexivity. Qed.

  (* ---- look-ahead ---- *)
  Lemma ev_not_fail x a s : evals x a s PFail -> evals (PNot x) a s (POk s []).
  Proof. intros [n H]. exists (S n). intros m Hm. fuel m. rewrite run_not, H by lia. reflexivity. Qed.
  Lemma ev_not_ok x a s s1 k1 : evals x a s (POk s1 k1) -> evals (PNot x) a s PFail.
  Proof. intros [n H]. exists (S n). intros m Hm. fuel m. rewrite run_not, H by lia. reflexivity. Qed.
  Lemma ev_and_ok x a s s1 k1 : evals x a s (POk s1 k1) -> evals (PAnd x) a s (POk s []).
  Proof. intros [n H]. exists (S n). intros m Hm. fuel m. rewrite run_and, H by lia. reflexivity. Qed.
  Lemma ev_and_fail x a s : evals x a s PFail -> evals (PAnd x) a s PFail.
  Proof. intros [n H]. exists (S n). intros m Hm. fuel m. rewrite run_and, H by lia. reflexivity. Qed.

  (* ---- skipping ---- *)
  Lemma ev_skip_atomic s : evals_skip Atomic s (POk s []).
  Proof. exists 1%nat. intros m Hm. fuel m. apply skipw_S. Qed.
  Lemma ev_skip_compound s : evals_skip CompoundAtomic s (POk s []).
  Proof. exists 1%nat. intros m Hm. fuel m. apply skipw_S. Qed.
  Lemma ev_skip_stop s :
    has_ws G = true -> evals (PRef ws_name) NonAtomic s PFail -> evals_skip NonAtomic s (POk s []).
  Proof.
    intros Hw [n H]. exists (S n). intros m Hm. fuel m. rewrite skipw_S, Hw, H by lia. reflexivity.
  Qed.
  Lemma ev_skip_step s s1 k s2 k' :
    has_ws G = true -> evals (PRef ws_name) NonAtomic s (POk s1 k) -> evals_skip NonAtomic s1 (POk s2 k') ->
    evals_skip NonAtomic s (POk s2 (k ++ k')).
  Proof.
    intros Hw [n1 H1] [n2 H2]. exists (S (Nat.max n1 n2)). intros m Hm. fuel m.
    rewrite skipw_S, Hw, H1, H2 by lia. reflexivity.
  Qed.

  (* ---- determinism: the value reached with enough fuel is unique ---- *)
  Lemma evals_fun e a s r r' : evals e a s r -> evals e a s r' -> r = r'.
  Proof.
    intros [n H] [n' H']. rewrite <- (H (Nat.max n n')), <- (H' (Nat.max n n')) by lia. reflexivity.
  Qed.

  (* ---- more fuel never changes an answer other than "out of fuel" ---- *)
  Lemma fuel_step : forall f,
    (forall e a s r, run f e a s = r -> r <> PFuel -> run (S f) e a s = r) /\
    (forall x a s r, rep f x a s = r -> r <> PFuel -> rep (S f) x a s = r) /\
    (forall a s r, skipw f a s = r -> r <> PFuel -> skipw (S f) a s = r).
  Proof.
    induction f as [|f [IHr [IHp IHs]]].
    - repeat split; intros; cbn in *; congruence.
    - assert (Hr : forall e a s r, run (S f) e a s = r -> r <> PFuel -> run (S (S f)) e a s = r).
      { intros e a s r H Hn. destruct e.
        + rewrite run_str in *. exact H.
        + exact H.
        + rewrite run_any in *. exact H.
        + rewrite run_soi in *. exact H.
        + rewrite run_eoi in *. exact H.
        + rewrite run_class in *. exact H.
        + rewrite run_ref in *. destruct (find_rule G rule); [|exact H].
          destruct (run f (pr_body p) (enter (pr_mod p) rule a) s) eqn:E1; try (subst; congruence);
            rewrite (IHr _ _ _ _ E1) by congruence; exact H.
        + rewrite run_seq in *.
          destruct (run f e1 a s) eqn:E1; try (subst; congruence); rewrite (IHr _ _ _ _ E1) by congruence; [exact H | exact H |].
          destruct (skipw f a rest) eqn:E2; try (subst; congruence); rewrite (IHs _ _ _ E2) by congruence; [exact H | exact H |].
          destruct (run f e2 a rest0) eqn:E3; try (subst; congruence); rewrite (IHr _ _ _ _ E3) by congruence; exact H.
        + rewrite run_choice in *.
          destruct (run f e1 a s) eqn:E1; try (subst; congruence); rewrite (IHr _ _ _ _ E1) by congruence; [|exact H|exact H].
          now apply IHr.
        + rewrite run_star in *.
          destruct (run f e a s) eqn:E1; try (subst; congruence); rewrite (IHr _ _ _ _ E1) by congruence; [exact H | exact H |].
          destruct (rep f e a rest) eqn:E2; try (subst; congruence); rewrite (IHp _ _ _ _ E2) by congruence; exact H.
        + rewrite run_plus in *. now apply IHr.
        + rewrite run_opt in *.
          destruct (run f e a s) eqn:E1; try (subst; congruence); rewrite (IHr _ _ _ _ E1) by congruence; exact H.
        + rewrite run_not in *.
          destruct (run f e a s) eqn:E1; try (subst; congruence); rewrite (IHr _ _ _ _ E1) by congruence; exact H.
        + rewrite run_and in *.
          destruct (run f e a s) eqn:E1; try (subst; congruence); rewrite (IHr _ _ _ _ E1) by congruence; exact H. }
      assert (Hs : forall a s r, skipw (S f) a s = r -> r <> PFuel -> skipw (S (S f)) a s = r).
      { intros a s r H Hn. rewrite skipw_S in *. destruct a; [|exact H|exact H]. destruct (has_ws G); [|exact H].
        destruct (run f (PRef ws_name) NonAtomic s) eqn:E1; try (subst; congruence);
          rewrite (IHr _ _ _ _ E1) by congruence; [exact H | exact H |].
        destruct (skipw f NonAtomic rest) eqn:E2; try (subst; congruence); rewrite (IHs _ _ _ E2) by congruence; exact H. }
      split; [exact Hr | split; [|exact Hs]].
      intros x a s r H Hn. rewrite rep_S in *.
      destruct (skipw f a s) eqn:E1; try (subst; congruence); rewrite (IHs _ _ _ E1) by congruence; [exact H | exact H |].
      destruct (run f x a rest) eqn:E2; try (subst; congruence); rewrite (IHr _ _ _ _ E2) by congruence; [exact H | exact H |].
      destruct (rep f x a rest0) eqn:E3; try (subst; congruence); rewrite (IHp _ _ _ _ E3) by congruence; exact H.
  Qed.

  Lemma run_mono f f' e a s r : (f <= f')%nat -> run f e a s = r -> r <> PFuel -> run f' e a s = r.
  Proof.
    intros Hle. induction Hle as [|f' Hle IH]; [auto|]. intros H Hn. apply (proj1 (fuel_step f')); auto.
  Qed.

  (* hence: a value reached with enough fuel is the only answer any amount of fuel can give, besides PFuel *)
  Lemma evals_any_fuel e a s r f : evals e a s r -> r <> PFuel -> run f e a s = r \/ run f e a s = PFuel.
  Proof.
    intros [n H] Hn. destruct (run f e a s) eqn:E1; [left|now right|left|left];
      rewrite <- (H (Nat.max n f) (Nat.le_max_l _ _));
      symmetry; apply (run_mono f (Nat.max n f)); try (apply Nat.le_max_r); try exact E1; congruence.
  Qed.

  (* the text a rule node records, when the input is a known prefix followed by the remaining input *)
  Lemma consumed_app (p k : str) : consumed (p ++ k) k = p.
  Proof.
    unfold consumed. rewrite app_length. replace (length p + length k - length k)%nat with (length p) by lia.
    induction p as [|x p IH]; cbn [length take app]; [destruct k; reflexivity|]. now rewrite IH.
  Qed.
End PegLemmas.
