(* Proofs/AgreeValueP.v -- C03 at the VALUE level (terms, sentences, tasks): for the text the enum
   formatter prints for a well-formed value v (and for the same text with the term inside written as any
   surface tree that means it: re-spaced, derived copulas)

     (lexical)  lex_parse L text                    = LOk (lex_of_narsese v)
     (fold)     fold_narsese E (lex_of_narsese v)   = FOk v                        (Props/C03.v)
     (enum)     parse_narsese E text                = POk v _                      (hypothesis Henum, C01)

   hence both pipelines return v.  Parts:
     1  consolidation of the two lexical formatter models (Model/Readme.v lfmt_narsese = Model/LexFormatter.v
        lex_fmt) and "the enum formatter prints what the lexical formatter prints for lex_of_narsese v";
     2  the lexical value layer with prefix-only atoms (generalises Proofs/LexPAssemble.v, LexPClean.v from
        vocab_ok to lvalue_ok: the placeholder `_` of an image has an empty name, and names may contain
        keyword characters such as `_` and `-`, both outside vocab_ok's name clause);
     3  the lexical value of an enum value is in that domain; whitespace;
     4  the agreement theorems;  5 tables and examples. *)
From Nv Require Import Model.AgreeValue.
From Nv Require Import Proofs.LexPBase Proofs.LexPTotal Proofs.LexPDict Proofs.LexPStr Proofs.LexPTerm Proofs.LexPRound
                       Proofs.LexPAssemble Proofs.LexPStrip Proofs.LexPFinal Proofs.LexPClean Proofs.LexPMain Proofs.LexPTables.
From Nv Require Import Proofs.EqHashP Proofs.FoldP Proofs.FoldP2 Proofs.FoldP3.
From Nv Require Import Proofs.EnumTotalP Proofs.EnumTermP Proofs.EnumTermCor Proofs.EnumFmtP Proofs.EnumSentP Proofs.EnumUnambP.
From Nv Require Import Proofs.AgreeP Proofs.LexFuelP Proofs.ReadmeEnumP.
From Coq Require Import Lia.
Import ListNotations.

(* ================================================================================== *)
(* 1. the two lexical formatter models are the same function                           *)
(* ================================================================================== *)
Section SameFormatter.
  Variable L : lfmt.
  Local Notation Y := (layout_of_lfmt L).

  Lemma join_with_ljoin sep l : join_with sep l = ljoin_to sep l.
  Proof.
    induction l as [|x l IH]; [reflexivity|]. destruct l as [|y r]; [reflexivity|].
    change (join_with sep (x :: y :: r)) with (x ++ sep ++ join_with sep (y :: r)).
    change (ljoin_to sep (x :: y :: r)) with (x ++ sep ++ ljoin_to sep (y :: r)). now rewrite IH.
  Qed.

  Lemma lfmt_term_is_lex_fmt_term : forall x, lfmt_term Y x = lex_fmt_term L x.
  Proof.
    induction x as [p n | c ts IH | l ts r IH | c s p IHs IHp] using lterm_ind2; unfold lex_fmt_term in *;
      cbn [lfmt_term lex_fmt_term_g].
    - reflexivity.
    - rewrite (map_Forall_eq (lfmt_term Y) (lex_fmt_term_g L (l_format_terms L)) ts IH). reflexivity.
    - rewrite (map_Forall_eq (lfmt_term Y) (lex_fmt_term_g L (l_format_terms L)) ts IH). reflexivity.
    - rewrite IHs, IHp. reflexivity.
  Qed.

  Lemma lfmt_truth_is_lex_fmt_truth t : lfmt_truth Y t = lex_fmt_truth L t.
  Proof. destruct t as [|x t]; [reflexivity|]. unfold lfmt_truth, lex_fmt_truth. now rewrite join_with_ljoin. Qed.

  Lemma lfmt_budget_is_lex_fmt_budget b : lfmt_budget Y b = lex_fmt_budget L b.
  Proof. unfold lfmt_budget, lex_fmt_budget. now rewrite join_with_ljoin. Qed.

  Lemma lfmt_sentence_is_lex_fmt_sentence s : lfmt_sentence Y s = lex_fmt_sentence L s.
  Proof.
    unfold lfmt_sentence, lex_fmt_sentence, lex_fmt_sentence_g.
    rewrite lfmt_term_is_lex_fmt_term, lfmt_truth_is_lex_fmt_truth. reflexivity.
  Qed.

  Lemma lfmt_task_is_lex_fmt_task k : lfmt_task Y k = lex_fmt_task L k.
  Proof.
    unfold lfmt_task, lex_fmt_task, lex_fmt_task_g. cbv zeta.
    rewrite lfmt_sentence_is_lex_fmt_sentence, lfmt_budget_is_lex_fmt_budget. reflexivity.
  Qed.

  (* consolidation: C11's theorems about lfmt_* speak about the formatter model that C02's correspondence
     check ties to the code *)
  Theorem lfmt_is_lex_fmt : forall x : lnarsese, lfmt_narsese Y x = lex_fmt L x.
  Proof.
    intros [t|s|k]; cbn [lfmt_narsese].
    - apply lfmt_term_is_lex_fmt_term.
    - apply lfmt_sentence_is_lex_fmt_sentence.
    - apply lfmt_task_is_lex_fmt_task.
  Qed.
End SameFormatter.

(* the layout Readme.v uses for the ASCII lexical formatter is the layout of the regenerated LEX_ASCII *)
Lemma lex_ascii_layout_is : lex_ascii_layout = layout_of_lfmt LEX_ASCII.
Proof. reflexivity. Qed.

Corollary lfmt_ascii_is_lex_fmt x : lfmt_narsese lex_ascii_layout x = lex_fmt LEX_ASCII x.
Proof. rewrite lex_ascii_layout_is. apply lfmt_is_lex_fmt. Qed.

Lemma llayout_eqb_eq a b : llayout_eqb a b = true -> a = b.
Proof.
  unfold llayout_eqb. rewrite !andb_true_iff, !str_eqb_eq. destruct a, b; cbn. intuition; subst; reflexivity.
Qed.

(* the enum formatter prints exactly what the lexical formatter of the same name prints for the lexical
   value lex_of_narsese v -- for every pair of records with the same layout strings *)
Theorem fmt_narsese_is_lex_fmt (F : Type) (fshow : F -> str) E L : same_layout E L = true ->
  forall v : narsese F, fmt_narsese F fshow E v = lex_fmt L (Readme.lex_of_narsese F fshow E v).
Proof.
  unfold same_layout. rewrite andb_true_iff, str_eqb_eq. intros [Hl Hs] v. apply llayout_eqb_eq in Hl.
  rewrite (fmt_lex_narsese F fshow E Hs v), Hl. apply lfmt_is_lex_fmt.
Qed.

Theorem fmt_term_is_lex_fmt_term E L : same_layout E L = true ->
  forall t : term, fmt_term E t = lex_fmt_term L (Readme.lex_of_term E t).
Proof.
  unfold same_layout. rewrite andb_true_iff. intros [Hl _] t. apply llayout_eqb_eq in Hl.
  rewrite (fmt_lex_term E t), Hl. apply lfmt_term_is_lex_fmt_term.
Qed.

Lemma same_layout_shipped :
  same_layout FORMAT_ASCII LEX_ASCII = true /\ same_layout FORMAT_LATEX LEX_LATEX = true /\
  same_layout FORMAT_HAN LEX_HAN = false.
Proof. vm_compute. repeat split; reflexivity. Qed.

(* ================================================================================== *)
(* 2. the lexical value layer with prefix-only atoms                                    *)
(* ================================================================================== *)
(* Proofs/LexPAssemble.v and Proofs/LexPClean.v prove the item layer for values of vocab_ok, whose names are
   non-empty and contain no keyword.  The lexical reading of an enum value is outside that domain (the
   placeholder atom has an empty name; `a_b`, `x-y` contain the keywords `_`, `-`).  The item layer itself
   never looks inside the term text: it needs (a) the term layer's result on exactly that text, (b) a
   non-empty term text, (c) no budget found in front of it, (d) for a bare term, nothing cut from its end.
   (a) is Proofs/AgreeP.v segment_term_f0_2 under the explicit unambiguity conditions; (b)-(d) are re-proved
   here for lterm_ok. *)
Section ValueLayer.
  Variable L : lfmt.
  Variable ia : N -> bool.
  Local Notation C := (compile L).
  Hypothesis Hterm : lex_term_ok L ia = true.
  Hypothesis Hitems : lex_items_ok L = true.
  Hypothesis Hclean : lex_clean_ok L ia = true.
  Hypothesis Hatoms : lex_clean_atoms_ok L ia = true.
  Hypothesis Hbl : budget_left_nonident ia L = true.

  Local Notation f0 := (f0 L).
  Local Notation bl := (fst (l_budget_brackets L)).
  Local Notation br := (snd (l_budget_brackets L)).
  Local Notation nid := (fun c => negb (ident L ia c)).

  (* (b) *)
  Lemma f0_nonempty2 t : lterm_ok ia L t = true -> (1 <= length (f0 t))%nat.
  Proof.
    destruct t as [p n | c ts | l ts rb | c s p]; cbn [lterm_ok]; rewrite ?andb_true_iff.
    - intros [_ Hne]. rewrite f0_atom, app_length.
      apply orb_true_iff in Hne as [H|H]; apply nonempty_length in H; lia.
    - intros [[_ Hne] _]. destruct ts as [|t r]; [discriminate|]. rewrite f0_compound.
      rewrite app_length. pose proof (Gleft_first L ia Hterm _ (In_cl L)) as H. apply first_is_length in H. lia.
    - intros [[Hin Hne] _]. destruct ts as [|t r]; [discriminate|]. rewrite f0_set.
      apply pair_in_In in Hin. rewrite app_length.
      pose proof (Gleft_first L ia Hterm _ (In_setl L _ _ Hin)) as H. apply first_is_length in H. lia.
    - intros _. rewrite f0_statement. rewrite app_length.
      pose proof (Gleft_first L ia Hterm _ (In_sl L)) as H. apply first_is_length in H. lia.
  Qed.

  Lemma f0_head2 t : lterm_ok ia L t = true -> LexPClean.is_atom t = false ->
    exists b rest, In b (bracket_lefts L) /\ f0 t = b ++ rest.
  Proof.
    destruct t as [p n | c ts | l ts rb | c s p]; cbn [lterm_ok LexPClean.is_atom]; rewrite ?andb_true_iff; intros Hok Ha.
    - discriminate.
    - destruct Hok as [[_ Hne] _]. destruct ts as [|t r]; [discriminate|]. rewrite f0_compound.
      eexists _, _. split; [apply In_cl | reflexivity].
    - destruct Hok as [[Hin Hne] _]. destruct ts as [|t r]; [discriminate|]. rewrite f0_set.
      apply pair_in_In in Hin. eexists _, _. split; [eapply In_setl; eauto | reflexivity].
    - rewrite f0_statement. eexists _, _. split; [apply In_sl | reflexivity].
  Qed.

  Lemma f0_tail2 t : lterm_ok ia L t = true -> LexPClean.is_atom t = false ->
    exists x rb, In rb (bracket_rights L) /\ f0 t = x ++ rb.
  Proof.
    destruct t as [p n | c ts | l ts rb | c s p]; cbn [lterm_ok LexPClean.is_atom]; rewrite ?andb_true_iff; intros Hok Ha.
    - discriminate.
    - destruct Hok as [[_ Hne] _]. destruct ts as [|t r]; [discriminate|]. rewrite f0_compound.
      exists (cl L ++ c ++ comps_text L (t :: r)), (cr L). split; [apply In_cr | now rewrite <- !app_assoc].
    - destruct Hok as [[Hin Hne] _]. destruct ts as [|t r]; [discriminate|]. rewrite f0_set.
      apply pair_in_In in Hin. exists (l ++ f0 t ++ comps_text L r), rb.
      split; [eapply In_setr; eauto | now rewrite <- !app_assoc].
    - rewrite f0_statement. exists (sl L ++ f0 s ++ c ++ f0 p), (sr L).
      split; [apply In_sr | now rewrite <- !app_assoc].
  Qed.

  (* (c) no budget in front of a term of the domain followed by text without the budget's key character *)
  Lemma no_budget2 t rest :
    lterm_ok ia L t = true ->
    (forall e, budget_key_char L ia e = true -> ~ In e rest) ->
    segment_budget C (f0 t ++ rest) = LOk None.
  Proof.
    intros Hok Hrest. destruct (clean_all L ia Hclean) as [HB [_ [_ [Hblne HP]]]].
    destruct (LexPClean.is_atom t) eqn:Ea.
    - destruct t as [p n | | |]; try discriminate. cbn [lterm_ok] in Hok. rewrite !andb_true_iff in Hok.
      destruct Hok as [[Hp Hid] Hne]. apply str_in_In in Hp. rewrite forallb_forall in HP. specialize (HP _ Hp).
      rewrite f0_atom, <- app_assoc. rewrite !orb_true_iff in HP. destruct HP as [[HP|HP]|HP].
      + (* no prefix: the name is non-empty and starts with an identifier character *)
        destruct p; [|discriminate]. cbn [app]. apply segment_budget_nostart.
        cbn [LexParser.nonempty] in Hne. rewrite orb_false_r in Hne.
        destruct n as [|c n']; [discriminate|]. cbn [forallb] in Hid. apply andb_true_iff in Hid as [Hc _].
        cbn [app]. unfold budget_left_nonident in Hbl. eapply (first_is_mismatch (ident L ia)); eauto.
      + apply negb_true_iff in HP. apply segment_budget_nostart. now apply compat_false_starts.
      + apply andb_true_iff in HP as [Heq Hkey]. apply str_eqb_eq in Heq. subst p.
        apply existsb_exists in Hkey as [e [He Hkey]].
        apply (segment_budget_keychar L _ e He). rewrite drop_app_length. intros Hin.
        apply in_app_or in Hin as [Hin|Hin]; [|exact (Hrest e Hkey Hin)].
        unfold budget_key_char in Hkey. rewrite !andb_true_iff in Hkey. destruct Hkey as [[[[[Hk _] _] _] _] _].
        rewrite forallb_forall in Hid. rewrite (Hid _ Hin) in Hk. discriminate.
    - destruct (f0_head2 t Hok Ea) as [b [r [Hb ->]]]. rewrite forallb_forall in HB. specialize (HB _ Hb).
      apply negb_true_iff in HB. apply segment_budget_nostart. rewrite <- app_assoc. now apply compat_false_starts.
  Qed.

  (* the key character occurs in no item of a sentence of the domain (Proofs/LexPClean.v key_char_rest; the
     term of the sentence plays no role) *)
  Lemma key_char_rest2 s e :
    str_in (ls_punct s) (c_punctuations C) = true -> LexSpec.stamp_ok L (ls_stamp s) = true ->
    forallb number_ok (ls_truth s) = true ->
    budget_key_char L ia e = true -> ~ In e (rest_text L s).
  Proof.
    intros Hq Hst Htv Hkey Hin.
    apply str_in_In in Hq. unfold budget_key_char in Hkey. rewrite !andb_true_iff in Hkey.
    destruct Hkey as [[[[[K1 K2] K3] K4] K5] K6]. apply negb_true_iff in K1, K2, K3, K4, K5, K6.
    unfold rest_text in Hin. apply in_app_or in Hin as [Hin|Hin].
    - assert (memb e (concat (c_punctuations C)) = true) by (apply memb_In; apply in_concat; eauto). congruence.
    - apply in_app_or in Hin as [Hin|Hin].
      + unfold LexSpec.stamp_ok in Hst. apply orb_true_iff in Hst as [Hst|Hst].
        { destruct (ls_stamp s); [destruct Hin | discriminate]. }
        apply existsb_exists in Hst as [[l r] [Hlr Hform]].
        apply (stamp_form_split L) in Hform as [content [Heq [Hc _]]]. cbn [fst snd] in *.
        rewrite Heq in Hin. apply in_app_or in Hin as [Hin|Hin]; [|apply in_app_or in Hin as [Hin|Hin]].
        * assert (memb e (concat (map (fun t => fst t ++ snd t) (c_stamp_brackets C))) = true).
          { apply memb_In. apply in_concat. exists (l ++ r). split; [|apply in_or_app; now left].
            apply in_map_iff. exists (l, r). auto. }
          congruence.
        * rewrite forallb_forall in Hc. rewrite (Hc _ Hin) in K2. discriminate.
        * assert (memb e (concat (map (fun t => fst t ++ snd t) (c_stamp_brackets C))) = true).
          { apply memb_In. apply in_concat. exists (l ++ r). split; [|apply in_or_app; now right].
            apply in_map_iff. exists (l, r). auto. }
          congruence.
      + unfold lex_fmt_truth in Hin. destruct (ls_truth s) as [|e0 tv'] eqn:Etv; [destruct Hin|].
        assert (Hm : forall c, In c (fst (l_truth_brackets L)) \/ In c (snd (l_truth_brackets L)) \/ In c (l_truth_separator L) ->
                     memb c (fst (l_truth_brackets L) ++ snd (l_truth_brackets L) ++ l_truth_separator L) = true).
        { intros c Hc. apply memb_In. rewrite !in_app_iff. tauto. }
        apply in_app_or in Hin as [Hin|Hin]; [rewrite Hm in K6 by auto; discriminate|].
        apply in_app_or in Hin as [Hin|Hin]; [|rewrite Hm in K6 by auto; discriminate].
        apply join_chars in Hin as [Hin|[b [Hb Hcb]]]; [rewrite Hm in K6 by auto; discriminate|].
        rewrite forallb_forall in Htv. specialize (Htv _ Hb). unfold number_ok in Htv.
        apply andb_true_iff in Htv as [_ Hnum]. rewrite forallb_forall in Hnum.
        specialize (Hnum _ Hcb). unfold numc in K3. congruence.
  Qed.

  (* (d) nothing is cut from the end of a bare term of the domain *)
  Lemma top_clean2 t : lterm_ok ia L t = true -> bare_prefix_ok L t = true -> top_clean L (NTerm t).
  Proof.
    intros Hok Hbare. cbn [top_clean]. split.
    { rewrite <- (app_nil_r (f0 t)). apply no_budget2; auto. }
    destruct (LexPClean.is_atom t) eqn:Ea.
    - destruct t as [p n | | |]; try discriminate. cbn [lterm_ok] in Hok. rewrite !andb_true_iff in Hok.
      destruct Hok as [[Hp Hid] Hne]. apply str_in_In in Hp. rewrite f0_atom.
      destruct (rev n) as [|c rn] eqn:Er.
      + (* prefix-only *)
        apply (f_equal (@rev N)) in Er. rewrite rev_involutive in Er. cbn [rev] in Er. subst n.
        cbn [bare_prefix_ok] in Hbare. rewrite app_nil_r. repeat split.
        * exact (tail_truth L [] p Hbare).
        * exact (tail_stamp L [] p Hbare).
        * exact (tail_punct L [] p Hbare).
      + assert (Hn : n = rev rn ++ [c]) by (rewrite <- (rev_involutive n), Er; reflexivity).
        assert (Hc : ident L ia c = true).
        { rewrite forallb_forall in Hid. apply Hid. apply in_rev. rewrite Er. now left. }
        pose proof Hatoms as H. unfold lex_clean_atoms_ok in H. cbv zeta in H. rewrite !andb_true_iff in H.
        destruct H as [[A1 A2] A3]. repeat split.
        * apply (segment_truth_none L). rewrite Hn, app_assoc. eapply (ends_last_mismatch (ident L ia)); eauto.
        * apply (segment_stamp_none L). intros [l r] Hin. rewrite forallb_forall in A3. specialize (A3 _ Hin).
          cbn [fst snd] in *. destruct r as [|c0 r0].
          -- apply last_is_nonempty in A3 as [l' [e [Hl He]]]. apply andb_true_iff in He as [He1 He2].
             unfold segment_some_suffix. apply (sss_loop_absent _ _ e).
             ++ rewrite Hl, rev_app_distr. now left.
             ++ intros Hin'. apply in_rev in Hin'. apply in_app_or in Hin' as [Hin'|Hin'].
                ** rewrite forallb_forall in He2. specialize (He2 _ Hp). apply negb_true_iff in He2.
                   assert (memb e p = true) by now apply memb_In. congruence.
                ** rewrite forallb_forall in Hid. rewrite (Hid _ Hin') in He1. discriminate.
          -- rewrite Hn, app_assoc. eapply (ends_last_mismatch (ident L ia)); eauto.
        * unfold segment_punctuation. rewrite match_suffix_none; [reflexivity|]. intros q Hq.
          rewrite forallb_forall in A2. rewrite Hn, app_assoc. eapply (ends_last_mismatch (ident L ia)); eauto.
    - destruct (clean_all L ia Hclean) as [_ [HT _]].
      destruct (f0_tail2 t Hok Ea) as [x [rb [Hrb Heq]]]. rewrite forallb_forall in HT. specialize (HT _ Hrb).
      rewrite Heq. repeat split.
      + now apply tail_truth.
      + now apply tail_stamp.
      + now apply tail_punct.
  Qed.

  (* ---- the item layer around a term whose text the term layer reads back ---- *)
  Definition term_reads (t : lterm) : Prop :=
    forall fuel, (length (f0 t) < fuel)%nat -> segment_term C ia fuel (f0 t) = LOk (t, length (f0 t)).

  Lemma parse_items_sentence2 fuel pre bo s :
    segment_budget C (pre ++ f0 (ls_term s) ++ rest_text L s) = LOk bo ->
    snd (right_unwrap_or bo 0) = length pre ->
    lsentence_ok2 ia L s = true -> term_reads (ls_term s) ->
    (length (f0 (ls_term s)) < fuel)%nat ->
    parse_items C ia fuel (pre ++ f0 (ls_term s) ++ rest_text L s) =
    LOk {| LexParser.m_term := Some (ls_term s); LexParser.m_truth := opt_list (ls_truth s); LexParser.m_stamp := opt_list (ls_stamp s);
           LexParser.m_punct := Some (ls_punct s); LexParser.m_budget := fst (right_unwrap_or bo 0) |}.
  Proof.
    intros Hbud Hbi Hok Hreads Hfuel. destruct s as [t q st tv]. cbn [ls_term ls_punct ls_stamp ls_truth] in *.
    unfold lsentence_ok2 in Hok. cbn [ls_term ls_punct ls_stamp ls_truth] in Hok.
    rewrite !andb_true_iff in Hok. destruct Hok as [[[Ht Hq] Hst] Htv]. apply str_in_In in Hq.
    unfold rest_text in *. cbn [ls_punct ls_stamp ls_truth] in *.
    set (tt := f0 t) in *. set (ttxt := lex_fmt_truth L tv) in *.
    pose proof (f0_nonempty2 t Ht) as Htt. fold tt in Htt.
    unfold parse_items. rewrite Hbud. cbn [lbind].
    destruct (right_unwrap_or bo 0) as [budget bi] eqn:Ebo. cbn [fst snd] in *. subst bi.
    (* truth *)
    replace (pre ++ tt ++ q ++ st ++ ttxt) with (((pre ++ tt) ++ q ++ st) ++ ttxt) by now rewrite <- !app_assoc.
    unfold ttxt. rewrite (segment_truth_sentence L ia Hitems (pre ++ tt) q st tv Hq Hst Htv). cbn [lbind].
    assert (E1 : right_unwrap_or (match tv with [] => None | _ => Some (tv, length ((pre ++ tt) ++ q ++ st)) end)
                   (length (((pre ++ tt) ++ q ++ st) ++ lex_fmt_truth L tv)) =
                 (opt_list tv, length ((pre ++ tt) ++ q ++ st))).
    { destruct tv; cbn [right_unwrap_or opt_list lex_fmt_truth]; [now rewrite app_nil_r | reflexivity]. }
    rewrite E1. clear E1.
    rewrite slice_to_ok by (rewrite !app_length; lia). rewrite take_app_length. cbn [lbind].
    (* stamp *)
    rewrite (app_assoc (pre ++ tt) q st). rewrite (segment_stamp_sentence L Hitems (pre ++ tt) q st Hq Hst). cbn [lbind].
    assert (E2 : right_unwrap_or (match st with [] => None | _ => Some (st, length ((pre ++ tt) ++ q)) end)
                   (length (((pre ++ tt) ++ q) ++ st)) = (opt_list st, length ((pre ++ tt) ++ q))).
    { destruct st; cbn [right_unwrap_or opt_list]; [now rewrite app_nil_r | reflexivity]. }
    rewrite E2. clear E2.
    rewrite slice_to_ok by (rewrite !app_length; lia). rewrite <- !app_assoc.
    replace (pre ++ tt ++ q ++ st ++ lex_fmt_truth L tv) with (((pre ++ tt) ++ q) ++ st ++ lex_fmt_truth L tv)
      by now rewrite <- !app_assoc.
    rewrite <- (app_assoc pre tt q) at 1. rewrite (app_assoc pre tt q). rewrite take_app_length. cbn [lbind].
    (* punctuation *)
    pose proof (segment_punctuation_pos L Hitems (pre ++ tt) q Hq) as Hp. rewrite Hp.
    cbn [lbind right_unwrap_or].
    (* the term *)
    rewrite slice_ok by (rewrite !app_length; lia).
    rewrite <- !app_assoc. rewrite drop_app_length. rewrite app_length.
    replace (length pre + length tt - length pre)%nat with (length tt) by lia.
    rewrite take_app_length. cbn [lbind].
    replace (length pre <? length pre + length tt)%nat with true by (symmetry; apply Nat.ltb_lt; lia).
    unfold tt. rewrite (Hreads fuel Hfuel). cbn [lbind fst]. reflexivity.
  Qed.

  (* the unambiguity conditions of the term layer give (a) *)
  Lemma term_reads_intro t : lterm_ok ia L t = true -> LexSpec.unamb L t [] -> term_reads t.
  Proof.
    intros Hok Hun fuel Hfuel.
    pose proof (segment_term_f0_2 L ia Hterm t [] fuel Hok Hun eq_refl) as H. rewrite app_nil_r in H. now apply H.
  Qed.

  (* ---- parse_env on the whitespace-free text of a value of the domain ---- *)
  Theorem parse_env_text0_2 v fuel :
    lvalue_ok ia L v = true -> unamb_top L v -> (length (text0 L v) < fuel)%nat ->
    parse_env C ia fuel (text0 L v) = LOk v.
  Proof.
    intros Hv Hun Hfuel. unfold parse_env. destruct v as [t | s | k].
    - (* bare term *)
      cbn [lvalue_ok unamb_top] in *. apply andb_true_iff in Hv as [Hv Hbare].
      destruct (top_clean2 t Hv Hbare) as [Hb [Htr [Hst Hp]]].
      change (text0 L (NTerm t)) with (f0 t) in *.
      pose proof (f0_nonempty2 t Hv) as Htt.
      unfold parse_items. rewrite Hb. cbn [lbind right_unwrap_or]. rewrite Htr. cbn [lbind right_unwrap_or].
      rewrite slice_to_ok by lia. rewrite take_all by lia. cbn [lbind]. rewrite Hst. cbn [lbind right_unwrap_or].
      rewrite slice_to_ok by lia. rewrite take_all by lia. cbn [lbind]. rewrite Hp. cbn [lbind right_unwrap_or].
      rewrite slice_ok by lia. rewrite drop_0, Nat.sub_0_r, take_all by lia. cbn [lbind].
      replace (0 <? length (f0 t))%nat with true by (symmetry; apply Nat.ltb_lt; lia).
      rewrite (term_reads_intro t Hv Hun fuel Hfuel). reflexivity.
    - (* sentence *)
      cbn [lvalue_ok unamb_top] in *. rewrite (text0_sentence L) in *.
      assert (Hparts := Hv). unfold lsentence_ok2 in Hparts. rewrite !andb_true_iff in Hparts.
      destruct Hparts as [[[Ht Hq] Hst] Htv].
      pose proof (parse_items_sentence2 fuel [] None s) as H. cbn [app length right_unwrap_or fst snd] in H.
      rewrite H; auto.
      + cbn [lbind mid_fold LexParser.m_term LexParser.m_punct LexParser.m_budget LexParser.m_stamp LexParser.m_truth ok_or].
        rewrite opt_list_unwrap, opt_str_unwrap. destruct s; reflexivity.
      + apply no_budget2; auto. intros e He. now apply key_char_rest2.
      + now apply term_reads_intro.
      + rewrite app_length in Hfuel. lia.
    - (* task *)
      cbn [lvalue_ok unamb_top] in *. rewrite (text0_task L) in *.
      apply andb_true_iff in Hv as [Hs Hb].
      assert (Hparts := Hs). unfold lsentence_ok2 in Hparts. rewrite !andb_true_iff in Hparts.
      destruct Hparts as [[[Ht Hq] Hst] Htv].
      pose proof (parse_items_sentence2 fuel (lex_fmt_budget L (lt_budget k))
                    (Some (lt_budget k, length (lex_fmt_budget L (lt_budget k)))) (lt_sentence k)) as H.
      cbn [right_unwrap_or fst snd] in H.
      rewrite H; auto.
      + cbn [lbind mid_fold LexParser.m_term LexParser.m_punct LexParser.m_budget LexParser.m_stamp LexParser.m_truth ok_or].
        rewrite opt_list_unwrap, opt_str_unwrap. destruct k as [b [t q st tv]]; reflexivity.
      + apply (segment_budget_pos L ia Hitems). exact Hb.
      + now apply term_reads_intro.
      + rewrite !app_length in Hfuel. lia.
  Qed.
End ValueLayer.

(* the domain extends C02's: every value of vocab_ok is in lvalue_ok *)
Section DomainExtends.
  Variable L : lfmt.
  Variable ia : N -> bool.

  Lemma term_ok_lterm_ok : forall t, term_ok L ia t = true -> lterm_ok ia L t = true.
  Proof.
    induction t as [p n | c ts IH | l ts rb IH | c s p IHs IHp] using lterm_ind2; cbn [term_ok lterm_ok]; intros H.
    - apply andb_true_iff in H as [Hp Hn]. unfold LexSpec.name_ok in Hn. rewrite !andb_true_iff in Hn.
      destruct Hn as [[Hne Hid] _]. now rewrite Hp, Hid, Hne.
    - rewrite !andb_true_iff in H. destruct H as [[Hc Hne] Hts]. rewrite Hc, Hne. cbn [andb].
      apply forallb_forall. rewrite Forall_forall in IH. rewrite forallb_forall in Hts. intros t Ht. now apply IH, Hts.
    - rewrite !andb_true_iff in H. destruct H as [[Hc Hne] Hts]. rewrite Hc, Hne. cbn [andb].
      apply forallb_forall. rewrite Forall_forall in IH. rewrite forallb_forall in Hts. intros t Ht. now apply IH, Hts.
    - rewrite !andb_true_iff in H. destruct H as [[Hc Hs] Hp]. now rewrite Hc, (IHs Hs), (IHp Hp).
  Qed.

  Lemma term_ok_bare t : term_ok L ia t = true -> bare_prefix_ok L t = true.
  Proof.
    destruct t as [p n| | |]; try reflexivity. cbn [term_ok bare_prefix_ok]. intros H.
    apply andb_true_iff in H as [_ Hn]. unfold LexSpec.name_ok in Hn. rewrite !andb_true_iff in Hn.
    destruct Hn as [[Hne _] _]. destruct n; [discriminate | reflexivity].
  Qed.

  Lemma sentence_ok_2 s : sentence_ok L ia s = true -> lsentence_ok2 ia L s = true.
  Proof.
    unfold sentence_ok, lsentence_ok2. rewrite !andb_true_iff. intros [[[Ht Hq] Hst] Htv].
    now rewrite (term_ok_lterm_ok _ Ht), Hq, Hst, Htv.
  Qed.

  Theorem vocab_lvalue_ok v : vocab_ok L ia v = true -> lvalue_ok ia L v = true.
  Proof.
    destruct v as [t|s|k]; cbn [vocab_ok lvalue_ok]; intros H.
    - now rewrite (term_ok_lterm_ok t H), (term_ok_bare t H).
    - now apply sentence_ok_2.
    - apply andb_true_iff in H as [Hs Hb]. now rewrite (sentence_ok_2 _ Hs), Hb.
  Qed.
End DomainExtends.

(* ---- C02 on the extended domain: format-then-parse of the LEXICAL formatter for values of lvalue_ok
   (prefix-only atoms, names with keyword characters) under the explicit unambiguity conditions ---- *)
Section RoundTrip2.
  Variable L : lfmt.
  Variable ia : N -> bool.
  Local Notation C := (compile L).
  Hypothesis Hterm : lex_term_ok L ia = true.
  Hypothesis Hitems : lex_items_ok L = true.
  Hypothesis Hsp : lex_space_ok L ia = true.
  Hypothesis Hclean : lex_clean_ok L ia = true.
  Hypothesis Hatoms : lex_clean_atoms_ok L ia = true.
  Hypothesis Hbl : budget_left_nonident ia L = true.

  Local Notation strip := (LexSpec.strip L).
  Local Notation f0 := (f0 L).

  Lemma strip_term2 sp : allws L sp = true -> forall t, lterm_ok ia L t = true -> strip (lex_fmt_term_g L sp t) = f0 t.
  Proof.
    intros Hws. destruct (space_all L ia Hsp) as [_ [_ [_ [Hpre [Hcon [Hcop [_ [Hset _]]]]]]]].
    rewrite forallb_forall in Hpre, Hcon, Hcop, Hset.
    induction t as [p n | c ts IHts | l ts rb IHts | c s p IHs IHp] using lterm_ind2; intros Hok.
    - cbn [lterm_ok] in Hok. rewrite !andb_true_iff in Hok. destruct Hok as [[Hp Hid] _]. apply str_in_In in Hp.
      unfold LexSpec.f0. cbn [lex_fmt_term_g]. rewrite (LexPStrip.strip_app L).
      rewrite (LexPStrip.strip_nows L p) by (apply Hpre; exact Hp).
      now rewrite (LexPStrip.strip_nows L n) by (apply (ident_nows L ia Hsp); exact Hid).
    - cbn [lterm_ok] in Hok. rewrite !andb_true_iff in Hok. destruct Hok as [[Hc _] Hts]. apply str_in_In in Hc.
      unfold LexSpec.f0. cbn [lex_fmt_term_g]. unfold ltemplate_compound. rewrite !(LexPStrip.strip_app L).
      rewrite (strip_components L ia Hsp); auto.
      2:{ rewrite Forall_forall in *. rewrite forallb_forall in Hts. intros t Ht. apply IHts; auto. }
      rewrite (LexPStrip.strip_nows L (fst (l_compound_brackets L))) by (apply (single_nows L ia Hsp (cl L)); cbn; auto 15).
      rewrite (LexPStrip.strip_nows L (snd (l_compound_brackets L))) by (apply (single_nows L ia Hsp (cr L)); cbn; auto 15).
      rewrite (LexPStrip.strip_nows L (l_separator L)) by (apply (single_nows L ia Hsp (sep L)); cbn; auto 15).
      rewrite (LexPStrip.strip_nows L c) by (apply Hcon; exact Hc). now rewrite (strip_allws L sp Hws).
    - cbn [lterm_ok] in Hok. rewrite !andb_true_iff in Hok. destruct Hok as [[Hc _] Hts]. apply pair_in_In in Hc.
      specialize (Hset _ Hc). cbn [fst snd] in Hset. apply andb_true_iff in Hset as [Hl Hr].
      unfold LexSpec.f0. cbn [lex_fmt_term_g]. unfold ltemplate_compound_set. rewrite !(LexPStrip.strip_app L).
      rewrite (strip_components L ia Hsp); auto.
      2:{ rewrite Forall_forall in *. rewrite forallb_forall in Hts. intros t Ht. apply IHts; auto. }
      now rewrite (LexPStrip.strip_nows L l Hl), (LexPStrip.strip_nows L rb Hr).
    - cbn [lterm_ok] in Hok. rewrite !andb_true_iff in Hok. destruct Hok as [[Hc Hs] Hp]. apply str_in_In in Hc.
      unfold LexSpec.f0. cbn [lex_fmt_term_g]. unfold ltemplate_statement. rewrite !(LexPStrip.strip_app L).
      fold (LexSpec.f0 L). rewrite IHs, IHp by assumption.
      rewrite (LexPStrip.strip_nows L (fst (l_statement_brackets L))) by (apply (single_nows L ia Hsp (sl L)); cbn; auto 15).
      rewrite (LexPStrip.strip_nows L (snd (l_statement_brackets L))) by (apply (single_nows L ia Hsp (sr L)); cbn; auto 15).
      rewrite (LexPStrip.strip_nows L c) by (apply Hcop; exact Hc). rewrite (strip_allws L sp Hws). reflexivity.
  Qed.

  Lemma strip_sentence2 s : lsentence_ok2 ia L s = true ->
    strip (lex_fmt_sentence L s) = text0 L (NSentence s).
  Proof.
    intros Hok. destruct (space_all L ia Hsp) as [_ [Hft [Hfi [_ [_ [_ [Hpun _]]]]]]].
    unfold lsentence_ok2 in Hok. rewrite !andb_true_iff in Hok. destruct Hok as [[[Ht Hq] Hst] Htv].
    apply str_in_In in Hq. rewrite forallb_forall in Hpun.
    unfold lex_fmt_sentence, text0. cbn [lex_fmt_g]. unfold lex_fmt_sentence_g.
    rewrite (LexPStrip.strip_app L). rewrite (strip_term2 _ Hft _ Ht). f_equal.
    rewrite ljoin_lest3_nil. unfold ljoin_lest. cbn [map concat]. rewrite !(LexPStrip.strip_app L).
    rewrite (LexPStrip.strip_nows L (ls_punct s)) by (apply Hpun; exact Hq). f_equal. rewrite app_nil_r.
    assert (Hs : strip (ls_stamp s) = ls_stamp s) by (apply (LexPStrip.strip_nows L); now apply (stamp_nows_ok L ia Hsp)).
    assert (Htt : strip (lex_fmt_truth L (ls_truth s)) = lex_fmt_truth L (ls_truth s))
      by (apply (LexPStrip.strip_nows L); now apply (truth_nows L ia Hsp)).
    destruct (ls_stamp s) as [|c st]; destruct (lex_fmt_truth L (ls_truth s)) as [|d tt];
      cbn [app]; rewrite ?(LexPStrip.strip_app L), ?(strip_allws L _ Hfi), ?Hs, ?Htt; cbn [app]; try reflexivity.
  Qed.

  Theorem strip_fmt2 v : lvalue_ok ia L v = true -> strip (lex_fmt L v) = text0 L v.
  Proof.
    destruct (space_all L ia Hsp) as [_ [Hft [Hfi _]]].
    destruct v as [t | s | k]; cbn [lvalue_ok]; intros Hok.
    - apply andb_true_iff in Hok as [Hok _]. now apply strip_term2.
    - now apply strip_sentence2.
    - apply andb_true_iff in Hok as [Hs Hb].
      unfold lex_fmt, text0. cbn [lex_fmt_g]. unfold lex_fmt_task_g. cbv zeta.
      change (lex_fmt_sentence_g L (l_format_terms L) (l_format_items L) (lt_sentence k)) with (lex_fmt_sentence L (lt_sentence k)).
      change (lex_fmt_sentence_g L [] [] (lt_sentence k)) with (text0 L (NSentence (lt_sentence k))).
      rewrite <- (strip_sentence2 _ Hs).
      assert (Hbud : strip (lex_fmt_budget L (lt_budget k)) = lex_fmt_budget L (lt_budget k))
        by (apply (LexPStrip.strip_nows L); now apply (budget_nows L ia Hsp)).
      destruct (lex_fmt_sentence L (lt_sentence k)) as [|c stxt] eqn:E.
      + cbn [LexSpec.strip filter]. exact Hbud.
      + rewrite !(LexPStrip.strip_app L), Hbud, (strip_allws L _ Hfi). cbn [app].
        destruct (strip (c :: stxt)); [now rewrite app_nil_r | reflexivity].
  Qed.

  (* C02 for the extended domain *)
  Theorem lex_roundtrip2 v :
    lvalue_ok ia L v = true -> unamb_top L v -> lex_parse ia L (lex_fmt L v) = LOk v.
  Proof.
    intros Hv Hun. destruct (space_all L ia Hsp) as [Hrm _].
    unfold lex_parse, lex_parse_fuel, idealize_env. change (c_fmt C) with L. rewrite Hrm.
    change (filter (fun c => negb (space_for_parse L c)) (lex_fmt L v)) with (strip (lex_fmt L v)).
    rewrite (strip_fmt2 v Hv).
    apply (parse_env_text0_2 L ia Hterm Hitems Hclean Hatoms Hbl); auto.
    rewrite <- (strip_fmt2 v Hv). unfold lex_fuel. pose proof (strip_length L (lex_fmt L v)). lia.
  Qed.
End RoundTrip2.

(* ================================================================================== *)
(* 3. the lexical value of an enum value: domain, unambiguity, whitespace               *)
(* ================================================================================== *)
Lemma digit_in_list c : is_ascii_digit c = true -> In c [48; 49; 50; 51; 52; 53; 54; 55; 56; 57]%N.
Proof.
  unfold is_ascii_digit. rewrite andb_true_iff, !N.leb_le. intros [H1 H2]. cbn [In].
  assert (c = 48 \/ c = 49 \/ c = 50 \/ c = 51 \/ c = 52 \/ c = 53 \/ c = 54 \/ c = 55 \/ c = 56 \/ c = 57)%N by lia.
  intuition.
Qed.

Lemma ends_app_r p r : ends p (r ++ p) = true.
Proof. unfold ends. rewrite rev_app_distr. apply starts_app. Qed.

Section EnumValue.
  Variable F : Type.
  Variable fshow : F -> str.
  Variable in01 : F -> bool.
  Variable ia : N -> bool.
  Variable E : efmt.
  Variable L : lfmt.
  Local Notation C := (compile L).
  Hypothesis Hag : agree_ok ia E L = true.
  Hypothesis Hai : agree_items E L = true.
  Hypothesis Hsp : lex_space_ok L ia = true.
  Hypothesis Hitems : lex_items_ok L = true.
  (* f64 Display on the numbers of a well-formed value: a non-empty string of digits and dots *)
  Hypothesis H_cs : forall x, in01 x = true -> fshow x <> [] /\ Forall (fun c => is_float_char c = true) (fshow x).

  Lemma ai_parts :
    fst (l_truth_brackets L) = sentence_truth_brackets_0 E /\ snd (l_truth_brackets L) = sentence_truth_brackets_1 E /\
    l_truth_separator L = sentence_truth_separator E /\
    fst (l_budget_brackets L) = task_budget_brackets_0 E /\ snd (l_budget_brackets L) = task_budget_brackets_1 E /\
    l_budget_separator L = task_budget_separator E /\
    (forall p, In (fmt_punct E p) (c_punctuations C)) /\
    (forall st, In st [Eternal; Past; Present; Future] -> LexSpec.stamp_ok L (fmt_stamp E st) = true) /\
    In (sentence_stamp_brackets_0 E ++ sentence_stamp_fixed E, sentence_stamp_brackets_1 E) (c_stamp_brackets C) /\
    LexParser.nonempty (sentence_stamp_brackets_0 E ++ sentence_stamp_fixed E) = true /\
    (forall c, is_int_char c = true -> in_class (l_is_stamp_content L) c = true) /\
    allws L (space_format_terms E) = true /\ allws L (space_format_items E) = true /\
    (forall g c, In (g, AIUnit c) parse_atom_arms -> tail_clean L (g E) = true).
  Proof.
    pose proof Hai as H. unfold agree_items in H. rewrite !andb_true_iff, !str_eqb_eq in H.
    destruct H as [[[[[[[[[[[[[H1 H2] H3] H4] H5] H6] H7] H8] H9] H10] H11] H12] H13] H14].
    repeat (split; [assumption|]).
    split. { intros p. apply str_in_In. rewrite forallb_forall in H7. apply H7. destruct p; cbn; auto. }
    split. { intros st Hst. rewrite forallb_forall in H8. now apply H8. }
    split. { now apply pair_in_In. }
    split; [assumption|].
    split.
    { intros c Hc. rewrite forallb_forall in H11. apply H11. unfold is_int_char in Hc. rewrite !orb_true_iff, !N.eqb_eq in Hc.
      unfold int_chars. destruct Hc as [[Hc| ->]| ->]; [|cbn; auto 15|cbn; auto 15].
      apply digit_in_list in Hc. cbn [In] in *. intuition. }
    repeat (split; [assumption|]).
    intros g c Hin. rewrite forallb_forall in H14. exact (H14 _ Hin).
  Qed.

  (* ---- numbers ---- *)
  Lemma number_ok_shown x : in01 x = true -> number_ok (fshow x) = true.
  Proof.
    intros Hx. destruct (H_cs x Hx) as [Hne Hc]. unfold number_ok. apply andb_true_iff. split.
    - destruct (fshow x); [congruence | reflexivity].
    - apply forallb_forall. rewrite Forall_forall in Hc. intros c Hin. specialize (Hc c Hin).
      unfold is_float_char in Hc. now rewrite orb_comm.
  Qed.

  Lemma numbers_shown l : forallb in01 l = true -> forallb number_ok (map fshow l) = true.
  Proof.
    induction l as [|x l IH]; cbn [forallb map]; [reflexivity|]. rewrite andb_true_iff. intros [Hx Hl].
    now rewrite (number_ok_shown x Hx), (IH Hl).
  Qed.

  (* ---- stamps: every text fmt_stamp prints is a stamp form of L ---- *)
  Lemma stamp_form_intro l z r :
    forallb (in_class (l_is_stamp_content L)) z = true -> LexParser.nonempty l = true ->
    stamp_form L (l ++ z ++ r) (l, r) = true.
  Proof.
    intros Hz Hl. unfold stamp_form. cbn [fst snd]. rewrite starts_app. rewrite (app_assoc l z r), ends_app_r.
    rewrite <- app_assoc. cbn [andb].
    replace (length l + length r <=? length (l ++ z ++ r))%nat with true
      by (symmetry; apply Nat.leb_le; rewrite !app_length; lia).
    cbn [andb]. rewrite drop_app_length.
    replace (length (l ++ z ++ r) - length l - length r)%nat with (length z) by (rewrite !app_length; lia).
    rewrite take_app_length, Hz, Hl. reflexivity.
  Qed.

  Lemma stamp_ok_fmt st : LexSpec.stamp_ok L (fmt_stamp E st) = true.
  Proof.
    destruct ai_parts as (_ & _ & _ & _ & _ & _ & _ & Hen & Hfix & Hne & Hint & _).
    destruct st as [| | | |z]; try (apply Hen; cbn; tauto).
    cbn [fmt_stamp]. unfold LexSpec.stamp_ok. apply orb_true_iff. right. apply existsb_exists.
    exists (sentence_stamp_brackets_0 E ++ sentence_stamp_fixed E, sentence_stamp_brackets_1 E). split; [exact Hfix|].
    rewrite (app_assoc (sentence_stamp_brackets_0 E)). apply stamp_form_intro; [|exact Hne].
    pose proof (show_Z_int z) as Hz. apply andb_true_iff in Hz as [_ Hz].
    apply forallb_forall. rewrite forallb_forall in Hz. intros c Hc. apply Hint. now apply Hz.
  Qed.

  (* ---- the items the enum formatter prints are the lexical formatter's ---- *)
  Lemma fmt_truth_lex o :
    fmt_truth F fshow E (match o with Some t => t | None => TruthEmpty end) =
    lex_fmt_truth L (match o with Some tr => map fshow (truth_list tr) | None => [] end).
  Proof.
    destruct ai_parts as (H1 & H2 & H3 & _).
    destruct o as [[|f|f c]|]; cbn [fmt_truth truth_list map lex_fmt_truth]; try reflexivity;
      unfold fmt_floats; rewrite H1, H2, H3, join_with_ljoin; reflexivity.
  Qed.

  Lemma fmt_budget_lex b : fmt_budget F fshow E b = lex_fmt_budget L (map fshow (budget_list b)).
  Proof.
    destruct ai_parts as (_ & _ & _ & H4 & H5 & H6 & _).
    unfold fmt_budget, fmt_floats, lex_fmt_budget. now rewrite H4, H5, H6, join_with_ljoin.
  Qed.

  (* ---- the domain ---- *)
  Lemma lsentence_ok_of t s :
    lterm_ok ia L t = true -> sent_vals_ok F in01 s = true ->
    lsentence_ok2 ia L (lex_sentence_of F fshow E t s) = true.
  Proof.
    intros Ht Hs. destruct ai_parts as (_ & _ & _ & _ & _ & _ & Hp & _).
    unfold sent_vals_ok in Hs. apply andb_true_iff in Hs as [_ Htr].
    unfold lsentence_ok2, lex_sentence_of. cbn [ls_term ls_punct ls_stamp ls_truth].
    rewrite Ht, (In_str_in _ _ (Hp (s_punct s))), stamp_ok_fmt. cbn [andb].
    destruct (s_truth s) as [tr|]; [now apply numbers_shown | reflexivity].
  Qed.

  Lemma lvalue_ok_of t v :
    lterm_ok ia L t = true -> bare_prefix_ok L t = true -> vals_ok F in01 v = true ->
    lvalue_ok ia L (lex_value_of F fshow E t v) = true.
  Proof.
    intros Ht Hb Hv. destruct v as [x|s|[s b]]; cbn [lex_value_of lvalue_ok vals_ok lt_sentence lt_budget fst snd] in *.
    - now rewrite Ht, Hb.
    - now apply lsentence_ok_of.
    - apply andb_true_iff in Hv as [Hs Hbud]. now rewrite (lsentence_ok_of t s Ht Hs), (numbers_shown _ Hbud).
  Qed.

  Lemma unamb_top_of t v : unamb_top L (lex_value_of F fshow E t v) = LexSpec.unamb L t [].
  Proof. destruct v as [x|s|[s b]]; reflexivity. Qed.

  (* a prefix-only atom that has a meaning is a unit arm (the placeholder): nothing is cut from its end *)
  Lemma bare_prefix_tree st x : odesugar st = Some x -> bare_prefix_ok L (lex_tree E st) = true.
  Proof.
    destruct ai_parts as (_ & _ & _ & _ & _ & _ & _ & _ & _ & _ & _ & _ & _ & Hunit).
    destruct st as [arm name| | |]; cbn [lex_tree bare_prefix_ok]; try reflexivity.
    destruct name as [|c n]; [|reflexivity]. rewrite odesugar_atom. unfold atom_prefix.
    destruct (nth_error parse_atom_arms arm) as [[g init]|] eqn:Harm; [|discriminate].
    destruct init as [c|c|c]; cbn [atom_value]; try discriminate. intros _.
    exact (Hunit g c (nth_error_In _ _ Harm)).
  Qed.

  (* ---- whitespace: what the lexical parser's filter leaves of the enum formatter's text ---- *)
  Local Notation strip := (LexSpec.strip L).

  Lemma strip_jl sp y : allws L sp = true -> nows L y = true ->
    strip (match y with [] => [] | _ => sp ++ y end) = y.
  Proof.
    intros Hs Hy. destruct y as [|c y]; [reflexivity|].
    now rewrite (LexPStrip.strip_app L), (strip_allws L sp Hs), (LexPStrip.strip_nows L _ Hy).
  Qed.

  Lemma strip_sentence_text tt t s :
    strip tt = f0 L t -> sent_vals_ok F in01 s = true ->
    strip (sentence_text F fshow E tt s) = f0 L t ++ rest_text L (lex_sentence_of F fshow E t s).
  Proof.
    intros Htt Hs. destruct ai_parts as (_ & _ & _ & _ & _ & _ & Hp & _ & _ & _ & _ & Hft & _).
    destruct (space_all L ia Hsp) as (_ & _ & _ & _ & _ & _ & Hpun & _). rewrite forallb_forall in Hpun.
    unfold sent_vals_ok in Hs. apply andb_true_iff in Hs as [_ Htr].
    unfold sentence_text, join_lest, rest_text, lex_sentence_of. cbn [map concat ls_term ls_punct ls_stamp ls_truth].
    rewrite fmt_truth_lex. rewrite !(LexPStrip.strip_app L), Htt, app_nil_r. f_equal.
    rewrite (LexPStrip.strip_nows L (fmt_punct E (s_punct s))) by (apply Hpun, Hp). f_equal.
    rewrite (strip_jl _ _ Hft) by (apply (stamp_nows_ok L ia Hsp), stamp_ok_fmt). f_equal.
    apply (strip_jl _ _ Hft). apply (truth_nows L ia Hsp).
    destruct (s_truth s) as [tr|]; [now apply numbers_shown | reflexivity].
  Qed.

  Lemma sentence_text_nonempty tt s : sentence_text F fshow E tt s <> [].
  Proof.
    destruct ai_parts as (_ & _ & _ & _ & _ & _ & Hp & _).
    unfold sentence_text, join_lest. cbn [map concat]. intros H.
    apply app_eq_nil in H as [_ H]. apply app_eq_nil in H as [H _].
    exact (punct_nonempty L Hitems _ (Hp (s_punct s)) H).
  Qed.

  Theorem strip_value_text tt t v :
    strip tt = f0 L t -> vals_ok F in01 v = true ->
    strip (value_text F fshow E tt v) = text0 L (lex_value_of F fshow E t v).
  Proof.
    intros Htt Hv. destruct ai_parts as (_ & _ & _ & _ & _ & _ & _ & _ & _ & _ & _ & _ & Hfi & _).
    destruct v as [x|s|[s b]]; cbn [value_text lex_value_of vals_ok fst snd] in *.
    - exact Htt.
    - rewrite (text0_sentence L). now apply strip_sentence_text.
    - apply andb_true_iff in Hv as [Hs Hb]. rewrite (text0_task L). cbn [lt_budget lt_sentence].
      destruct (sentence_text F fshow E tt s) as [|c r] eqn:Est; [exfalso; exact (sentence_text_nonempty tt s Est)|].
      rewrite <- Est. rewrite !(LexPStrip.strip_app L), (strip_allws L _ Hfi), fmt_budget_lex. cbn [app].
      rewrite (LexPStrip.strip_nows L (lex_fmt_budget L _)) by (apply (budget_nows L ia Hsp); now apply numbers_shown).
      f_equal. now apply strip_sentence_text.
  Qed.
End EnumValue.

(* ================================================================================== *)
(* 4. the three lexical-tree maps coincide; fold; the agreement theorems                *)
(* ================================================================================== *)
(* [lex_tree E (sst E t)] (Model/SstLex.v, via the canonical surface tree), [FoldP2.lex_of_term E t]
   (Proofs/FoldP2.v, the fold third of C03) and [Readme.lex_of_term E t] (Model/Readme.v, C11) are the same
   lexical term *)
Lemma lex_of_term_same E : forall t, Readme.lex_of_term E t = FoldP2.lex_of_term E t.
Proof.
  induction t as [c n|c|c i|c l IH|c l IH|c i l IH|c a IH|c a b IHa IHb] using term_ind';
    cbn [Readme.lex_of_term FoldP2.lex_of_term].
  - reflexivity.
  - reflexivity.
  - reflexivity.
  - rewrite (map_Forall_eq (Readme.lex_of_term E) (FoldP2.lex_of_term E) l IH). reflexivity.
  - rewrite (map_Forall_eq (Readme.lex_of_term E) (FoldP2.lex_of_term E) l IH). reflexivity.
  - rewrite (map_Forall_eq (Readme.lex_of_term E) (FoldP2.lex_of_term E) l IH). reflexivity.
  - rewrite IH. reflexivity.
  - rewrite IHa, IHb. reflexivity.
Qed.

Section TreeOfTerm.
  Variable E : efmt.

  Lemma sst_atom_lex a init name s : sst_atom E a init name = Some s -> lex_tree E s = FoldP2.lex_atom E a name.
  Proof.
    destruct a; cbn [sst_atom]; try discriminate. intros H.
    destruct (atom_arm_ix E prefix init) as [i|] eqn:Hi; [|discriminate]. injection H as <-.
    apply atom_arm_ix_spec in Hi as (p & Hn & Hp). cbn [lex_tree FoldP2.lex_atom]. unfold atom_prefix. now rewrite Hn, Hp.
  Qed.

  Lemma sst_comp_lex kw init items s : sst_comp E kw init items = Some s ->
    lex_tree E s = LCompound (kw E) (map (lex_tree E) items).
  Proof.
    unfold sst_comp. destruct items as [|x items]; [discriminate|]. intros H.
    destruct (comp_arm_ix E kw init) as [i|] eqn:Hi; [|discriminate]. injection H as <-.
    apply comp_arm_ix_spec in Hi as (p & Hn & Hp). cbn [lex_tree]. unfold comp_kw. now rewrite Hn, Hp.
  Qed.

  Lemma sst_set_lex a c items s : sst_set E a c items = Some s ->
    lex_tree E s = FoldP2.lex_list E a (map (lex_tree E) items).
  Proof.
    destruct a; cbn [sst_set FoldP2.lex_list]; try discriminate.
    - destruct (set_ctor_eqb c SetExtension && str_eqb (l E) (set_lb E true) && str_eqb (r E) (set_rb E true)) eqn:H1.
      + intros H; injection H as <-. apply andb_true_iff in H1 as [H1 Hr]. apply andb_true_iff in H1 as [_ Hl].
        apply str_eqb_eq in Hl, Hr. cbn [lex_tree]. now rewrite Hl, Hr.
      + destruct (set_ctor_eqb c SetIntension && str_eqb (l E) (set_lb E false) && str_eqb (r E) (set_rb E false)) eqn:H2; [|discriminate].
        intros H; injection H as <-. apply andb_true_iff in H2 as [H2 Hr]. apply andb_true_iff in H2 as [_ Hl].
        apply str_eqb_eq in Hl, Hr. cbn [lex_tree]. now rewrite Hl, Hr.
    - apply sst_comp_lex.
  Qed.

  Lemma omap_map_lex l : forall items,
    Forall (fun t => forall s, sst_of E t = Some s -> lex_tree E s = FoldP2.lex_of_term E t) l ->
    omap (sst_of E) l = Some items -> map (lex_tree E) items = map (FoldP2.lex_of_term E) l.
  Proof.
    induction l as [|t l IH]; intros items HF H.
    - cbn [omap] in H. injection H as <-. reflexivity.
    - rewrite omap_cons in H. destruct (sst_of E t) as [s|] eqn:Hs; [|discriminate].
      destruct (omap (sst_of E) l) as [ss|] eqn:Hl; [|discriminate]. injection H as <-.
      inversion HF; subst. cbn [map]. f_equal; auto.
  Qed.

  Theorem lex_tree_sst : forall t s, sst_of E t = Some s -> lex_tree E s = FoldP2.lex_of_term E t.
  Proof.
    induction t as [c n|c|c i|c l IH|c l IH|c i l IH|c a IH|c a b IHa IHb] using term_ind'; intros s H;
      cbn [sst_of FoldP2.lex_of_term] in *.
    - now apply sst_atom_lex in H.
    - now apply sst_atom_lex in H.
    - now apply sst_atom_lex in H.
    - destruct (omap (sst_of E) l) as [items|] eqn:Hl; [|discriminate].
      rewrite <- (omap_map_lex l items IH Hl). now apply sst_set_lex in H.
    - destruct (omap (sst_of E) l) as [items|] eqn:Hl; [|discriminate].
      rewrite <- (omap_map_lex l items IH Hl). unfold sst_vec in H.
      destruct (fmt_arm_vec c); try discriminate. cbn [FoldP2.lex_list]. now apply sst_comp_lex in H.
    - destruct (omap (sst_of E) l) as [items|] eqn:Hl; [|discriminate].
      rewrite <- (omap_map_lex l items IH Hl). unfold sst_img in H.
      destruct (fmt_arm_img c); try discriminate.
      destruct (sst_placeholder E) as [ph|] eqn:Hph; [|discriminate].
      cbn [FoldP2.lex_img FoldP2.lex_list]. apply sst_comp_lex in H. rewrite EnumFmtP.map_img_iter in H.
      unfold sst_placeholder in Hph. apply sst_atom_lex in Hph. unfold FoldP2.lex_placeholder. now rewrite <- Hph.
    - destruct (sst_of E a) as [x|] eqn:Ha; [|discriminate]. rewrite <- (IH x eq_refl).
      unfold sst_box1 in H. destruct (fmt_arm_box1 c); try discriminate. cbn [FoldP2.lex_list].
      now apply sst_comp_lex in H.
    - destruct (sst_of E a) as [x|] eqn:Ha; [|discriminate]. destruct (sst_of E b) as [y|] eqn:Hb; [|discriminate].
      rewrite <- (IHa x eq_refl), <- (IHb y eq_refl). unfold sst_box2 in H.
      destruct (fmt_arm_box2 c); try discriminate.
      + cbn [FoldP2.lex_box2 FoldP2.lex_list]. now apply sst_comp_lex in H.
      + destruct (stmt_arm_ix E kw c) as [i|] eqn:Hi; [|discriminate]. injection H as <-.
        apply stmt_arm_ix_spec in Hi as (p & Hn & Hp). cbn [FoldP2.lex_box2 lex_tree]. unfold stmt_kw.
        now rewrite Hn, Hp.
  Qed.
End TreeOfTerm.

Section ValueOfSame.
  Variable F : Type.
  Variable fshow : F -> str.
  Variable E : efmt.

  Lemma lex_of_narsese_value_of v :
    FoldP3.lex_of_narsese F fshow E v = lex_value_of F fshow E (FoldP2.lex_of_term E (nv_term v)) v.
  Proof. destruct v as [t|s|[s b]]; reflexivity. Qed.

  Lemma readme_lex_of_narsese_value_of v :
    Readme.lex_of_narsese F fshow E v = lex_value_of F fshow E (Readme.lex_of_term E (nv_term v)) v.
  Proof. destruct v as [t|s|[s b]]; reflexivity. Qed.

  Lemma lex_of_narsese_same v : Readme.lex_of_narsese F fshow E v = FoldP3.lex_of_narsese F fshow E v.
  Proof. now rewrite readme_lex_of_narsese_value_of, lex_of_narsese_value_of, lex_of_term_same. Qed.

  Lemma value_text_fmt v : fmt_narsese F fshow E v = value_text F fshow E (fmt_term E (nv_term v)) v.
  Proof. destruct v as [t|s|[s b]]; reflexivity. Qed.
End ValueOfSame.

(* ---- the fold third for a value whose term is read as ANY lexical term that folds to it ---- *)
Section FoldValue.
  Variable F : Type.
  Variable fshow : F -> str.
  Variable fread : str -> option F.
  Variable in01 : F -> bool.
  Variable E : efmt.
  Hypothesis Hdoor : door_fmt_ok E = true.
  Hypothesis H_rt : forall x, in01 x = true -> fread (fshow x) = Some x.

  Lemma stamp_ok_in_range st : SstSent.stamp_ok st = stamp_in_range st.
  Proof. destruct st; reflexivity. Qed.

  Lemma fold_sentence_of t s :
    fold_term E t = FOk (s_term s) -> sent_vals_ok F in01 s = true ->
    fold_sentence F fread in01 E (lex_sentence_of F fshow E t s) = FOk s.
  Proof.
    intros Ht Hs. unfold sent_vals_ok in Hs. apply andb_true_iff in Hs as [Hst Htr]. rewrite stamp_ok_in_range in Hst.
    pose proof (static_clamped fold_static_ok_true) as Hc.
    unfold fold_sentence, lex_sentence_of. cbn [ls_term ls_truth ls_stamp ls_punct]. rewrite Ht. cbn [fbind].
    assert (Htruth : fold_truth F fread in01 (match s_truth s with Some tr => map fshow (truth_list tr) | None => [] end)
                     = FOk (match s_truth s with Some tr => tr | None => TruthEmpty end)).
    { destruct (s_truth s) as [tr|]; [now apply (fold_truth_shown F fshow fread in01 H_rt) | reflexivity]. }
    rewrite Htruth. cbn [fbind].
    destruct (door_stamp_fmt F E Hc (s_stamp s) Hdoor Hst) as [s1 ->]. cbn [of_door fbind].
    destruct (door_punctuation_fmt F E Hc (s_punct s) Hdoor) as [s2 ->]. cbn [of_door fbind].
    now rewrite from_punctuation_id.
  Qed.

  Theorem fold_value_of t v :
    fold_term E t = FOk (nv_term v) -> vals_ok F in01 v = true ->
    fold_narsese F fread in01 E (lex_value_of F fshow E t v) = FOk v.
  Proof.
    intros Ht Hv. destruct v as [x|s|[s b]]; cbn [lex_value_of fold_narsese nv_term vals_ok fst snd] in *.
    - now rewrite Ht.
    - now rewrite (fold_sentence_of t s Ht Hv).
    - apply andb_true_iff in Hv as [Hs Hb]. unfold fold_task. cbn [lt_budget lt_sentence].
      now rewrite (fold_budget_shown F fshow fread in01 H_rt b Hb), (fold_sentence_of t s Ht Hs).
  Qed.
End FoldValue.

(* ---- all table conditions of the value-level theorem ---- *)
Definition agree_value_all (ia : N -> bool) (E : efmt) (L : lfmt) : bool :=
  agree_all ia E L && lex_c02_ok L ia && lex_clean_atoms_ok L ia && budget_left_nonident ia L &&
  agree_items E L && lefts_nonempty (compile L) && door_fmt_ok E.

Section AgreeValue.
  Variable F : Type.
  Variable fshow : F -> str.          (* f64::to_string *)
  Variable fread : str -> option F.   (* str::parse::<f64>() *)
  Variable in01 : F -> bool.
  Variable ia : N -> bool.
  Variable E : efmt.
  Variable L : lfmt.
  Local Notation C := (compile L).
  Hypothesis Hall : agree_value_all ia E L = true.
  (* Rust's shortest-round-trip Display / FromStr on the numbers of [0,1] *)
  Hypothesis H_rt : forall x, in01 x = true -> fread (fshow x) = Some x.
  Hypothesis H_cs : forall x, in01 x = true -> fshow x <> [] /\ Forall (fun c => is_float_char c = true) (fshow x).

  Lemma av_parts :
    agree_all ia E L = true /\ agree_ok ia E L = true /\ lex_term_ok L ia = true /\ FoldP2.fold_kw_distinct E = true /\
    lex_items_ok L = true /\ lex_space_ok L ia = true /\ lex_clean_ok L ia = true /\ lex_clean_atoms_ok L ia = true /\
    budget_left_nonident ia L = true /\ agree_items E L = true /\ lefts_nonempty C = true /\ door_fmt_ok E = true.
  Proof.
    pose proof Hall as H. unfold agree_value_all in H. rewrite !andb_true_iff in H.
    destruct H as [[[[[[Ha Hc] Hat] Hb] Hi] Hl] Hd].
    destruct (all_parts ia E L Ha) as (Hag & _ & Hlt & Hfd).
    unfold lex_c02_ok, lex_rt_ok in Hc. rewrite !andb_true_iff in Hc. destruct Hc as [[[_ Hit] Hsp] Hcl].
    repeat split; assumption.
  Qed.

  (* (lexical) -- for EVERY text whose whitespace-free form is that of the enum formatter's text with the
     term written as st.  The name conditions are the enum-side unamb of st written without spaces. *)
  Theorem lex_parse_value_tree st v s :
    odesugar st = Some (nv_term v) -> SstOk.unamb ia E (respace 0 st) [] = true -> vals_ok F in01 v = true ->
    idealize_env C s = idealize_env C (value_text F fshow E (render E st) v) ->
    lex_parse ia L s = LOk (lex_value_of F fshow E (lex_tree E st) v).
  Proof.
    intros Hd Hu Hv Hs.
    destruct av_parts as (Ha & Hag & Hlt & Hfd & Hit & Hsp & Hcl & Hat & Hb & Hi & Hl & Hdo).
    pose proof (odesugar_shape_ok _ _ Hd) as Hshape.
    assert (Hn : names_ok ia E st = true).
    { rewrite <- (names_ok_respace ia E 0). exact (unamb_names ia E _ _ _ Hu). }
    assert (Htt : LexSpec.strip L (render E st) = f0 L (lex_tree E st)).
    { rewrite (strip_render ia E L Hag st Hn). exact (render_respace0 ia E L Hag st Hshape). }
    rewrite (lex_parse_idealize ia L Hl _ _ Hs). unfold lex_parse, lex_parse_fuel.
    rewrite (idealize_strip ia E L Hag).
    rewrite (strip_value_text F fshow in01 ia E L Hi Hsp Hit H_cs _ (lex_tree E st) v Htt Hv).
    apply (parse_env_text0_2 L ia Hlt Hit Hcl Hat Hb).
    - apply (lvalue_ok_of F fshow in01 ia E L Hi H_cs); auto.
      + exact (lex_tree_ok ia E L Hag (all_total ia E L Ha) st _ Hd Hn).
      + exact (bare_prefix_tree E L Hi st _ Hd).
    - rewrite unamb_top_of. exact (lex_unamb_of_enum ia E L Hag st [] [] Hshape Hu).
    - rewrite <- (strip_value_text F fshow in01 ia E L Hi Hsp Hit H_cs _ (lex_tree E st) v Htt Hv).
      unfold lex_fuel. pose proof (strip_length L (value_text F fshow E (render E st) v)). lia.
  Qed.

  (* (fold) *)
  Theorem fold_value_tree st v :
    odesugar st = Some (nv_term v) -> vals_ok F in01 v = true ->
    fold_narsese F fread in01 E (lex_value_of F fshow E (lex_tree E st) v) = FOk v.
  Proof.
    intros Hd Hv. destruct av_parts as (_ & _ & _ & Hfd & _ & _ & _ & _ & _ & _ & _ & Hdo).
    apply (fold_value_of F fshow fread in01 E Hdo H_rt); [|exact Hv]. now apply fold_lex_tree.
  Qed.

  (* (lexical + fold) *)
  Theorem lex_then_fold_value_tree st v s :
    odesugar st = Some (nv_term v) -> SstOk.unamb ia E (respace 0 st) [] = true -> vals_ok F in01 v = true ->
    idealize_env C s = idealize_env C (value_text F fshow E (render E st) v) ->
    lex_then_fold_narsese F fread in01 ia L E s = FOk v.
  Proof.
    intros Hd Hu Hv Hs. unfold lex_then_fold_narsese. rewrite (lex_parse_value_tree st v s Hd Hu Hv Hs).
    cbn [lres_fold_narsese]. now apply fold_value_tree.
  Qed.

  (* ---- self-delimiting formats (ASCII, LaTeX): the name conditions follow from the atoms' well-formedness ---- *)
  Hypothesis Hfo : unamb_fmt_ok ia E = true.

  Theorem lex_parse_value_selfdelim st v s :
    odesugar st = Some (nv_term v) -> satoms_ok ia E st = true -> vals_ok F in01 v = true ->
    idealize_env C s = idealize_env C (value_text F fshow E (render E st) v) ->
    lex_parse ia L s = LOk (lex_value_of F fshow E (lex_tree E st) v) /\
    lex_then_fold_narsese F fread in01 ia L E s = FOk v.
  Proof.
    intros Hd Hs Hv He. destruct av_parts as (Ha & _).
    pose proof (sd_unamb ia E L Ha Hfo st Hs 0) as Hu.
    split; [now apply lex_parse_value_tree | now apply (lex_then_fold_value_tree st v s)].
  Qed.

  (* ---- the enum formatter's own output ---- *)
  Hypothesis Hfs : fmt_space_ok E = true.
  Hypothesis Hcov : arms_cover E = true.

  Lemma lex_value_of_sst v : wf_value ia E v = true ->
    lex_value_of F fshow E (lex_tree E (sst E (nv_term v))) v = Readme.lex_of_narsese F fshow E v.
  Proof.
    intros Hw. assert (Hwt : wf_term ia E (nv_term v) = true) by (destruct v as [t|s|[s b]]; exact Hw).
    destruct (sst_spec ia E Hfs Hcov _ Hwt) as (Hs & _ & _).
    now rewrite (lex_tree_sst E _ _ Hs), lex_of_narsese_same, lex_of_narsese_value_of.
  Qed.

  (* point 2 of the plan: the lexical value of EVERY well-formed enum value is in the domain lvalue_ok of the
     lexical value layer and satisfies its unambiguity conditions (it is in vocab_ok only when no name contains
     a keyword character and no image / placeholder occurs) *)
  Theorem enum_value_in_domain v : wf_value ia E v = true -> vals_ok F in01 v = true ->
    lvalue_ok ia L (Readme.lex_of_narsese F fshow E v) = true /\ unamb_top L (Readme.lex_of_narsese F fshow E v).
  Proof.
    intros Hw Hv. assert (Hwt : wf_term ia E (nv_term v) = true) by (destruct v as [t|x|[x b]]; exact Hw).
    destruct av_parts as (Ha & Hag & _ & _ & Hit & _ & _ & _ & _ & Hi & _).
    destruct (sst_spec ia E Hfs Hcov _ Hwt) as (_ & Hd & _).
    pose proof (sd_unamb ia E L Ha Hfo _ (sst_satoms_ok ia E _ Hcov Hwt) 0) as Hu.
    pose proof (odesugar_shape_ok _ _ Hd) as Hshape.
    assert (Hn : names_ok ia E (sst E (nv_term v)) = true).
    { rewrite <- (names_ok_respace ia E 0). exact (unamb_names ia E _ _ _ Hu). }
    rewrite <- (lex_value_of_sst v Hw). split.
    - apply (lvalue_ok_of F fshow in01 ia E L Hi H_cs); auto.
      + exact (lex_tree_ok ia E L Hag (all_total ia E L Ha) _ _ Hd Hn).
      + exact (bare_prefix_tree E L Hi _ _ Hd).
    - rewrite unamb_top_of. exact (lex_unamb_of_enum ia E L Hag _ [] [] Hshape Hu).
  Qed.

  (* the formatter route to the same result: the enum formatter prints lex_fmt L (lex_of_narsese v) (part 1), and
     the lexical format-then-parse round trip holds on the extended domain (part 2) *)
  Theorem lex_parse_fmt_via_lex_fmt v : same_layout E L = true ->
    wf_value ia E v = true -> vals_ok F in01 v = true ->
    fmt_narsese F fshow E v = lex_fmt L (Readme.lex_of_narsese F fshow E v) /\
    lex_parse ia L (lex_fmt L (Readme.lex_of_narsese F fshow E v)) = LOk (Readme.lex_of_narsese F fshow E v).
  Proof.
    intros Hsl Hw Hv. destruct av_parts as (_ & _ & Hlt & _ & Hit & Hsp & Hcl & Hat & Hb & _).
    destruct (enum_value_in_domain v Hw Hv) as [Hd Hu].
    split; [now apply fmt_narsese_is_lex_fmt|]. now apply (lex_roundtrip2 L ia Hlt Hit Hsp Hcl Hat Hb).
  Qed.

  (* C03, lexical pipeline, whole values: the lexical parser reads the enum formatter's text of a well-formed
     value v -- and every text with the same whitespace-free form -- as lex_of_narsese v; folding returns v *)
  Theorem lex_pipeline_fmt v s :
    wf_value ia E v = true -> vals_ok F in01 v = true ->
    idealize_env C s = idealize_env C (fmt_narsese F fshow E v) ->
    lex_parse ia L s = LOk (Readme.lex_of_narsese F fshow E v) /\
    fold_narsese F fread in01 E (Readme.lex_of_narsese F fshow E v) = FOk v /\
    lex_then_fold_narsese F fread in01 ia L E s = FOk v.
  Proof.
    intros Hw Hv He. assert (Hwt : wf_term ia E (nv_term v) = true) by (destruct v as [t|x|[x b]]; exact Hw).
    destruct (sst_spec ia E Hfs Hcov _ Hwt) as (_ & Hd & Hr).
    pose proof (sst_satoms_ok ia E _ Hcov Hwt) as Hsa.
    rewrite value_text_fmt, Hr in He.
    destruct (lex_parse_value_selfdelim (sst E (nv_term v)) v s Hd Hsa Hv He) as [H1 H2].
    rewrite (lex_value_of_sst v Hw) in H1. repeat split; [exact H1| |exact H2].
    rewrite <- (lex_value_of_sst v Hw). now apply fold_value_tree.
  Qed.

  (* ---- both pipelines ---- *)
  Variable fzero : F.
  (* the enum side (C01 for whole values): assembled elsewhere (Proofs/EnumFinalP.v), taken here as a hypothesis *)
  Hypothesis Henum : forall v : narsese F, wf_value ia E v = true -> vals_ok F in01 v = true ->
    exists st, parse_narsese F fread fzero in01 ia E (fmt_narsese F fshow E v) = EnumParser.POk v st.

  Theorem agree_value_fmt v :
    wf_value ia E v = true -> vals_ok F in01 v = true ->
    (exists st, parse_narsese F fread fzero in01 ia E (fmt_narsese F fshow E v) = EnumParser.POk v st) /\
    lex_parse ia L (fmt_narsese F fshow E v) = LOk (Readme.lex_of_narsese F fshow E v) /\
    lex_then_fold_narsese F fread in01 ia L E (fmt_narsese F fshow E v) = FOk v.
  Proof.
    intros Hw Hv. destruct (lex_pipeline_fmt v (fmt_narsese F fshow E v) Hw Hv eq_refl) as (H1 & _ & H3).
    split; [now apply Henum | split; assumption].
  Qed.

  Corollary agree_value_fmt_eq v :
    wf_value ia E v = true -> vals_ok F in01 v = true ->
    of_door F (parse_narsese F fread fzero in01 ia E (fmt_narsese F fshow E v)) =
    lex_then_fold_narsese F fread in01 ia L E (fmt_narsese F fshow E v).
  Proof. intros Hw Hv. destruct (agree_value_fmt v Hw Hv) as ([st ->] & _ & ->). reflexivity. Qed.
End AgreeValue.

(* ================================================================================== *)
(* 5. the enum side on the same texts; the shipped tables; variants; examples           *)
(* ================================================================================== *)
(* value_text with the term written as st is the text of the canonical surface input of Model/SstSent.v
   (generalises Proofs/EnumSentP.v fmt_narsese_canon from "the tree the formatter prints" to any tree), so the
   sentence-level parser theorem C01b_parse_narsese_render speaks about exactly these texts *)
Section Canon.
  Variable F : Type.
  Variable fshow : F -> str.
  Variable E : efmt.
  Variables kt ki : nat.
  Hypothesis Hft : fmt_tables_ok E kt ki = true.

  Lemma sentence_text_canon bud st s :
    sentence_text F fshow E (render E st) s = from_term E (canon_sentence F fshow kt bud st s).
  Proof.
    destruct (ft_parts E kt ki Hft) as (_ & _ & _ & Hp & _). destruct (Hp (s_punct s)) as (Hkw & _ & _).
    unfold sentence_text, from_term, join_lest. cbn [map concat]. f_equal.
    unfold tail0, tail1, tail2, tail3. cbn [canon_sentence sn_term sn_punct sn_stamp sn_truth sn_trail ropt Sst.sp rep app].
    change (Sst.sp E 0) with (@nil N). cbn [app].
    rewrite Hkw. f_equal. fold (jl E (fmt_stamp E (s_stamp s))).
    fold (jl E (fmt_truth F fshow E (match s_truth s with Some t => t | None => TruthEmpty end))).
    now rewrite <- (jl_stamp E kt ki Hft), <- (jl_truth F fshow E kt ki Hft).
  Qed.

  Theorem value_text_canon st v :
    value_text F fshow E (render E st) v = render_narsese E (canon_narsese F fshow kt ki st v).
  Proof.
    destruct (ft_parts E kt ki Hft) as (_ & Hki & _ & Hp & _).
    destruct v as [t|s|[s b]]; cbn [value_text canon_narsese fst snd].
    - unfold render_narsese, from_term, tail0, tail1, tail2, tail3. cbn. now rewrite app_nil_r.
    - unfold render_narsese. cbn [canon_sentence sn_lead sn_budget Sst.sp rep app]. apply sentence_text_canon.
    - unfold render_narsese. cbn [canon_sentence sn_lead sn_budget Sst.sp rep app snd fst].
      rewrite (sentence_text_canon (Some (canon_nums F fshow (budget_list b), ki)) st s), fmt_budget_render, Hki.
      destruct (from_term E _) eqn:Hf; [|reflexivity].
      exfalso. unfold from_term, tail0 in Hf. cbn [canon_sentence sn_term sn_punct ropt Sst.sp rep app] in Hf.
      change (Sst.sp E 0) with (@nil N) in Hf. cbn [app] in Hf.
      apply app_eq_nil in Hf as [_ Hf]. apply app_eq_nil in Hf as [Hf _].
      destruct (Hp (s_punct s)) as (Hkw & Hne & _). congruence.
  Qed.
End Canon.

(* ---- both pipelines on the text of a value whose term is written as ANY surface tree with well-formed
   atoms (any spacing inside the term, derived copulas at any depth): under the sentence-level back-off
   condition sent_unamb of Model/SstSent.v on the concrete text (a decidable condition; for the formatter's
   own output it is what Henum's proof discharges) BOTH pipelines return v ---- *)
Section AgreeTree.
  Variable F : Type.
  Variable fshow : F -> str.
  Variable fread : str -> option F.
  Variable fzero : F.
  Variable in01 : F -> bool.
  Variable ia : N -> bool.
  Variable E : efmt.
  Variable L : lfmt.
  Variables kt ki : nat.
  Hypothesis Hall : agree_value_all ia E L = true.
  Hypothesis Hfo : unamb_fmt_ok ia E = true.
  Hypothesis Hsok : sent_ok E = true.
  Hypothesis Hft : fmt_tables_ok E kt ki = true.
  Hypothesis H_empty : fread [] = None.
  Hypothesis H_zero : in01 fzero = true.
  Hypothesis H_rt : forall x, in01 x = true -> fread (fshow x) = Some x.
  Hypothesis H_cs : forall x, in01 x = true -> fshow x <> [] /\ Forall (fun c => is_float_char c = true) (fshow x).

  Lemma at_parse_ok : parse_ok E = true.
  Proof.
    destruct (av_parts ia E L Hall) as (Ha & _). destruct (all_parts ia E L Ha) as (_ & Hp & _). exact Hp.
  Qed.

  Theorem enum_parse_value_tree st v :
    odesugar st = Some (nv_term v) -> vals_ok F in01 v = true ->
    sent_unamb F fread fzero in01 E (SstOk.unamb ia E) (canon_narsese F fshow kt ki st v) = true ->
    exists st', parse_narsese F fread fzero in01 ia E (value_text F fshow E (render E st) v) = EnumParser.POk v st'.
  Proof.
    intros Hd Hv Hu. rewrite (value_text_canon F fshow E kt ki Hft).
    apply (parse_narsese_render F fread fzero in01 ia E Hsok H_empty H_zero (SstOk.unamb ia E)); [| |exact Hu].
    - exact (p_term_render F ia E at_parse_ok).
    - now apply (odesugar_canon F fshow fread in01 E kt ki Hft H_rt H_cs).
  Qed.

  Theorem agree_value_tree st v :
    odesugar st = Some (nv_term v) -> satoms_ok ia E st = true -> vals_ok F in01 v = true ->
    sent_unamb F fread fzero in01 E (SstOk.unamb ia E) (canon_narsese F fshow kt ki st v) = true ->
    (exists st', parse_narsese F fread fzero in01 ia E (value_text F fshow E (render E st) v) = EnumParser.POk v st') /\
    lex_parse ia L (value_text F fshow E (render E st) v) = LOk (lex_value_of F fshow E (lex_tree E st) v) /\
    lex_then_fold_narsese F fread in01 ia L E (value_text F fshow E (render E st) v) = FOk v.
  Proof.
    intros Hd Hs Hv Hu. split; [now apply enum_parse_value_tree|].
    exact (lex_parse_value_selfdelim F fshow fread in01 ia E L Hall H_rt H_cs Hfo st v _ Hd Hs Hv eq_refl).
  Qed.

  Corollary agree_value_tree_eq st v :
    odesugar st = Some (nv_term v) -> satoms_ok ia E st = true -> vals_ok F in01 v = true ->
    sent_unamb F fread fzero in01 E (SstOk.unamb ia E) (canon_narsese F fshow kt ki st v) = true ->
    of_door F (parse_narsese F fread fzero in01 ia E (value_text F fshow E (render E st) v)) =
    lex_then_fold_narsese F fread in01 ia L E (value_text F fshow E (render E st) v).
  Proof. intros Hd Hs Hv Hu. destruct (agree_value_tree st v Hd Hs Hv Hu) as ([st' ->] & _ & ->). reflexivity. Qed.
End AgreeTree.

(* ---- the regenerated tables ---- *)
Lemma plain_agree_value_all :
  agree_value_all std_alnum FORMAT_ASCII LEX_ASCII = true /\ agree_value_all std_alnum FORMAT_LATEX LEX_LATEX = true.
Proof. vm_compute. split; reflexivity. Qed.

(* Han: the value-level conditions fail (the budget bracket 预 is a name character; bare atoms are not
   delimited: known classes K2, K5) *)
Lemma han_agree_value_all_fails :
  agree_value_all std_alnum FORMAT_HAN LEX_HAN = false /\ budget_left_nonident std_alnum LEX_HAN = false /\
  lex_clean_atoms_ok LEX_HAN std_alnum = false /\ agree_items FORMAT_HAN LEX_HAN = true.
Proof. vm_compute. repeat split; reflexivity. Qed.

Lemma plain_value_side E L : plain_pair E L ->
  agree_value_all std_alnum E L = true /\ unamb_fmt_ok std_alnum E = true /\ fmt_space_ok E = true /\
  arms_cover E = true /\ sent_ok E = true /\ fmt_tables_ok E 1 1 = true.
Proof.
  intros HP. destruct (plain_pair_side E L HP) as (_ & H2 & H3 & H4).
  destruct plain_agree_value_all as [Ha Hl]. destruct shipped_fmt_tables_ok as (Ta & Tl & _).
  destruct HP as [[-> ->]|[-> ->]]; repeat split; auto; apply sent_ok_shipped; unfold shipped, shipped_formats; cbn; auto.
Qed.

(* ---- ASCII and LaTeX, char::is_alphanumeric = std's table ---- *)
Section Plain.
  Variable F : Type.
  Variable fshow : F -> str.
  Variable fread : str -> option F.
  Variable fzero : F.
  Variable in01 : F -> bool.
  Variable E : efmt.
  Variable L : lfmt.
  Hypothesis HP : plain_pair E L.
  Hypothesis H_rt : forall x, in01 x = true -> fread (fshow x) = Some x.
  Hypothesis H_cs : forall x, in01 x = true -> fshow x <> [] /\ Forall (fun c => is_float_char c = true) (fshow x).

  (* C03 + C09, lexical pipeline, whole values: every text with the whitespace-free form of the enum
     formatter's text of a well-formed value *)
  Theorem lex_pipeline_plain v s :
    wf_value std_alnum E v = true -> vals_ok F in01 v = true ->
    idealize_env (compile L) s = idealize_env (compile L) (fmt_narsese F fshow E v) ->
    lex_parse std_alnum L s = LOk (Readme.lex_of_narsese F fshow E v) /\
    fold_narsese F fread in01 E (Readme.lex_of_narsese F fshow E v) = FOk v /\
    lex_then_fold_narsese F fread in01 std_alnum L E s = FOk v.
  Proof.
    destruct (plain_value_side E L HP) as (Ha & Hfo & Hfs & Hcov & _).
    exact (lex_pipeline_fmt F fshow fread in01 std_alnum E L Ha H_rt H_cs Hfo Hfs Hcov v s).
  Qed.

  Theorem enum_value_in_domain_plain v :
    wf_value std_alnum E v = true -> vals_ok F in01 v = true ->
    lvalue_ok std_alnum L (Readme.lex_of_narsese F fshow E v) = true /\ unamb_top L (Readme.lex_of_narsese F fshow E v).
  Proof.
    destruct (plain_value_side E L HP) as (Ha & Hfo & Hfs & Hcov & _).
    exact (enum_value_in_domain F fshow in01 std_alnum E L Ha H_cs Hfo Hfs Hcov v).
  Qed.

  (* the term inside re-spaced: n space keywords at every token boundary of the term *)
  Theorem lex_pipeline_respaced_plain n v :
    wf_value std_alnum E v = true -> vals_ok F in01 v = true ->
    let text := value_text F fshow E (render E (respace n (sst E (nv_term v)))) v in
    lex_parse std_alnum L text = LOk (Readme.lex_of_narsese F fshow E v) /\
    lex_then_fold_narsese F fread in01 std_alnum L E text = FOk v.
  Proof.
    intros Hw Hv text. destruct (plain_value_side E L HP) as (Ha & Hfo & Hfs & Hcov & _).
    assert (Hwt : wf_term std_alnum E (nv_term v) = true) by (destruct v as [t|x|[x b]]; exact Hw).
    destruct (sst_spec std_alnum E Hfs Hcov _ Hwt) as (Hs & Hd & _).
    pose proof (sst_satoms_ok std_alnum E _ Hcov Hwt) as Hsa.
    destruct (lex_parse_value_selfdelim F fshow fread in01 std_alnum E L Ha H_rt H_cs Hfo
                (respace n (sst E (nv_term v))) v text) as [H1 H2]; auto.
    - now rewrite odesugar_respace.
    - now rewrite satoms_ok_respace.
    - split; [|exact H2]. rewrite H1. f_equal.
      rewrite <- (lex_value_of_sst F fshow std_alnum E Hfs Hcov v Hw). f_equal.
      assert (Hlt : forall t, lex_tree E (respace n t) = lex_tree E t).
      { induction t as [arm name|ext a g items b IH|arm a g items b IH|arm a b c d x y IHx IHy] using sterm_ind';
          cbn [respace lex_tree]; try reflexivity.
        - f_equal. rewrite map_map. apply map_ext_in. rewrite Forall_forall in IH. exact IH.
        - f_equal. rewrite map_map. apply map_ext_in. rewrite Forall_forall in IH. exact IH.
        - now rewrite IHx, IHy. }
      apply Hlt.
  Qed.

  (* the same strings written with a derived copula: the term of the value written as any statement arm over
     the texts of two well-formed terms, any spacing around the copula; v is any value whose term is the
     documented meaning of that statement.  Lexical pipeline: *)
  Theorem lex_pipeline_sugar_plain (arm sp0 sp1 sp2 sp3 : nat) (a b : term) v :
    wf_term std_alnum E a = true -> wf_term std_alnum E b = true -> vals_ok F in01 v = true ->
    let st := SStmt arm sp0 sp1 sp2 sp3 (sst E a) (sst E b) in
    odesugar st = Some (nv_term v) ->
    lex_parse std_alnum L (value_text F fshow E (render E st) v) = LOk (lex_value_of F fshow E (lex_tree E st) v) /\
    lex_then_fold_narsese F fread in01 std_alnum L E (value_text F fshow E (render E st) v) = FOk v.
  Proof.
    intros Hwa Hwb Hv st Hd. destruct (plain_value_side E L HP) as (Ha & Hfo & Hfs & Hcov & _).
    apply (lex_parse_value_selfdelim F fshow fread in01 std_alnum E L Ha H_rt H_cs Hfo st v); auto.
    unfold st. cbn [satoms_ok].
    rewrite (sst_satoms_ok std_alnum E a Hcov Hwa), (sst_satoms_ok std_alnum E b Hcov Hwb), !andb_true_r.
    unfold st in Hd. rewrite odesugar_stmt in Hd. destruct (nth_error parse_statement_arms arm); [reflexivity | discriminate].
  Qed.

  (* ... and both pipelines, under the back-off condition of the sentence-level enum theorem on that text *)
  Hypothesis H_empty : fread [] = None.
  Hypothesis H_zero : in01 fzero = true.

  Theorem agree_value_tree_plain st v :
    odesugar st = Some (nv_term v) -> satoms_ok std_alnum E st = true -> vals_ok F in01 v = true ->
    sent_unamb F fread fzero in01 E (SstOk.unamb std_alnum E) (canon_narsese F fshow 1 1 st v) = true ->
    (exists st', parse_narsese F fread fzero in01 std_alnum E (value_text F fshow E (render E st) v) = EnumParser.POk v st') /\
    lex_parse std_alnum L (value_text F fshow E (render E st) v) = LOk (lex_value_of F fshow E (lex_tree E st) v) /\
    lex_then_fold_narsese F fread in01 std_alnum L E (value_text F fshow E (render E st) v) = FOk v.
  Proof.
    destruct (plain_value_side E L HP) as (Ha & Hfo & _ & _ & Hsok & Hft).
    exact (agree_value_tree F fshow fread fzero in01 std_alnum E L 1 1 Ha Hfo Hsok Hft H_empty H_zero H_rt H_cs st v).
  Qed.

  (* C03 for whole values: the enum formatter's own output, given the enum side (C01 for whole values) *)
  Hypothesis Henum : forall v : narsese F, wf_value std_alnum E v = true -> vals_ok F in01 v = true ->
    exists st, parse_narsese F fread fzero in01 std_alnum E (fmt_narsese F fshow E v) = EnumParser.POk v st.

  Theorem agree_value_plain v :
    wf_value std_alnum E v = true -> vals_ok F in01 v = true ->
    (exists st, parse_narsese F fread fzero in01 std_alnum E (fmt_narsese F fshow E v) = EnumParser.POk v st) /\
    lex_parse std_alnum L (fmt_narsese F fshow E v) = LOk (Readme.lex_of_narsese F fshow E v) /\
    lex_then_fold_narsese F fread in01 std_alnum L E (fmt_narsese F fshow E v) = FOk v.
  Proof.
    destruct (plain_value_side E L HP) as (Ha & Hfo & Hfs & Hcov & _).
    exact (agree_value_fmt F fshow fread in01 std_alnum E L Ha H_rt H_cs Hfo Hfs Hcov fzero Henum v).
  Qed.

  Corollary agree_value_plain_eq v :
    wf_value std_alnum E v = true -> vals_ok F in01 v = true ->
    of_door F (parse_narsese F fread fzero in01 std_alnum E (fmt_narsese F fshow E v)) =
    lex_then_fold_narsese F fread in01 std_alnum L E (fmt_narsese F fshow E v).
  Proof. intros Hw Hv. destruct (agree_value_plain v Hw Hv) as ([st ->] & _ & ->). reflexivity. Qed.
End Plain.

(* ---- non-vacuity ---- *)
(* toy oracles of Proofs/EnumSentP.v: a float is its own decimal text.
   `$0.5;0.25$ <rob --> (/, a_b, _, +7)>. :!-5: %1;0.9%`: a task whose term contains an image (placeholder
   atom with an empty name) and the name `a_b` (contains the keyword `_`): its lexical value is OUTSIDE
   vocab_ok (C02's domain) and inside lvalue_ok. *)
Definition ex_value_task : narsese str :=
  NTask (SJudgement (TBox2 Inheritance (TName Word [114; 111; 98]%N)
                           (TImg ImageExtension 1 [TName Word [97; 95; 98]%N; TNum Interval 7]))
                    (TruthDouble [49]%N [48; 46; 57]%N) (Fixed (-5)%Z),
         BudgetDouble [48; 46; 53]%N [48; 46; 50; 53]%N).
Definition ex_value_question : narsese str :=
  NSentence (SQuestion (TName VariableQuery [119; 104; 111]%N) Present).
Definition ex_value_term : narsese str := NTerm (TUnit Placeholder).

Definition pres_is (v : narsese str) (r : EnumParser.pres str (narsese str)) : bool :=
  match of_door str r with FOk v' => true | _ => false end.

Definition ex_value_check (p : efmt * lfmt) (v : narsese str) : bool :=
  let E := fst p in let L := snd p in
  wf_value std_alnum E v && vals_ok str toy_in01 v &&
  sent_unamb str toy_read toy_zero toy_in01 E (SstOk.unamb std_alnum E)
             (canon_narsese str toy_show 1 1 (sst E (nv_term v)) v) &&
  lvalue_ok std_alnum L (Readme.lex_of_narsese str toy_show E v).

Example ex_value_hyps :
  forallb (fun p => ex_value_check p ex_value_task && ex_value_check p ex_value_question && ex_value_check p ex_value_term)
          [(FORMAT_ASCII, LEX_ASCII); (FORMAT_LATEX, LEX_LATEX)] = true /\
  vocab_ok LEX_ASCII std_alnum (Readme.lex_of_narsese str toy_show FORMAT_ASCII ex_value_task) = false /\
  vocab_ok LEX_ASCII std_alnum (Readme.lex_of_narsese str toy_show FORMAT_ASCII ex_value_term) = false.
Proof. vm_compute. repeat split; reflexivity. Qed.

(* Han: the enum formatter and the lexical formatter lay a sentence out differently (the enum formatter writes
   `space.format_terms` = "" before the stamp / truth of a sentence, the lexical formatter `space.format_items`
   = " "): `预算 a。现在` vs `预算 a。 现在`; the two texts differ by whitespace only *)
Example ex_han_layout_differs :
  let v : narsese str := NTask (SJudgement (TName Word [97]%N) TruthEmpty Present, BudgetEmpty) in
  fmt_narsese str toy_show FORMAT_HAN v = [39044; 31639; 32; 97; 12290; 29616; 22312]%N /\
  lex_fmt LEX_HAN (Readme.lex_of_narsese str toy_show FORMAT_HAN v) = [39044; 31639; 32; 97; 12290; 32; 29616; 22312]%N /\
  idealize_env (compile LEX_HAN) (fmt_narsese str toy_show FORMAT_HAN v) =
  idealize_env (compile LEX_HAN) (lex_fmt LEX_HAN (Readme.lex_of_narsese str toy_show FORMAT_HAN v)).
Proof. vm_compute. repeat split; reflexivity. Qed.

(* re-computed: the text, the lexical value, and the common result of the two pipelines *)
Example ex_value_ascii_text :
  let v := ex_value_task in
  let text := fmt_narsese str toy_show FORMAT_ASCII v in
  text = [36; 48; 46; 53; 59; 48; 46; 50; 53; 36; 32; 60; 114; 111; 98; 32; 45; 45; 62; 32; 40; 47; 44; 32; 97; 95; 98; 44; 32;
          95; 44; 32; 43; 55; 41; 62; 46; 32; 58; 33; 45; 53; 58; 32; 37; 49; 59; 48; 46; 57; 37]%N /\
  lex_parse std_alnum LEX_ASCII text = LOk (Readme.lex_of_narsese str toy_show FORMAT_ASCII v) /\
  lex_then_fold_narsese str toy_read toy_in01 std_alnum LEX_ASCII FORMAT_ASCII text = FOk v /\
  of_door str (parse_narsese str toy_read toy_zero toy_in01 std_alnum FORMAT_ASCII text) = FOk v.
Proof. vm_compute. repeat split; reflexivity. Qed.

(* the same text with Unicode whitespace inserted and with the derived copula `{--` written in the term:
   `<rob {-- x>.` means <{rob} --> x>. *)
Example ex_value_sugar_ascii :
  let st := SStmt arm_instance 0 2 0 1 (SAtom arm_word [114; 111; 98]%N) (SAtom arm_word [120]%N) in
  let v : narsese str := NSentence (SJudgement (TBox2 Inheritance (TSet SetExtension [TName Word [114; 111; 98]%N]) (TName Word [120]%N))
                                               TruthEmpty Eternal) in
  let text := value_text str toy_show FORMAT_ASCII (render FORMAT_ASCII st) v in
  odesugar st = Some (nv_term v) /\ satoms_ok std_alnum FORMAT_ASCII st = true /\
  sent_unamb str toy_read toy_zero toy_in01 FORMAT_ASCII (SstOk.unamb std_alnum FORMAT_ASCII)
             (canon_narsese str toy_show 1 1 st v) = true /\
  text = [60; 114; 111; 98; 32; 32; 123; 45; 45; 120; 32; 62; 46]%N /\
  lex_then_fold_narsese str toy_read toy_in01 std_alnum LEX_ASCII FORMAT_ASCII text = FOk v /\
  lex_then_fold_narsese str toy_read toy_in01 std_alnum LEX_ASCII FORMAT_ASCII ([9; 160]%N ++ text ++ [12288]%N) = FOk v /\
  of_door str (parse_narsese str toy_read toy_zero toy_in01 std_alnum FORMAT_ASCII text) = FOk v.
Proof. vm_compute. repeat split; reflexivity. Qed.
