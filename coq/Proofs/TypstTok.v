(* Proofs/TypstTok.v -- C16 part E1: the token form of a rendering.
   [words] splits a string at whitespace; [unwords] joins tokens with single spaces.
   For a string whose only whitespace is U+0020, post_process_whitespace IS unwords . words
   ([pp_words]); unwords is injective on token lists ([unwords_inj]). *)
From Nv Require Export Proofs.TypstP.
From Coq Require Import Lia.

Arguments is_ws : simpl never.

Fixpoint words_acc (cur : str) (s : str) : list str :=
  match s with
  | [] => match cur with [] => [] | _ :: _ => [cur] end
  | c :: r =>
      if is_ws c then match cur with [] => words_acc [] r | _ :: _ => cur :: words_acc [] r end
      else words_acc (cur ++ [c]) r
  end.
Definition words (s : str) : list str := words_acc [] s.

Fixpoint unwords (ws : list str) : str :=
  match ws with
  | [] => []
  | w :: rest => match rest with [] => w | _ :: _ => w ++ 32 :: unwords rest end
  end.

Definition ws_free (t : str) : bool := forallb (fun c => negb (is_ws c)) t.
Definition is_token (t : str) : bool := match t with [] => false | _ :: _ => ws_free t end.
(* the only whitespace is the space character *)
Definition only_sp (s : str) : bool := forallb (fun c => negb (is_ws c) || (c =? 32)) s.

Lemma is_ws_32 : is_ws 32 = true.
Proof. reflexivity. Qed.

(* ---- words: concatenation at a whitespace boundary ---- *)
Lemma words_acc_flush cur : words_acc cur [] = match cur with [] => [] | _ :: _ => [cur] end.
Proof. reflexivity. Qed.

Lemma words_acc_trail a : forall cur c, is_ws c = true -> words_acc cur (a ++ [c]) = words_acc cur a.
Proof.
  induction a as [|x a IH]; intros cur c Hc; cbn [app words_acc].
  - rewrite Hc. destruct cur; reflexivity.
  - destruct (is_ws x); [destruct cur; now rewrite IH | now apply IH].
Qed.

Lemma words_acc_mid a : forall cur c b, is_ws c = true ->
  words_acc cur (a ++ c :: b) = words_acc cur a ++ words b.
Proof.
  induction a as [|x a IH]; intros cur c b Hc; cbn [app words_acc].
  - rewrite Hc. destruct cur; reflexivity.
  - destruct (is_ws x); [destruct cur; cbn [app]; now rewrite IH | now apply IH].
Qed.

Lemma words_mid a c b : is_ws c = true -> words (a ++ c :: b) = words a ++ words b.
Proof. apply words_acc_mid. Qed.

Lemma words_lead c s : is_ws c = true -> words (c :: s) = words s.
Proof. intros H. unfold words. cbn [words_acc]. now rewrite H. Qed.

Definition wsb_start (y : str) : bool := match y with [] => true | c :: _ => is_ws c end.
Definition wsb_end (x : str) : bool := wsb_start (rev x).

Lemma words_nil_r cur : forall s, words_acc cur (s ++ []) = words_acc cur s.
Proof. intros s. now rewrite app_nil_r. Qed.

Lemma words_app_r x y : wsb_start y = true -> words (x ++ y) = words x ++ words y.
Proof.
  destruct y as [|c y]; cbn [wsb_start]; intros H.
  - rewrite app_nil_r. change (words []) with (@nil str). now rewrite app_nil_r.
  - rewrite (words_mid x c y H). now rewrite (words_lead c y H).
Qed.

Lemma words_app_l x y : wsb_end x = true -> words (x ++ y) = words x ++ words y.
Proof.
  unfold wsb_end. intros H. rewrite <- (rev_involutive x). destruct (rev x) as [|c r]; cbn [wsb_start] in H.
  - reflexivity.
  - cbn [rev]. rewrite <- app_assoc. cbn [app]. rewrite (words_mid (rev r) c y H).
    f_equal. symmetry. exact (words_acc_trail (rev r) [] c H).
Qed.

(* ---- words of a whitespace-free run ---- *)
Lemma words_acc_run t : forall cur s, ws_free t = true -> words_acc cur (t ++ s) = words_acc (cur ++ t) s.
Proof.
  induction t as [|c t IH]; intros cur s H; cbn [app].
  - now rewrite app_nil_r.
  - cbn [ws_free forallb] in H. apply andb_true_iff in H as [H1 H2]. apply negb_true_iff in H1.
    cbn [words_acc]. rewrite H1. rewrite IH by exact H2. now rewrite <- app_assoc.
Qed.

Lemma words_token t : is_token t = true -> words t = [t].
Proof.
  destruct t as [|c t]; [discriminate|]. cbn [is_token]. intros H.
  unfold words. pose proof (words_acc_run (c :: t) [] [] H) as E. rewrite app_nil_r in E. rewrite E. reflexivity.
Qed.

Lemma words_unwords ts : Forall (fun t => is_token t = true) ts -> words (unwords ts) = ts.
Proof.
  induction 1 as [|t ts Ht _ IH]; [reflexivity|]. cbn [unwords].
  destruct ts as [|t' ts']; [now apply words_token|].
  rewrite (words_mid t 32 _ is_ws_32), IH. now rewrite (words_token t Ht).
Qed.

Lemma unwords_inj a b :
  Forall (fun t => is_token t = true) a -> Forall (fun t => is_token t = true) b ->
  unwords a = unwords b -> a = b.
Proof. intros Ha Hb E. rewrite <- (words_unwords a Ha), <- (words_unwords b Hb). now rewrite E. Qed.

(* every word is a token *)
Lemma ws_free_app a b : ws_free (a ++ b) = ws_free a && ws_free b.
Proof. apply forallb_app. Qed.

Lemma words_acc_tokens s : forall cur, ws_free cur = true ->
  Forall (fun t => is_token t = true) (words_acc cur s).
Proof.
  induction s as [|c s IH]; intros cur Hc; cbn [words_acc].
  - destruct cur; constructor; [exact Hc | constructor].
  - destruct (is_ws c) eqn:E.
    + destruct cur; [apply IH; reflexivity | constructor; [exact Hc | apply IH; reflexivity]].
    + apply IH. rewrite ws_free_app, Hc. cbn [ws_free forallb andb]. now rewrite E.
Qed.

Lemma words_tokens s : Forall (fun t => is_token t = true) (words s).
Proof. apply words_acc_tokens. reflexivity. Qed.

(* ---- post_process preserves the words ---- *)
Lemma words_drop_lead p : forall u, forallb is_ws p = true -> words (p ++ u) = words u.
Proof.
  induction p as [|c p IH]; intros u H; [reflexivity|]. cbn [forallb] in H.
  apply andb_true_iff in H as [H1 H2]. cbn [app]. rewrite (words_lead c _ H1). now apply IH.
Qed.

Lemma words_acc_drop_trail q : forall cur a, forallb is_ws q = true -> words_acc cur (a ++ q) = words_acc cur a.
Proof.
  induction q as [|c q IH]; intros cur a H; [now rewrite app_nil_r|]. cbn [forallb] in H.
  apply andb_true_iff in H as [H1 H2].
  change (a ++ c :: q) with (a ++ [c] ++ q). rewrite app_assoc. rewrite IH by exact H2.
  now apply words_acc_trail.
Qed.

Lemma words_trim s : words (trim s) = words s.
Proof.
  unfold trim. destruct (trim_start_split s) as [p [Hs Hp]].
  destruct (trim_end_split (trim_start s)) as [q [Hu Hq]].
  rewrite Hs at 2. rewrite (words_drop_lead p _ Hp). rewrite Hu at 2.
  unfold words. now rewrite (words_acc_drop_trail q [] _ Hq).
Qed.

Lemma words_acc_squeeze rest : forall prev cur, (is_ws prev = true -> cur = []) ->
  words_acc cur (squeeze_from prev rest) = words_acc cur rest.
Proof.
  induction rest as [|c r IH]; intros prev cur H; cbn [squeeze_from]; [reflexivity|].
  destruct (is_ws prev && is_ws c) eqn:E.
  - apply andb_true_iff in E as [E1 E2]. rewrite (H E1). cbn [words_acc]. rewrite E2.
    apply IH. reflexivity.
  - cbn [words_acc]. destruct (is_ws c) eqn:Ec.
    + destruct cur; (rewrite IH; [reflexivity | reflexivity]).
    + apply IH. rewrite Ec. discriminate.
Qed.

Lemma words_post_process s r : post_process s = TOk r -> words r = words s.
Proof.
  rewrite post_process_eq. intros H. injection H as <-. rewrite <- (words_trim s).
  pose proof (trim_lead s) as HL. destruct (trim s) as [|c rest]; [reflexivity|].
  cbn [lead_ok] in HL. apply negb_true_iff in HL.
  unfold words. cbn [words_acc]. rewrite HL. apply words_acc_squeeze. rewrite HL. discriminate.
Qed.

(* ---- a normal string whose only whitespace is the space is the join of its words ---- *)
Lemma trail_ok_cons c d r : trail_ok (c :: d :: r) = trail_ok (d :: r).
Proof. unfold trail_ok. rewrite !lead_ok_rev. reflexivity. Qed.

Lemma words_acc_nonempty s : forall cur, (cur <> [] \/ lead_ok s = true /\ s <> []) -> words_acc cur s <> [].
Proof.
  induction s as [|c s IH]; intros cur H; cbn [words_acc].
  - destruct cur; [destruct H as [H|[_ H]]; congruence | discriminate].
  - destruct (is_ws c) eqn:E.
    + destruct cur; [|discriminate]. destruct H as [H|[H _]]; [congruence|]. cbn [lead_ok] in H. rewrite E in H. discriminate.
    + apply IH. left. destruct cur; discriminate.
Qed.

Lemma unwords_cons w ws : ws <> [] -> unwords (w :: ws) = w ++ 32 :: unwords ws.
Proof. destruct ws; [congruence | reflexivity]. Qed.

Lemma normal_unwords r : forall cur,
  nodouble r = true -> trail_ok r = true -> only_sp r = true -> (cur = [] -> lead_ok r = true) ->
  unwords (words_acc cur r) = cur ++ r.
Proof.
  induction r as [|c r IH]; intros cur HD HT HS HL; cbn [words_acc].
  - destruct cur; [reflexivity | cbn [unwords]; now rewrite app_nil_r].
  - cbn [only_sp forallb] in HS. apply andb_true_iff in HS as [HS1 HS2].
    destruct (is_ws c) eqn:E.
    + cbn [negb orb] in HS1. apply N.eqb_eq in HS1. subst c.
      destruct cur as [|x cur]; [specialize (HL eq_refl); cbn [lead_ok] in HL; rewrite E in HL; discriminate|].
      destruct r as [|d r].
      { unfold trail_ok in HT. cbn in HT. discriminate. }
      cbn [nodouble] in HD. apply andb_true_iff in HD as [HD1 HD2].
      rewrite E in HD1. cbn [andb negb] in HD1. apply negb_true_iff in HD1.
      rewrite trail_ok_cons in HT.
      assert (Hl : lead_ok (d :: r) = true) by (cbn [lead_ok]; now rewrite HD1).
      rewrite unwords_cons by (apply words_acc_nonempty; right; split; [exact Hl | discriminate]).
      rewrite (IH [] HD2 HT HS2 (fun _ => Hl)). reflexivity.
    + rewrite IH.
      * now rewrite <- app_assoc.
      * cbn [nodouble] in HD. now apply andb_true_iff in HD as [_ HD].
      * destruct r as [|d r]; [reflexivity | now rewrite trail_ok_cons in HT].
      * exact HS2.
      * intros Hc. destruct cur; discriminate.
Qed.

(* post-processing only removes characters *)
Lemma forallb_trim_start P s : forallb P s = true -> forallb P (trim_start s) = true.
Proof.
  destruct (trim_start_split s) as [p [Hs _]]. intros H. rewrite Hs in H. rewrite forallb_app in H.
  now apply andb_true_iff in H as [_ H].
Qed.

Lemma forallb_rev (P : N -> bool) s : forallb P (rev s) = forallb P s.
Proof.
  induction s as [|c s IH]; [reflexivity|]. cbn [rev forallb]. rewrite forallb_app, IH. cbn [forallb].
  rewrite andb_true_r. apply andb_comm.
Qed.

Lemma forallb_trim P s : forallb P s = true -> forallb P (trim s) = true.
Proof.
  intros H. unfold trim, trim_end. rewrite forallb_rev. apply forallb_trim_start. rewrite forallb_rev.
  now apply forallb_trim_start.
Qed.

Lemma forallb_squeeze P rest : forall prev, forallb P rest = true -> forallb P (squeeze_from prev rest) = true.
Proof.
  induction rest as [|c r IH]; intros prev H; cbn [squeeze_from]; [reflexivity|].
  cbn [forallb] in H. apply andb_true_iff in H as [H1 H2].
  destruct (is_ws prev && is_ws c); [now apply IH|]. cbn [forallb]. rewrite H1. now apply IH.
Qed.

Lemma forallb_post_process P s r : forallb P s = true -> post_process s = TOk r -> forallb P r = true.
Proof.
  intros H. rewrite post_process_eq. intros E. injection E as <-.
  pose proof (forallb_trim P s H) as HT. destruct (trim s) as [|c rest]; [reflexivity|].
  cbn [forallb] in *. apply andb_true_iff in HT as [H1 H2]. rewrite H1. now apply forallb_squeeze.
Qed.

Theorem pp_words s : only_sp s = true -> post_process s = TOk (unwords (words s)).
Proof.
  intros HS. destruct (post_ws_normal_proof s) as (r & Hr & HL & HT & HD & _).
  rewrite Hr. f_equal. rewrite <- (words_post_process s r Hr).
  unfold words. rewrite (normal_unwords r [] HD HT); auto.
  unfold only_sp. eapply forallb_post_process; eassumption.
Qed.

Lemma only_sp_post_process s r : only_sp s = true -> post_process s = TOk r -> only_sp r = true.
Proof. apply forallb_post_process. Qed.

Lemma only_sp_app a b : only_sp (a ++ b) = only_sp a && only_sp b.
Proof. apply forallb_app. Qed.

Lemma ws_free_only_sp t : ws_free t = true -> only_sp t = true.
Proof.
  unfold ws_free, only_sp. rewrite !forallb_forall. intros H x Hx. now rewrite (H x Hx).
Qed.
