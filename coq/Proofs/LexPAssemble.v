(* Proofs/LexPAssemble.v -- C02: parse_env on the whitespace-free text of a value of the vocabulary
   returns the value (term layer + item layer), for every format satisfying the two boolean table
   obligations [lex_term_ok] and [lex_items_ok]. *)
From Nv Require Import Model.LexSpec Proofs.LexPBase Proofs.LexPTotal Proofs.LexPDict Proofs.LexPStr
                       Proofs.LexPTerm Proofs.LexPRound.
From Coq Require Import Lia.
Import ListNotations.

Lemma ljoin_lest3_nil a b c : ljoin_lest [a; b; c] [] = a ++ b ++ c.
Proof.
  unfold ljoin_lest. cbn [map concat]. destruct b, c; cbn [app]; now rewrite ?app_nil_r.
Qed.

Section Assemble.
  Variable F : lfmt.
  Variable ia : N -> bool.
  Let C := compile F.
  Hypothesis Hterm : lex_term_ok F ia = true.
  Hypothesis Hitems : lex_items_ok F = true.

  Local Notation f0 := (f0 F).

  Lemma text0_sentence s : text0 F (NSentence s) = f0 (ls_term s) ++ rest_text F s.
  Proof. unfold text0, rest_text. cbn [lex_fmt_g]. unfold lex_fmt_sentence_g. now rewrite ljoin_lest3_nil. Qed.

  Lemma text0_task k :
    text0 F (NTask k) = lex_fmt_budget F (lt_budget k) ++ f0 (ls_term (lt_sentence k)) ++ rest_text F (lt_sentence k).
  Proof.
    unfold text0. cbn [lex_fmt_g]. unfold lex_fmt_task_g. cbv zeta.
    change (lex_fmt_sentence_g F [] [] (lt_sentence k)) with (text0 F (NSentence (lt_sentence k))).
    rewrite text0_sentence. destruct (f0 (ls_term (lt_sentence k)) ++ rest_text F (lt_sentence k)); [now rewrite app_nil_r | reflexivity].
  Qed.

  (* the text of a term of the vocabulary is not empty *)
  Lemma f0_nonempty t : term_ok F ia t = true -> (1 <= length (f0 t))%nat.
  Proof.
    destruct t as [p n | c ts | l ts rb | c s p]; cbn [term_ok]; rewrite ?andb_true_iff.
    - intros [_ Hn]. unfold name_ok in Hn. rewrite !andb_true_iff in Hn. destruct Hn as [[Hn _] _].
      rewrite f0_atom, app_length. apply nonempty_length in Hn. lia.
    - intros [[_ Hne] _]. destruct ts as [|t r]; [discriminate|]. rewrite f0_compound.
      rewrite app_length. pose proof (Gleft_first F ia Hterm _ (In_cl F)) as H. apply first_is_length in H. lia.
    - intros [[Hin Hne] _]. destruct ts as [|t r]; [discriminate|]. rewrite f0_set.
      apply pair_in_In in Hin. rewrite app_length.
      pose proof (Gleft_first F ia Hterm _ (In_setl F _ _ Hin)) as H. apply first_is_length in H. lia.
    - intros _. rewrite f0_statement. rewrite app_length.
      pose proof (Gleft_first F ia Hterm _ (In_sl F)) as H. apply first_is_length in H. lia.
  Qed.

  (* truth behind a sentence body that ends with its punctuation or a non-empty stamp *)
  Lemma segment_truth_sentence x q st tv :
    In q (c_punctuations C) -> stamp_ok F st = true -> forallb number_ok tv = true ->
    segment_truth C ((x ++ q ++ st) ++ lex_fmt_truth F tv) =
    LOk (match tv with [] => None | _ => Some (tv, length (x ++ q ++ st)) end).
  Proof.
    intros Hq Hst Htv. destruct tv as [|e tv'].
    - cbn [lex_fmt_truth]. rewrite app_nil_r. destruct st as [|c st'].
      + rewrite app_nil_r. now apply truth_none_punct.
      + rewrite app_assoc. apply truth_none_stamp; auto. discriminate.
    - apply segment_truth_pos; auto. discriminate.
  Qed.

  Lemma segment_stamp_sentence x q st :
    In q (c_punctuations C) -> stamp_ok F st = true ->
    segment_stamp C ((x ++ q) ++ st) = LOk (match st with [] => None | _ => Some (st, length (x ++ q)) end).
  Proof.
    intros Hq Hst. destruct st as [|c st'].
    - rewrite app_nil_r. now apply segment_stamp_none_punct.
    - apply segment_stamp_pos; auto. discriminate.
  Qed.

  Definition opt_list {A} (l : list A) : option (list A) := match l with [] => None | _ => Some l end.

  (* the common part of sentences and tasks *)
  Lemma parse_items_sentence fuel pre bo s :
    segment_budget C (pre ++ f0 (ls_term s) ++ rest_text F s) = LOk bo ->
    snd (right_unwrap_or bo 0) = length pre ->
    sentence_ok F ia s = true -> unamb F (ls_term s) [] ->
    (length (f0 (ls_term s)) < fuel)%nat ->
    parse_items C ia fuel (pre ++ f0 (ls_term s) ++ rest_text F s) =
    LOk {| m_term := Some (ls_term s); m_truth := opt_list (ls_truth s); m_stamp := opt_list (ls_stamp s);
           m_punct := Some (ls_punct s); m_budget := fst (right_unwrap_or bo 0) |}.
  Proof.
    intros Hbud Hbi Hok Hun Hfuel. destruct s as [t q st tv]. cbn [ls_term ls_punct ls_stamp ls_truth] in *.
    unfold sentence_ok in Hok. cbn [ls_term ls_punct ls_stamp ls_truth] in Hok.
    rewrite !andb_true_iff in Hok. destruct Hok as [[[Ht Hq] Hst] Htv]. apply str_in_In in Hq. fold C in Hq.
    unfold rest_text in *. cbn [ls_punct ls_stamp ls_truth] in *.
    set (tt := f0 t) in *. set (ttxt := lex_fmt_truth F tv) in *.
    pose proof (f0_nonempty t Ht) as Htt. fold tt in Htt.
    unfold parse_items. rewrite Hbud. cbn [lbind].
    destruct (right_unwrap_or bo 0) as [budget bi] eqn:Ebo. cbn [fst snd] in *. subst bi.
    (* truth *)
    replace (pre ++ tt ++ q ++ st ++ ttxt) with (((pre ++ tt) ++ q ++ st) ++ ttxt) by now rewrite <- !app_assoc.
    unfold ttxt. rewrite (segment_truth_sentence (pre ++ tt) q st tv Hq Hst Htv). cbn [lbind].
    assert (E1 : right_unwrap_or (match tv with [] => None | _ => Some (tv, length ((pre ++ tt) ++ q ++ st)) end)
                   (length (((pre ++ tt) ++ q ++ st) ++ lex_fmt_truth F tv)) =
                 (opt_list tv, length ((pre ++ tt) ++ q ++ st))).
    { destruct tv; cbn [right_unwrap_or opt_list lex_fmt_truth]; [now rewrite app_nil_r | reflexivity]. }
    rewrite E1. clear E1.
    rewrite slice_to_ok by (rewrite !app_length; lia). rewrite take_app_length. cbn [lbind].
    (* stamp *)
    rewrite (app_assoc (pre ++ tt) q st). rewrite (segment_stamp_sentence (pre ++ tt) q st Hq Hst). cbn [lbind].
    assert (E2 : right_unwrap_or (match st with [] => None | _ => Some (st, length ((pre ++ tt) ++ q)) end)
                   (length (((pre ++ tt) ++ q) ++ st)) = (opt_list st, length ((pre ++ tt) ++ q))).
    { destruct st; cbn [right_unwrap_or opt_list]; [now rewrite app_nil_r | reflexivity]. }
    rewrite E2. clear E2.
    rewrite slice_to_ok by (rewrite !app_length; lia). rewrite <- !app_assoc.
    replace (pre ++ tt ++ q ++ st ++ lex_fmt_truth F tv) with (((pre ++ tt) ++ q) ++ st ++ lex_fmt_truth F tv)
      by now rewrite <- !app_assoc.
    rewrite <- (app_assoc pre tt q) at 1. rewrite (app_assoc pre tt q). rewrite take_app_length. cbn [lbind].
    (* punctuation *)
    pose proof (segment_punctuation_pos F Hitems (pre ++ tt) q Hq) as Hp. fold C in Hp. rewrite Hp.
    cbn [lbind right_unwrap_or].
    (* the term *)
    rewrite slice_ok by (rewrite !app_length; lia).
    rewrite <- !app_assoc. rewrite drop_app_length. rewrite app_length.
    replace (length pre + length tt - length pre)%nat with (length tt) by lia.
    rewrite take_app_length. cbn [lbind].
    replace (length pre <? length pre + length tt)%nat with true by (symmetry; apply Nat.ltb_lt; lia).
    pose proof (segment_term_f0 F ia Hterm t [] fuel Ht Hun eq_refl) as Hseg.
    fold tt in Hseg. rewrite app_nil_r in Hseg. fold C in Hseg. rewrite Hseg by exact Hfuel.
    cbn [lbind fst]. reflexivity.
  Qed.

  Lemma opt_list_unwrap (l : list str) : match opt_list l with Some t => t | None => [] end = l.
  Proof. destruct l; reflexivity. Qed.
  Lemma opt_str_unwrap (l : str) : match opt_list l with Some t => t | None => [] end = l.
  Proof. destruct l; reflexivity. Qed.

  (* ---- parse_env on the whitespace-free text ---- *)
  Theorem parse_env_text0 v fuel :
    vocab_ok F ia v = true -> unamb_top F v -> top_clean F v ->
    (length (text0 F v) < fuel)%nat ->
    parse_env C ia fuel (text0 F v) = LOk v.
  Proof.
    intros Hv Hun Hclean Hfuel. unfold parse_env. destruct v as [t | s | k].
    - (* bare term *)
      cbn [vocab_ok unamb_top top_clean] in *. destruct Hclean as [Hb [Htr [Hst Hp]]].
      change (text0 F (NTerm t)) with (f0 t) in *. fold C in Hb, Htr, Hst, Hp.
      pose proof (f0_nonempty t Hv) as Htt.
      unfold parse_items. rewrite Hb. cbn [lbind right_unwrap_or]. rewrite Htr. cbn [lbind right_unwrap_or].
      rewrite slice_to_ok by lia. rewrite take_all by lia. cbn [lbind]. rewrite Hst. cbn [lbind right_unwrap_or].
      rewrite slice_to_ok by lia. rewrite take_all by lia. cbn [lbind]. rewrite Hp. cbn [lbind right_unwrap_or].
      rewrite slice_ok by lia. rewrite drop_0, Nat.sub_0_r, take_all by lia. cbn [lbind].
      replace (0 <? length (f0 t))%nat with true by (symmetry; apply Nat.ltb_lt; lia).
      pose proof (segment_term_f0 F ia Hterm t [] fuel Hv Hun eq_refl) as Hseg.
      rewrite app_nil_r in Hseg. fold C in Hseg. rewrite Hseg by exact Hfuel. reflexivity.
    - (* sentence *)
      cbn [vocab_ok unamb_top top_clean] in *. rewrite text0_sentence in *. fold C in Hclean.
      pose proof (parse_items_sentence fuel [] None s) as H. cbn [app length right_unwrap_or fst snd] in H.
      rewrite H; auto; [|rewrite app_length in Hfuel; lia].
      cbn [lbind mid_fold m_term m_punct m_budget m_stamp m_truth ok_or].
      rewrite opt_list_unwrap, opt_str_unwrap. destruct s; reflexivity.
    - (* task *)
      cbn [vocab_ok unamb_top top_clean] in *. rewrite text0_task in *.
      apply andb_true_iff in Hv as [Hs Hb].
      pose proof (parse_items_sentence fuel (lex_fmt_budget F (lt_budget k))
                    (Some (lt_budget k, length (lex_fmt_budget F (lt_budget k)))) (lt_sentence k)) as H.
      cbn [right_unwrap_or fst snd] in H.
      rewrite H; auto.
      + cbn [lbind mid_fold m_term m_punct m_budget m_stamp m_truth ok_or].
        rewrite opt_list_unwrap, opt_str_unwrap. destruct k as [b [t q st tv]]; reflexivity.
      + apply (segment_budget_pos F ia Hitems). exact Hb.
      + rewrite !app_length in Hfuel. lia.
  Qed.
End Assemble.
