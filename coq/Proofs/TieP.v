(* Proofs/TieP.v -- proofs of the obligations stated in Props/Tie.v (source-read tables = compiled tables) *)
From Coq Require Import List NArith Bool Lia.
Import ListNotations.
From Nv Require Import Base.Str Base.FloatDec Model.EnumFormat Model.LexFormat Gen.EnumFormats Gen.LexFormats Gen.Unicode
  Gen.FormatsDump Proofs.RangesP.
Open Scope N_scope.

(* ---- the two spellings of range membership and list membership used by the models ---- *)
Lemma in_ranges_cc_rs rs c : in_ranges_cc rs c = in_rs rs c.
Proof. induction rs as [|[lo hi] rs IH]; cbn [in_ranges_cc in_rs]; [reflexivity|]. rewrite IH. reflexivity. Qed.
Lemma in_ranges_rs rs c : in_ranges rs c = in_rs rs c.
Proof. induction rs as [|[lo hi] rs IH]; cbn [in_ranges in_rs]; [reflexivity|]. rewrite IH. reflexivity. Qed.
Lemma memb_mem c l : memb c l = mem c l.
Proof. induction l as [|x l IH]; cbn [memb mem]; [reflexivity|]. rewrite IH. reflexivity. Qed.

(* ---- name-character specs: (is_alphanumeric)? || c == x .. || (c > t)? ---- *)
Definition spec_pred (al : list (N * N)) (s : name_char_spec) (c : N) : bool :=
  (nc_alnum s && in_rs al c) || mem c (nc_extra s) ||
  match nc_above s with Some t => t <? c | None => false end.
Definition spec_bounds (al : list (N * N)) (s : name_char_spec) : list N :=
  (bounds al ++ pbounds (nc_extra s)) ++ match nc_above s with Some t => [t + 1] | None => [] end.
Lemma pc_spec al s : pc (spec_pred al s) (spec_bounds al s).
Proof.
  unfold spec_pred, spec_bounds.
  apply (pc_orb (fun c => (nc_alnum s && in_rs al c) || mem c (nc_extra s))).
  - apply (pc_orb (fun c => nc_alnum s && in_rs al c) (fun c => mem c (nc_extra s))); [apply pc_andb_l, pc_in_rs|apply pc_mem].
  - destruct (nc_above s) as [t|]; [apply pc_above|apply pc_const].
Qed.
Definition spec_check al s rs : bool :=
  forallb (fun p => Bool.eqb (is_scalar p && spec_pred al s p) (is_scalar p && in_rs rs p))
          (0 :: (bounds scalar_ranges ++ spec_bounds al s) ++ (bounds scalar_ranges ++ bounds rs)).
Lemma spec_check_sound al s rs : spec_check al s rs = true -> forall c, is_scalar c = true -> spec_pred al s c = in_rs rs c.
Proof. intros H. exact (pc_agree_scalar _ _ _ _ (pc_spec al s) (pc_in_rs rs) H). Qed.

(* ---- character classes: matches!(c, 'a'..='b' | 'x' | ...) ---- *)
Definition class_pred (k : char_class) (c : N) : bool := in_rs (cc_ranges k) c || mem c (cc_chars k).
Definition class_bounds (k : char_class) : list N := bounds (cc_ranges k) ++ pbounds (cc_chars k).
Lemma pc_class k : pc (class_pred k) (class_bounds k).
Proof. apply (pc_orb (in_rs (cc_ranges k)) (fun c => mem c (cc_chars k))); [apply pc_in_rs|apply pc_mem]. Qed.
Definition class_check k rs : bool :=
  forallb (fun p => Bool.eqb (is_scalar p && class_pred k p) (is_scalar p && in_rs rs p))
          (0 :: (bounds scalar_ranges ++ class_bounds k) ++ (bounds scalar_ranges ++ bounds rs)).
Lemma class_check_sound k rs : class_check k rs = true -> forall c, is_scalar c = true -> class_pred k c = in_rs rs c.
Proof. intros H. exact (pc_agree_scalar _ _ _ _ (pc_class k) (pc_in_rs rs) H). Qed.

(* ---- list equality ---- *)
Fixpoint list_eqb {A} (e : A -> A -> bool) (l1 l2 : list A) : bool :=
  match l1, l2 with
  | [], [] => true
  | x :: r1, y :: r2 => e x y && list_eqb e r1 r2
  | _, _ => false
  end.
Definition pair_eqb (p q : str * str) : bool := str_eqb (fst p) (fst q) && str_eqb (snd p) (snd q).
Lemma list_eqb_str l1 l2 : list_eqb str_eqb l1 l2 = true -> l1 = l2.
Proof.
  revert l2; induction l1 as [|x r IH]; intros [|y r2]; cbn [list_eqb]; try discriminate; [reflexivity|].
  intros H. apply andb_prop in H as [H1 H2]. apply str_eqb_eq in H1. subst. f_equal. apply IH, H2.
Qed.
Lemma list_eqb_pair l1 l2 : list_eqb pair_eqb l1 l2 = true -> l1 = l2.
Proof.
  revert l2; induction l1 as [|[a b] r IH]; intros [|[a' b'] r2]; cbn [list_eqb]; try discriminate; [reflexivity|].
  intros H. apply andb_prop in H as [H1 H2]. unfold pair_eqb in H1; cbn [fst snd] in H1.
  apply andb_prop in H1 as [Ha Hb]. apply str_eqb_eq in Ha, Hb. subst. f_equal. apply IH, H2.
Qed.

(* ============================== lexical formats ============================== *)
Definition lex_dict_tie (F : lfmt) (D : lexdump) : bool :=
  let C := compile F in
  list_eqb str_eqb (c_prefixes C) (d_prefixes D) &&
  list_eqb pair_eqb (c_set_brackets C) (d_set_brackets_by_prefix D) &&
  list_eqb pair_eqb (bifix_suffix_iter (l_set_brackets_raw F)) (d_set_brackets_by_suffix D) &&
  list_eqb str_eqb (c_connecters C) (d_connecters D) &&
  list_eqb str_eqb (c_copulas C) (d_copulas D) &&
  list_eqb str_eqb (c_punctuations C) (d_punctuations D) &&
  list_eqb pair_eqb (c_stamp_brackets C) (d_stamp_brackets D).

Definition lex_class_tie (F : lfmt) (D : lexdump) : bool :=
  spec_check alnum_ranges (l_is_identifier F) (d_is_identifier D) &&
  class_check (l_is_truth_content F) (d_is_truth_content D) &&
  class_check (l_is_stamp_content F) (d_is_stamp_content D) &&
  class_check (l_is_budget_content F) (d_is_budget_content D).

Definition lex_pairs : list (lfmt * lexdump) := combine shipped_lex_formats shipped_lex_dumps.

Lemma lex_pairs_complete_holds : length shipped_lex_formats = length shipped_lex_dumps /\ length lex_pairs = 3%nat.
Proof. split; reflexivity. Qed.

(* the dictionaries the lazy_static instances hold = the model's construction from the literals *)
Lemma lexical_dictionaries_as_compiled_holds :
  forall F D, In (F, D) lex_pairs ->
    let C := compile F in
    c_prefixes C = d_prefixes D /\ c_set_brackets C = d_set_brackets_by_prefix D /\
    bifix_suffix_iter (l_set_brackets_raw F) = d_set_brackets_by_suffix D /\
    c_connecters C = d_connecters D /\ c_copulas C = d_copulas D /\ c_punctuations C = d_punctuations D /\
    c_stamp_brackets C = d_stamp_brackets D.
Proof.
  assert (H : forallb (fun p => lex_dict_tie (fst p) (snd p)) lex_pairs = true) by (vm_compute; reflexivity).
  rewrite forallb_forall in H. intros F D Hin C. specialize (H _ Hin). cbn [fst snd] in H. unfold lex_dict_tie in H. fold C in H.
  do 6 (apply andb_prop in H as [H ?]).
  repeat split; (apply list_eqb_str; assumption) || (apply list_eqb_pair; assumption).
Qed.

(* the character predicates of the lexical formats, as read from the source = as compiled, on every code point *)
Lemma lexical_predicates_as_compiled_holds :
  forall F D, In (F, D) lex_pairs -> forall c, is_scalar c = true ->
    is_identifier F (in_ranges_cc alnum_ranges) c = in_rs (d_is_identifier D) c /\
    in_class (l_is_truth_content F) c = in_rs (d_is_truth_content D) c /\
    in_class (l_is_stamp_content F) c = in_rs (d_is_stamp_content D) c /\
    in_class (l_is_budget_content F) c = in_rs (d_is_budget_content D) c.
Proof.
  assert (H : forallb (fun p => lex_class_tie (fst p) (snd p)) lex_pairs = true) by (vm_compute; reflexivity).
  rewrite forallb_forall in H. intros F D Hin c Hc. specialize (H _ Hin). cbn [fst snd] in H. unfold lex_class_tie in H.
  apply andb_prop in H as [H H3]. apply andb_prop in H as [H H2]. apply andb_prop in H as [H H1].
  repeat split.
  - unfold is_identifier. rewrite in_ranges_cc_rs, memb_mem. apply (spec_check_sound alnum_ranges (l_is_identifier F)); assumption.
  - unfold in_class. rewrite in_ranges_cc_rs, memb_mem. apply (class_check_sound (l_is_truth_content F)); assumption.
  - unfold in_class. rewrite in_ranges_cc_rs, memb_mem. apply (class_check_sound (l_is_stamp_content F)); assumption.
  - unfold in_class. rewrite in_ranges_cc_rs, memb_mem. apply (class_check_sound (l_is_budget_content F)); assumption.
Qed.

(* char::is_whitespace (space.is_for_parse of every lexical format; the dump step refuses anything else) *)
Lemma whitespace_as_compiled_holds : forall c, is_whitespace c = in_rs whitespace_ranges c.
Proof.
  intros c. unfold is_whitespace. rewrite memb_mem.
  apply (pc_agree (fun c => mem c white_space_points) (in_rs whitespace_ranges) _ _ (pc_mem white_space_points) (pc_in_rs whitespace_ranges)).
  vm_compute. reflexivity.
Qed.

(* ============================== enum formats ============================== *)
Definition efmt_fields (F : efmt) : list str :=
  [space_parse F; space_format_terms F; space_format_items F; atom_prefix_word F;
   atom_prefix_variable_independent F; atom_prefix_variable_dependent F; atom_prefix_variable_query F;
   atom_prefix_interval F; atom_prefix_operator F; atom_prefix_placeholder F; compound_brackets_0 F;
   compound_brackets_1 F; compound_separator F; compound_brackets_set_extension_0 F;
   compound_brackets_set_extension_1 F; compound_brackets_set_intension_0 F; compound_brackets_set_intension_1 F;
   compound_connecter_intersection_extension F; compound_connecter_intersection_intension F;
   compound_connecter_difference_extension F; compound_connecter_difference_intension F;
   compound_connecter_product F; compound_connecter_image_extension F; compound_connecter_image_intension F;
   compound_connecter_conjunction F; compound_connecter_disjunction F; compound_connecter_negation F;
   compound_connecter_conjunction_sequential F; compound_connecter_conjunction_parallel F; statement_brackets_0
   F; statement_brackets_1 F; statement_copula_inheritance F; statement_copula_similarity F;
   statement_copula_implication F; statement_copula_equivalence F; statement_copula_instance F;
   statement_copula_property F; statement_copula_instance_property F; statement_copula_implication_predictive F;
   statement_copula_implication_concurrent F; statement_copula_implication_retrospective F;
   statement_copula_equivalence_predictive F; statement_copula_equivalence_concurrent F;
   statement_copula_equivalence_retrospective F; sentence_punctuation_judgement F; sentence_punctuation_goal F;
   sentence_punctuation_question F; sentence_punctuation_quest F; sentence_stamp_brackets_0 F;
   sentence_stamp_brackets_1 F; sentence_stamp_past F; sentence_stamp_present F; sentence_stamp_future F;
   sentence_stamp_fixed F; sentence_truth_brackets_0 F; sentence_truth_brackets_1 F; sentence_truth_separator F;
   task_budget_brackets_0 F; task_budget_brackets_1 F; task_budget_separator F].

Definition enum_tie (F : efmt) (D : enumdump) : bool :=
  list_eqb str_eqb (efmt_fields F) (e_fields D) && list_eqb str_eqb (gen_copulas F) (e_copulas D) &&
  spec_check alnum_ranges (name_char F) (e_is_valid_atom_name D).

Definition enum_pairs : list (efmt * enumdump) := combine shipped_formats shipped_enum_dumps.

Lemma enum_pairs_complete_holds : length shipped_formats = length shipped_enum_dumps /\ length enum_pairs = 3%nat.
Proof. split; reflexivity. Qed.

Lemma enum_formats_as_compiled_holds :
  forall F D, In (F, D) enum_pairs ->
    efmt_fields F = e_fields D /\ gen_copulas F = e_copulas D /\
    forall c, is_scalar c = true -> name_charb (in_ranges alnum_ranges) F c = in_rs (e_is_valid_atom_name D) c.
Proof.
  assert (H : forallb (fun p => enum_tie (fst p) (snd p)) enum_pairs = true) by (vm_compute; reflexivity).
  rewrite forallb_forall in H. intros F D Hin. specialize (H _ Hin). cbn [fst snd] in H. unfold enum_tie in H.
  apply andb_prop in H as [H H2]. apply andb_prop in H as [H H1].
  repeat split; try (apply list_eqb_str; assumption).
  intros c Hc. unfold name_charb. rewrite in_ranges_rs, memb_mem. apply (spec_check_sound alnum_ranges (name_char F)); assumption.
Qed.


