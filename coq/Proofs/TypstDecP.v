(* Proofs/TypstDecP.v -- C16 part E3 (proofs): the decoder of Proofs/TypstInj.v inverts dflat. *)
From Nv Require Export Proofs.TypstInj.
From Nv Require Import Proofs.EqHashP.
From Coq Require Import Lia.

Fixpoint dsize (d : dterm) : nat :=
  match d with
  | DAtom _ _ => 1
  | DComp _ items => S (fold_right (fun x acc => dsize x + acc)%nat O items)
  end.

(* decodable skeletons: an atom is one quoted token; a statement has two components *)
Inductive wf_d : dterm -> Prop :=
| WA a q : q34 q = true -> wf_d (DAtom a [q])
| WC b items : Forall wf_d items -> (cb_stmt b = true -> length items = 2%nat) -> wf_d (DComp b items).

Lemma dsize_in x items : In x items -> (dsize x <= fold_right (fun x acc => dsize x + acc)%nat O items)%nat.
Proof.
  induction items as [|y items IH]; cbn [In fold_right]; [tauto|]. intros [->|H]; [lia|]. specialize (IH H). lia.
Qed.

(* ---- small facts ---- *)
Lemma single_words c : single c = true -> words c = [tok1 c].
Proof. unfold single, tok1. destruct (words c) as [|t [|? ?]]; try discriminate. reflexivity. Qed.

Lemma mem_str_true t l : mem_str t l = true <-> In t l.
Proof.
  unfold mem_str. rewrite existsb_exists. split.
  - intros (x & Hx & E). apply str_eqb_eq in E. now subst.
  - intros H. exists t. split; [exact H | apply str_eqb_refl].
Qed.

Lemma mem_str_false t l : mem_str t l = false -> forall x, In x l -> x <> t.
Proof.
  intros H x Hx ->. apply (proj2 (mem_str_true t l)) in Hx. congruence.
Qed.

Lemma find_all_false {A} (f : A -> bool) l : (forall x, In x l -> f x = false) -> find f l = None.
Proof.
  induction l as [|y l IH]; intros H; cbn [find]; [reflexivity|].
  rewrite (H y (or_introl eq_refl)). apply IH. intros x Hx. apply H. now right.
Qed.

Lemma str_eqb_neq a b : a <> b -> str_eqb a b = false.
Proof. intros H. destruct (str_eqb_spec a b); congruence. Qed.

Lemma in_concat_map {A} (f : A -> list str) (l : list A) (x : A) (t : str) : In x l -> In t (f x) -> In t (concat (map f l)).
Proof. intros Hx Ht. apply in_concat. exists (f x). split; [now apply in_map | exact Ht]. Qed.

Lemma cat_eqb_eq' a b : cat_eqb a b = true -> a = b.
Proof. destruct a, b; cbn; congruence. Qed.

Lemma split_name_app p : forall q k,
  forallb (fun t => negb (q34 t)) p = true -> q34 q = true -> split_name ((p ++ [q]) ++ k) = Some (p, q, k).
Proof.
  induction p as [|t p IH]; intros q k Hp Hq; cbn [app split_name].
  - now rewrite Hq.
  - cbn [forallb] in Hp. apply andb_true_iff in Hp as [H1 H2]. apply negb_true_iff in H1. rewrite H1.
    now rewrite (IH q k H2 Hq).
Qed.

Section Dec.
  Hypothesis Hok : tok_tables_ok = true.
  Hypothesis Hdec : dec_tables_ok = true.

  (* the conjuncts of dec_tables_ok *)
  Lemma Hdec_parts :
    (forall b, cb_dec_ok b = true) /\ (forall a, ab_dec_ok a = true) /\
    single (fst br_cmp) = true /\ single (snd br_cmp) = true /\ single (fst br_stm) = true /\ single (snd br_stm) = true /\
    single typst_sep_compound = true /\ words typst_sep_statement = [] /\
    head_class o_cmp = 1 /\ head_class o_stm = 2 /\
    (forall a t r, words (ab_feature a) = t :: r -> head_class t = 3) /\
    (forall t, In t initial_consts -> mem_str t conn_tokens = false /\ mem_str t closers = false) /\
    mem_str tk_space closers = false /\
    (forall t, In t (initial_consts ++ closers ++ conn_tokens ++ [tk_space]) -> q34 t = false).
  Proof.
    unfold dec_tables_ok in Hdec.
    apply andb_true_iff in Hdec as [Hdec Q14]. apply andb_true_iff in Hdec as [Hdec Q13].
    apply andb_true_iff in Hdec as [Hdec Q12]. apply andb_true_iff in Hdec as [Hdec Q11].
    apply andb_true_iff in Hdec as [Hdec Q10]. apply andb_true_iff in Hdec as [Hdec Q9].
    apply andb_true_iff in Hdec as [Hdec Q8]. apply andb_true_iff in Hdec as [Hdec Q7].
    apply andb_true_iff in Hdec as [Hdec Q6]. apply andb_true_iff in Hdec as [Hdec Q5].
    apply andb_true_iff in Hdec as [Hdec Q4]. apply andb_true_iff in Hdec as [Hdec Q3].
    apply andb_true_iff in Hdec as [Q1 Q2].
    rewrite forallb_forall in Q1, Q2, Q11, Q12, Q14.
    repeat apply conj.
    - intros b. apply Q1, all_cb_complete.
    - intros a. apply Q2, all_ab_complete.
    - assumption.
    - assumption.
    - assumption.
    - assumption.
    - assumption.
    - destruct (words typst_sep_statement); [reflexivity | discriminate].
    - now apply N.eqb_eq.
    - now apply N.eqb_eq.
    - intros a t r E. specialize (Q11 a (all_ab_complete a)). rewrite E in Q11. now apply N.eqb_eq.
    - intros t H. specialize (Q12 t H). apply andb_true_iff in Q12 as [A B]. split; now apply negb_true_iff.
    - now apply negb_true_iff.
    - intros t Ht. specialize (Q14 t Ht). now apply negb_true_iff.
  Qed.

  Lemma D_cb b : cb_dec_ok b = true. Proof. apply Hdec_parts. Qed.
  Lemma D_ab a : ab_dec_ok a = true. Proof. apply Hdec_parts. Qed.
  Lemma D_sep : words typst_sep_compound = [tk_space].
  Proof. apply single_words. apply Hdec_parts. Qed.
  Lemma D_stnil : words typst_sep_statement = []. Proof. apply Hdec_parts. Qed.
  Lemma D_ocmp : words (fst br_cmp) = [o_cmp]. Proof. apply single_words. apply Hdec_parts. Qed.
  Lemma D_ccmp : words (snd br_cmp) = [c_cmp]. Proof. apply single_words. apply Hdec_parts. Qed.
  Lemma D_ostm : words (fst br_stm) = [o_stm]. Proof. apply single_words. apply Hdec_parts. Qed.
  Lemma D_cstm : words (snd br_stm) = [c_stm]. Proof. apply single_words. apply Hdec_parts. Qed.
  Lemma D_hc1 : head_class o_cmp = 1. Proof. apply Hdec_parts. Qed.
  Lemma D_hc2 : head_class o_stm = 2. Proof. apply Hdec_parts. Qed.
  Lemma D_hc3 a t r : words (ab_feature a) = t :: r -> head_class t = 3. Proof. apply Hdec_parts. Qed.
  Lemma D_init t : In t initial_consts -> mem_str t conn_tokens = false /\ mem_str t closers = false.
  Proof. apply Hdec_parts. Qed.
  Lemma D_sp : mem_str tk_space closers = false. Proof. apply Hdec_parts. Qed.
  Lemma D_q t : In t (initial_consts ++ closers ++ conn_tokens ++ [tk_space]) -> q34 t = false.
  Proof. apply Hdec_parts. Qed.

  (* ---- first tokens ---- *)
  Definition initial (t : str) : Prop := q34 t = true \/ In t initial_consts.

  Lemma q34_not_const t : q34 t = true -> ~ In t (initial_consts ++ closers ++ conn_tokens ++ [tk_space]).
  Proof. intros Hq Hin. rewrite (D_q t Hin) in Hq. discriminate. Qed.

  Lemma find_conn_none t : ~ In t conn_tokens -> find_conn t = None.
  Proof.
    intros H. unfold find_conn. apply find_all_false. intros b _.
    destruct (cb_conn b) eqn:E; [|reflexivity]. cbn [andb]. apply str_eqb_neq. intros <-. apply H.
    unfold conn_tokens. apply (in_concat_map _ all_cb b); [apply all_cb_complete|]. rewrite E. now left.
  Qed.

  Lemma opener_initial b : cb_setlike b = true -> In (tok1 (fst (cb_brackets b))) initial_consts.
  Proof.
    intros E. unfold initial_consts. rewrite !in_app_iff. right; left.
    apply (in_concat_map _ all_cb b); [apply all_cb_complete|]. rewrite E. now left.
  Qed.

  Lemma closer_in b : cb_setlike b = true -> In (tok1 (snd (cb_brackets b))) closers.
  Proof.
    intros E. unfold closers. rewrite in_app_iff. right.
    apply (in_concat_map _ all_cb b); [apply all_cb_complete|]. rewrite E. now left.
  Qed.

  Lemma find_open_none t : ~ In t initial_consts -> find_open t = None.
  Proof.
    intros H. unfold find_open. apply find_all_false. intros b _.
    destruct (cb_setlike b) eqn:E; [|reflexivity]. cbn [andb]. apply str_eqb_neq. intros <-. apply H.
    now apply opener_initial.
  Qed.

  Lemma o_cmp_initial : In o_cmp initial_consts. Proof. unfold initial_consts. cbn [app In]. auto. Qed.
  Lemma o_stm_initial : In o_stm initial_consts. Proof. unfold initial_consts. cbn [app In]. auto. Qed.

  Lemma initial_conn t : initial t -> find_conn t = None.
  Proof.
    intros [Hq|Hi]; apply find_conn_none.
    - intros Hin. apply (q34_not_const t Hq). rewrite !in_app_iff. auto.
    - destruct (D_init t Hi) as [H _]. intros Hin. apply (proj2 (mem_str_true t conn_tokens)) in Hin. congruence.
  Qed.

  Lemma initial_closer t c : initial t -> In c closers -> str_eqb t c = false.
  Proof.
    intros Ht Hc. apply str_eqb_neq. intros ->. destruct Ht as [Hq|Hi].
    - apply (q34_not_const c Hq). rewrite !in_app_iff. auto.
    - destruct (D_init c Hi) as [_ H]. apply (proj2 (mem_str_true c closers)) in Hc. congruence.
  Qed.

  Lemma space_closer c : In c closers -> str_eqb tk_space c = false.
  Proof.
    intros Hc. apply str_eqb_neq. intros E. subst c.
    apply (proj2 (mem_str_true tk_space closers)) in Hc. rewrite D_sp in Hc. discriminate.
  Qed.

  Lemma head_class_3 t : head_class t = 3 ->
    find_open t = None /\ str_eqb t o_cmp = false /\ str_eqb t o_stm = false.
  Proof.
    unfold head_class. destruct (find_open t); [discriminate|]. destruct (str_eqb t o_cmp); [discriminate|].
    destruct (str_eqb t o_stm); [discriminate|]. auto.
  Qed.

  Lemma find_open_o_cmp : find_open o_cmp = None.
  Proof. pose proof D_hc1 as H. unfold head_class in H. destruct (find_open o_cmp); [discriminate | reflexivity]. Qed.

  Lemma find_open_o_stm : find_open o_stm = None /\ str_eqb o_stm o_cmp = false.
  Proof.
    pose proof D_hc2 as H. unfold head_class in H. destruct (find_open o_stm); [discriminate|].
    destruct (str_eqb o_stm o_cmp); [discriminate|]. auto.
  Qed.

  Lemma q34_class t : q34 t = true -> head_class t = 3.
  Proof.
    intros Hq. unfold head_class.
    rewrite find_open_none by (intros Hin; apply (q34_not_const t Hq); rewrite !in_app_iff; auto).
    rewrite (str_eqb_neq t o_cmp), (str_eqb_neq t o_stm); [reflexivity| |].
    - intros ->. apply (q34_not_const o_stm Hq). rewrite !in_app_iff. left. apply o_stm_initial.
    - intros ->. apply (q34_not_const o_cmp Hq). rewrite !in_app_iff. left. apply o_cmp_initial.
  Qed.

  (* ---- the three kinds of composite constructors, unpacked ---- *)
  Lemma pair_eqb_eq p q : pair_eqb p q = true -> p = q.
  Proof.
    unfold pair_eqb. destruct p, q. cbn [fst snd]. intros H. apply andb_true_iff in H as [H1 H2].
    apply str_eqb_eq in H1, H2. now subst.
  Qed.

  Lemma opt_cb_is_eq o b : opt_cb_is o b = true -> o = Some b.
  Proof. destruct o as [b'|]; [|discriminate]. cbn. intros H. f_equal. now apply cb_eqb_eq. Qed.
  Lemma opt_ab_is_eq o a : opt_ab_is o a = true -> o = Some a.
  Proof. destruct o as [a'|]; [|discriminate]. cbn. intros H. f_equal. now apply ab_eqb_eq. Qed.

  Lemma is_nil_eq {A} (l : list A) : is_nil l = true -> l = [].
  Proof. destruct l; [reflexivity | discriminate]. Qed.

  Lemma cb_kinds b :
    (cb_setlike b = true /\ cb_cat b = CatCompound /\ cb_feature b = [] /\
     words (fst (cb_brackets b)) = [tok1 (fst (cb_brackets b))] /\
     words (snd (cb_brackets b)) = [tok1 (snd (cb_brackets b))] /\
     find_open (tok1 (fst (cb_brackets b))) = Some b) \/
    (cb_conn b = true /\ cb_cat b = CatCompound /\ cb_feature b <> [] /\
     words (cb_feature b) = [tok1 (cb_feature b)] /\ cb_brackets b = br_cmp /\
     find_conn (tok1 (cb_feature b)) = Some b) \/
    (cb_stmt b = true /\ cb_cat b = CatStatement /\
     words (cb_feature b) = [tok1 (cb_feature b)] /\ cb_brackets b = br_stm /\
     find_cop (tok1 (cb_feature b)) = Some b).
  Proof.
    pose proof (D_cb b) as H. unfold cb_dec_ok in H.
    destruct (cb_setlike b) eqn:E1.
    - left. apply andb_true_iff in H as [H H3]. apply andb_true_iff in H as [H1 H2].
      pose proof E1 as E1'. unfold cb_setlike in E1'. apply andb_true_iff in E1' as [Ec En].
      repeat apply conj; auto using single_words, opt_cb_is_eq, cat_eqb_eq'.
      apply is_nil_eq. exact En.
    - destruct (cb_conn b) eqn:E2.
      + right; left. apply andb_true_iff in H as [H H3]. apply andb_true_iff in H as [H1 H2].
        pose proof E2 as E2'. unfold cb_conn in E2'. apply andb_true_iff in E2' as [Ec En].
        repeat apply conj; auto using single_words, opt_cb_is_eq, cat_eqb_eq', pair_eqb_eq.
        intros E. rewrite E in En. discriminate.
      + destruct (cb_stmt b) eqn:E3; [|discriminate]. right; right.
        apply andb_true_iff in H as [H H3]. apply andb_true_iff in H as [H1 H2].
        repeat apply conj; auto using single_words, opt_cb_is_eq, pair_eqb_eq.
        apply cat_eqb_eq'. exact E3.
  Qed.

  Lemma dflat_comp b items :
    dflat (DComp b items) =
    match cb_cat b with
    | CatStatement =>
        tk_statement (cb_brackets b) (cb_feature b) (nth 0 (map dflat items) []) (nth 1 (map dflat items) [])
                     typst_sep_statement
    | _ => tk_compound (cb_brackets b) (cb_feature b) (map dflat items) typst_sep_compound
    end.
  Proof. reflexivity. Qed.

  Lemma Harms' : arms_ok = true.
  Proof. unfold tok_tables_ok in Hok. now apply andb_true_iff in Hok as [_ H]. Qed.

  (* the token list of a composite skeleton, by kind *)
  Lemma dflat_setlike b items : cb_setlike b = true ->
    dflat (DComp b items) =
    tok1 (fst (cb_brackets b)) :: tk_join [tk_space] (map dflat items) ++ [tok1 (snd (cb_brackets b))].
  Proof.
    intros E. destruct (cb_kinds b) as [(_ & Hc & Hf & Ho & Hcl & _)|[(E2 & _)|(E3 & Hc & _)]].
    - rewrite dflat_comp, Hc. unfold tk_compound. rewrite Hf, (layout_first_empty _ Harms'), Ho, Hcl, D_sep. reflexivity.
    - unfold cb_setlike in E. unfold cb_conn in E2. apply andb_true_iff in E as [_ E]. apply andb_true_iff in E2 as [_ E2].
      rewrite E in E2. discriminate.
    - unfold cb_setlike in E. unfold cb_stmt in E3. rewrite Hc in E. discriminate.
  Qed.

  Lemma layout_total' : layout_total = true.
  Proof. pose proof Harms' as H. unfold arms_ok in H. now apply andb_true_iff in H as [_ H]. Qed.

  Lemma dflat_conn b items : cb_conn b = true ->
    (dflat (DComp b items) =
       o_cmp :: tok1 (cb_feature b) :: tk_space :: tk_join [tk_space] (map dflat items) ++ [c_cmp]) \/
    (exists x y, items = [x; y] /\
       dflat (DComp b items) = o_cmp :: dflat x ++ tok1 (cb_feature b) :: dflat y ++ [c_cmp]).
  Proof.
    intros E. destruct (cb_kinds b) as [(E1 & _ & Hf & _)|[(_ & Hc & Hne & Hw & Hb & _)|(E3 & Hc & _)]].
    - unfold cb_conn in E. apply andb_true_iff in E as [_ E]. rewrite Hf in E. discriminate.
    - rewrite dflat_comp, Hc. unfold tk_compound. rewrite Hb, D_ocmp, D_ccmp, Hw, D_sep.
      assert (El : nlen (map dflat items) = nlen items) by (unfold nlen; now rewrite map_length).
      rewrite El.
      destruct (layout_select_some typst_layout_arms (nlen items) (cb_feature b) layout_total') as [k Hk].
      rewrite Hk. destruct (layout_cases (nlen items) (cb_feature b) Harms' Hne k Hk) as [->|[-> Hn]].
      + left. reflexivity.
      + right. unfold nlen in Hn. destruct items as [|x [|y [|z items]]]; cbn [length] in Hn; try (cbv in Hn; discriminate Hn).
        * exists x, y. split; [reflexivity|]. cbn [map tk_join concat app]. rewrite app_nil_r.
          rewrite <- !app_assoc. reflexivity.
        * exfalso. apply (f_equal N.to_nat) in Hn. rewrite Nnat.Nat2N.id in Hn. cbn in Hn. lia.
    - unfold cb_conn in E. rewrite Hc in E. discriminate.
  Qed.

  Lemma dflat_stmt b x y : cb_stmt b = true ->
    dflat (DComp b [x; y]) = o_stm :: dflat x ++ tok1 (cb_feature b) :: dflat y ++ [c_stm].
  Proof.
    intros E. destruct (cb_kinds b) as [(E1 & Hc & _)|[(E2 & Hc & _)|(_ & Hc & Hw & Hb & _)]].
    - unfold cb_stmt in E. rewrite Hc in E. discriminate.
    - unfold cb_stmt in E. rewrite Hc in E. discriminate.
    - rewrite dflat_comp, Hc. unfold tk_statement. rewrite Hb, D_ostm, D_cstm, Hw, D_stnil. cbn [map nth app].
      rewrite <- ?app_assoc. reflexivity.
  Qed.

  Lemma cb_trichotomy b : cb_setlike b = true \/ cb_conn b = true \/ cb_stmt b = true.
  Proof. destruct (cb_kinds b) as [(E & _)|[(E & _)|(E & _)]]; auto. Qed.

  (* every decodable skeleton begins with an initial token *)
  Lemma dflat_head d : wf_d d -> exists t0 r, dflat d = t0 :: r /\ initial t0.
  Proof.
    intros H. destruct H as [a q Hq|b items Hi Hst].
    - cbn [dflat]. fold (ab_feature a). destruct (words (ab_feature a)) as [|t p] eqn:E.
      + exists q, []. split; [reflexivity | now left].
      + exists t, (p ++ [q]). split; [reflexivity|]. right. unfold initial_consts. rewrite !in_app_iff. right; right.
        apply (in_concat_map _ all_ab a); [apply all_ab_complete|]. rewrite E. now left.
    - destruct (cb_trichotomy b) as [E|[E|E]].
      + rewrite (dflat_setlike b items E). eexists _, _. split; [reflexivity|]. right. now apply opener_initial.
      + destruct (dflat_conn b items E) as [->|(x & y & -> & ->)]; eexists _, _; (split; [reflexivity|]); right; apply o_cmp_initial.
      + specialize (Hst E). destruct items as [|x [|y [|? ?]]]; try discriminate.
        rewrite (dflat_stmt b x y E). eexists _, _. split; [reflexivity|]. right. apply o_stm_initial.
  Qed.

  Lemma tk_join_cons sep x y ys : tk_join sep (x :: y :: ys) = x ++ sep ++ tk_join sep (y :: ys).
  Proof. cbn [tk_join map concat]. now rewrite <- app_assoc. Qed.

  Lemma tk_join_length sep flats : Forall (fun l => l <> []) flats -> (length flats <= length (tk_join sep flats))%nat.
  Proof.
    induction 1 as [|x l Hx Hl IH]; [cbn; lia|]. destruct l as [|y ys].
    - cbn [tk_join map concat length]. rewrite app_nil_r. destruct x; [congruence | cbn; lia].
    - rewrite tk_join_cons, !app_length. destruct x; [congruence|]. cbn [length] in *. lia.
  Qed.

  (* ---- items between an opener and its closer ---- *)
  Lemma items_step p n close x REST :
    wf_d x -> In close closers -> p (dflat x ++ REST) = Some (x, REST) ->
    items_until p (S n) close (dflat x ++ REST) =
    match REST with
    | [] => None
    | t1 :: rest2 =>
        if str_eqb t1 close then Some ([x], rest2)
        else if str_eqb t1 tk_space then
          match items_until p n close rest2 with Some (xs, r) => Some (x :: xs, r) | None => None end
        else None
    end.
  Proof.
    intros Hw Hc Hp. destruct (dflat_head x Hw) as (t0 & r0 & Hd & Hi).
    cbn [items_until]. destruct (dflat x ++ REST) as [|t ts] eqn:E.
    - rewrite Hd in E. discriminate.
    - assert (t = t0) by (rewrite Hd in E; cbn [app] in E; congruence). subst t.
      rewrite (initial_closer t0 close Hi Hc). rewrite Hp. reflexivity.
  Qed.

  Lemma items_ok p close items : forall k n,
    (forall d k', In d items -> p (dflat d ++ k') = Some (d, k')) ->
    Forall wf_d items -> In close closers -> (length items < n)%nat ->
    items_until p n close (tk_join [tk_space] (map dflat items) ++ close :: k) = Some (items, k).
  Proof.
    induction items as [|x xs IH]; intros k n Hp Hw Hc Hn.
    - destruct n; [lia|]. cbn [map tk_join app items_until]. now rewrite str_eqb_refl.
    - destruct n; [cbn [length] in Hn; lia|]. inversion Hw as [|? ? Hx Hxs]; subst.
      destruct xs as [|y ys].
      + cbn [map tk_join concat]. rewrite app_nil_r.
        rewrite (items_step p n close x (close :: k) Hx Hc) by (apply Hp; now left).
        now rewrite str_eqb_refl.
      + cbn [map]. rewrite tk_join_cons. rewrite <- !app_assoc. cbn [app].
        rewrite (items_step p n close x _ Hx Hc) by (apply Hp; now left).
        rewrite (space_closer close Hc), str_eqb_refl.
        change (dflat y :: map dflat ys) with (map dflat (y :: ys)).
        rewrite (IH k n); auto.
        * intros d k' Hd. apply Hp. now right.
        * cbn [length] in *. lia.
  Qed.

  (* ---- the decoder inverts dflat ---- *)
  Lemma parse_atom_branch f t rest : head_class t = 3 ->
    parse (S f) (t :: rest) =
    match split_name (t :: rest) with
    | Some (p, q, r) => match find_prefix p with Some a => Some (DAtom a [q], r) | None => None end
    | None => None
    end.
  Proof.
    intros H. destruct (head_class_3 t H) as (H1 & H2 & H3). cbn [parse]. now rewrite H1, H2, H3.
  Qed.

  Lemma nonempty_flats items : Forall wf_d items -> Forall (fun l : list str => l <> []) (map dflat items).
  Proof.
    induction 1 as [|x l Hx _ IH]; cbn [map]; constructor; auto.
    destruct (dflat_head x Hx) as (t0 & r & -> & _). discriminate.
  Qed.

  Theorem parse_ok fuel : forall d k, wf_d d -> (dsize d <= fuel)%nat -> parse fuel (dflat d ++ k) = Some (d, k).
  Proof.
    induction fuel as [|f IH]; intros d k Hw Hs; [destruct d; cbn [dsize] in Hs; lia|].
    inversion Hw as [a q Hq|b items Hi Hst]; subst.
    - (* atoms *)
      pose proof (D_ab a) as Ha. unfold ab_dec_ok in Ha. apply andb_true_iff in Ha as [Ha1 Ha2].
      apply opt_ab_is_eq in Ha1.
      cbn [dflat]. fold (ab_feature a). destruct (words (ab_feature a)) as [|t p] eqn:E.
      + cbn [app]. rewrite parse_atom_branch by now apply q34_class.
        cbn [split_name]. rewrite Hq, Ha1. reflexivity.
      + cbn [app]. rewrite parse_atom_branch by exact (D_hc3 a t p E).
        change (t :: (p ++ [q]) ++ k) with (((t :: p) ++ [q]) ++ k).
        rewrite (split_name_app (t :: p) q k Ha2 Hq), Ha1. reflexivity.
    - (* composite *)
      assert (Hitems : forall d k', In d items -> parse f (dflat d ++ k') = Some (d, k')).
      { intros d k' Hd. apply IH.
        - rewrite Forall_forall in Hi. now apply Hi.
        - cbn [dsize] in Hs. pose proof (dsize_in d items Hd). lia. }
      destruct (cb_kinds b) as [(E & _ & _ & _ & _ & Hfo)|[(E & _ & _ & _ & _ & Hfc)|(E & _ & _ & _ & Hfp)]].
      + (* set-like: opener items closer *)
        rewrite (dflat_setlike b items E). cbn [app parse]. rewrite Hfo. rewrite <- app_assoc. cbn [app].
        rewrite (items_ok (parse f) _ items k); auto using closer_in.
        rewrite app_length. pose proof (tk_join_length [tk_space] (map dflat items) (nonempty_flats items Hi)) as HL.
        rewrite map_length in HL. lia.
      + destruct (dflat_conn b items E) as [->|(x & y & -> & ->)].
        * (* prefix layout *)
          cbn [app parse]. rewrite find_open_o_cmp, str_eqb_refl, Hfc, str_eqb_refl. rewrite <- app_assoc. cbn [app].
          rewrite (items_ok (parse f) c_cmp items k); auto.
          -- unfold closers. cbn [app In]. auto.
          -- rewrite app_length. pose proof (tk_join_length [tk_space] (map dflat items) (nonempty_flats items Hi)) as HL.
             rewrite map_length in HL. lia.
        * (* infix layout *)
          inversion Hi as [|? ? Hx Hi']; subst. inversion Hi' as [|? ? Hy _]; subst.
          destruct (dflat_head x Hx) as (t0 & r0 & Hd & Hini).
          cbn [app parse]. rewrite find_open_o_cmp, str_eqb_refl. rewrite <- !app_assoc. cbn [app].
          rewrite Hd at 1. cbn [app]. rewrite (initial_conn t0 Hini).
          rewrite (Hitems x _ (or_introl eq_refl)). rewrite Hfc. rewrite <- ?app_assoc. cbn [app].
          rewrite (Hitems y _ (or_intror (or_introl eq_refl))). now rewrite str_eqb_refl.
      + (* statements *)
        specialize (Hst E). destruct items as [|x [|y [|? ?]]]; try discriminate.
        rewrite (dflat_stmt b x y E). destruct find_open_o_stm as [F1 F2].
        cbn [app parse]. rewrite F1, F2, str_eqb_refl. rewrite <- !app_assoc. cbn [app].
        rewrite (Hitems x _ (or_introl eq_refl)). rewrite Hfp. rewrite <- ?app_assoc. cbn [app].
        rewrite (Hitems y _ (or_intror (or_introl eq_refl))). now rewrite str_eqb_refl.
  Qed.

  (* two decodable skeletons with the same tokens are the same *)
  Corollary dflat_inj d d' : wf_d d -> wf_d d' -> dflat d = dflat d' -> d = d'.
  Proof.
    intros H H' E.
    pose proof (parse_ok (dsize d + dsize d') d [] H ltac:(lia)) as P.
    pose proof (parse_ok (dsize d + dsize d') d' [] H' ltac:(lia)) as P'.
    rewrite E in P. rewrite P in P'. congruence.
  Qed.
End Dec.
