(* Proofs/ReadmeEnumP.v -- from lexical terms to enum terms: the enum formatter prints what the
   lexical formatter prints for the lexical tree `lex_of_term`, well-formedness transfers, hence the
   ASCII output of the enum term formatter conforms to the README grammar with that tree. *)
From Coq Require Import String.
From Nv Require Import Model.Readme Gen.EnumFormats Gen.ReadmeGrammar Proofs.PegP Proofs.DecP Proofs.ReadmeP Proofs.ReadmeConfP.
Open Scope N_scope.

Lemma map_img_iter {A B} (f : A -> B) ph now idx l :
  map f (img_iter_gen ph now idx l) = img_iter_gen (f ph) now idx (map f l).
Proof.
  revert now. induction l as [|x l IH]; intros now; cbn [img_iter_gen map]; destruct (now =? idx); cbn [map];
    now rewrite ?IH.
Qed.

Lemma map_Forall_eq {A B} (f g : A -> B) l : Forall (fun x => f x = g x) l -> map f l = map g l.
Proof. induction 1 as [|x l Hx Hl IH]; cbn [map]; [reflexivity | now rewrite Hx, IH]. Qed.

(* ---- 1. fmt_term E = lfmt_term (layout of E) o lex_of_term E, for every format record ---- *)
Section FmtLex.
  Variable E : efmt.
  Notation L := (layout_of_efmt E).

  Lemma fmt_lex_term t : fmt_term E t = lfmt_term L (lex_of_term E t).
  Proof.
    induction t as [c n|c|c i|c l IH|c l IH|c i l IH|c a IH|c a b IHa IHb] using term_ind'.
    - destruct c; reflexivity.
    - destruct c; reflexivity.
    - destruct c; reflexivity.
    - assert (H : map (fmt_term E) l = map (lfmt_term L) (map (lex_of_term E) l))
        by (rewrite map_map; now apply map_Forall_eq).
      destruct c; cbn [fmt_term lex_of_term fmt_arm_set arm_list lex_list lfmt_term]; rewrite H; reflexivity.
    - assert (H : map (fmt_term E) l = map (lfmt_term L) (map (lex_of_term E) l))
        by (rewrite map_map; now apply map_Forall_eq).
      destruct c; cbn [fmt_term lex_of_term fmt_arm_vec arm_list lex_list lfmt_term]; rewrite H; reflexivity.
    - assert (H : map (fmt_term E) l = map (lfmt_term L) (map (lex_of_term E) l))
        by (rewrite map_map; now apply map_Forall_eq).
      destruct c; cbn [fmt_term lex_of_term fmt_arm_img arm_img lex_img arm_list lex_list lfmt_term];
        rewrite map_img_iter, H; reflexivity.
    - destruct c; cbn [fmt_term lex_of_term fmt_arm_box1 arm_list lex_list lfmt_term map]; rewrite IH; reflexivity.
    - destruct c; cbn [fmt_term lex_of_term fmt_arm_box2 arm_box2 lex_box2 arm_list lex_list lfmt_term map];
        rewrite IHa, IHb; reflexivity.
  Qed.
End FmtLex.

Lemma layout_std : layout_of_efmt FORMAT_ASCII = SL /\ lex_ascii_layout = SL.
Proof. split; vm_compute; reflexivity. Qed.

(* ---- 2. well-formedness transfers ---- *)
Section Wf.
  Variable ucls : uclass -> N -> bool.
  Hypothesis Hok : ucls_ok ucls.
  Notation X0 := opennars_lexicon.

  Ltac ascii :=
    unfold atom_charb, punct_symb;
    rewrite ?(uo_ascii _ Hok) by (vm_compute; reflexivity); vm_compute; reflexivity.

  Lemma digit_facts c : is_ascii_digit c = true -> atom_charb ucls c = true /\ us_dash c = false.
  Proof.
    unfold is_ascii_digit. intros H. apply andb_true_iff in H as [H1 H2]. apply N.leb_le in H1, H2.
    assert (Hc : c = 48 \/ c = 49 \/ c = 50 \/ c = 51 \/ c = 52 \/ c = 53 \/ c = 54 \/ c = 55 \/ c = 56 \/ c = 57) by lia.
    repeat (destruct Hc as [->|Hc]; [split; ascii|]). subst c. split; ascii.
  Qed.

  Lemma nodash_k4 s :
    forallb (fun c => negb (us_dash c)) s = true -> k4_free s = true /\ last_is_dash s = false.
  Proof.
    induction s as [|x s IH]; [split; reflexivity|]. cbn [forallb]. intros H.
    apply andb_true_iff in H as [Hx Hs]. destruct (IH Hs) as [Hk Hl]. apply negb_true_iff in Hx.
    split.
    - destruct s as [|y [|z s]]; [reflexivity | reflexivity |]. cbn [k4_free]. rewrite Hx. cbn [andb negb].
      exact Hk.
    - destruct s as [|y s]; [|exact Hl]. cbn [last_is_dash]. unfold us_dash in Hx.
      apply orb_false_iff in Hx as [_ Hx]. exact Hx.
  Qed.

  Lemma digits_name_ok i : name_ok_readme ucls (show_N i) = true.
  Proof.
    destruct (show_N_digits i) as [Hne Hd]. unfold name_ok_readme.
    assert (Ha : forallb (atom_charb ucls) (show_N i) = true).
    { apply forallb_forall. intros c Hc. rewrite Forall_forall in Hd. now destruct (digit_facts c (Hd c Hc)). }
    assert (Hn : forallb (fun c => negb (us_dash c)) (show_N i) = true).
    { apply forallb_forall. intros c Hc. rewrite Forall_forall in Hd. destruct (digit_facts c (Hd c Hc)) as [_ H].
      now rewrite H. }
    destruct (nodash_k4 _ Hn) as [Hk Hl]. rewrite Ha, Hk, Hl.
    destruct (show_N i) as [|c r]; [congruence|]. cbn [forallb] in Hn. apply andb_true_iff in Hn as [Hc _].
    now rewrite Hc.
  Qed.

  Notation wf := (lterm_wf ucls X0).
  Notation LX := (lex_of_term FORMAT_ASCII).

  Lemma forallb_map_wf l :
    Forall (fun t => term_ok_readme ucls t = true -> wf (LX t) = true) l ->
    forallb (term_ok_readme ucls) l = true -> forallb wf (map LX l) = true.
  Proof.
    induction 1 as [|x l Hx Hl IH]; [reflexivity|]. cbn [forallb map]. intros H.
    apply andb_true_iff in H as [H1 H2]. now rewrite (Hx H1), (IH H2).
  Qed.

  Lemma img_iter_wf (ph : lterm) now idx l :
    wf ph = true -> forallb wf l = true -> forallb wf (img_iter_gen ph now idx l) = true.
  Proof.
    intros Hp. revert now. induction l as [|x l IH]; intros now Hl; cbn [img_iter_gen].
    - destruct (now =? idx); cbn [forallb]; now rewrite ?Hp.
    - cbn [forallb] in Hl. apply andb_true_iff in Hl as [Hx Hl].
      destruct (now =? idx); cbn [forallb]; rewrite ?Hp, Hx; cbn [andb]; now apply IH.
  Qed.

  (* with the index inside the list the placeholder is emitted, so the list is not empty *)
  Lemma img_iter_nonempty {A} (ph : A) now idx l :
    now <= idx -> idx <= now + nlen l -> img_iter_gen ph now idx l <> [].
  Proof.
    revert now. induction l as [|x l IH]; intros now H1 H2; cbn [img_iter_gen].
    - unfold nlen in H2. cbn [length] in H2. assert (now = idx) by lia. subst. now rewrite N.eqb_refl.
    - destruct (now =? idx); discriminate.
  Qed.

  Lemma nonempty_true {A} (l : list A) : l <> [] -> match l with [] => false | _ => true end = true.
  Proof. destruct l; [congruence | reflexivity]. Qed.

  Lemma lex_wf_of_enum t : term_ok_readme ucls t = true -> wf (LX t) = true.
  Proof.
    induction t as [c n|c|c i|c l IH|c l IH|c i l IH|c a IH|c a b IHa IHb] using term_ind'; cbn [term_ok_readme]; intros H.
    - destruct c; cbn [lex_of_term fmt_arm_name lex_atom lterm_wf]; rewrite H; vm_compute; reflexivity.
    - destruct c. reflexivity.
    - destruct c. cbn [lex_of_term fmt_arm_num lex_atom lterm_wf]. rewrite (digits_name_ok i). vm_compute. reflexivity.
    - apply andb_true_iff in H as [Hne Hl]. pose proof (forallb_map_wf l IH Hl) as Hw.
      assert (Hm : match map LX l with [] => false | _ => true end = true) by (destruct l; [discriminate | reflexivity]).
      destruct c; cbn [lex_of_term fmt_arm_set lex_list lterm_wf]; rewrite Hw, Hm; vm_compute; reflexivity.
    - apply andb_true_iff in H as [Hne Hl]. pose proof (forallb_map_wf l IH Hl) as Hw.
      assert (Hm : match map LX l with [] => false | _ => true end = true) by (destruct l; [discriminate | reflexivity]).
      destruct c; cbn [lex_of_term fmt_arm_vec lex_list lterm_wf]; rewrite Hw, Hm; vm_compute; reflexivity.
    - apply andb_true_iff in H as [Hi Hl]. pose proof (forallb_map_wf l IH Hl) as Hw.
      apply N.leb_le in Hi.
      assert (Hph : wf (lex_placeholder FORMAT_ASCII) = true) by reflexivity.
      pose proof (img_iter_wf _ 0 i _ Hph Hw) as Hw'.
      assert (Hm : match img_iter_gen (lex_placeholder FORMAT_ASCII) 0 i (map LX l) with [] => false | _ => true end = true).
      { apply nonempty_true, img_iter_nonempty; [lia|]. unfold nlen in *. rewrite map_length. lia. }
      destruct c; cbn [lex_of_term fmt_arm_img lex_img lex_list lterm_wf]; rewrite Hw', Hm; vm_compute; reflexivity.
    - destruct c. cbn [lex_of_term fmt_arm_box1 lex_list lterm_wf forallb]. rewrite (IH H). vm_compute. reflexivity.
    - apply andb_true_iff in H as [Ha Hb].
      destruct c; cbn [lex_of_term fmt_arm_box2 lex_box2 lex_list lterm_wf forallb]; rewrite (IHa Ha), (IHb Hb);
        vm_compute; reflexivity.
  Qed.
End Wf.

(* ---- 3. conformance of the enum term formatter ---- *)
Theorem enum_term_conforms ucls t :
  ucls_ok ucls -> term_ok_readme ucls t = true ->
  exists n, forall m, (n <= m)%nat ->
    readme_parse_with ucls expected_grammar m (fmt_term FORMAT_ASCII t) = RValue (NTerm (lex_of_term FORMAT_ASCII t)).
Proof.
  intros Hok Hw. rewrite fmt_lex_term. rewrite (proj1 layout_std).
  apply lex_term_conforms; [exact Hok | now apply lex_wf_of_enum].
Qed.

(* ---- 4. sentences and tasks of the enum formatter ---- *)
Section FmtLexN.
  Variable F : Type.
  Variable fshow : F -> str.
  Variable E : efmt.
  Hypothesis Hsp : space_format_terms E = space_format_items E.
  Notation L := (layout_of_efmt E).

  Lemma fmt_lex_truth t :
    fmt_truth F fshow E t = lfmt_truth L (map fshow (truth_list t)).
  Proof. destruct t; reflexivity. Qed.

  Lemma fmt_lex_sentence s :
    fmt_sentence F fshow E s = lfmt_sentence L (lex_of_sentence F fshow E s).
  Proof.
    unfold fmt_sentence, lfmt_sentence, lex_of_sentence. cbn [ls_term ls_punct ls_stamp ls_truth ll_sp_items layout_of_efmt].
    rewrite fmt_lex_term, Hsp. f_equal. f_equal. f_equal. f_equal. f_equal.
    destruct (s_truth s) as [t|]; [apply fmt_lex_truth | reflexivity].
  Qed.

  Lemma fmt_lex_task k : fmt_task F fshow E k = lfmt_task L (lex_of_task F fshow E k).
  Proof.
    unfold fmt_task, lfmt_task, lex_of_task. cbn [lt_budget lt_sentence]. rewrite fmt_lex_sentence. reflexivity.
  Qed.

  Lemma fmt_lex_narsese v : fmt_narsese F fshow E v = lfmt_narsese L (lex_of_narsese F fshow E v).
  Proof.
    destruct v as [t|s|k]; cbn [fmt_narsese lex_of_narsese lfmt_narsese];
      [apply fmt_lex_term | apply fmt_lex_sentence | apply fmt_lex_task].
  Qed.
End FmtLexN.

Section WfN.
  Variable ucls : uclass -> N -> bool.
  Hypothesis Hok : ucls_ok ucls.
  Variable F : Type.
  Variable fshow : F -> str.
  Notation X0 := opennars_lexicon.
  (* f64's Display on the numbers of the value: digits and dots (C13: values in [0,1]) *)
  Definition shown_ok (fs : list F) : Prop := forall f, In f fs -> num_ok (fshow f) = true.

  Lemma shown_ok_forallb fs : shown_ok fs -> forallb num_ok (map fshow fs) = true.
  Proof. intros H. apply forallb_forall. intros x Hx. apply in_map_iff in Hx as [f [<- Hf]]. now apply H. Qed.

  Lemma show_N_body i : forallb stamp_body_char (show_N i) = true.
  Proof.
    destruct (show_N_digits i) as [_ Hd]. apply forallb_forall. intros c Hc. rewrite Forall_forall in Hd.
    unfold stamp_body_char. now rewrite (Hd c Hc).
  Qed.
  Lemma show_Z_body z : forallb stamp_body_char (show_Z z) = true.
  Proof. destruct z; cbn [show_Z forallb]; [reflexivity | apply show_N_body | now rewrite show_N_body]. Qed.

  Lemma take_app_exact' {A} (a b : list A) : take (length (a ++ b) - length b) (a ++ b) = a.
  Proof.
    rewrite app_length. replace (length a + length b - length b)%nat with (length a) by lia.
    induction a as [|x a IH]; cbn [length take app]; [destruct b; reflexivity | now rewrite IH].
  Qed.

  Lemma stamp_ok_enum st : stamp_ok X0 (fmt_stamp FORMAT_ASCII st) = true.
  Proof.
    destruct st as [| | | |t]; try (vm_compute; reflexivity).
    unfold stamp_ok. apply orb_true_iff. right. unfold stamp_fixed_ok.
    change (fst (lx_fixed X0)) with [58; 33]. change (snd (lx_fixed X0)) with [58].
    change (fmt_stamp FORMAT_ASCII (Fixed t)) with ([58; 33] ++ show_Z t ++ [58]).
    rewrite starts_app, drop_app_length. cbn [andb].
    assert (He : ends [58] (show_Z t ++ [58]) = true) by (apply ends_spec; now exists (show_Z t)).
    rewrite He, take_app_exact'. cbn [andb]. apply show_Z_body.
  Qed.

  Lemma lex_wf_of_sentence s :
    term_ok_readme ucls (s_term s) = true ->
    shown_ok (match s_truth s with Some t => truth_list t | None => [] end) ->
    lsentence_wf ucls X0 (lex_of_sentence F fshow FORMAT_ASCII s) = true.
  Proof.
    intros Hw Hshow. unfold lsentence_wf, lex_of_sentence. cbn [ls_term ls_punct ls_stamp ls_truth].
    rewrite (lex_wf_of_enum ucls Hok _ Hw), stamp_ok_enum.
    assert (Hp : str_mem (fmt_punct FORMAT_ASCII (s_punct s)) (lx_punctuations X0) = true)
      by (destruct (s_punct s); vm_compute; reflexivity).
    rewrite Hp. cbn [andb].
    destruct (s_truth s) as [t|]; [|reflexivity]. now apply shown_ok_forallb.
  Qed.

  Lemma lex_wf_of_narsese v :
    narsese_ok_readme ucls v = true -> shown_ok (narsese_floats v) ->
    lnarsese_wf ucls X0 (lex_of_narsese F fshow FORMAT_ASCII v) = true.
  Proof.
    unfold narsese_ok_readme. destruct v as [t|s|k]; cbn [lex_of_narsese lnarsese_wf narsese_floats]; intros Hw Hshow.
    - now apply lex_wf_of_enum.
    - now apply lex_wf_of_sentence.
    - unfold ltask_wf, lex_of_task. cbn [lt_budget lt_sentence].
      rewrite lex_wf_of_sentence; [| exact Hw | intros f Hf; apply Hshow, in_or_app; now left].
      rewrite andb_true_r. apply shown_ok_forallb. intros f Hf. apply Hshow, in_or_app. now right.
  Qed.
End WfN.

(* every well-formed enum value: the text the enum ASCII formatter prints is a sentence of the grammar,
   of the same kind, deriving the lexical tree of the value *)
Theorem enum_narsese_conforms ucls (F : Type) (fshow : F -> str) (v : narsese F) :
  ucls_ok ucls -> (forall f, In f (narsese_floats v) -> num_ok (fshow f) = true) -> narsese_ok_readme ucls v = true ->
  exists n, forall m, (n <= m)%nat ->
    readme_parse_with ucls expected_grammar m (fmt_narsese F fshow FORMAT_ASCII v)
      = RValue (lex_of_narsese F fshow FORMAT_ASCII v).
Proof.
  intros Hok Hshow Hw. rewrite (fmt_lex_narsese F fshow FORMAT_ASCII eq_refl). rewrite (proj1 layout_std).
  apply lex_narsese_conforms; [exact Hok | now apply lex_wf_of_narsese].
Qed.


(* ---- the statements of Props/C11.v: concrete Unicode tables, the REGENERATED grammar and layout ---- *)
Lemma C11_lex_proof v :
  lnarsese_wf ucls_tab opennars_lexicon v = true ->
  exists n, forall m, (n <= m)%nat ->
    readme_parse_with ucls_tab readme_grammar m (lfmt_narsese lex_ascii_layout v) = RValue v.
Proof.
  intros Hw. rewrite readme_pinned_proof, (proj2 layout_std). apply lex_narsese_conforms; [apply ucls_tab_ok | exact Hw].
Qed.

Lemma C11_enum_proof (F : Type) (fshow : F -> str) (v : narsese F) :
  (forall f, In f (narsese_floats v) -> num_ok (fshow f) = true) -> narsese_ok_readme ucls_tab v = true ->
  exists n, forall m, (n <= m)%nat ->
    readme_parse_with ucls_tab readme_grammar m (fmt_narsese F fshow FORMAT_ASCII v)
      = RValue (lex_of_narsese F fshow FORMAT_ASCII v).
Proof.
  intros Hs Hw. rewrite readme_pinned_proof. apply enum_narsese_conforms; [apply ucls_tab_ok | exact Hs | exact Hw].
Qed.

Lemma C11_lex_terms_proof x :
  lterm_wf ucls_tab opennars_lexicon x = true ->
  exists n, forall m, (n <= m)%nat ->
    readme_parse_with ucls_tab readme_grammar m (lfmt_term lex_ascii_layout x) = RValue (NTerm x).
Proof.
  intros Hw. rewrite readme_pinned_proof, (proj2 layout_std). apply lex_term_conforms; [apply ucls_tab_ok | exact Hw].
Qed.

Lemma C11_enum_terms_proof t :
  term_ok_readme ucls_tab t = true ->
  exists n, forall m, (n <= m)%nat ->
    readme_parse_with ucls_tab readme_grammar m (fmt_term FORMAT_ASCII t) = RValue (NTerm (lex_of_term FORMAT_ASCII t)).
Proof. intros Hw. rewrite readme_pinned_proof. apply enum_term_conforms; [apply ucls_tab_ok | exact Hw]. Qed.

(* the executable recogniser (fuel_for) on these texts: the value, or out of fuel -- never a rejection,
   never another kind or tree *)
Lemma C11_lex_exec_proof v :
  lnarsese_wf ucls_tab opennars_lexicon v = true ->
  readme_parse_g readme_grammar (lfmt_narsese lex_ascii_layout v) = RValue v \/
  readme_parse_g readme_grammar (lfmt_narsese lex_ascii_layout v) = RNoFuel.
Proof. intros Hw. unfold readme_parse_g. apply enough_fuel_any_fuel. now apply C11_lex_proof. Qed.

Lemma C11_enum_exec_proof (F : Type) (fshow : F -> str) (v : narsese F) :
  (forall f, In f (narsese_floats v) -> num_ok (fshow f) = true) -> narsese_ok_readme ucls_tab v = true ->
  readme_parse_g readme_grammar (fmt_narsese F fshow FORMAT_ASCII v) = RValue (lex_of_narsese F fshow FORMAT_ASCII v) \/
  readme_parse_g readme_grammar (fmt_narsese F fshow FORMAT_ASCII v) = RNoFuel.
Proof. intros Hs Hw. unfold readme_parse_g. apply enough_fuel_any_fuel. now apply C11_enum_proof. Qed.

(* the README's own example task as a lexical value and as an enum value (numbers as their Display strings) *)
Definition sample_ltask (t : lterm) : lnarsese :=
  NTask {| lt_budget := [ss "0.5"; ss "0.75"; ss "0.4"];
           lt_sentence := {| ls_term := t; ls_punct := ss "."; ls_stamp := ss ":!-1:"; ls_truth := [ss "1.0"; ss "0.9"] |} |}.
Definition sample_task (t : term) : narsese str :=
  NTask (SJudgement t (TruthDouble (ss "1.0") (ss "0.9")) (Fixed (-1)%Z), BudgetTriple (ss "0.5") (ss "0.75") (ss "0.4")).

(* the hypotheses are satisfiable: the term of the README's own example task *)
Definition sample_lterm : lterm :=
  LStatement (ss "==>")
    (LCompound (ss "&/")
       [LStatement (ss "{-]") (LAtom [] (ss "ball")) (LAtom [] (ss "left"));
        LStatement (ss "-->")
          (LCompound (ss "*") [LSet (ss "{") [LAtom [] (ss "SELF")] (ss "}"); LAtom (ss "$") (ss "any"); LAtom (ss "#") (ss "some")])
          (LAtom (ss "^") (ss "go-to"))])
    (LStatement (ss "{-]") (LAtom [] (ss "SELF")) (LAtom [] (ss "good"))).
Lemma sample_lterm_wf : lterm_wf ucls_tab opennars_lexicon sample_lterm = true.
Proof. vm_compute. reflexivity. Qed.
Lemma sample_lterm_parse :
  lfmt_term lex_ascii_layout sample_lterm =
    ss "<(&/, <ball {-] left>, <(*, {SELF}, $any, #some) --> ^go-to>) ==> <SELF {-] good>>" /\
  readme_parse_g readme_grammar (lfmt_term lex_ascii_layout sample_lterm) = RValue (NTerm sample_lterm).
Proof. vm_compute. split; reflexivity. Qed.

Definition sample_term : term :=
  TBox2 Implication
    (TVec ConjunctionSequential
       [TBox2 Inheritance (TSet SetExtension [TName Word (ss "ball")]) (TSet SetIntension [TName Word (ss "left")]);
        TBox2 Inheritance
          (TVec Product [TSet SetExtension [TName Word (ss "SELF")]; TName VariableIndependent (ss "any");
                         TName VariableDependent (ss "some"); TImg ImageExtension 1 [TNum Interval 7; TUnit Placeholder]])
          (TName Operator (ss "go-to"))])
    (TBox1 Negation (TName Word (ss "good"))).
Lemma sample_term_ok : term_ok_readme ucls_tab sample_term = true.
Proof. vm_compute. reflexivity. Qed.

Lemma sample_ltask_ok :
  lnarsese_wf ucls_tab opennars_lexicon (sample_ltask sample_lterm) = true /\
  lfmt_narsese lex_ascii_layout (sample_ltask sample_lterm) =
    ss "$0.5;0.75;0.4$ <(&/, <ball {-] left>, <(*, {SELF}, $any, #some) --> ^go-to>) ==> <SELF {-] good>>. :!-1: %1.0;0.9%" /\
  readme_parse_g readme_grammar (lfmt_narsese lex_ascii_layout (sample_ltask sample_lterm)) = RValue (sample_ltask sample_lterm).
Proof. vm_compute. repeat split. Qed.

Lemma sample_task_ok :
  narsese_ok_readme ucls_tab (sample_task sample_term) = true /\
  (forall f, In f (narsese_floats (sample_task sample_term)) -> num_ok ((fun s : str => s) f) = true) /\
  readme_parse_g readme_grammar (fmt_narsese str (fun s => s) FORMAT_ASCII (sample_task sample_term))
    = RValue (lex_of_narsese str (fun s => s) FORMAT_ASCII (sample_task sample_term)).
Proof.
  split; [vm_compute; reflexivity|]. split; [|vm_compute; reflexivity].
  intros f Hf. vm_compute in Hf. repeat (destruct Hf as [<-|Hf]; [vm_compute; reflexivity|]). destruct Hf.
Qed.
