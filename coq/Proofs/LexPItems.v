(* Proofs/LexPItems.v -- C05, parser half, item layer: budget prefix, truth / stamp / punctuation
   suffixes stay inside the environment, never overlap the budget, and the entry points
   lex_parse / lex_parse_term are total. *)
From Nv Require Import Model.LexParser Proofs.LexPBase Proofs.LexPTotal.
From Coq Require Import Lia.
Import ListNotations.

Lemma ssp_loop_spec right verify rest : forall i b,
  ssp_loop right verify rest i = Some b ->
  exists k, (b = i + k + length right)%nat /\ starts right (drop k rest) = true /\ (k < length rest)%nat.
Proof.
  induction rest as [|c r IH]; intros i b H; cbn [ssp_loop] in H; [discriminate|].
  destruct (starts right (c :: r)) eqn:Es.
  - injection H as <-. exists 0%nat. rewrite drop_0. cbn [length]. repeat split; auto; lia.
  - destruct (verify c); [|discriminate]. apply IH in H as [k [-> [Hs Hk]]].
    exists (S k). cbn [drop length]. repeat split; auto; lia.
Qed.

Lemma segment_some_prefix_spec env start right verify b :
  segment_some_prefix env start right verify = Some b ->
  (b <= length env)%nat /\ (length right <= b)%nat /\ starts right (drop (b - length right) env) = true.
Proof.
  unfold segment_some_prefix. intros H. apply ssp_loop_spec in H as [k [-> [Hs Hk]]].
  rewrite drop_drop in Hs. rewrite drop_length in Hk.
  pose proof (starts_length _ _ Hs) as Hl. rewrite drop_length in Hl.
  replace (start + k + length right - length right)%nat with (k + start)%nat by lia.
  repeat split; auto; lia.
Qed.

Definition prefix_item_ok {A} (env right : str) (o : lres (option (A * nat))) : Prop :=
  match o with
  | LOk None => True
  | LOk (Some (_, b)) =>
      (b <= length env)%nat /\ (length right <= b)%nat /\ starts right (drop (b - length right) env) = true
  | _ => False
  end.

Lemma segment_brackets_prefix_spec env br verify :
  prefix_item_ok env (snd br) (segment_brackets_prefix env br verify).
Proof.
  unfold segment_brackets_prefix. destruct (starts (fst br) env); [|exact I].
  destruct (segment_some_prefix env (length (fst br)) (snd br) verify) as [b|] eqn:E; [|exact I].
  apply segment_some_prefix_spec in E as [H1 [H2 H3]].
  rewrite slice_to_ok by lia. cbn [lbind prefix_item_ok]. auto.
Qed.

Lemma sss_loop_spec rleft verify rrest : forall b,
  sss_loop rleft verify rrest = Some b ->
  exists c rest', rrest = c ++ rleft ++ rest' /\ forallb verify c = true /\ b = length rest'.
Proof.
  induction rrest as [|c0 r IH]; intros b H; cbn [sss_loop] in H.
  - destruct rleft; cbn [starts] in H; [|discriminate]. injection H as <-. exists [], []. auto.
  - destruct (starts rleft (c0 :: r)) eqn:Es.
    + assert (Hb : b = (length (c0 :: r) - length rleft)%nat) by congruence. clear H.
      apply starts_spec in Es as [rest' Hr]. exists [], rest'.
      rewrite Hb, Hr, app_length. cbn [app forallb]. repeat split; auto. lia.
    + destruct (verify c0) eqn:Ev; [|discriminate]. apply IH in H as [c [rest' [-> [Hc ->]]]].
      exists (c0 :: c), rest'. cbn [app forallb]. rewrite Ev, Hc. auto.
Qed.

Lemma segment_some_suffix_spec env left verify b :
  segment_some_suffix env left verify = Some b ->
  (b <= length env)%nat /\ exists content, drop b env = left ++ content /\ forallb verify content = true.
Proof.
  unfold segment_some_suffix. intros H. apply sss_loop_spec in H as [c [rest' [Hr [Hc ->]]]].
  apply (f_equal (@rev N)) in Hr. rewrite rev_involutive, !rev_app_distr, rev_involutive in Hr.
  rewrite <- app_assoc in Hr. subst env. rewrite <- (rev_length rest').
  split; [rewrite app_length; lia|]. exists (rev c). rewrite drop_app_length. split; auto.
  rewrite forallb_forall in *. intros x Hx. apply Hc. now apply in_rev.
Qed.

Definition item_char (dict : list (str * str)) (verify : N -> bool) (c : N) : Prop :=
  verify c = true \/ In c (concat (map (fun t => fst t ++ snd t) dict)).

Definition suffix_item_ok (P : N -> Prop) (env : str) {A} (o : lres (option (A * nat))) : Prop :=
  match o with
  | LOk None => True
  | LOk (Some (_, b)) => (b <= length env)%nat /\ Forall P (drop b env)
  | _ => False
  end.

Lemma segment_brackets_suffix_spec env dict verify :
  suffix_item_ok (item_char dict verify) env (segment_brackets_suffix env dict verify).
Proof.
  unfold segment_brackets_suffix.
  destruct (match_suffix_pair dict env) as [[l r]|] eqn:E; [|exact I].
  unfold match_suffix_pair in E. apply find_some in E as [Hin He]. cbn [snd] in He.
  pose proof (ends_length_le _ _ He) as Hle. apply ends_spec in He as [pre Hpre].
  rewrite usub_ok by lia. cbn [lbind]. rewrite slice_to_ok by lia. cbn [lbind].
  assert (Htk : take (length env - length r) env = pre).
  { subst env. rewrite app_length. replace (length pre + length r - length r)%nat with (length pre) by lia.
    apply take_app_length. }
  rewrite Htk.
  destruct (segment_some_suffix pre l verify) as [b|] eqn:Es; [|exact I].
  apply segment_some_suffix_spec in Es as [Hb [content [Hd Hc]]].
  assert (Hlen : length env = (length pre + length r)%nat) by (subst env; apply app_length).
  rewrite slice_from_ok by lia. cbn [lbind suffix_item_ok]. split; [lia|].
  subst env. rewrite drop_app_le by lia. rewrite Hd.
  assert (Hkw : forall c, In c (l ++ r) -> item_char dict verify c).
  { intros c Hc'. right. apply in_concat. exists (l ++ r). split; auto.
    apply in_map_iff. exists (l, r). auto. }
  rewrite !Forall_app. repeat split.
  - apply Forall_forall. intros c Hc'. apply Hkw. apply in_or_app; auto.
  - apply Forall_forall. intros c Hc'. left. rewrite forallb_forall in Hc. auto.
  - apply Forall_forall. intros c Hc'. apply Hkw. apply in_or_app; auto.
Qed.

Section Items.
  Variable C : lcfmt.
  Variable is_alnum : N -> bool.
  Hypothesis Hguard : lex_starts_len_guard = true.
  Hypothesis Hlefts : lefts_nonempty C = true.
  Hypothesis Hclose : budget_close_ok C = true.

  Let P (c : N) : Prop := suffix_char C c = true.

  Lemma segment_truth_spec env : suffix_item_ok P env (segment_truth C env).
  Proof.
    unfold segment_truth.
    pose proof (segment_brackets_suffix_spec env [l_truth_brackets (c_fmt C)] (in_class (l_is_truth_content (c_fmt C)))) as H.
    destruct (segment_brackets_suffix env [l_truth_brackets (c_fmt C)] (in_class (l_is_truth_content (c_fmt C))))
      as [[[s b]|]| | |]; cbn [lbind suffix_item_ok] in *; auto.
    destruct H as [Hb Hf]. split; auto. eapply Forall_impl; [|exact Hf].
    intros c [Hc|Hc]; unfold P, suffix_char; cbv zeta.
    - rewrite !orb_true_iff. left. left. left. left. exact Hc.
    - cbn [map concat] in Hc. rewrite app_nil_r in Hc. apply memb_In in Hc.
      rewrite !orb_true_iff. left. left. left. right. exact Hc.
  Qed.

  Lemma segment_stamp_spec env : suffix_item_ok P env (segment_stamp C env).
  Proof.
    unfold segment_stamp.
    pose proof (segment_brackets_suffix_spec env (c_stamp_brackets C) (in_class (l_is_stamp_content (c_fmt C)))) as H.
    destruct (segment_brackets_suffix env (c_stamp_brackets C) (in_class (l_is_stamp_content (c_fmt C))))
      as [[[s b]|]| | |]; cbn [suffix_item_ok] in *; auto.
    destruct H as [Hb Hf]. split; auto. eapply Forall_impl; [|exact Hf].
    intros c [Hc|Hc]; unfold P, suffix_char; cbv zeta.
    - rewrite !orb_true_iff. left. left. right. exact Hc.
    - apply memb_In in Hc. rewrite !orb_true_iff. left. right. exact Hc.
  Qed.

  Lemma segment_punctuation_spec env : suffix_item_ok P env (segment_punctuation C env).
  Proof.
    unfold segment_punctuation. destruct (match_suffix (c_punctuations C) env) as [p|] eqn:E; [|exact I].
    unfold match_suffix in E. apply find_some in E as [Hin He].
    pose proof (ends_length_le _ _ He) as Hle. apply ends_spec in He as [pre Hpre].
    rewrite usub_ok by lia. cbn [lbind suffix_item_ok]. split; [lia|].
    subst env. rewrite app_length. replace (length pre + length p - length p)%nat with (length pre) by lia.
    rewrite drop_app_length. apply Forall_forall. intros c Hc. unfold P, suffix_char. cbv zeta.
    assert (Hm : memb c (concat (c_punctuations C)) = true).
    { apply memb_In. apply in_concat. eauto. }
    rewrite !orb_true_iff. right. exact Hm.
  Qed.

  Lemma segment_budget_spec env :
    prefix_item_ok env (snd (l_budget_brackets (c_fmt C))) (segment_budget C env).
  Proof.
    unfold segment_budget.
    pose proof (segment_brackets_prefix_spec env (l_budget_brackets (c_fmt C)) (in_class (l_is_budget_content (c_fmt C)))) as H.
    destruct (segment_brackets_prefix env (l_budget_brackets (c_fmt C)) (in_class (l_is_budget_content (c_fmt C))))
      as [[[s b]|]| | |]; cbn [lbind prefix_item_ok] in *; auto.
  Qed.

  (* the last character of the budget's closing bracket never satisfies P: a suffix item whose
     characters all satisfy P cannot begin before the budget's right border *)
  Lemma budget_border_le env bi lb :
    (bi <= length env)%nat -> (length (snd (l_budget_brackets (c_fmt C))) <= bi)%nat ->
    starts (snd (l_budget_brackets (c_fmt C))) (drop (bi - length (snd (l_budget_brackets (c_fmt C)))) env) = true ->
    Forall P (drop lb env) -> (bi <= lb)%nat.
  Proof.
    intros H1 H2 H3 Hf.
    pose proof Hclose as Hc. unfold budget_close_ok in Hc.
    set (right := snd (l_budget_brackets (c_fmt C))) in *.
    destruct (rev right) as [|c rr] eqn:Er; [discriminate|].
    apply negb_true_iff in Hc.
    assert (Hright : right = rev rr ++ [c]).
    { rewrite <- (rev_involutive right), Er. reflexivity. }
    destruct (Nat.le_gt_cases bi lb) as [|Hgt]; auto. exfalso.
    assert (Hlen : length right = S (length rr)) by (rewrite Hright, app_length, rev_length; cbn; lia).
    apply starts_spec in H3 as [rest Hrest].
    assert (Hn : nth_error env (bi - 1) = Some c).
    { replace (bi - 1)%nat with ((bi - length right) + length (rev rr))%nat by (rewrite rev_length; lia).
      rewrite <- nth_error_drop, Hrest, Hright, <- app_assoc.
      rewrite nth_error_app2 by lia. rewrite Nat.sub_diag. reflexivity. }
    assert (Hn2 : nth_error (drop lb env) (bi - 1 - lb) = Some c).
    { rewrite nth_error_drop. rewrite <- Hn. f_equal. lia. }
    apply nth_error_In in Hn2. rewrite Forall_forall in Hf. specialize (Hf _ Hn2).
    unfold P in Hf. congruence.
  Qed.

  Lemma parse_items_ok fuel env : (length env < fuel)%nat -> no_panic (parse_items C is_alnum fuel env).
  Proof.
    intros Hfuel. unfold parse_items.
    pose proof (segment_budget_spec env) as HB.
    destruct (segment_budget C env) as [budget| | |]; cbn [lbind prefix_item_ok] in *; try tauto.
    pose proof (segment_truth_spec env) as HT.
    destruct (segment_truth C env) as [truth| | |]; cbn [lbind suffix_item_ok] in *; try tauto.
    set (rb1 := snd (right_unwrap_or truth (length env))).
    assert (H1 : (rb1 <= length env)%nat /\ Forall P (drop rb1 env)).
    { unfold rb1. destruct truth as [[t b]|]; cbn [right_unwrap_or snd] in *; [tauto|].
      split; [lia|]. rewrite drop_all by lia. constructor. }
    destruct H1 as [Hrb1 Hf1].
    replace (right_unwrap_or truth (length env)) with (fst (right_unwrap_or truth (length env)), rb1)
      by (unfold rb1; destruct (right_unwrap_or truth (length env)); reflexivity).
    set (bi := snd (right_unwrap_or budget 0)).
    replace (right_unwrap_or budget 0) with (fst (right_unwrap_or budget 0), bi)
      by (unfold bi; destruct (right_unwrap_or budget 0); reflexivity).
    cbv iota beta. rewrite slice_to_ok by lia. cbn [lbind].
    pose proof (segment_stamp_spec (take rb1 env)) as HS.
    destruct (segment_stamp C (take rb1 env)) as [stamp| | |]; cbn [lbind suffix_item_ok] in *; try tauto.
    set (rb2 := snd (right_unwrap_or stamp rb1)).
    assert (H2 : (rb2 <= rb1)%nat /\ Forall P (drop rb2 env)).
    { unfold rb2. destruct stamp as [[t b]|]; cbn [right_unwrap_or snd] in *; [|split; [lia|assumption]].
      destruct HS as [Hb Hf]. rewrite take_length_le in Hb by lia. split; [lia|].
      rewrite (drop_take_app env b rb1) by lia. apply Forall_app. auto. }
    destruct H2 as [Hrb2 Hf2].
    replace (right_unwrap_or stamp rb1) with (fst (right_unwrap_or stamp rb1), rb2)
      by (unfold rb2; destruct (right_unwrap_or stamp rb1); reflexivity).
    cbv iota beta. rewrite slice_to_ok by lia. cbn [lbind].
    pose proof (segment_punctuation_spec (take rb2 env)) as HP.
    destruct (segment_punctuation C (take rb2 env)) as [punct| | |]; cbn [lbind suffix_item_ok] in *; try tauto.
    set (rb3 := snd (right_unwrap_or punct rb2)).
    assert (H3 : (rb3 <= rb2)%nat /\ Forall P (drop rb3 env)).
    { unfold rb3. destruct punct as [[t b]|]; cbn [right_unwrap_or snd] in *; [|split; [lia|assumption]].
      destruct HP as [Hb Hf]. rewrite take_length_le in Hb by lia. split; [lia|].
      rewrite (drop_take_app env b rb2) by lia. apply Forall_app. auto. }
    destruct H3 as [Hrb3 Hf3].
    replace (right_unwrap_or punct rb2) with (fst (right_unwrap_or punct rb2), rb3)
      by (unfold rb3; destruct (right_unwrap_or punct rb2); reflexivity).
    cbv iota beta.
    assert (Hbi : (bi <= rb3)%nat).
    { unfold bi. destruct budget as [[bv b]|]; cbn [right_unwrap_or snd] in *; [|lia].
      destruct HB as [Ha [Hb Hc]]. eapply budget_border_le; eauto. }
    rewrite slice_ok by lia. cbn [lbind].
    destruct (bi <? rb3)%nat.
    - pose proof (segment_term_ok C is_alnum Hguard Hlefts fuel (take (rb3 - bi) (drop bi env))) as G.
      assert (Hl : (length (take (rb3 - bi) (drop bi env)) < fuel)%nat).
      { rewrite take_length, drop_length. lia. }
      specialize (G Hl).
      destruct (segment_term C is_alnum fuel (take (rb3 - bi) (drop bi env))) as [[t n]| | |];
        cbn [lbind term_res_ok] in *; try tauto; split; discriminate.
    - cbn [lbind]. split; discriminate.
  Qed.
End Items.

Lemma idealize_length C input : (length (idealize_env C input) <= length input)%nat.
Proof.
  unfold idealize_env. destruct (l_remove_spaces_before_parse (c_fmt C)); [|lia].
  apply filter_length_le.
Qed.

(* ---- the entry points, for any fuel above the input length ---- *)
Theorem lex_parse_fuel_total is_alnum F fuel input :
  lex_total_ok F = true -> (length input < fuel)%nat ->
  lex_parse_fuel (compile F) is_alnum fuel input <> LPanic /\
  lex_parse_fuel (compile F) is_alnum fuel input <> LFuel.
Proof.
  intros H Hf. unfold lex_total_ok in H. rewrite !andb_true_iff in H. destruct H as [[Hg Hl] Hc].
  unfold lex_parse_fuel, parse_env.
  assert (Hlen : (length (idealize_env (compile F) input) < fuel)%nat).
  { pose proof (idealize_length (compile F) input). lia. }
  pose proof (parse_items_ok (compile F) is_alnum Hg Hl Hc _ _ Hlen) as [G1 G2].
  destruct (parse_items (compile F) is_alnum fuel (idealize_env (compile F) input)) as [m| | |];
    cbn [lbind]; [ | split; discriminate | exfalso; apply G1; reflexivity | exfalso; apply G2; reflexivity ].
  destruct (mid_fold m); cbn [ok_or]; split; discriminate.
Qed.

Theorem lex_parse_term_fuel_total is_alnum F fuel input :
  lex_total_ok F = true -> (length input < fuel)%nat ->
  lex_parse_term_fuel (compile F) is_alnum fuel input <> LPanic /\
  lex_parse_term_fuel (compile F) is_alnum fuel input <> LFuel.
Proof.
  intros H Hf. unfold lex_total_ok in H. rewrite !andb_true_iff in H. destruct H as [[Hg Hl] Hc].
  unfold lex_parse_term_fuel.
  assert (Hlen : (length (idealize_env (compile F) input) < fuel)%nat).
  { pose proof (idealize_length (compile F) input). lia. }
  pose proof (segment_term_ok (compile F) is_alnum Hg Hl _ _ Hlen) as G.
  destruct (segment_term (compile F) is_alnum fuel (idealize_env (compile F) input)) as [[t n]| | |];
    cbn [lbind term_res_ok] in *; try tauto; split; discriminate.
Qed.

Theorem lex_parse_total is_alnum F input :
  lex_total_ok F = true ->
  lex_parse is_alnum F input <> LPanic /\ lex_parse is_alnum F input <> LFuel.
Proof. intros H. apply lex_parse_fuel_total; [exact H | unfold lex_fuel; lia]. Qed.

Theorem lex_parse_term_total is_alnum F input :
  lex_total_ok F = true ->
  lex_parse_term is_alnum F input <> LPanic /\ lex_parse_term is_alnum F input <> LFuel.
Proof. intros H. apply lex_parse_term_fuel_total; [exact H | unfold lex_fuel; lia]. Qed.

(* the three shipped tables satisfy the obligation (re-computed whenever Gen/LexFormats.v changes) *)
Lemma shipped_lex_total_ok : forallb lex_total_ok shipped_lex_formats = true.
Proof. vm_compute. reflexivity. Qed.

Theorem lex_parse_total_shipped is_alnum F input :
  In F shipped_lex_formats ->
  lex_parse is_alnum F input <> LPanic /\ lex_parse is_alnum F input <> LFuel.
Proof.
  intros HF. apply lex_parse_total. pose proof shipped_lex_total_ok as H.
  rewrite forallb_forall in H. auto.
Qed.

Theorem lex_parse_term_total_shipped is_alnum F input :
  In F shipped_lex_formats ->
  lex_parse_term is_alnum F input <> LPanic /\ lex_parse_term is_alnum F input <> LFuel.
Proof.
  intros HF. apply lex_parse_term_total. pose proof shipped_lex_total_ok as H.
  rewrite forallb_forall in H. auto.
Qed.

(* the table obligation is needed: ASCII with the budget brackets replaced by the truth brackets *)
Definition with_budget_brackets (F : lfmt) (b : str * str) : lfmt := {|
  l_space_is_for_parse := l_space_is_for_parse F;
  l_remove_spaces_before_parse := l_remove_spaces_before_parse F;
  l_format_terms := l_format_terms F;
  l_format_items := l_format_items F;
  l_prefixes_raw := l_prefixes_raw F;
  l_is_identifier := l_is_identifier F;
  l_set_brackets_raw := l_set_brackets_raw F;
  l_compound_brackets := l_compound_brackets F;
  l_separator := l_separator F;
  l_connecters_raw := l_connecters_raw F;
  l_statement_brackets := l_statement_brackets F;
  l_copulas_raw := l_copulas_raw F;
  l_punctuations_raw := l_punctuations_raw F;
  l_truth_brackets := l_truth_brackets F;
  l_truth_separator := l_truth_separator F;
  l_is_truth_content := l_is_truth_content F;
  l_stamp_brackets_raw := l_stamp_brackets_raw F;
  l_is_stamp_content := l_is_stamp_content F;
  l_budget_brackets := b;
  l_budget_separator := l_budget_separator F;
  l_is_budget_content := l_is_budget_content F
|}.

Lemma lex_total_table_needed :
  exists (F : lfmt) (input : str), lex_total_ok F = false /\ lex_parse (fun _ => false) F input = LPanic.
Proof.
  exists (with_budget_brackets LEX_ASCII (l_truth_brackets LEX_ASCII)), [37; 49; 37]%N.
  split; vm_compute; reflexivity.
Qed.
