(* Proofs/EnumTermCor.v -- corollaries of the term-level parser theorem (Proofs/EnumTermP.v):
   (a) parse_term (the entry point with its own fuel) satisfies the same statement;
   (b) C09 at term level: surface trees that differ only in spacing parse to the same value;
   (c) C10 at term level: derived copulas, image connecters, interval atoms, placeholders;
   (d) non-vacuity examples for the three shipped formats. *)
From Nv Require Import Model.SstOk Proofs.EnumTotalP Proofs.EnumTermP Proofs.DecP.
From Nv Require Import Base.FloatDec Gen.Unicode.

(* ------------------------------------------------------------------------------------------ *)
(* depth of a surface tree vs. length of its text                                               *)
(* ------------------------------------------------------------------------------------------ *)
Lemma render_items_In_le E (r : sterm -> str) gaps x : forall items lead i,
  In x items -> (length (r x) <= length (render_items E r gaps lead i items))%nat.
Proof.
  induction items as [|y items IH]; intros lead i Hin; [destruct Hin|].
  rewrite render_items_cons, !app_length. destruct Hin as [->|Hin]; [lia|].
  specialize (IH true (S i) Hin). lia.
Qed.

Lemma fold_max_le (f : sterm -> nat) b items :
  (forall x, In x items -> (f x <= b)%nat) -> (fold_right (fun x acc => Nat.max (f x) acc) 0 items <= b)%nat.
Proof.
  induction items as [|y items IH]; intros H; cbn [fold_right]; [lia|].
  pose proof (H y (or_introl eq_refl)). specialize (IH (fun x Hx => H x (or_intror Hx))). lia.
Qed.

(* ------------------------------------------------------------------------------------------ *)
(* the meaning of a surface tree does not depend on its spacing annotations                     *)
(* ------------------------------------------------------------------------------------------ *)
Lemma omap_erase l1 :
  Forall (fun x => forall t2, erase x = erase t2 -> odesugar x = odesugar t2) l1 ->
  forall l2, map erase l1 = map erase l2 -> omap odesugar l1 = omap odesugar l2.
Proof.
  induction 1 as [|x l1 Hx Hl IH]; intros [|y l2] Hm; cbn [map] in Hm; try discriminate; [reflexivity|].
  injection Hm as Hxy Hm. rewrite !omap_cons, (Hx y Hxy), (IH l2 Hm). reflexivity.
Qed.

Lemma odesugar_erase t1 : forall t2, erase t1 = erase t2 -> odesugar t1 = odesugar t2.
Proof.
  induction t1 as [arm name|ext sp0 gaps items sp1 IH|arm sp0 gaps items sp1 IH|arm sp0 sp1 sp2 sp3 s p IHs IHp] using sterm_ind';
    intros [arm' name'|ext' sp0' gaps' items' sp1'|arm' sp0' gaps' items' sp1'|arm' sp0' sp1' sp2' sp3' s' p'] He;
    cbn [erase] in He; try discriminate.
  - injection He as -> ->. reflexivity.
  - injection He as -> Hm. cbn [odesugar]. now rewrite (omap_erase items IH items' Hm).
  - injection He as -> Hm. cbn [odesugar]. now rewrite (omap_erase items IH items' Hm).
  - injection He as -> Hs Hp. cbn [odesugar]. now rewrite (IHs s' Hs), (IHp p' Hp).
Qed.

Lemma erase_respace n t : erase (respace n t) = erase t.
Proof.
  induction t as [arm name|ext sp0 gaps items sp1 IH|arm sp0 gaps items sp1 IH|arm sp0 sp1 sp2 sp3 s p IHs IHp] using sterm_ind';
    cbn [respace erase].
  - reflexivity.
  - f_equal. rewrite map_map. apply map_ext_in. rewrite Forall_forall in IH. exact IH.
  - f_equal. rewrite map_map. apply map_ext_in. rewrite Forall_forall in IH. exact IH.
  - now rewrite IHs, IHp.
Qed.

Lemma same_shape_respace n t : same_shape (respace n t) t.
Proof. apply erase_respace. Qed.

Lemma same_shape_meaning t1 t2 : same_shape t1 t2 -> odesugar t1 = odesugar t2.
Proof. apply odesugar_erase. Qed.

(* ------------------------------------------------------------------------------------------ *)
(* image connecters: the pure content of parse_terms_with_image                                 *)
(* ------------------------------------------------------------------------------------------ *)
Lemma split_placeholder_first pre post : forall i,
  forallb (fun x => negb (term_eqb x placeholder)) pre = true ->
  split_placeholder i (pre ++ placeholder :: post) = Some ((i + N.of_nat (length pre))%N, pre ++ post).
Proof.
  induction pre as [|x pre IH]; intros i Hpre.
  - cbn [app split_placeholder length]. replace (term_eqb placeholder placeholder) with true by reflexivity.
    f_equal. f_equal. lia.
  - cbn [forallb] in Hpre. apply andb_true_iff in Hpre as [Hx Hpre]. apply negb_true_iff in Hx.
    cbn [app split_placeholder]. rewrite Hx, (IH (i + 1)%N Hpre). cbn [length]. f_equal. f_equal. lia.
Qed.

Lemma fill_pure_image c pre post :
  forallb (fun x => negb (term_eqb x placeholder)) pre = true ->
  fill_pure (CIImg c) (pre ++ placeholder :: post) = Some (TImg c (N.of_nat (length pre)) (pre ++ post)).
Proof.
  intros Hpre. unfold fill_pure. replace (comp_fill_kind (CIImg c)) with FillImage by (destruct c; reflexivity).
  rewrite (split_placeholder_first pre post 0 Hpre). reflexivity.
Qed.

(* the arm tables, as the theorems below use them (regenerated tables: a re-ordering breaks these) *)
Definition arm_placeholder : nat := 0.
Definition arm_interval : nat := 4.
Definition arm_word : nat := 6.
Definition arm_image_ext : nat := 10.
Definition arm_image_int : nat := 11.
Definition arm_instance : nat := 4.
Definition arm_property : nat := 5.
Definition arm_instance_property : nat := 6.
Definition arm_equiv_retro : nat := 12.

Lemma arms_table :
  nth_error parse_atom_arms arm_placeholder = Some (atom_prefix_placeholder, AIUnit Placeholder) /\
  nth_error parse_atom_arms arm_interval = Some (atom_prefix_interval, AINum Interval) /\
  nth_error parse_atom_arms arm_word = Some (atom_prefix_word, AIName Word) /\
  nth_error parse_compound_arms arm_image_ext = Some (compound_connecter_image_extension, CIImg ImageExtension) /\
  nth_error parse_compound_arms arm_image_int = Some (compound_connecter_image_intension, CIImg ImageIntension) /\
  nth_error parse_statement_arms arm_instance = Some (statement_copula_instance, SBHelper HelperInstance) /\
  nth_error parse_statement_arms arm_property = Some (statement_copula_property, SBHelper HelperProperty) /\
  nth_error parse_statement_arms arm_instance_property = Some (statement_copula_instance_property, SBHelper HelperInstanceProperty) /\
  nth_error parse_statement_arms arm_equiv_retro = Some (statement_copula_equivalence_retrospective, SBHelper HelperSwapEquivPred).
Proof. repeat split. Qed.

(* ---- C10 as equations on the documented meaning ---- *)
Lemma odesugar_instance sp0 sp1 sp2 sp3 s p vs vp :
  odesugar s = Some vs -> odesugar p = Some vp ->
  odesugar (SStmt arm_instance sp0 sp1 sp2 sp3 s p) = Some (TBox2 Inheritance (TSet SetExtension [vs]) vp).
Proof. intros Hs Hp. cbn [odesugar arm_instance nth_error parse_statement_arms]. rewrite Hs, Hp. reflexivity. Qed.

Lemma odesugar_property sp0 sp1 sp2 sp3 s p vs vp :
  odesugar s = Some vs -> odesugar p = Some vp ->
  odesugar (SStmt arm_property sp0 sp1 sp2 sp3 s p) = Some (TBox2 Inheritance vs (TSet SetIntension [vp])).
Proof. intros Hs Hp. cbn [odesugar arm_property nth_error parse_statement_arms]. rewrite Hs, Hp. reflexivity. Qed.

Lemma odesugar_instance_property sp0 sp1 sp2 sp3 s p vs vp :
  odesugar s = Some vs -> odesugar p = Some vp ->
  odesugar (SStmt arm_instance_property sp0 sp1 sp2 sp3 s p) =
    Some (TBox2 Inheritance (TSet SetExtension [vs]) (TSet SetIntension [vp])).
Proof. intros Hs Hp. cbn [odesugar arm_instance_property nth_error parse_statement_arms]. rewrite Hs, Hp. reflexivity. Qed.

Lemma odesugar_equiv_retro sp0 sp1 sp2 sp3 s p vs vp :
  odesugar s = Some vs -> odesugar p = Some vp ->
  odesugar (SStmt arm_equiv_retro sp0 sp1 sp2 sp3 s p) = Some (TBox2 EquivalencePredictive vp vs).
Proof. intros Hs Hp. cbn [odesugar arm_equiv_retro nth_error parse_statement_arms]. rewrite Hs, Hp. reflexivity. Qed.

Lemma odesugar_image (ext : bool) sp0 gaps items sp1 pre post :
  omap odesugar items = Some (pre ++ placeholder :: post) ->
  forallb (fun x => negb (term_eqb x placeholder)) pre = true ->
  odesugar (SComp (if ext then arm_image_ext else arm_image_int) sp0 gaps items sp1) =
    Some (TImg (if ext then ImageExtension else ImageIntension) (N.of_nat (length pre)) (pre ++ post)).
Proof.
  intros Hitems Hpre. cbn [odesugar]. rewrite Hitems.
  assert (Hne : exists x ts, pre ++ placeholder :: post = x :: ts) by (destruct pre; cbn [app]; eauto).
  destruct Hne as (x & ts & Hne). rewrite Hne.
  destruct ext; cbn [arm_image_ext arm_image_int nth_error parse_compound_arms]; rewrite <- Hne; now apply fill_pure_image.
Qed.

Lemma odesugar_interval name n :
  name <> [] -> read_usize name = Some n -> odesugar (SAtom arm_interval name) = Some (TNum Interval n).
Proof.
  intros Hne Hr. cbn [odesugar arm_interval nth_error parse_atom_arms]. unfold atom_value.
  destruct name as [|c name]; [congruence|]. unfold set_atom_name. cbn [atom_of_init setnamek_of].
  replace (setnamek_num Interval) with SnParseUInt by reflexivity. now rewrite Hr.
Qed.

Lemma odesugar_interval_show n : (n <= usize_max)%N -> odesugar (SAtom arm_interval (show_N n)) = Some (TNum Interval n).
Proof. intros Hn. apply odesugar_interval; [apply show_N_not_nil | now apply read_usize_show]. Qed.

Lemma odesugar_placeholder name : odesugar (SAtom arm_placeholder name) = Some placeholder.
Proof. reflexivity. Qed.

Section Cor.
  Variable F : Type.
  Variable is_alnum : N -> bool.
  Variable E : efmt.
  Hypothesis Hok : parse_ok E = true.

  (* ---------------------------------------------------------------------------------------- *)
  (* (a) the fuel of parse_term is always enough                                                *)
  (* ---------------------------------------------------------------------------------------- *)
  Lemma sdepth_le_render t : (sdepth t <= S (length (render E t)))%nat.
  Proof.
    induction t as [arm name|ext sp0 gaps items sp1 IH|arm sp0 gaps items sp1 IH|arm sp0 sp1 sp2 sp3 s p IHs IHp] using sterm_ind';
      cbn [sdepth render].
    - lia.
    - assert (Hlb : (0 < length (set_lb E ext))%nat).
      { destruct ext; cbn [set_lb]; apply ne_len_pos; [apply (xlb_ne E Hok) | apply (ilb_ne E Hok)]. }
      rewrite !app_length. rewrite Forall_forall in IH.
      pose proof (fold_max_le sdepth (S (length (render_items E (render E) gaps false 0 items))) items) as Hm.
      assert (Hall : forall x, In x items -> (sdepth x <= S (length (render_items E (render E) gaps false 0 items)))%nat).
      { intros x Hx. specialize (IH x Hx). pose proof (render_items_In_le E (render E) gaps x items false 0%nat Hx). lia. }
      specialize (Hm Hall). lia.
    - pose proof (ne_len_pos _ (clb_ne E Hok)) as Hlb.
      rewrite !app_length. rewrite Forall_forall in IH.
      pose proof (fold_max_le sdepth (S (length (render_items E (render E) gaps true 0 items))) items) as Hm.
      assert (Hall : forall x, In x items -> (sdepth x <= S (length (render_items E (render E) gaps true 0 items)))%nat).
      { intros x Hx. specialize (IH x Hx). pose proof (render_items_In_le E (render E) gaps x items true 0%nat Hx). lia. }
      specialize (Hm Hall). lia.
    - pose proof (ne_len_pos _ (slb_ne E Hok)) as Hlb. rewrite !app_length. lia.
  Qed.

  Theorem parse_term_render : forall t v k L (st : pstate F),
    odesugar t = Some v -> unamb is_alnum E t k = true ->
    wf F L st -> s_rest st = render E t ++ k ->
    parse_term F is_alnum E st = POk v (step F (length (render E t)) st).
  Proof.
    intros t v k L st Hv Hu Hwf Hrest. unfold parse_term.
    apply (p_term_render F is_alnum E Hok t v k L st _ Hv Hu Hwf Hrest).
    unfold term_fuel. rewrite Hrest, app_length. pose proof (sdepth_le_render t). lia.
  Qed.

  (* the item parser of the sentence level: the value is stored in the term slot, nothing else changes *)
  Corollary consume_term_render : forall t v k L (st : pstate F),
    odesugar t = Some v -> unamb is_alnum E t k = true ->
    wf F L st -> s_rest st = render E t ++ k ->
    consume_term F is_alnum E st =
      POk tt (set_mid F (step F (length (render E t)) st) (mid_set_term F (s_mid st) v)).
  Proof.
    intros t v k L st Hv Hu Hwf Hrest. unfold consume_term.
    rewrite (parse_term_render t v k L st Hv Hu Hwf Hrest). reflexivity.
  Qed.

  (* from a fresh state on exactly the text of t: everything is consumed *)
  Corollary parse_term_whole : forall t v,
    odesugar t = Some v -> unamb is_alnum E t [] = true ->
    exists st', parse_term F is_alnum E (new_state F (render E t)) = POk v st' /\ s_rest st' = [].
  Proof.
    intros t v Hv Hu. eexists. split.
    - apply (parse_term_render t v [] _ _ Hv Hu (wf_new_state F _)). cbn [new_state s_rest]. now rewrite app_nil_r.
    - cbn [step s_rest new_state]. rewrite <- (app_nil_r (render E t)) at 2. apply drop_app_length.
  Qed.

  (* ---------------------------------------------------------------------------------------- *)
  (* (b) C09, term level: spacing never changes the parsed value                                *)
  (* ---------------------------------------------------------------------------------------- *)
  Theorem respacing_same_value : forall t1 t2 v k1 k2 L1 L2 (st1 st2 : pstate F),
    same_shape t1 t2 -> odesugar t1 = Some v ->
    unamb is_alnum E t1 k1 = true -> unamb is_alnum E t2 k2 = true ->
    wf F L1 st1 -> s_rest st1 = render E t1 ++ k1 ->
    wf F L2 st2 -> s_rest st2 = render E t2 ++ k2 ->
    parse_term F is_alnum E st1 = POk v (step F (length (render E t1)) st1) /\
    parse_term F is_alnum E st2 = POk v (step F (length (render E t2)) st2).
  Proof.
    intros t1 t2 v k1 k2 L1 L2 st1 st2 Hs Hv Hu1 Hu2 Hwf1 Hr1 Hwf2 Hr2. split.
    - exact (parse_term_render t1 v k1 L1 st1 Hv Hu1 Hwf1 Hr1).
    - apply (parse_term_render t2 v k2 L2 st2); auto. now rewrite <- (same_shape_meaning t1 t2 Hs).
  Qed.

  (* the same tree with n spaces at every token boundary (n = 0: all spaces removed) *)
  Corollary respace_same_value : forall n t v k1 k2 L1 L2 (st1 st2 : pstate F),
    odesugar t = Some v ->
    unamb is_alnum E t k1 = true -> unamb is_alnum E (respace n t) k2 = true ->
    wf F L1 st1 -> s_rest st1 = render E t ++ k1 ->
    wf F L2 st2 -> s_rest st2 = render E (respace n t) ++ k2 ->
    parse_term F is_alnum E st1 = POk v (step F (length (render E t)) st1) /\
    parse_term F is_alnum E st2 = POk v (step F (length (render E (respace n t))) st2).
  Proof.
    intros n t v k1 k2 L1 L2 st1 st2 Hv Hu1 Hu2 Hwf1 Hr1 Hwf2 Hr2.
    apply (respacing_same_value t (respace n t) v k1 k2 L1 L2 st1 st2); auto.
    unfold same_shape. now rewrite erase_respace.
  Qed.

  (* ---------------------------------------------------------------------------------------- *)
  (* (c) C10, term level                                                                        *)
  (* ---------------------------------------------------------------------------------------- *)
  Notation stmt_text cop sp0 sp1 sp2 sp3 s p :=
    (statement_brackets_0 E ++ sp E sp0 ++ render E s ++ sp E sp1 ++ cop ++ sp E sp2 ++ render E p ++ sp E sp3 ++ statement_brackets_1 E).

  Theorem instance_parses : forall sp0 sp1 sp2 sp3 s p vs vp k L (st : pstate F),
    odesugar s = Some vs -> odesugar p = Some vp ->
    unamb is_alnum E (SStmt arm_instance sp0 sp1 sp2 sp3 s p) k = true ->
    wf F L st -> s_rest st = stmt_text (statement_copula_instance E) sp0 sp1 sp2 sp3 s p ++ k ->
    parse_term F is_alnum E st =
      POk (TBox2 Inheritance (TSet SetExtension [vs]) vp)
          (step F (length (stmt_text (statement_copula_instance E) sp0 sp1 sp2 sp3 s p)) st).
  Proof.
    intros sp0 sp1 sp2 sp3 s p vs vp k L st Hs Hp Hu Hwf Hrest.
    exact (parse_term_render (SStmt arm_instance sp0 sp1 sp2 sp3 s p) _ k L st (odesugar_instance _ _ _ _ s p vs vp Hs Hp) Hu Hwf Hrest).
  Qed.

  Theorem property_parses : forall sp0 sp1 sp2 sp3 s p vs vp k L (st : pstate F),
    odesugar s = Some vs -> odesugar p = Some vp ->
    unamb is_alnum E (SStmt arm_property sp0 sp1 sp2 sp3 s p) k = true ->
    wf F L st -> s_rest st = stmt_text (statement_copula_property E) sp0 sp1 sp2 sp3 s p ++ k ->
    parse_term F is_alnum E st =
      POk (TBox2 Inheritance vs (TSet SetIntension [vp]))
          (step F (length (stmt_text (statement_copula_property E) sp0 sp1 sp2 sp3 s p)) st).
  Proof.
    intros sp0 sp1 sp2 sp3 s p vs vp k L st Hs Hp Hu Hwf Hrest.
    exact (parse_term_render (SStmt arm_property sp0 sp1 sp2 sp3 s p) _ k L st (odesugar_property _ _ _ _ s p vs vp Hs Hp) Hu Hwf Hrest).
  Qed.

  Theorem instance_property_parses : forall sp0 sp1 sp2 sp3 s p vs vp k L (st : pstate F),
    odesugar s = Some vs -> odesugar p = Some vp ->
    unamb is_alnum E (SStmt arm_instance_property sp0 sp1 sp2 sp3 s p) k = true ->
    wf F L st -> s_rest st = stmt_text (statement_copula_instance_property E) sp0 sp1 sp2 sp3 s p ++ k ->
    parse_term F is_alnum E st =
      POk (TBox2 Inheritance (TSet SetExtension [vs]) (TSet SetIntension [vp]))
          (step F (length (stmt_text (statement_copula_instance_property E) sp0 sp1 sp2 sp3 s p)) st).
  Proof.
    intros sp0 sp1 sp2 sp3 s p vs vp k L st Hs Hp Hu Hwf Hrest.
    exact (parse_term_render (SStmt arm_instance_property sp0 sp1 sp2 sp3 s p) _ k L st
             (odesugar_instance_property _ _ _ _ s p vs vp Hs Hp) Hu Hwf Hrest).
  Qed.

  Theorem equiv_retro_parses : forall sp0 sp1 sp2 sp3 s p vs vp k L (st : pstate F),
    odesugar s = Some vs -> odesugar p = Some vp ->
    unamb is_alnum E (SStmt arm_equiv_retro sp0 sp1 sp2 sp3 s p) k = true ->
    wf F L st -> s_rest st = stmt_text (statement_copula_equivalence_retrospective E) sp0 sp1 sp2 sp3 s p ++ k ->
    parse_term F is_alnum E st =
      POk (TBox2 EquivalencePredictive vp vs)
          (step F (length (stmt_text (statement_copula_equivalence_retrospective E) sp0 sp1 sp2 sp3 s p)) st).
  Proof.
    intros sp0 sp1 sp2 sp3 s p vs vp k L st Hs Hp Hu Hwf Hrest.
    exact (parse_term_render (SStmt arm_equiv_retro sp0 sp1 sp2 sp3 s p) _ k L st
             (odesugar_equiv_retro _ _ _ _ s p vs vp Hs Hp) Hu Hwf Hrest).
  Qed.

  Notation image_text con sp0 gaps items sp1 :=
    (compound_brackets_0 E ++ sp E sp0 ++ con ++ render_items E (render E) gaps true 0 items ++ sp E sp1 ++ compound_brackets_1 E).

  (* the index is the position of the FIRST placeholder; the other components keep their order *)
  Theorem image_parses : forall (ext : bool) sp0 gaps items sp1 pre post k L (st : pstate F),
    omap odesugar items = Some (pre ++ placeholder :: post) ->
    forallb (fun x => negb (term_eqb x placeholder)) pre = true ->
    unamb is_alnum E (SComp (if ext then arm_image_ext else arm_image_int) sp0 gaps items sp1) k = true ->
    wf F L st ->
    s_rest st = image_text (if ext then compound_connecter_image_extension E else compound_connecter_image_intension E)
                           sp0 gaps items sp1 ++ k ->
    parse_term F is_alnum E st =
      POk (TImg (if ext then ImageExtension else ImageIntension) (N.of_nat (length pre)) (pre ++ post))
          (step F (length (image_text (if ext then compound_connecter_image_extension E else compound_connecter_image_intension E)
                                      sp0 gaps items sp1)) st).
  Proof.
    intros ext sp0 gaps items sp1 pre post k L st Hitems Hpre Hu Hwf Hrest.
    pose proof (odesugar_image ext sp0 gaps items sp1 pre post Hitems Hpre) as Hv.
    destruct ext; exact (parse_term_render _ _ k L st Hv Hu Hwf Hrest).
  Qed.

  (* an interval atom denotes its decimal value *)
  Theorem interval_parses : forall name n k L (st : pstate F),
    name <> [] -> read_usize name = Some n ->
    unamb is_alnum E (SAtom arm_interval name) k = true ->
    wf F L st -> s_rest st = (atom_prefix_interval E ++ name) ++ k ->
    parse_term F is_alnum E st = POk (TNum Interval n) (step F (length (atom_prefix_interval E ++ name)) st).
  Proof.
    intros name n k L st Hne Hr Hu Hwf Hrest.
    exact (parse_term_render (SAtom arm_interval name) _ k L st (odesugar_interval name n Hne Hr) Hu Hwf Hrest).
  Qed.

  (* a placeholder is the same placeholder whatever follows its prefix *)
  Theorem placeholder_parses : forall name k L (st : pstate F),
    unamb is_alnum E (SAtom arm_placeholder name) k = true ->
    wf F L st -> s_rest st = (atom_prefix_placeholder E ++ name) ++ k ->
    parse_term F is_alnum E st = POk placeholder (step F (length (atom_prefix_placeholder E ++ name)) st).
  Proof.
    intros name k L st Hu Hwf Hrest.
    exact (parse_term_render (SAtom arm_placeholder name) _ k L st (odesugar_placeholder name) Hu Hwf Hrest).
  Qed.

  (* the name scan always stops in front of a copula of the statement arms (so a subject written
     directly before its copula satisfies the stop condition of unamb) *)
  Lemma stop_ok_copula arm r : nth_error parse_statement_arms arm <> None -> stop_ok is_alnum E (stmt_kw E arm ++ r) = true.
  Proof.
    unfold stmt_kw. destruct (nth_error parse_statement_arms arm) as [[kw b]|] eqn:Hn; [intros _|congruence].
    pose proof (pk_copulas E Hok) as H. rewrite forallb_forall in H. specialize (H _ (nth_error_In _ _ Hn)). cbn [fst] in H.
    apply andb_true_iff in H as [Hin Hne]. apply existsb_exists in Hin as (c & Hc & Heq). apply str_eqb_eq in Heq. subst c.
    destruct (kw E ++ r) as [|c0 r0] eqn:Hkr; [reflexivity|]. cbn [stop_ok]. apply orb_true_iff. left. rewrite <- Hkr.
    unfold copula_head_str. apply existsb_exists. exists (kw E). split; [exact Hc|].
    apply andb_true_iff. split.
    - destruct copula_lookahead_len_guard; [|reflexivity]. apply Nat.leb_le. rewrite app_length. lia.
    - unfold starts_with_str. destruct (kw E) as [|x kwr] eqn:Hk; [reflexivity|]. cbn [app].
      clear. revert x r. induction kwr as [|y kwr IH]; intros x r; cbn [app sws]; rewrite N.eqb_refl; [now destruct r | apply IH].
  Qed.
End Cor.

(* ------------------------------------------------------------------------------------------ *)
(* (d) non-vacuity: concrete surface trees satisfying every hypothesis, in every shipped format  *)
(* ------------------------------------------------------------------------------------------ *)
Definition ex_alnum (c : N) : bool := in_ranges alnum_ranges c.

(* <{robin} instance-copula (/, _placeholder, tim, $x)>-like tree over ASCII names, with an
   instance-property statement, an interval and a negation inside a set *)
Definition ex_tree (n : nat) : sterm :=
  SStmt arm_instance n n n n
    (SSet true n (fun _ => (n, n)) [SAtom arm_word [114; 111; 98]%N; SAtom 1 [120]%N] n)
    (SComp arm_image_ext n (fun _ => (n, n))
       [SAtom arm_word [116; 105; 109]%N; SAtom arm_placeholder []; SAtom arm_interval [52; 50]%N;
        SStmt arm_equiv_retro n n n n (SAtom arm_word [97]%N)
              (SComp 2 n (fun _ => (n, n)) [SSet false n (fun _ => (n, n)) [SAtom 5 [103; 111]%N] n] n)] n).

(* the remaining sugar: property and instance-property copulas, intension image, a placeholder
   written with a name after its prefix (first of two placeholders), a query variable, a product *)
Definition ex_tree2 (n : nat) : sterm :=
  SStmt arm_instance_property n n n n
    (SStmt arm_property n n n n (SAtom arm_word [99; 45; 100]%N) (SAtom 3 [113]%N))
    (SComp arm_image_int n (fun i => (i, n))
       [SAtom arm_placeholder [97; 98; 99]%N; SComp 9 n (fun _ => (n, n)) [SAtom arm_word [117]%N; SAtom 2 [49]%N] n;
        SAtom arm_placeholder []] n).

Definition res_val {F A} (r : pres F A) : option A := match r with POk v _ => Some v | _ => None end.
Definition res_rest {F A} (r : pres F A) : option str := match r with POk _ st => Some (s_rest st) | _ => None end.

Definition ex_check (E : efmt) (t : sterm) : bool :=
  parse_ok E && unamb ex_alnum E t [] &&
  match odesugar t with
  | Some v =>
      match res_val (parse_term unit ex_alnum E (new_state unit (render E t))) with
      | Some v' => term_eqb v v'
      | None => false
      end
  | None => false
  end.

(* zero spaces everywhere, one space, three spaces: all hypotheses hold and (re-computed) the parse agrees *)
Example ex_hypotheses_satisfiable :
  forallb (fun E => ex_check E (ex_tree 0) && ex_check E (ex_tree 1) && ex_check E (ex_tree 3)) shipped_formats = true.
Proof. vm_compute. reflexivity. Qed.

Example ex_meaning :
  odesugar (ex_tree 2) =
    Some (TBox2 Inheritance
            (TSet SetExtension [TSet SetExtension [TName Word [114; 111; 98]%N; TName VariableIndependent [120]%N]])
            (TImg ImageExtension 1
               [TName Word [116; 105; 109]%N; TNum Interval 42;
                TBox2 EquivalencePredictive (TBox1 Negation (TSet SetIntension [TName Operator [103; 111]%N])) (TName Word [97]%N)])).
Proof. vm_compute. reflexivity. Qed.

Example ex_hypotheses_satisfiable2 :
  forallb (fun E => ex_check E (ex_tree2 0) && ex_check E (ex_tree2 2)) shipped_formats = true.
Proof. vm_compute. reflexivity. Qed.

Example ex_meaning2 :
  odesugar (ex_tree2 1) =
    Some (TBox2 Inheritance
            (TSet SetExtension [TBox2 Inheritance (TName Word [99; 45; 100]%N) (TSet SetIntension [TName VariableQuery [113]%N])])
            (TSet SetIntension
               [TImg ImageIntension 0
                  [TVec Product [TName Word [117]%N; TName VariableDependent [49]%N]; TUnit Placeholder]])).
Proof. vm_compute. reflexivity. Qed.

(* why unamb cannot be dropped: in Han two DIFFERENT surface trees have the SAME text
   (name `a具` + copula `有`  vs.  name `a` + copula `具有`); unamb accepts exactly the reading the parser takes;
   with one space after the name the first reading becomes unambiguous *)
Example ex_han_same_text :
  let t1 := SStmt arm_property 0 0 0 0 (SAtom arm_word [97; 20855]%N) (SAtom arm_word [20540]%N) in
  let t2 := SStmt arm_instance_property 0 0 0 0 (SAtom arm_word [97]%N) (SAtom arm_word [20540]%N) in
  let t1' := SStmt arm_property 0 1 0 0 (SAtom arm_word [97; 20855]%N) (SAtom arm_word [20540]%N) in
  render FORMAT_HAN t1 = render FORMAT_HAN t2 /\ odesugar t1 <> odesugar t2 /\
  unamb ex_alnum FORMAT_HAN t1 [] = false /\ unamb ex_alnum FORMAT_HAN t2 [] = true /\
  unamb ex_alnum FORMAT_HAN t1' [] = true.
Proof. vm_compute. repeat split; discriminate. Qed.

(* a name that is NOT unambiguous in Han: it contains the inheritance copula, the scan would cut it *)
Example ex_unamb_rejects :
  unamb ex_alnum FORMAT_HAN (SAtom arm_word [97; 26159; 98]%N) [] = false /\
  unamb ex_alnum FORMAT_ASCII (SAtom arm_word [97; 26159; 98]%N) [] = true.
Proof. vm_compute. split; reflexivity. Qed.
