(* Proofs/EnumSentP.v -- sentence/task level correctness of the enum parser model, on top of the
   term-level statement [TermParses] (Model/SstSent.v), which is a HYPOTHESIS here (proved elsewhere).

   parse_narsese_render:  sent_ok E -> odesugar_narsese s = Some v -> sent_unamb s ->
                          parse_narsese E (render_narsese E s) = POk v _
   for every surface input s, i.e. for every spacing annotation, every combination of written items,
   every number text.  Corollaries: spacing does not matter (C09), the kind of the result is decided
   by the items written (C15), format(cast_to_task s) parses to a task with an empty budget (C15), the
   formatter prints a canonical surface input and format-then-parse is the identity at sentence/task
   level given the term-level facts (C01).

   Float oracles (hypotheses where used):  fread [] = None  (f64::from_str rejects the empty string),
   in01 fzero  (0.0 is in [0,1]),  H_rt / H_cs  (Rust's shortest-round-trip Display/FromStr for
   non-negative finite f64: printing a number of [0,1] gives a non-empty string of digits and dots
   that reads back as the same number). *)
From Nv Require Import Model.SstSent Proofs.EnumTotalP Proofs.EnumParseP.

(* ---------------- strings ---------------- *)
Lemma diverge_starts a : forall b k, diverge a b = true -> starts a (b ++ k) = false.
Proof.
  induction a as [|x a IH]; intros [|y b] k; cbn [diverge starts app]; try discriminate.
  destruct (N.eqb_spec x y) as [->|Hne]; cbn [andb]; [apply IH | reflexivity].
Qed.

Lemma diverge_starts0 a b : diverge a b = true -> starts a b = false.
Proof. intros H. rewrite <- (app_nil_r b). now apply diverge_starts. Qed.

Lemma first_not_starts p kw c r : first_not p kw = true -> kw <> [] -> p c = true -> starts kw (c :: r) = false.
Proof.
  destruct kw as [|x kw]; [congruence|]. cbn [first_not starts]. intros Hn _ Hc.
  destruct (N.eqb_spec x c) as [->|]; [|reflexivity]. rewrite Hc in Hn. discriminate.
Qed.

Lemma first_not_app p kw k : first_not p kw = true -> kw <> [] -> first_not p (kw ++ k) = true.
Proof. destruct kw; [congruence|]. cbn. auto. Qed.

Lemma drop_drop {A} a : forall b (l : list A), drop b (drop a l) = drop (a + b) l.
Proof.
  induction a as [|a IH]; intros b l; [reflexivity|].
  destruct l as [|x l]; cbn [drop Nat.add]; [now rewrite drop_nil | apply IH].
Qed.

Lemma rep_add n m s : rep (n + m) s = rep n s ++ rep m s.
Proof. induction n as [|n IH]; cbn [rep Nat.add app]; [reflexivity|]. now rewrite IH, app_assoc. Qed.

Lemma nonempty_ne s : nonempty s = true -> s <> [].
Proof. destruct s; [discriminate | congruence]. Qed.

Lemma all_arms_nth {A} (arms : list A) f i x : all_arms arms f = true -> nth_error arms i = Some x -> f i = true.
Proof.
  unfold all_arms. rewrite forallb_forall. intros H Hn. apply H, in_seq.
  assert (i < length arms)%nat by (apply nth_error_Some; congruence). lia.
Qed.

Lemma omap_length {A B} (f : A -> option B) l : forall r, omap f l = Some r -> length r = length l.
Proof.
  induction l as [|x l IH]; cbn [omap]; intros r H; [injection H as <-; reflexivity|].
  destruct (f x); [|discriminate]. destruct (omap f l) as [ys|]; [|discriminate].
  injection H as <-. cbn. f_equal. now apply IH.
Qed.

Section Sent.
  Variable F : Type.
  Variable fread : str -> option F.
  Variable fzero : F.
  Variable in01 : F -> bool.
  Variable is_alnum : N -> bool.
  Variable E : efmt.
  Hypothesis Hsok : sent_ok E = true.

  Notation pstate := (pstate F).
  Notation pres := (pres F).
  Notation mid := (mid F).
  Notation wf := (wf F).
  Notation sp := (sp E).
  Notation space := (space_parse E).

  (* ---- the side condition unpacked ---- *)
  Ltac sok := unfold sent_ok in Hsok; rewrite !andb_true_iff in Hsok; tauto.
  Lemma sk_total : total_ok E = true. Proof. sok. Qed.
  Lemma sk_facts : state_facts_ok = true. Proof. sok. Qed.
  Lemma sk_fixed_spaces : stamp_fixed_skip_spaces = true. Proof. sok. Qed.
  Lemma sk_space_float : first_not is_float_char space = true. Proof. sok. Qed.
  Lemma sk_space_int : first_not is_int_char space = true. Proof. sok. Qed.
  Lemma sk_budget_list : numlist_ok E (task_budget_separator E) (task_budget_brackets_1 E) = true. Proof. sok. Qed.
  Lemma sk_truth_list : numlist_ok E (sentence_truth_separator E) (sentence_truth_brackets_1 E) = true. Proof. sok. Qed.
  Lemma sk_punct_same : forallb (fun x => str_eqb (fst (fst x) E) (snd (fst x) E)) punct_arms = true. Proof. sok. Qed.
  Lemma sk_stamp_same : forallb (fun x => str_eqb (fst (fst x) E) (snd (fst x) E)) stamp_arms = true. Proof. sok. Qed.
  Lemma sk_punct_sep : arms_sep E (map (fun x => (fst (fst x), (snd (fst x), snd x))) punct_arms) = true. Proof. sok. Qed.
  Lemma sk_stamp_sep : arms_sep E (map (fun x => (fst (fst x), (snd (fst x), snd x))) stamp_arms) = true. Proof. sok. Qed.
  Lemma sk_sp_b0 : diverge space (task_budget_brackets_0 E) = true. Proof. sok. Qed.
  Lemma sk_sp_t0 : diverge space (sentence_truth_brackets_0 E) = true. Proof. sok. Qed.
  Lemma sk_sp_punct : all_arms punct_arms (fun i => diverge space (punct_kw E i)) = true. Proof. sok. Qed.
  Lemma sk_sp_stamp : all_arms stamp_arms (fun i => diverge space (stamp_first E i)) = true. Proof. sok. Qed.
  Lemma sk_sp_marker : all_arms stamp_arms (fun i => diverge space (stamp_marker E i)) = true. Proof. sok. Qed.
  Lemma sk_b0_punct : all_arms punct_arms (fun i => diverge (task_budget_brackets_0 E) (punct_kw E i)) = true. Proof. sok. Qed.
  Lemma sk_b0_stamp : all_arms stamp_arms (fun i => diverge (task_budget_brackets_0 E) (stamp_first E i)) = true. Proof. sok. Qed.
  Lemma sk_b0_t0 : diverge (task_budget_brackets_0 E) (sentence_truth_brackets_0 E) = true. Proof. sok. Qed.
  Lemma sk_punct_stamp :
    all_arms punct_arms (fun i => all_arms stamp_arms (fun j => diverge (punct_kw E i) (stamp_first E j))) = true.
  Proof. sok. Qed.
  Lemma sk_punct_t0 : all_arms punct_arms (fun i => diverge (punct_kw E i) (sentence_truth_brackets_0 E)) = true. Proof. sok. Qed.
  Lemma sk_stamp_t0 : stamp_clear E (sentence_truth_brackets_0 E) = true. Proof. sok. Qed.
  Lemma sk_stamp_rb :
    match sentence_stamp_brackets_1 E with
    | [] => first_not is_int_char (sentence_truth_brackets_0 E)
    | b => diverge space b && first_not is_int_char b
    end = true.
  Proof. sok. Qed.

  Ltac tok H := pose proof sk_total as H; unfold total_ok in H; rewrite !andb_true_iff in H.
  Lemma space_ne : space <> [].
  Proof. tok H. apply nonempty_ne; tauto. Qed.
  Lemma bsep_ne : task_budget_separator E <> [].
  Proof. tok H. apply nonempty_ne; tauto. Qed.
  Lemma tsep_ne : sentence_truth_separator E <> [].
  Proof. tok H. apply nonempty_ne; tauto. Qed.
  Lemma b0_ne : task_budget_brackets_0 E <> [].
  Proof. tok H. apply nonempty_ne; tauto. Qed.
  Lemma t0_ne : sentence_truth_brackets_0 E <> [].
  Proof. tok H. apply nonempty_ne; tauto. Qed.
  Lemma punct_ne : forallb (fun x => nonempty (snd (fst x) E)) punct_arms = true.
  Proof. tok H. tauto. Qed.
  Lemma stamp_ne : forallb (fun x => nonempty (snd (fst x) E)) stamp_arms = true.
  Proof. tok H. tauto. Qed.
  Lemma ne_length (s : str) : s <> [] -> (0 < length s)%nat.
  Proof. destruct s; [congruence | cbn; lia]. Qed.

  Definition nsp (B : str) : Prop := starts space B = false.

  Lemma nsp_nil : nsp [].
  Proof. unfold nsp. pose proof space_ne. destruct space; [congruence | reflexivity]. Qed.
  Lemma nsp_div kw k : diverge space kw = true -> nsp (kw ++ k).
  Proof. apply diverge_starts. Qed.

  Lemma sp_add a b : sp (a + b) = sp a ++ sp b.
  Proof. apply rep_add. Qed.
  Lemma sp_S a : sp (S a) = space ++ sp a.
  Proof. reflexivity. Qed.
  Lemma sp_length_ge a : (a <= length (sp a))%nat.
  Proof.
    pose proof (ne_length _ space_ne). induction a as [|a IH]; [cbn; lia|].
    rewrite sp_S, app_length. lia.
  Qed.

  (* ---- cursor facts ---- *)
  Lemma pstate_eq (st st' : pstate) :
    s_len st = s_len st' -> s_head st = s_head st' -> s_rest st = s_rest st' -> s_mid st = s_mid st' -> st = st'.
  Proof. destruct st, st'; cbn; intros; subst; reflexivity. Qed.

  Lemma st_starts_true_starts kw (st : pstate) : st_starts F kw st = true -> starts kw (s_rest st) = true.
  Proof. unfold st_starts. destruct (Nat.ltb _ _); [discriminate | auto]. Qed.
  Lemma st_starts_false kw (st : pstate) : starts kw (s_rest st) = false -> st_starts F kw st = false.
  Proof. intros H. destruct (st_starts F kw st) eqn:Hs; [|reflexivity]. apply st_starts_true_starts in Hs. congruence. Qed.

  Lemma head_lt L (st : pstate) : wf L st -> s_rest st <> [] -> (s_head st < L)%nat.
  Proof. intros [_ Hr] Hne. destruct (s_rest st); [congruence|]. cbn in Hr. lia. Qed.

  Lemma st_starts_app L kw k (st : pstate) :
    wf L st -> s_rest st = kw ++ k -> (s_head st <= L)%nat -> st_starts F kw st = true.
  Proof.
    intros [Hl Hr] Hrest Hh. unfold st_starts. rewrite Hrest in Hr. rewrite app_length in Hr.
    destruct (Nat.ltb_spec (s_len st) (s_head st + length kw)); [lia|]. rewrite Hrest. apply starts_app.
  Qed.
  Lemma st_starts_app_ne L kw k (st : pstate) :
    wf L st -> s_rest st = kw ++ k -> kw <> [] -> st_starts F kw st = true.
  Proof.
    intros Hwf Hrest Hne. eapply st_starts_app; eauto.
    assert (s_head st < L)%nat; [|lia]. apply head_lt; [assumption|]. rewrite Hrest. destruct kw; [congruence | discriminate].
  Qed.

  Lemma can_consume_ne L (st : pstate) : wf L st -> s_rest st <> [] -> can_consume F st = true.
  Proof. intros Hwf Hne. pose proof (head_lt L st Hwf Hne). destruct Hwf as [Hl _]. unfold can_consume. apply Nat.ltb_lt. lia. Qed.
  Lemma can_consume_nil L (st : pstate) : wf L st -> s_rest st = [] -> can_consume F st = false.
  Proof. intros [Hl Hr] Hn. rewrite Hn in Hr. cbn in Hr. unfold can_consume. apply Nat.ltb_ge. lia. Qed.

  Lemma rest_step p r (st : pstate) : s_rest st = p ++ r -> s_rest (step F (length p) st) = r.
  Proof. intros H. cbn [step s_rest]. rewrite H. apply drop_app_length. Qed.
  Lemma rest_skip p r (st : pstate) : s_rest st = p ++ r -> s_rest (skip F p st) = r.
  Proof. apply rest_step. Qed.

  Lemma step_0 (st : pstate) : step F 0 st = st.
  Proof. apply pstate_eq; cbn; auto. Qed.
  Lemma restore_same (st : pstate) : restore F st st = st.
  Proof. apply pstate_eq; reflexivity. Qed.

  (* [at_ L st txt m]: a consistent cursor standing before txt, with mid result m *)
  Definition at_ (L : nat) (st : pstate) (txt : str) (m : mid) : Prop :=
    wf L st /\ s_rest st = txt /\ s_mid st = m.

  Lemma at_skip L st kw k m : at_ L st (kw ++ k) m -> at_ L (skip F kw st) k m.
  Proof. intros (Hwf & Hr & Hm). split; [apply wf_skip, Hwf | split; [now apply rest_skip | exact Hm]]. Qed.

  (* all the spaces written are skipped, and the scan stops where something else begins *)
  Lemma skip_spaces_fuel_sp L j : forall n st B m,
    (j <= n)%nat -> at_ L st (sp j ++ B) m -> nsp B -> at_ L (skip_spaces_fuel F E n st) B m.
  Proof.
    induction j as [|j IH]; intros n st B m Hn Hat HB.
    - cbn in Hat. destruct n; cbn [skip_spaces_fuel]; [exact Hat|].
      destruct Hat as (Hwf & Hr & Hm). rewrite st_starts_false; [split; [exact Hwf | now split] | now rewrite Hr].
    - destruct n as [|n]; [lia|]. cbn [skip_spaces_fuel]. rewrite sp_S, <- app_assoc in Hat.
      destruct Hat as (Hwf & Hr & Hm).
      rewrite (st_starts_app_ne L _ _ st Hwf Hr space_ne).
      apply IH; [lia | apply at_skip; split; [exact Hwf | now split] | exact HB].
  Qed.
  Lemma skip_spaces_sp L j st B m : at_ L st (sp j ++ B) m -> nsp B -> at_ L (skip_spaces F E st) B m.
  Proof.
    intros Hat HB. unfold skip_spaces. apply (skip_spaces_fuel_sp L j); [|exact Hat | exact HB].
    destruct Hat as (_ & -> & _). rewrite app_length. pose proof (sp_length_ge j). lia.
  Qed.
  Lemma skip_spaces_none L st B m : at_ L st B m -> nsp B -> skip_spaces F E st = st.
  Proof.
    intros (Hwf & Hr & Hm) HB. unfold skip_spaces. destruct (length (s_rest st)); cbn [skip_spaces_fuel]; [reflexivity|].
    rewrite st_starts_false; [reflexivity | now rewrite Hr].
  Qed.

  Lemma at_head_le L st st' txt m txt' m' : at_ L st txt m -> at_ L st' txt' m' ->
    (length txt' <= length txt)%nat -> txt' <> [] -> (s_head st <= s_head st')%nat.
  Proof.
    intros ((_ & Hr) & Ht & _) ((_ & Hr') & Ht' & _) Hle Hne. rewrite Ht in Hr. rewrite Ht' in Hr'.
    destruct txt'; [congruence|]. cbn in *. lia.
  Qed.

  (* ---------------- number lists: parse_separated_floats on a written list ---------------- *)
  Hypothesis H_empty : fread [] = None.      (* "".parse::<f64>() is an error *)
  Hypothesis H_zero : in01 fzero = true.     (* 0.0 is in [0,1]: the padding of the number array passes the range test *)

  Lemma read_num_spec x y : read_num F fread in01 x = Some y ->
    Forall (fun c => is_float_char c = true) x /\ fread x = Some y /\ in01 y = true /\ x <> [].
  Proof.
    unfold read_num. destruct (forallb is_float_char x) eqn:Hf; [|discriminate].
    destruct (fread x) as [v|] eqn:Hr; [|discriminate]. destruct (in01 v) eqn:Hi; [|discriminate].
    intros H; injection H as <-. repeat split; auto.
    - apply forallb_Forall_iff, Hf.
    - intros ->. congruence.
  Qed.

  Lemma omap_read_in01 texts : forall vs, omap (read_num F fread in01) texts = Some vs -> forallb in01 vs = true.
  Proof.
    induction texts as [|x texts IH]; cbn [omap]; intros vs H; [injection H as <-; reflexivity|].
    destruct (read_num F fread in01 x) as [y|] eqn:Hx; [|discriminate].
    destruct (omap _ texts) as [ys|]; [|discriminate]. injection H as <-.
    apply read_num_spec in Hx as (_ & _ & Hy & _). cbn. now rewrite Hy, IH.
  Qed.

  Section NumList.
    Variable L : nat.
    Variable n : nat.
    Variables sep rb : str.
    Variable gaps : nat -> nat * nat.
    Hypothesis Hn : (0 < n)%nat.
    Hypothesis Hsep : sep <> [].
    Hypothesis Hnl : numlist_ok E sep rb = true.

    Local Notation FL fuel acc buf st := (floats_loop F fread E fuel n sep rb acc buf st).

    Lemma nl_facts : rb <> [] /\ first_not is_float_char sep = true /\ first_not is_float_char rb = true /\
                     diverge space sep = true /\ diverge space rb = true /\ diverge sep rb = true.
    Proof. unfold numlist_ok in Hnl. rewrite !andb_true_iff in Hnl. repeat split; try tauto. apply nonempty_ne; tauto. Qed.

    Lemma fl_unfold fuel acc buf st c r : wf L st -> s_rest st = c :: r -> (length acc < n)%nat ->
      FL (S fuel) acc buf st =
        if st_starts F space st then FL fuel acc buf (skip F space st)
        else if is_float_char c then FL fuel acc (buf ++ [c]) (step F 1 st)
        else if st_starts F sep st then
               match fread buf with Some v => FL fuel (acc ++ [v]) [] (skip F sep st) | None => perr F st end
        else if st_starts F rb st then
               match fread buf with Some v => POk (acc ++ [v]) st | None => POk acc st end
        else perr F st.
    Proof.
      intros Hwf Hr Hacc. cbn [floats_loop].
      rewrite (can_consume_ne L st Hwf) by (rewrite Hr; discriminate).
      apply Nat.ltb_lt in Hacc. rewrite Hacc, Hr. reflexivity.
    Qed.

    Lemma fl_space1 fuel acc buf st B m : at_ L st (space ++ B) m -> (length acc < n)%nat ->
      FL (S fuel) acc buf st = FL fuel acc buf (skip F space st).
    Proof.
      intros (Hwf & Hr & Hm) Hacc. pose proof space_ne as Hne.
      destruct space as [|c sp'] eqn:Hs; [congruence|].
      rewrite (fl_unfold fuel acc buf st c (sp' ++ B) Hwf Hr Hacc).
      rewrite <- Hs in *. now rewrite (st_starts_app_ne L _ _ st Hwf Hr Hne).
    Qed.

    Lemma fl_digit1 fuel acc buf st c B m : at_ L st (c :: B) m -> is_float_char c = true -> (length acc < n)%nat ->
      FL (S fuel) acc buf st = FL fuel acc (buf ++ [c]) (step F 1 st).
    Proof.
      intros (Hwf & Hr & Hm) Hc Hacc. rewrite (fl_unfold fuel acc buf st c B Hwf Hr Hacc).
      rewrite st_starts_false, Hc; [reflexivity|]. rewrite Hr. apply (first_not_starts is_float_char); auto using sk_space_float, space_ne.
    Qed.

    Lemma fl_sep1 fuel acc buf st B m v : at_ L st (sep ++ B) m -> fread buf = Some v -> (length acc < n)%nat ->
      FL (S fuel) acc buf st = FL fuel (acc ++ [v]) [] (skip F sep st).
    Proof.
      intros (Hwf & Hr & Hm) Hv Hacc. destruct nl_facts as (_ & Hfs & _ & Hds & _).
      assert (exists c r, sep = c :: r) as (c & r & Hs) by (destruct sep; [congruence | eauto]).
      assert (Hr' : s_rest st = c :: (r ++ B)) by (rewrite Hr, Hs; reflexivity).
      rewrite (fl_unfold fuel acc buf st c (r ++ B) Hwf Hr' Hacc).
      rewrite st_starts_false by (rewrite Hr; now apply diverge_starts).
      rewrite Hs in Hfs. cbn [first_not] in Hfs. apply negb_true_iff in Hfs. rewrite Hfs.
      now rewrite (st_starts_app_ne L _ _ st Hwf Hr Hsep), Hv.
    Qed.

    Lemma fl_rb1 fuel acc buf st B m : at_ L st (rb ++ B) m -> (length acc < n)%nat ->
      FL (S fuel) acc buf st = match fread buf with Some v => POk (acc ++ [v]) st | None => POk acc st end.
    Proof.
      intros (Hwf & Hr & Hm) Hacc. destruct nl_facts as (Hrb & _ & Hfr & _ & Hdr & Hdsr).
      assert (exists c r, rb = c :: r) as (c & r & Hs) by (destruct rb; [congruence | eauto]).
      assert (Hr' : s_rest st = c :: (r ++ B)) by (rewrite Hr, Hs; reflexivity).
      rewrite (fl_unfold fuel acc buf st c (r ++ B) Hwf Hr' Hacc).
      rewrite st_starts_false by (rewrite Hr; now apply diverge_starts).
      rewrite Hs in Hfr. cbn [first_not] in Hfr. apply negb_true_iff in Hfr. rewrite Hfr.
      rewrite (st_starts_false sep) by (rewrite Hr; now apply diverge_starts).
      now rewrite (st_starts_app_ne L _ _ st Hwf Hr Hrb).
    Qed.

    Lemma fl_spaces j : forall fuel acc buf st B m,
      at_ L st (sp j ++ B) m -> (length acc < n)%nat -> (length (sp j ++ B) < fuel)%nat ->
      exists fuel' st', FL fuel acc buf st = FL fuel' acc buf st' /\ at_ L st' B m /\ (length B < fuel')%nat.
    Proof.
      induction j as [|j IH]; intros fuel acc buf st B m Hat Hacc Hf.
      - exists fuel, st. auto.
      - rewrite sp_S, <- app_assoc in Hat, Hf. destruct fuel as [|fuel]; [lia|].
        rewrite (fl_space1 fuel acc buf st _ m Hat Hacc).
        apply IH; [now apply at_skip | exact Hacc|].
        rewrite app_length in Hf. pose proof (ne_length _ space_ne). lia.
    Qed.

    Lemma fl_digits ds : forall fuel acc buf st B m,
      at_ L st (ds ++ B) m -> Forall (fun c => is_float_char c = true) ds -> (length acc < n)%nat ->
      (length (ds ++ B) < fuel)%nat ->
      exists fuel' st', FL fuel acc buf st = FL fuel' acc (buf ++ ds) st' /\ at_ L st' B m /\ (length B < fuel')%nat.
    Proof.
      induction ds as [|c ds IH]; intros fuel acc buf st B m Hat Hds Hacc Hf.
      - exists fuel, st. rewrite app_nil_r. auto.
      - inversion Hds as [|? ? Hc Hds']; subst. cbn [app] in Hat, Hf. destruct fuel as [|fuel]; [cbn in Hf; lia|].
        rewrite (fl_digit1 fuel acc buf st c _ m Hat Hc Hacc).
        destruct (IH fuel acc (buf ++ [c]) (step F 1 st) B m) as (fuel' & st' & Heq & Hat' & Hf'); auto.
        + apply (at_skip L st [c] (ds ++ B) m Hat).
        + cbn in Hf. lia.
        + exists fuel', st'. rewrite Heq, <- app_assoc. auto.
    Qed.

    (* after a number has been read into the buffer: the rest of the list, the right bracket *)
    Lemma fl_tail texts : forall i vs fuel acc buf st v a1 k m,
      at_ L st (render_nums_from E sep gaps true i texts ++ sp a1 ++ rb ++ k) m ->
      fread buf = Some v -> omap (read_num F fread in01) texts = Some vs ->
      (length acc + 1 + length texts <= n)%nat ->
      (length (render_nums_from E sep gaps true i texts ++ sp a1 ++ rb ++ k) < fuel)%nat ->
      exists st', FL fuel acc buf st = POk (acc ++ v :: vs) st' /\ at_ L st' (rb ++ k) m.
    Proof.
      destruct nl_facts as (Hrb & _).
      induction texts as [|x texts IH]; intros i vs fuel acc buf st v a1 k m Hat Hv Hvs Hlen Hf.
      - cbn [render_nums_from app] in Hat, Hf. cbn [omap] in Hvs. injection Hvs as <-.
        destruct (fl_spaces a1 fuel acc buf st (rb ++ k) m Hat) as (fuel' & st' & -> & Hat' & Hf'); [lia | exact Hf|].
        destruct fuel' as [|fuel']; [lia|].
        rewrite (fl_rb1 fuel' acc buf st' k m Hat') by lia. rewrite Hv. eauto.
      - cbn [omap] in Hvs. destruct (read_num F fread in01 x) as [y|] eqn:Hx; [|discriminate].
        destruct (omap _ texts) as [ys|] eqn:Hys; [|discriminate]. injection Hvs as <-.
        apply read_num_spec in Hx as (Hxf & Hxr & _ & _).
        cbn [render_nums_from length] in Hat, Hf, Hlen. unfold ngap in Hat, Hf. rewrite <- !app_assoc in Hat, Hf.
        set (R := render_nums_from E sep gaps true (S i) texts ++ sp a1 ++ rb ++ k) in *.
        destruct (fl_spaces _ fuel acc buf st _ m Hat) as (f1 & st1 & -> & Hat1 & Hf1); [lia | exact Hf|].
        destruct f1 as [|f1]; [lia|].
        rewrite (fl_sep1 f1 acc buf st1 _ m v Hat1 Hv) by lia.
        assert (Hacc' : (length (acc ++ [v]) < n)%nat) by (rewrite app_length; cbn; lia).
        apply at_skip in Hat1. rewrite app_length in Hf1. pose proof (ne_length _ Hsep).
        destruct (fl_spaces _ f1 (acc ++ [v]) [] _ _ m Hat1 Hacc') as (f2 & st2 & -> & Hat2 & Hf2); [lia|].
        destruct (fl_digits x f2 (acc ++ [v]) [] st2 R m Hat2 Hxf Hacc' Hf2) as (f3 & st3 & -> & Hat3 & Hf3).
        cbn [app].
        destruct (IH (S i) ys f3 (acc ++ [v]) x st3 y a1 k m Hat3 Hxr eq_refl) as (st' & -> & Hat'); [rewrite app_length; cbn; lia | exact Hf3|].
        exists st'. rewrite <- app_assoc. auto.
    Qed.

    Lemma fl_nums texts vs fuel st a0 a1 k m :
      at_ L st (sp a0 ++ render_nums_from E sep gaps false 0 texts ++ sp a1 ++ rb ++ k) m ->
      omap (read_num F fread in01) texts = Some vs -> (length texts <= n)%nat ->
      (length (sp a0 ++ render_nums_from E sep gaps false 0 texts ++ sp a1 ++ rb ++ k) < fuel)%nat ->
      exists st', FL fuel [] [] st = POk vs st' /\ at_ L st' (rb ++ k) m.
    Proof.
      intros Hat Hvs Hlen Hf. destruct nl_facts as (Hrb & _).
      destruct texts as [|x texts].
      - cbn [render_nums_from app omap] in *. injection Hvs as <-.
        rewrite app_assoc, <- sp_add in Hat, Hf.
        destruct (fl_spaces _ fuel [] [] st _ m Hat) as (f1 & st1 & -> & Hat1 & Hf1); [exact Hn | exact Hf|].
        destruct f1 as [|f1]; [lia|].
        rewrite (fl_rb1 f1 [] [] st1 k m Hat1 Hn), H_empty. eauto.
      - cbn [omap] in Hvs. destruct (read_num F fread in01 x) as [y|] eqn:Hx; [|discriminate].
        destruct (omap _ texts) as [ys|] eqn:Hys; [|discriminate]. injection Hvs as <-.
        apply read_num_spec in Hx as (Hxf & Hxr & _ & _).
        cbn [render_nums_from length app] in Hat, Hf, Hlen. rewrite <- !app_assoc in Hat, Hf.
        destruct (fl_spaces _ fuel [] [] st _ m Hat) as (f1 & st1 & -> & Hat1 & Hf1); [exact Hn | exact Hf|].
        destruct (fl_digits x f1 [] [] st1 _ m Hat1 Hxf Hn Hf1) as (f2 & st2 & -> & Hat2 & Hf2).
        cbn [app].
        destruct (fl_tail texts 1 ys f2 [] x st2 y a1 k m Hat2 Hxr Hys) as (st' & -> & Hat'); [cbn; lia | exact Hf2|].
        eauto.
    Qed.
  End NumList.
(*MARK*)
End Sent.
