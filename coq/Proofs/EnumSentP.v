(* Proofs/EnumSentP.v -- sentence/task level correctness of the enum parser model, on top of the
   term-level statement [TermParses] (Model/SstSent.v), which is a HYPOTHESIS here (proved elsewhere).

   parse_narsese_render:  sent_ok E -> odesugar_narsese s = Some v -> sent_unamb s ->
                          parse_narsese E (render_narsese E s) = POk v _
   for every surface input s, i.e. for every spacing annotation, every combination of written items,
   every number text.  Corollaries: spacing does not matter (C09), the kind of the result is decided
   by the items written (C15), format(cast_to_task s) parses to a task with an empty budget (C15), the
   formatter prints a canonical surface input and format-then-parse is the identity at sentence/task
   level given the term-level facts (C01).

   Float oracles (hypotheses where used):  fread [] = None  (f64::from_str rejects the empty string),
   in01 fzero  (0.0 is in [0,1]),  H_rt / H_cs  (Rust's shortest-round-trip Display/FromStr for
   non-negative finite f64: printing a number of [0,1] gives a non-empty string of digits and dots
   that reads back as the same number). *)
From Nv Require Import Model.SstSent Proofs.EnumTotalP Proofs.EnumParseP Proofs.DecP.

(* ---------------- strings ---------------- *)
Lemma diverge_starts a : forall b k, diverge a b = true -> starts a (b ++ k) = false.
Proof.
  induction a as [|x a IH]; intros [|y b] k; cbn [diverge starts app]; try discriminate.
  destruct (N.eqb_spec x y) as [->|Hne]; cbn [andb]; [apply IH | reflexivity].
Qed.

Lemma diverge_starts0 a b : diverge a b = true -> starts a b = false.
Proof. intros H. rewrite <- (app_nil_r b). now apply diverge_starts. Qed.

Lemma first_not_starts p kw c r : first_not p kw = true -> kw <> [] -> p c = true -> starts kw (c :: r) = false.
Proof.
  destruct kw as [|x kw]; [congruence|]. cbn [first_not starts]. intros Hn _ Hc.
  destruct (N.eqb_spec x c) as [->|]; [|reflexivity]. rewrite Hc in Hn. discriminate.
Qed.

Lemma first_not_app p kw k : first_not p kw = true -> kw <> [] -> first_not p (kw ++ k) = true.
Proof. destruct kw; [congruence|]. cbn. auto. Qed.

Lemma drop_drop {A} a : forall b (l : list A), drop b (drop a l) = drop (a + b) l.
Proof.
  induction a as [|a IH]; intros b l; [reflexivity|].
  destruct l as [|x l]; cbn [drop Nat.add]; [now rewrite drop_nil | apply IH].
Qed.

Lemma rep_add n m s : rep (n + m) s = rep n s ++ rep m s.
Proof. induction n as [|n IH]; cbn [rep Nat.add app]; [reflexivity|]. now rewrite IH, app_assoc. Qed.

Lemma nonempty_ne s : nonempty s = true -> s <> [].
Proof. destruct s; [discriminate | congruence]. Qed.

Lemma all_arms_nth {A} (arms : list A) f i x : all_arms arms f = true -> nth_error arms i = Some x -> f i = true.
Proof.
  unfold all_arms. rewrite forallb_forall. intros H Hn. apply H, in_seq.
  assert (i < length arms)%nat by (apply nth_error_Some; congruence). lia.
Qed.

Lemma omap_length {A B} (f : A -> option B) l : forall r, omap f l = Some r -> length r = length l.
Proof.
  induction l as [|x l IH]; cbn [omap]; intros r H; [injection H as <-; reflexivity|].
  destruct (f x); [|discriminate]. destruct (omap f l) as [ys|]; [|discriminate].
  injection H as <-. cbn. f_equal. now apply IH.
Qed.

Section Sent.
  Variable F : Type.
  Variable fread : str -> option F.
  Variable fzero : F.
  Variable in01 : F -> bool.
  Variable is_alnum : N -> bool.
  Variable E : efmt.
  Hypothesis Hsok : sent_ok E = true.

  Notation pstate := (pstate F).
  Notation pres := (pres F).
  Notation mid := (mid F).
  Notation wf := (wf F).
  Notation sp := (sp E).
  Notation space := (space_parse E).

  (* ---- the side condition unpacked ---- *)
  Ltac sok := unfold sent_ok in Hsok; rewrite !andb_true_iff in Hsok; tauto.
  Lemma sk_total : total_ok E = true. Proof. sok. Qed.
  Lemma sk_facts : state_facts_ok = true. Proof. sok. Qed.
  Lemma sk_fixed_spaces : stamp_fixed_skip_spaces = true. Proof. sok. Qed.
  Lemma sk_space_float : first_not is_float_char space = true. Proof. sok. Qed.
  Lemma sk_space_int : first_not is_int_char space = true. Proof. sok. Qed.
  Lemma sk_budget_list : numlist_ok E (task_budget_separator E) (task_budget_brackets_1 E) = true. Proof. sok. Qed.
  Lemma sk_truth_list : numlist_ok E (sentence_truth_separator E) (sentence_truth_brackets_1 E) = true. Proof. sok. Qed.
  Lemma sk_punct_same : forallb (fun x => str_eqb (fst (fst x) E) (snd (fst x) E)) punct_arms = true. Proof. sok. Qed.
  Lemma sk_stamp_same : forallb (fun x => str_eqb (fst (fst x) E) (snd (fst x) E)) stamp_arms = true. Proof. sok. Qed.
  Lemma sk_punct_sep : arms_sep E (map (fun x => (fst (fst x), (snd (fst x), snd x))) punct_arms) = true. Proof. sok. Qed.
  Lemma sk_stamp_sep : arms_sep E (map (fun x => (fst (fst x), (snd (fst x), snd x))) stamp_arms) = true. Proof. sok. Qed.
  Lemma sk_sp_b0 : diverge space (task_budget_brackets_0 E) = true. Proof. sok. Qed.
  Lemma sk_sp_t0 : diverge space (sentence_truth_brackets_0 E) = true. Proof. sok. Qed.
  Lemma sk_sp_punct : all_arms punct_arms (fun i => diverge space (punct_kw E i)) = true. Proof. sok. Qed.
  Lemma sk_sp_stamp : all_arms stamp_arms (fun i => diverge space (stamp_first E i)) = true. Proof. sok. Qed.
  Lemma sk_sp_marker : all_arms stamp_arms (fun i => diverge space (stamp_marker E i)) = true. Proof. sok. Qed.
  Lemma sk_b0_punct : all_arms punct_arms (fun i => diverge (task_budget_brackets_0 E) (punct_kw E i)) = true. Proof. sok. Qed.
  Lemma sk_b0_stamp : all_arms stamp_arms (fun i => diverge (task_budget_brackets_0 E) (stamp_first E i)) = true. Proof. sok. Qed.
  Lemma sk_b0_t0 : diverge (task_budget_brackets_0 E) (sentence_truth_brackets_0 E) = true. Proof. sok. Qed.
  Lemma sk_punct_stamp :
    all_arms punct_arms (fun i => all_arms stamp_arms (fun j => diverge (punct_kw E i) (stamp_first E j))) = true.
  Proof. sok. Qed.
  Lemma sk_punct_t0 : all_arms punct_arms (fun i => diverge (punct_kw E i) (sentence_truth_brackets_0 E)) = true. Proof. sok. Qed.
  Lemma sk_stamp_t0 : stamp_clear E (sentence_truth_brackets_0 E) = true. Proof. sok. Qed.
  Lemma sk_stamp_rb :
    match sentence_stamp_brackets_1 E with
    | [] => first_not is_int_char (sentence_truth_brackets_0 E)
    | b => diverge space b && first_not is_int_char b
    end = true.
  Proof. sok. Qed.

  Ltac tok H := pose proof sk_total as H; unfold total_ok in H; rewrite !andb_true_iff in H.
  Lemma space_ne : space <> [].
  Proof. tok H. apply nonempty_ne; tauto. Qed.
  Lemma bsep_ne : task_budget_separator E <> [].
  Proof. tok H. apply nonempty_ne; tauto. Qed.
  Lemma tsep_ne : sentence_truth_separator E <> [].
  Proof. tok H. apply nonempty_ne; tauto. Qed.
  Lemma b0_ne : task_budget_brackets_0 E <> [].
  Proof. tok H. apply nonempty_ne; tauto. Qed.
  Lemma t0_ne : sentence_truth_brackets_0 E <> [].
  Proof. tok H. apply nonempty_ne; tauto. Qed.
  Lemma punct_ne : forallb (fun x => nonempty (snd (fst x) E)) punct_arms = true.
  Proof. tok H. tauto. Qed.
  Lemma stamp_ne : forallb (fun x => nonempty (snd (fst x) E)) stamp_arms = true.
  Proof. tok H. tauto. Qed.
  Lemma ne_length (s : str) : s <> [] -> (0 < length s)%nat.
  Proof. destruct s; [congruence | cbn; lia]. Qed.

  Definition nsp (B : str) : Prop := starts space B = false.

  Lemma nsp_nil : nsp [].
  Proof. unfold nsp. pose proof space_ne. destruct space; [congruence | reflexivity]. Qed.
  Lemma nsp_div kw k : diverge space kw = true -> nsp (kw ++ k).
  Proof. apply diverge_starts. Qed.

  Lemma sp_add a b : sp (a + b) = sp a ++ sp b.
  Proof. apply rep_add. Qed.
  Lemma sp_S a : sp (S a) = space ++ sp a.
  Proof. reflexivity. Qed.
  Lemma sp_length_ge a : (a <= length (sp a))%nat.
  Proof.
    pose proof (ne_length _ space_ne). induction a as [|a IH]; [cbn; lia|].
    rewrite sp_S, app_length. lia.
  Qed.

  (* ---- cursor facts ---- *)
  Lemma pstate_eq (st st' : pstate) :
    s_len st = s_len st' -> s_head st = s_head st' -> s_rest st = s_rest st' -> s_mid st = s_mid st' -> st = st'.
  Proof. destruct st, st'; cbn; intros; subst; reflexivity. Qed.

  Lemma st_starts_true_starts kw (st : pstate) : st_starts F kw st = true -> starts kw (s_rest st) = true.
  Proof. unfold st_starts. destruct (Nat.ltb _ _); [discriminate | auto]. Qed.
  Lemma st_starts_false kw (st : pstate) : starts kw (s_rest st) = false -> st_starts F kw st = false.
  Proof. intros H. destruct (st_starts F kw st) eqn:Hs; [|reflexivity]. apply st_starts_true_starts in Hs. congruence. Qed.

  Lemma head_lt L (st : pstate) : wf L st -> s_rest st <> [] -> (s_head st < L)%nat.
  Proof. intros [_ Hr] Hne. destruct (s_rest st); [congruence|]. cbn in Hr. lia. Qed.

  Lemma st_starts_app L kw k (st : pstate) :
    wf L st -> s_rest st = kw ++ k -> (s_head st <= L)%nat -> st_starts F kw st = true.
  Proof.
    intros [Hl Hr] Hrest Hh. unfold st_starts. rewrite Hrest in Hr. rewrite app_length in Hr.
    destruct (Nat.ltb_spec (s_len st) (s_head st + length kw)); [lia|]. rewrite Hrest. apply starts_app.
  Qed.
  Lemma st_starts_app_ne L kw k (st : pstate) :
    wf L st -> s_rest st = kw ++ k -> kw <> [] -> st_starts F kw st = true.
  Proof.
    intros Hwf Hrest Hne. eapply st_starts_app; eauto.
    assert (s_head st < L)%nat; [|lia]. apply head_lt; [assumption|]. rewrite Hrest. destruct kw; [congruence | discriminate].
  Qed.

  Lemma can_consume_ne L (st : pstate) : wf L st -> s_rest st <> [] -> can_consume F st = true.
  Proof. intros Hwf Hne. pose proof (head_lt L st Hwf Hne). destruct Hwf as [Hl _]. unfold can_consume. apply Nat.ltb_lt. lia. Qed.
  Lemma can_consume_nil L (st : pstate) : wf L st -> s_rest st = [] -> can_consume F st = false.
  Proof. intros [Hl Hr] Hn. rewrite Hn in Hr. cbn in Hr. unfold can_consume. apply Nat.ltb_ge. lia. Qed.

  Lemma rest_step p r (st : pstate) : s_rest st = p ++ r -> s_rest (step F (length p) st) = r.
  Proof. intros H. cbn [step s_rest]. rewrite H. apply drop_app_length. Qed.
  Lemma rest_skip p r (st : pstate) : s_rest st = p ++ r -> s_rest (skip F p st) = r.
  Proof. apply rest_step. Qed.

  Lemma step_0 (st : pstate) : step F 0 st = st.
  Proof. apply pstate_eq; cbn; auto. Qed.
  Lemma restore_same (st : pstate) : restore F st st = st.
  Proof. apply pstate_eq; reflexivity. Qed.

  (* [at_ L st txt m]: a consistent cursor standing before txt, with mid result m *)
  Definition at_ (L : nat) (st : pstate) (txt : str) (m : mid) : Prop :=
    wf L st /\ s_rest st = txt /\ s_mid st = m.

  Lemma at_skip L st kw k m : at_ L st (kw ++ k) m -> at_ L (skip F kw st) k m.
  Proof. intros (Hwf & Hr & Hm). split; [apply wf_skip, Hwf | split; [now apply rest_skip | exact Hm]]. Qed.

  (* all the spaces written are skipped, and the scan stops where something else begins *)
  Lemma skip_spaces_fuel_sp L j : forall n st B m,
    (j <= n)%nat -> at_ L st (sp j ++ B) m -> nsp B -> at_ L (skip_spaces_fuel F E n st) B m.
  Proof.
    induction j as [|j IH]; intros n st B m Hn Hat HB.
    - cbn in Hat. destruct n; cbn [skip_spaces_fuel]; [exact Hat|].
      destruct Hat as (Hwf & Hr & Hm). rewrite st_starts_false; [split; [exact Hwf | now split] | now rewrite Hr].
    - destruct n as [|n]; [lia|]. cbn [skip_spaces_fuel]. rewrite sp_S, <- app_assoc in Hat.
      destruct Hat as (Hwf & Hr & Hm).
      rewrite (st_starts_app_ne L _ _ st Hwf Hr space_ne).
      apply IH; [lia | apply at_skip; split; [exact Hwf | now split] | exact HB].
  Qed.
  Lemma skip_spaces_sp L j st B m : at_ L st (sp j ++ B) m -> nsp B -> at_ L (skip_spaces F E st) B m.
  Proof.
    intros Hat HB. unfold skip_spaces. apply (skip_spaces_fuel_sp L j); [|exact Hat | exact HB].
    destruct Hat as (_ & -> & _). rewrite app_length. pose proof (sp_length_ge j). lia.
  Qed.
  Lemma skip_spaces_none L st B m : at_ L st B m -> nsp B -> skip_spaces F E st = st.
  Proof.
    intros (Hwf & Hr & Hm) HB. unfold skip_spaces. destruct (length (s_rest st)); cbn [skip_spaces_fuel]; [reflexivity|].
    rewrite st_starts_false; [reflexivity | now rewrite Hr].
  Qed.

  Lemma at_head_le L st st' txt m txt' m' : at_ L st txt m -> at_ L st' txt' m' ->
    (length txt' <= length txt)%nat -> txt' <> [] -> (s_head st <= s_head st')%nat.
  Proof.
    intros ((_ & Hr) & Ht & _) ((_ & Hr') & Ht' & _) Hle Hne. rewrite Ht in Hr. rewrite Ht' in Hr'.
    destruct txt'; [congruence|]. cbn in *. lia.
  Qed.

  (* ---------------- number lists: parse_separated_floats on a written list ---------------- *)
  Hypothesis H_empty : fread [] = None.      (* "".parse::<f64>() is an error *)
  Hypothesis H_zero : in01 fzero = true.     (* 0.0 is in [0,1]: the padding of the number array passes the range test *)

  Lemma read_num_spec x y : read_num F fread in01 x = Some y ->
    Forall (fun c => is_float_char c = true) x /\ fread x = Some y /\ in01 y = true /\ x <> [].
  Proof.
    unfold read_num. destruct (forallb is_float_char x) eqn:Hf; [|discriminate].
    destruct (fread x) as [v|] eqn:Hr; [|discriminate]. destruct (in01 v) eqn:Hi; [|discriminate].
    intros H; injection H as <-. repeat split; auto.
    - apply forallb_Forall_iff, Hf.
    - intros ->. congruence.
  Qed.

  Lemma omap_read_in01 texts : forall vs, omap (read_num F fread in01) texts = Some vs -> forallb in01 vs = true.
  Proof.
    induction texts as [|x texts IH]; cbn [omap]; intros vs H; [injection H as <-; reflexivity|].
    destruct (read_num F fread in01 x) as [y|] eqn:Hx; [|discriminate].
    destruct (omap _ texts) as [ys|]; [|discriminate]. injection H as <-.
    apply read_num_spec in Hx as (_ & _ & Hy & _). cbn. now rewrite Hy, IH.
  Qed.

  Lemma nl_facts sep rb : numlist_ok E sep rb = true ->
    rb <> [] /\ first_not is_float_char sep = true /\ first_not is_float_char rb = true /\
    diverge space sep = true /\ diverge space rb = true /\ diverge sep rb = true.
  Proof. intros Hnl. unfold numlist_ok in Hnl. rewrite !andb_true_iff in Hnl. repeat split; try tauto. apply nonempty_ne; tauto. Qed.

  Section NumList.
    Variable L : nat.
    Variable n : nat.
    Variables sep rb : str.
    Variable gaps : nat -> nat * nat.
    Hypothesis Hn : (0 < n)%nat.
    Hypothesis Hsep : sep <> [].
    Hypothesis Hnl : numlist_ok E sep rb = true.

    Local Notation FL fuel acc buf st := (floats_loop F fread E fuel n sep rb acc buf st).

    Lemma nl_facts_ : rb <> [] /\ first_not is_float_char sep = true /\ first_not is_float_char rb = true /\
                     diverge space sep = true /\ diverge space rb = true /\ diverge sep rb = true.
    Proof. exact (nl_facts sep rb Hnl). Qed.

    Lemma fl_unfold fuel acc buf st c r : wf L st -> s_rest st = c :: r -> (length acc < n)%nat ->
      FL (S fuel) acc buf st =
        if st_starts F space st then FL fuel acc buf (skip F space st)
        else if is_float_char c then FL fuel acc (buf ++ [c]) (step F 1 st)
        else if st_starts F sep st then
               match fread buf with Some v => FL fuel (acc ++ [v]) [] (skip F sep st) | None => perr F st end
        else if st_starts F rb st then
               match fread buf with Some v => POk (acc ++ [v]) st | None => POk acc st end
        else perr F st.
    Proof.
      intros Hwf Hr Hacc. cbn [floats_loop].
      rewrite (can_consume_ne L st Hwf) by (rewrite Hr; discriminate).
      apply Nat.ltb_lt in Hacc. rewrite Hacc, Hr. reflexivity.
    Qed.

    Lemma fl_space1 fuel acc buf st B m : at_ L st (space ++ B) m -> (length acc < n)%nat ->
      FL (S fuel) acc buf st = FL fuel acc buf (skip F space st).
    Proof.
      intros (Hwf & Hr & Hm) Hacc. pose proof space_ne as Hne.
      destruct space as [|c sp'] eqn:Hs; [congruence|].
      rewrite (fl_unfold fuel acc buf st c (sp' ++ B) Hwf Hr Hacc).
      rewrite <- Hs in *. now rewrite (st_starts_app_ne L _ _ st Hwf Hr Hne).
    Qed.

    Lemma fl_digit1 fuel acc buf st c B m : at_ L st (c :: B) m -> is_float_char c = true -> (length acc < n)%nat ->
      FL (S fuel) acc buf st = FL fuel acc (buf ++ [c]) (step F 1 st).
    Proof.
      intros (Hwf & Hr & Hm) Hc Hacc. rewrite (fl_unfold fuel acc buf st c B Hwf Hr Hacc).
      rewrite st_starts_false, Hc; [reflexivity|]. rewrite Hr. apply (first_not_starts is_float_char); auto using sk_space_float, space_ne.
    Qed.

    Lemma fl_sep1 fuel acc buf st B m v : at_ L st (sep ++ B) m -> fread buf = Some v -> (length acc < n)%nat ->
      FL (S fuel) acc buf st = FL fuel (acc ++ [v]) [] (skip F sep st).
    Proof.
      intros (Hwf & Hr & Hm) Hv Hacc. destruct nl_facts_ as (_ & Hfs & _ & Hds & _).
      assert (exists c r, sep = c :: r) as (c & r & Hs) by (destruct sep; [congruence | eauto]).
      assert (Hr' : s_rest st = c :: (r ++ B)) by (rewrite Hr, Hs; reflexivity).
      rewrite (fl_unfold fuel acc buf st c (r ++ B) Hwf Hr' Hacc).
      rewrite st_starts_false by (rewrite Hr; now apply diverge_starts).
      rewrite Hs in Hfs. cbn [first_not] in Hfs. apply negb_true_iff in Hfs. rewrite Hfs.
      now rewrite (st_starts_app_ne L _ _ st Hwf Hr Hsep), Hv.
    Qed.

    Lemma fl_rb1 fuel acc buf st B m : at_ L st (rb ++ B) m -> (length acc < n)%nat ->
      FL (S fuel) acc buf st = match fread buf with Some v => POk (acc ++ [v]) st | None => POk acc st end.
    Proof.
      intros (Hwf & Hr & Hm) Hacc. destruct nl_facts_ as (Hrb & _ & Hfr & _ & Hdr & Hdsr).
      assert (exists c r, rb = c :: r) as (c & r & Hs) by (destruct rb; [congruence | eauto]).
      assert (Hr' : s_rest st = c :: (r ++ B)) by (rewrite Hr, Hs; reflexivity).
      rewrite (fl_unfold fuel acc buf st c (r ++ B) Hwf Hr' Hacc).
      rewrite st_starts_false by (rewrite Hr; now apply diverge_starts).
      rewrite Hs in Hfr. cbn [first_not] in Hfr. apply negb_true_iff in Hfr. rewrite Hfr.
      rewrite (st_starts_false sep) by (rewrite Hr; now apply diverge_starts).
      now rewrite (st_starts_app_ne L _ _ st Hwf Hr Hrb).
    Qed.

    Lemma fl_spaces j : forall fuel acc buf st B m,
      at_ L st (sp j ++ B) m -> (length acc < n)%nat -> (length (sp j ++ B) < fuel)%nat ->
      exists fuel' st', FL fuel acc buf st = FL fuel' acc buf st' /\ at_ L st' B m /\ (length B < fuel')%nat.
    Proof.
      induction j as [|j IH]; intros fuel acc buf st B m Hat Hacc Hf.
      - exists fuel, st. auto.
      - rewrite sp_S, <- app_assoc in Hat, Hf. destruct fuel as [|fuel]; [lia|].
        rewrite (fl_space1 fuel acc buf st _ m Hat Hacc).
        apply IH; [now apply at_skip | exact Hacc|].
        rewrite app_length in Hf. pose proof (ne_length _ space_ne). lia.
    Qed.

    Lemma fl_digits ds : forall fuel acc buf st B m,
      at_ L st (ds ++ B) m -> Forall (fun c => is_float_char c = true) ds -> (length acc < n)%nat ->
      (length (ds ++ B) < fuel)%nat ->
      exists fuel' st', FL fuel acc buf st = FL fuel' acc (buf ++ ds) st' /\ at_ L st' B m /\ (length B < fuel')%nat.
    Proof.
      induction ds as [|c ds IH]; intros fuel acc buf st B m Hat Hds Hacc Hf.
      - exists fuel, st. rewrite app_nil_r. auto.
      - inversion Hds as [|? ? Hc Hds']; subst. cbn [app] in Hat, Hf. destruct fuel as [|fuel]; [cbn in Hf; lia|].
        rewrite (fl_digit1 fuel acc buf st c _ m Hat Hc Hacc).
        destruct (IH fuel acc (buf ++ [c]) (step F 1 st) B m) as (fuel' & st' & Heq & Hat' & Hf'); auto.
        + apply (at_skip L st [c] (ds ++ B) m Hat).
        + cbn in Hf. lia.
        + exists fuel', st'. rewrite Heq, <- app_assoc. auto.
    Qed.

    (* after a number has been read into the buffer: the rest of the list, the right bracket *)
    Lemma fl_tail texts : forall i vs fuel acc buf st v a1 k m,
      at_ L st (render_nums_from E sep gaps true i texts ++ sp a1 ++ rb ++ k) m ->
      fread buf = Some v -> omap (read_num F fread in01) texts = Some vs ->
      (length acc + 1 + length texts <= n)%nat ->
      (length (render_nums_from E sep gaps true i texts ++ sp a1 ++ rb ++ k) < fuel)%nat ->
      exists st', FL fuel acc buf st = POk (acc ++ v :: vs) st' /\ at_ L st' (rb ++ k) m.
    Proof.
      destruct nl_facts_ as (Hrb & _).
      induction texts as [|x texts IH]; intros i vs fuel acc buf st v a1 k m Hat Hv Hvs Hlen Hf.
      - cbn [render_nums_from app] in Hat, Hf. cbn [omap] in Hvs. injection Hvs as <-.
        destruct (fl_spaces a1 fuel acc buf st (rb ++ k) m Hat) as (fuel' & st' & -> & Hat' & Hf'); [lia | exact Hf|].
        destruct fuel' as [|fuel']; [lia|].
        rewrite (fl_rb1 fuel' acc buf st' k m Hat') by lia. rewrite Hv. eauto.
      - cbn [omap] in Hvs. destruct (read_num F fread in01 x) as [y|] eqn:Hx; [|discriminate].
        destruct (omap _ texts) as [ys|] eqn:Hys; [|discriminate]. injection Hvs as <-.
        apply read_num_spec in Hx as (Hxf & Hxr & _ & _).
        cbn [render_nums_from length] in Hat, Hf, Hlen. unfold ngap in Hat, Hf. rewrite <- !app_assoc in Hat, Hf.
        set (R := render_nums_from E sep gaps true (S i) texts ++ sp a1 ++ rb ++ k) in *.
        destruct (fl_spaces _ fuel acc buf st _ m Hat) as (f1 & st1 & -> & Hat1 & Hf1); [lia | exact Hf|].
        destruct f1 as [|f1]; [lia|].
        rewrite (fl_sep1 f1 acc buf st1 _ m v Hat1 Hv) by lia.
        assert (Hacc' : (length (acc ++ [v]) < n)%nat) by (rewrite app_length; cbn; lia).
        apply at_skip in Hat1. rewrite app_length in Hf1. pose proof (ne_length _ Hsep).
        destruct (fl_spaces _ f1 (acc ++ [v]) [] _ _ m Hat1 Hacc') as (f2 & st2 & -> & Hat2 & Hf2); [lia|].
        destruct (fl_digits x f2 (acc ++ [v]) [] st2 R m Hat2 Hxf Hacc' Hf2) as (f3 & st3 & -> & Hat3 & Hf3).
        cbn [app].
        destruct (IH (S i) ys f3 (acc ++ [v]) x st3 y a1 k m Hat3 Hxr eq_refl) as (st' & -> & Hat'); [rewrite app_length; cbn; lia | exact Hf3|].
        exists st'. rewrite <- app_assoc. auto.
    Qed.

    Lemma fl_nums texts vs fuel st a0 a1 k m :
      at_ L st (sp a0 ++ render_nums_from E sep gaps false 0 texts ++ sp a1 ++ rb ++ k) m ->
      omap (read_num F fread in01) texts = Some vs -> (length texts <= n)%nat ->
      (length (sp a0 ++ render_nums_from E sep gaps false 0 texts ++ sp a1 ++ rb ++ k) < fuel)%nat ->
      exists st', FL fuel [] [] st = POk vs st' /\ at_ L st' (rb ++ k) m.
    Proof.
      intros Hat Hvs Hlen Hf. destruct nl_facts_ as (Hrb & _).
      destruct texts as [|x texts].
      - cbn [render_nums_from app omap] in *. injection Hvs as <-.
        rewrite app_assoc, <- sp_add in Hat, Hf.
        destruct (fl_spaces _ fuel [] [] st _ m Hat) as (f1 & st1 & -> & Hat1 & Hf1); [exact Hn | exact Hf|].
        destruct f1 as [|f1]; [lia|].
        rewrite (fl_rb1 f1 [] [] st1 k m Hat1 Hn), H_empty. eauto.
      - cbn [omap] in Hvs. destruct (read_num F fread in01 x) as [y|] eqn:Hx; [|discriminate].
        destruct (omap _ texts) as [ys|] eqn:Hys; [|discriminate]. injection Hvs as <-.
        apply read_num_spec in Hx as (Hxf & Hxr & _ & _).
        cbn [render_nums_from length app] in Hat, Hf, Hlen. rewrite <- !app_assoc in Hat, Hf.
        destruct (fl_spaces _ fuel [] [] st _ m Hat) as (f1 & st1 & -> & Hat1 & Hf1); [exact Hn | exact Hf|].
        destruct (fl_digits x f1 [] [] st1 _ m Hat1 Hxf Hn Hf1) as (f2 & st2 & -> & Hat2 & Hf2).
        cbn [app].
        destruct (fl_tail texts 1 ys f2 [] x st2 y a1 k m Hat2 Hxr Hys) as (st' & -> & Hat'); [cbn; lia | exact Hf2|].
        eauto.
    Qed.
  End NumList.

  (* ---------------- the five item parsers on a written item ---------------- *)
  Lemma at_set_mid L st txt m m' : at_ L st txt m -> at_ L (set_mid F st m') txt m'.
  Proof. intros (Hwf & Hr & Hm). split; [apply wf_set_mid, Hwf | split; [exact Hr | reflexivity]]. Qed.

  Lemma pad_in01 n vs : forallb in01 vs = true -> forallb in01 (pad F fzero n vs) = true.
  Proof.
    intros H. unfold pad. rewrite forallb_app, H. cbn [andb].
    induction (n - length vs)%nat as [|k IH]; cbn; [reflexivity | now rewrite H_zero].
  Qed.

  (* the spaces after the left bracket, then the number loop *)
  Lemma parse_nums_ok L n sep rb (Hn : (0 < n)%nat) (Hsep : sep <> []) (Hnl : numlist_ok E sep rb = true) nm vs st k m :
    at_ L st (sp (nl_sp0 nm) ++ render_nums_from E sep (nl_gaps nm) false 0 (nl_texts nm) ++ sp (nl_sp1 nm) ++ rb ++ k) m ->
    omap (read_num F fread in01) (nl_texts nm) = Some vs -> (length (nl_texts nm) <= n)%nat ->
    exists st', parse_floats F fread E n sep rb (skip_spaces F E st) = POk vs st' /\ at_ L st' (rb ++ k) m.
  Proof.
    intros Hat Hvs Hlen. destruct (nl_facts sep rb Hnl) as (Hrb & _ & _ & _ & Hdr & _).
    unfold parse_floats. destruct (nl_texts nm) as [|x texts] eqn:Ht.
    - cbn [render_nums_from app] in Hat. rewrite app_assoc, <- sp_add in Hat.
      apply skip_spaces_sp in Hat; [|now apply nsp_div].
      apply (fl_nums L n sep rb (nl_gaps nm) Hn Hsep Hnl [] vs _ _ 0 0 k m); [exact Hat | exact Hvs | cbn; lia|].
      destruct Hat as (_ & -> & _). cbn [Sst.sp rep render_nums_from app]. lia.
    - assert (Hx : exists c r, x = c :: r /\ is_float_char c = true).
      { cbn [omap] in Hvs. destruct (read_num F fread in01 x) as [y|] eqn:Hx; [|discriminate].
        apply read_num_spec in Hx as (Hf & _ & _ & Hne). destruct x as [|c r]; [congruence|].
        inversion Hf; subst. eauto. }
      destruct Hx as (c & r & -> & Hc).
      apply skip_spaces_sp in Hat.
      2:{ cbn [render_nums_from app]. apply (first_not_starts is_float_char); auto using sk_space_float, space_ne. }
      apply (fl_nums L n sep rb (nl_gaps nm) Hn Hsep Hnl ((c :: r) :: texts) vs _ _ 0 (nl_sp1 nm) k m); [exact Hat | exact Hvs | exact Hlen|].
      destruct Hat as (_ & -> & _). match goal with |- (length (sp 0 ++ ?X) < _)%nat => change (sp 0 ++ X) with X end. match goal with |- (length ?A < length ?B + _ + _)%nat => change B with A end. lia.
  Qed.

  Lemma read_nums_spec max nm vs : read_nums F fread in01 max nm = Some vs ->
    omap (read_num F fread in01) (nl_texts nm) = Some vs /\ (length (nl_texts nm) <= max)%nat.
  Proof. unfold read_nums. destruct (Nat.leb_spec (length (nl_texts nm)) max); [auto | discriminate]. Qed.

  Lemma consume_budget_ok L st nm b k m :
    at_ L st (render_budget E nm ++ k) m -> obudget F fread in01 nm = Some b ->
    exists st', consume_budget F fread fzero in01 E st = POk tt st' /\ at_ L st' k (mid_set_budget F m b).
  Proof.
    intros Hat Hb. unfold obudget in Hb. destruct (read_nums F fread in01 3 nm) as [vs|] eqn:Hvs; [|discriminate].
    apply read_nums_spec in Hvs as (Hvs & Hlen).
    unfold render_budget, render_nums in Hat. rewrite <- !app_assoc in Hat.
    unfold consume_budget, skip_and_spaces. apply at_skip in Hat.
    destruct (parse_nums_ok L 3 _ _ ltac:(lia) bsep_ne sk_budget_list nm vs _ k m Hat Hvs Hlen) as (st2 & -> & Hat2).
    cbn [pbind]. rewrite (pad_in01 3 vs (omap_read_in01 _ _ Hvs)). cbn [negb]. rewrite Hb.
    destruct (nl_facts _ _ sk_budget_list) as (Hrb & _ & _ & _ & Hdr & _).
    assert (Hss : skip_spaces F E st2 = st2) by (eapply skip_spaces_none; [exact Hat2 | now apply nsp_div]).
    destruct budget_requires_close.
    - rewrite Hss. destruct Hat2 as (Hwf2 & Hr2 & Hm2).
      rewrite (st_starts_app_ne L _ _ st2 Hwf2 Hr2 Hrb).
      eexists. split; [reflexivity|]. cbn [skip step s_mid]. rewrite Hm2.
      apply at_set_mid with (m := m). apply at_skip. split; [assumption | split; assumption].
    - unfold skip_after_spaces. rewrite Hss. eexists. split; [reflexivity|].
      destruct Hat2 as (Hwf2 & Hr2 & Hm2). cbn [skip step s_mid]. rewrite Hm2.
      apply at_set_mid with (m := m). apply at_skip. split; [assumption | split; assumption].
  Qed.

  Lemma otruth_spec nm t : otruth F fread in01 nm = Some t ->
    exists vs, omap (read_num F fread in01) (nl_texts nm) = Some vs /\ (length (nl_texts nm) <= 2)%nat /\ mk_truth F in01 vs = Some t.
  Proof.
    unfold otruth. destruct (read_nums F fread in01 2 nm) as [vs|] eqn:Hvs; [|discriminate].
    apply read_nums_spec in Hvs as (Hvs & Hlen). eauto.
  Qed.

  Lemma consume_truth_ok L st nm t k m :
    at_ L st (render_truth E nm ++ k) m -> otruth F fread in01 nm = Some t ->
    exists st', consume_truth F fread fzero in01 E st = POk tt st' /\ at_ L st' k (mid_set_truth F m t).
  Proof.
    intros Hat Ht. apply otruth_spec in Ht as (vs & Hvs & Hlen & Ht).
    unfold render_truth, render_nums in Hat. rewrite <- !app_assoc in Hat.
    unfold consume_truth, skip_and_spaces. apply at_skip in Hat.
    destruct (parse_nums_ok L 2 _ _ ltac:(lia) tsep_ne sk_truth_list nm vs _ k m Hat Hvs Hlen) as (st2 & -> & Hat2).
    cbn [pbind]. rewrite (pad_in01 2 vs (omap_read_in01 _ _ Hvs)). cbn [negb]. rewrite Ht.
    destruct (nl_facts _ _ sk_truth_list) as (Hrb & _ & _ & _ & Hdr & _).
    assert (Hss : skip_spaces F E st2 = st2) by (eapply skip_spaces_none; [exact Hat2 | now apply nsp_div]).
    unfold skip_after_spaces. rewrite Hss. eexists. split; [reflexivity|].
    destruct Hat2 as (Hwf2 & Hr2 & Hm2). cbn [skip step s_mid]. rewrite Hm2.
    apply at_set_mid with (m := m). apply at_skip. split; [assumption | split; assumption].
  Qed.

  (* `first!` ladders: the arm whose keyword is written is the one taken *)
  Lemma find_arm_nth {A} (arms : list ((efmt -> str) * A)) : arms_sep E arms = true ->
    forall i g a L st k, nth_error arms i = Some (g, a) -> wf L st -> s_rest st = g E ++ k -> g E <> [] ->
                         find_arm F E arms st = Some (g, a).
  Proof.
    induction arms as [|[g' a'] arms IH]; intros Hsep i g a L st k Hn Hwf Hr Hne; [destruct i; discriminate|].
    cbn [arms_sep] in Hsep. apply andb_true_iff in Hsep as [Hd Hsep]. cbn [find_arm].
    destruct i as [|i]; cbn [nth_error] in Hn.
    - injection Hn as -> ->. now rewrite (st_starts_app_ne L _ _ st Hwf Hr Hne).
    - rewrite forallb_forall in Hd. specialize (Hd _ (nth_error_In _ _ Hn)). cbn [fst] in Hd.
      rewrite st_starts_false by (rewrite Hr; now apply diverge_starts).
      eapply IH; eauto.
  Qed.

  Lemma punct_arm_spec a p : opunct a = Some p ->
    exists g sk, nth_error punct_arms a = Some (g, sk, p) /\ punct_kw E a = g E /\ sk E = g E /\ g E <> [].
  Proof.
    unfold opunct, punct_kw. destruct (nth_error punct_arms a) as [[[g sk] p']|] eqn:Hn; [|discriminate].
    intros H; injection H as ->. exists g, sk. apply nth_error_In in Hn.
    pose proof sk_punct_same as Hs. pose proof punct_ne as Hne. rewrite forallb_forall in Hs, Hne.
    specialize (Hs _ Hn). specialize (Hne _ Hn). cbn [fst snd] in Hs, Hne. apply str_eqb_eq in Hs.
    repeat split; auto. rewrite Hs. now apply nonempty_ne.
  Qed.

  Lemma consume_punct_ok L st a p k m :
    at_ L st (punct_kw E a ++ k) m -> opunct a = Some p ->
    exists st', consume_punctuation F E st = POk tt st' /\ at_ L st' k (mid_set_punct F m p).
  Proof.
    intros Hat Hp. destruct (punct_arm_spec a p Hp) as (g & sk & Hn & Hkw & Hsk & Hne).
    rewrite Hkw in Hat. destruct Hat as (Hwf & Hr & Hm).
    unfold consume_punctuation.
    rewrite (find_arm_nth _ sk_punct_sep a g (sk, p) L st k); auto.
    2:{ apply (map_nth_error (fun x => (fst (fst x), (snd (fst x), snd x)))) in Hn. exact Hn. }
    eexists. split; [reflexivity|]. unfold skip. rewrite Hsk. cbn [step s_mid]. rewrite Hm.
    apply at_set_mid with (m := m). apply (at_skip L st (g E) k m). split; [assumption | split; assumption].
  Qed.

  Lemma stamp_arm_spec a kd : stamp_kind a = Some kd ->
    exists g sk, nth_error stamp_arms a = Some (g, sk, kd) /\ stamp_marker E a = g E /\ sk E = g E /\ g E <> [].
  Proof.
    unfold stamp_kind, stamp_marker. destruct (nth_error stamp_arms a) as [[[g sk] kd']|] eqn:Hn; [|discriminate].
    intros H; injection H as ->. exists g, sk. apply nth_error_In in Hn.
    pose proof sk_stamp_same as Hs. pose proof stamp_ne as Hne. rewrite forallb_forall in Hs, Hne.
    specialize (Hs _ Hn). specialize (Hne _ Hn). cbn [fst snd] in Hs, Hne. apply str_eqb_eq in Hs.
    repeat split; auto. rewrite Hs. now apply nonempty_ne.
  Qed.

  Lemma int_scan_app txt R : Forall (fun c => is_int_char c = true) txt -> first_not is_int_char R = true ->
    int_scan (txt ++ R) = txt.
  Proof.
    intros Ht HR. induction Ht as [|c txt Hc Ht IH]; cbn [app int_scan].
    - destruct R as [|c R]; [reflexivity|]. cbn [first_not] in HR. apply negb_true_iff in HR. cbn [int_scan]. now rewrite HR.
    - now rewrite Hc, IH.
  Qed.

  (* the right stamp bracket: with an empty one (LaTeX, Han) the spaces that follow are swallowed too *)
  Lemma stamp_finish L st3 sp2 g B m' :
    at_ L st3 (sp sp2 ++ sentence_stamp_brackets_1 E ++ sp g ++ B) m' -> nsp B ->
    exists j, at_ L (skip_after_spaces F E (sentence_stamp_brackets_1 E) st3) (sp j ++ B) m'.
  Proof.
    intros Hat HB. pose proof sk_stamp_rb as Hrb. unfold skip_after_spaces.
    destruct (sentence_stamp_brackets_1 E) as [|c r] eqn:Hb.
    - cbn [app] in Hat. rewrite app_assoc, <- sp_add in Hat. apply skip_spaces_sp in Hat; [|exact HB].
      exists 0%nat. apply (at_skip L _ [] B m' Hat).
    - apply andb_true_iff in Hrb as [Hd _]. apply skip_spaces_sp in Hat; [|now apply nsp_div].
      exists g. now apply at_skip.
  Qed.

  Lemma consume_stamp_ok L st x sv g B m :
    at_ L st (render_stamp E x ++ sp g ++ B) m -> nsp B ->
    (sentence_stamp_brackets_1 E = [] -> first_not is_int_char B = true) ->
    ostamp x = Some sv ->
    exists j st', consume_stamp F E st = POk tt st' /\ at_ L st' (sp j ++ B) (mid_set_stamp F m sv).
  Proof.
    intros Hat HB HBint Hsv. unfold ostamp in Hsv.
    destruct (stamp_kind (ss_arm x)) as [kd|] eqn:Hk; [|discriminate].
    destruct (stamp_arm_spec _ _ Hk) as (g0 & sk & Hn & Hmk & Hsk & Hne).
    unfold render_stamp in Hat. rewrite Hk, Hmk in Hat. rewrite <- !app_assoc in Hat.
    unfold consume_stamp, skip_and_spaces. apply at_skip in Hat.
    apply skip_spaces_sp in Hat.
    2:{ apply nsp_div. rewrite <- Hmk. exact (all_arms_nth _ _ _ _ sk_sp_marker Hn). }
    set (st1 := skip_spaces F E (skip F (sentence_stamp_brackets_0 E) st)) in *.
    destruct Hat as (Hwf1 & Hr1 & Hm1).
    pose proof (map_nth_error (fun x => (fst (fst x), (snd (fst x), snd x))) _ _ Hn) as Hn'. cbn [fst snd] in Hn'.
    rewrite (find_arm_nth _ sk_stamp_sep (ss_arm x) g0 (sk, kd) L st1 _ Hn' Hwf1 Hr1 Hne).
    pose proof (at_skip L st1 (g0 E) _ m (conj Hwf1 (conj Hr1 Hm1))) as Hat2.
    unfold skip in Hat2 |- *. rewrite Hsk.
    cbv zeta.
    assert (Hfin : forall s st3, at_ L st3 (sp (ss_sp2 x) ++ sentence_stamp_brackets_1 E ++ sp g ++ B) m ->
              exists j st', POk tt (skip_after_spaces F E (sentence_stamp_brackets_1 E) (set_mid F st3 (mid_set_stamp F (s_mid st3) s))) = POk tt st' /\
                            at_ L st' (sp j ++ B) (mid_set_stamp F m s)).
    { intros s st3 Hat3. assert (Hm3 : s_mid st3 = m) by apply Hat3. rewrite Hm3.
      apply (at_set_mid L st3 _ m (mid_set_stamp F m s)) in Hat3.
      destruct (stamp_finish L _ _ g B _ Hat3 HB) as (j & Hj). eauto. }
    destruct kd.
    - (* fixed *)
      destruct (nonempty (ss_int x) && forallb is_int_char (ss_int x)) eqn:Hi; [|discriminate].
      apply andb_true_iff in Hi as [Hine Hich]. apply nonempty_ne in Hine. apply forallb_Forall_iff in Hich.
      destruct (read_isize (ss_int x)) as [z|] eqn:Hz; [|discriminate]. injection Hsv as <-.
      rewrite sk_fixed_spaces. rewrite <- !app_assoc in Hat2.
      assert (Hic : exists c r, ss_int x = c :: r /\ is_int_char c = true).
      { destruct (ss_int x) as [|c r]; [congruence|]. inversion Hich; subst. eauto. }
      destruct Hic as (c & r & Hcr & Hc).
      apply skip_spaces_sp in Hat2.
      2:{ rewrite Hcr. cbn [app]. apply (first_not_starts is_int_char); auto using sk_space_int, space_ne. }
      set (st2 := skip_spaces F E (step F (length (g0 E)) st1)) in *.
      destruct Hat2 as (Hwf2 & Hr2 & Hm2).
      assert (Hstop : first_not is_int_char (sp (ss_sp2 x) ++ sentence_stamp_brackets_1 E ++ sp g ++ B) = true).
      { pose proof sk_stamp_rb as Hrb.
        destruct (ss_sp2 x) as [|s2]; [|rewrite sp_S, <- app_assoc; apply first_not_app; auto using sk_space_int, space_ne].
        cbn [Sst.sp rep app]. destruct (sentence_stamp_brackets_1 E) as [|c' r'] eqn:Hb.
        - cbn [app]. destruct g as [|g']; [cbn [Sst.sp rep app]; now apply HBint|].
          rewrite sp_S, <- app_assoc. apply first_not_app; auto using sk_space_int, space_ne.
        - apply andb_true_iff in Hrb as [_ Hrb]. cbn [app first_not] in *. exact Hrb. }
      unfold parse_isize. rewrite (can_consume_ne L st2 Hwf2) by (rewrite Hr2, Hcr; discriminate).
      rewrite Hr2, (int_scan_app _ _ Hich Hstop).
      destruct (ss_int x) as [|c0 r0] eqn:Hint; [congruence|]. rewrite Hz. cbn [pbind].
      apply Hfin. split; [apply wf_step, Hwf2 | split; [rewrite <- Hint in *; now apply rest_step | exact Hm2]].
    - cbn [app] in Hat2. injection Hsv as <-. now apply Hfin.
    - cbn [app] in Hat2. injection Hsv as <-. now apply Hfin.
    - cbn [app] in Hat2. injection Hsv as <-. now apply Hfin.
  Qed.

  (* ---- the term: the term-level theorem is a hypothesis of this file ---- *)
  Lemma items_depth (r : sterm -> str) gaps items :
    Forall (fun x => (sdepth x <= S (length (r x)))%nat) items ->
    forall lead i, (fold_right (fun x acc => Nat.max (sdepth x) acc) O items <= S (length (render_items E r gaps lead i items)))%nat.
  Proof.
    induction 1 as [|x items Hx _ IH]; intros lead i; cbn [fold_right render_items]; [lia|].
    specialize (IH true (S i)). rewrite !app_length. lia.
  Qed.

  Lemma sdepth_render t : (sdepth t <= S (length (render E t)))%nat.
  Proof.
    pose proof sk_total as Hok.
    induction t as [arm name|ext sp0 gaps items sp1 IH|arm sp0 gaps items sp1 IH|arm sp0 sp1 sp2 sp3 s p IHs IHp] using sterm_ind';
      cbn [sdepth render].
    - lia.
    - pose proof (items_depth (render E) gaps items IH false 0%nat) as H. rewrite !app_length.
      assert (0 < length (set_lb E ext))%nat; [|lia].
      unfold set_lb. destruct ext; [apply (ok_xb0 F fzero in01 E Hok) | apply (ok_ib0 F fzero in01 E Hok)].
    - pose proof (items_depth (render E) gaps items IH true 0%nat) as H. rewrite !app_length.
      pose proof (ok_cb0 F fzero in01 E Hok). lia.
    - rewrite !app_length. pose proof (ok_sb0 F fzero in01 E Hok). lia.
  Qed.

  Variable unamb : sterm -> str -> bool.
  Hypothesis Hterm : TermParses F is_alnum E unamb.

  Lemma consume_term_ok L st t v k m :
    at_ L st (render E t ++ k) m -> odesugar t = Some v -> unamb t k = true ->
    exists st', consume_term F is_alnum E st = POk tt st' /\ at_ L st' k (mid_set_term F m v).
  Proof.
    intros (Hwf & Hr & Hm) Hv Hu. unfold consume_term, parse_term.
    rewrite (Hterm t v k L st (term_fuel F st) Hv Hu Hwf Hr).
    2:{ unfold term_fuel. rewrite Hr, app_length. pose proof (sdepth_render t). lia. }
    cbn [pbind]. eexists. split; [reflexivity|]. cbn [step s_mid]. rewrite Hm.
    apply at_set_mid with (m := m). split; [apply wf_step, Hwf | split; [now apply rest_step | exact Hm]].
  Qed.

  (* ---------------- consume_one: the `first_method_ok!` back-off chain ---------------- *)
  Lemma try_skip orig guard br k cur : guard cur = false -> try_branch F orig guard br k cur = k cur.
  Proof. intros H. unfold try_branch. now rewrite H. Qed.
  Lemma try_take orig guard br k cur st' :
    guard cur = true -> br (restore F orig cur) = POk tt st' -> try_branch F orig guard br k cur = POk tt st'.
  Proof. intros H Hb. unfold try_branch. now rewrite H, Hb. Qed.
  Lemma try_fail orig guard br k cur st' :
    guard cur = true -> br (restore F orig cur) = PErr st' -> try_branch F orig guard br k cur = k st'.
  Proof. intros H Hb. unfold try_branch. now rewrite H, Hb. Qed.

  Lemma perr_err {A} (st : pstate) : perr F st = (PErr st : pres A).
  Proof. unfold perr. now rewrite (err_window_ok_true F sk_facts). Qed.

  Lemma find_arm_none {A} (arms : list ((efmt -> str) * A)) (st : pstate) :
    (forall g a, In (g, a) arms -> starts (g E) (s_rest st) = false) -> find_arm F E arms st = None.
  Proof.
    induction arms as [|[g a] arms IH]; intros H; cbn [find_arm]; [reflexivity|].
    rewrite st_starts_false by (apply (H g a); now left). apply IH. intros g' a' Hin. apply (H g' a'). now right.
  Qed.

  Lemma diverge_ne a b : diverge a b = true -> b <> [].
  Proof. destruct a, b; cbn; congruence. Qed.

  (* a failed punctuation attempt leaves the state as it was *)
  Lemma punct_fails L st T R m : at_ L st (T ++ R) m ->
    all_arms punct_arms (fun i => diverge (punct_kw E i) T) = true -> consume_punctuation F E st = PErr st.
  Proof.
    intros (Hwf & Hr & Hm) Hall. unfold consume_punctuation. rewrite find_arm_none; [apply perr_err|].
    intros g a Hin. apply in_map_iff in Hin as ([[g' sk] p] & Heq & Hin). cbn [fst snd] in Heq. injection Heq as <- <-.
    apply In_nth_error in Hin as [i Hi]. pose proof (all_arms_nth _ _ _ _ Hall Hi) as Hd. cbn beta in Hd.
    unfold punct_kw in Hd. rewrite Hi in Hd. rewrite Hr. now apply diverge_starts.
  Qed.

  Lemma punct_branch L st T R m (K : pstate -> pres unit) : at_ L st (T ++ R) m -> m_term F m <> None ->
    all_arms punct_arms (fun i => diverge (punct_kw E i) T) = true ->
    try_branch F st (fun c => is_none (m_term F (s_mid c))) (consume_term F is_alnum E)
      (try_branch F st (fun c => is_none (m_punct F (s_mid c))) (consume_punctuation F E) K) st = K st.
  Proof.
    intros Hat Ht Hall. pose proof Hat as (Hwf & Hr & Hm).
    rewrite try_skip by (cbv beta; rewrite Hm; destruct (m_term F m); [reflexivity | congruence]).
    destruct (m_punct F m) as [p|] eqn:Hp.
    - apply try_skip. cbv beta. now rewrite Hm, Hp.
    - apply try_fail; [cbv beta; now rewrite Hm, Hp|]. rewrite restore_same. eapply punct_fails; eauto.
  Qed.

  Lemma stamp_branch L st T R m (K : pstate -> pres unit) : at_ L st (T ++ R) m -> nsp (T ++ R) -> T <> [] ->
    stamp_clear E T = true ->
    try_branch F st (fun c => st_starts F (sentence_stamp_brackets_0 E) c && is_none (m_stamp F (s_mid c)))
      (consume_stamp F E) K st = K st.
  Proof.
    intros Hat Hn HT Hc. pose proof Hat as (Hwf & Hr & Hm). unfold stamp_clear in Hc.
    destruct (m_stamp F m) as [s|] eqn:Hs.
    { apply try_skip. cbv beta. rewrite Hm, Hs. apply andb_false_r. }
    destruct (sentence_stamp_brackets_0 E) as [|c r] eqn:Hb.
    - apply try_fail.
      + cbv beta. rewrite Hm, Hs, andb_true_r. apply (st_starts_app L [] (T ++ R) st Hwf Hr).
        assert (s_head st < L)%nat; [|lia]. apply head_lt; [exact Hwf|]. rewrite Hr. destruct T; [congruence | discriminate].
      + rewrite restore_same. unfold consume_stamp, skip_and_spaces. rewrite Hb. unfold skip. cbn [length]. rewrite step_0.
        rewrite (skip_spaces_none L st _ m Hat Hn). rewrite find_arm_none; [apply perr_err|].
        intros g a Hin. apply in_map_iff in Hin as ([[g' sk] kd] & Heq & Hin). cbn [fst snd] in Heq. injection Heq as <- <-.
        apply In_nth_error in Hin as [i Hi]. pose proof (all_arms_nth _ _ _ _ Hc Hi) as Hd. cbn beta in Hd.
        unfold stamp_marker in Hd. rewrite Hi in Hd. rewrite Hr. now apply diverge_starts.
    - apply try_skip. cbv beta. rewrite st_starts_false; [reflexivity|]. rewrite Hr. now apply diverge_starts.
  Qed.

  Lemma consume_budget_err L st st' : wf L st -> consume_budget F fread fzero in01 E st = PErr st' ->
    wf L st' /\ s_mid st' = s_mid st.
  Proof.
    intros Hwf He. split.
    { pose proof (consume_budget_good F fread fzero in01 E sk_total sk_facts L st Hwf) as Hg. rewrite He in Hg. exact Hg. }
    revert He. unfold consume_budget, parse_floats.
    pose proof (floats_same F fread E (length (s_rest (skip_and_spaces F E (task_budget_brackets_0 E) st)) + 3 + 1) 3
                  (task_budget_separator E) (task_budget_brackets_1 E) [] [] (skip_and_spaces F E (task_budget_brackets_0 E) st)) as Hs.
    destruct (floats_loop F fread E _ 3 _ _ [] [] _) as [l st2|st2| |]; cbn [pbind]; cbn [same] in Hs; try discriminate.
    - destruct Hs as [Hs _]. rewrite mid_skip_and_spaces in Hs.
      destruct (negb (forallb in01 (pad F fzero 3 l))).
      + rewrite perr_err. intros H; injection H as <-. exact Hs.
      + destruct (mk_budget F in01 l); [|discriminate].
        destruct budget_requires_close; [|discriminate].
        destruct (st_starts F (task_budget_brackets_1 E) (skip_spaces F E st2)); [discriminate|].
        rewrite perr_err. intros H; injection H as <-. now rewrite mid_skip_spaces.
    - rewrite mid_skip_and_spaces in Hs. intros H; injection H as <-. exact Hs.
  Qed.

  Notation C1 := (consume_one F fread fzero in01 is_alnum E).

  Lemma one_budget L st nm b k m :
    at_ L st (render_budget E nm ++ k) m -> m_budget F m = None -> obudget F fread in01 nm = Some b ->
    exists st', C1 st = POk tt st' /\ at_ L st' k (mid_set_budget F m b).
  Proof.
    intros Hat Hmb Hb. pose proof Hat as (Hwf & Hr & Hm).
    unfold render_budget, render_nums in Hr. rewrite <- app_assoc in Hr.
    unfold consume_one.
    rewrite try_skip by (cbv beta; apply st_starts_false; rewrite Hr; apply diverge_starts, sk_sp_b0).
    destruct (consume_budget_ok L st nm b k m Hat Hb) as (st' & Hc & Hat').
    exists st'. split; [|exact Hat']. apply try_take.
    - cbv beta. now rewrite (st_starts_app_ne L _ _ st Hwf Hr b0_ne), Hm, Hmb.
    - now rewrite restore_same.
  Qed.

  Lemma one_term L st t v k m :
    at_ L st (render E t ++ k) m -> nsp (render E t ++ k) -> m_term F m = None ->
    odesugar t = Some v -> unamb t k = true ->
    (m_budget F m <> None \/ starts (task_budget_brackets_0 E) (render E t ++ k) = false \/
     exists st', consume_budget F fread fzero in01 E st = PErr st') ->
    exists st', C1 st = POk tt st' /\ at_ L st' k (mid_set_term F m v).
  Proof.
    intros Hat Hn Hmt Hv Hu Hbud. pose proof Hat as (Hwf & Hr & Hm).
    unfold consume_one.
    rewrite try_skip by (cbv beta; apply st_starts_false; now rewrite Hr).
    destruct (consume_term_ok L st t v k m Hat Hv Hu) as (st' & Hc & Hat').
    exists st'. split; [|exact Hat'].
    set (K := try_branch F st (fun c => is_none (m_term F (s_mid c))) (consume_term F is_alnum E) _).
    assert (HK : forall cur, wf L cur -> s_mid cur = s_mid st -> K cur = POk tt st').
    { intros cur Hwfc Hmc. unfold K. apply try_take; [cbv beta; now rewrite Hmc, Hm, Hmt|].
      replace (restore F st cur) with st; [exact Hc|]. apply pstate_eq; cbn; auto.
      destruct Hwf as [-> _]. destruct Hwfc as [-> _]. reflexivity. }
    destruct Hbud as [H|[H|[st'' H]]].
    - rewrite try_skip; [now apply HK|]. cbv beta. rewrite Hm. destruct (m_budget F m); [apply andb_false_r | congruence].
    - rewrite try_skip; [now apply HK|]. cbv beta. rewrite st_starts_false; [reflexivity | now rewrite Hr].
    - destruct (st_starts F (task_budget_brackets_0 E) st && is_none (m_budget F (s_mid st))) eqn:Hg.
      + rewrite (try_fail _ _ _ _ _ st''); [| exact Hg | now rewrite restore_same].
        destruct (consume_budget_err L st st'' Hwf H) as [Hw Hmm]. now apply HK.
      + rewrite try_skip; [now apply HK | exact Hg].
  Qed.

  Lemma one_punct L st a p k m :
    at_ L st (punct_kw E a ++ k) m -> m_term F m <> None -> m_punct F m = None -> opunct a = Some p ->
    exists st', C1 st = POk tt st' /\ at_ L st' k (mid_set_punct F m p).
  Proof.
    intros Hat Hmt Hmp Hp. pose proof Hat as (Hwf & Hr & Hm).
    destruct (punct_arm_spec a p Hp) as (g & sk & Hnth & _).
    unfold consume_one.
    rewrite try_skip by (cbv beta; apply st_starts_false; rewrite Hr; apply diverge_starts, (all_arms_nth _ _ _ _ sk_sp_punct Hnth)).
    rewrite try_skip by (cbv beta; rewrite st_starts_false; [reflexivity | rewrite Hr; apply diverge_starts, (all_arms_nth _ _ _ _ sk_b0_punct Hnth)]).
    rewrite try_skip by (cbv beta; rewrite Hm; destruct (m_term F m); [reflexivity | congruence]).
    destruct (consume_punct_ok L st a p k m Hat Hp) as (st' & Hc & Hat').
    exists st'. split; [|exact Hat']. apply try_take; [cbv beta; now rewrite Hm, Hmp | now rewrite restore_same].
  Qed.

  Lemma render_stamp_first x :
    nonempty (sentence_stamp_brackets_0 E) || Nat.eqb (ss_sp0 x) 0 = true ->
    exists R, render_stamp E x = stamp_first E (ss_arm x) ++ R.
  Proof.
    unfold render_stamp, stamp_first. destruct (sentence_stamp_brackets_0 E) as [|c r]; cbn [nonempty orb]; intros H.
    - apply Nat.eqb_eq in H. rewrite H. cbn [Sst.sp rep app]. eauto.
    - eauto.
  Qed.

  Lemma one_stamp L st x sv g B m :
    at_ L st (render_stamp E x ++ sp g ++ B) m -> nsp B ->
    (sentence_stamp_brackets_1 E = [] -> first_not is_int_char B = true) ->
    nonempty (sentence_stamp_brackets_0 E) || Nat.eqb (ss_sp0 x) 0 = true ->
    m_term F m <> None -> m_stamp F m = None -> ostamp x = Some sv ->
    exists j st', C1 st = POk tt st' /\ at_ L st' (sp j ++ B) (mid_set_stamp F m sv).
  Proof.
    intros Hat HB HBi Hnf Hmt Hms Hsv. pose proof Hat as (Hwf & Hr & Hm).
    assert (Hk : exists kd, stamp_kind (ss_arm x) = Some kd).
    { unfold ostamp in Hsv. destruct (stamp_kind (ss_arm x)); [eauto | discriminate]. }
    destruct Hk as (kd & Hk). destruct (stamp_arm_spec _ _ Hk) as (g0 & sk & Hnth & _).
    destruct (render_stamp_first x Hnf) as (R & HR).
    assert (Hr' : s_rest st = stamp_first E (ss_arm x) ++ (R ++ sp g ++ B)) by (rewrite Hr, HR, <- app_assoc; reflexivity).
    assert (Hat0 : at_ L st (stamp_first E (ss_arm x) ++ (R ++ sp g ++ B)) m) by (split; [exact Hwf | split; [exact Hr' | exact Hm]]).
    pose proof (all_arms_nth _ _ _ _ sk_sp_stamp Hnth) as Hd1. cbn beta in Hd1.
    unfold consume_one.
    rewrite try_skip by (cbv beta; apply st_starts_false; rewrite Hr'; now apply diverge_starts).
    rewrite try_skip by (cbv beta; rewrite st_starts_false; [reflexivity | rewrite Hr'; apply diverge_starts, (all_arms_nth _ _ _ _ sk_b0_stamp Hnth)]).
    rewrite (punct_branch L st _ _ m _ Hat0 Hmt).
    2:{ unfold all_arms. apply forallb_forall. intros i Hi. pose proof sk_punct_stamp as Hps. unfold all_arms at 1 in Hps.
        rewrite forallb_forall in Hps. apply (all_arms_nth _ _ _ _ (Hps i Hi) Hnth). }
    destruct (consume_stamp_ok L st x sv g B m Hat HB HBi Hsv) as (j & st' & Hc & Hat').
    exists j, st'. split; [|exact Hat']. apply try_take; [|now rewrite restore_same].
    cbv beta. rewrite Hm, Hms, andb_true_r. unfold render_stamp in Hr. rewrite <- app_assoc in Hr.
    apply (st_starts_app L _ _ st Hwf Hr).
    assert (s_head st < L)%nat; [|lia]. apply head_lt; [exact Hwf|]. rewrite Hr'.
    pose proof (diverge_ne _ _ Hd1). destruct (stamp_first E (ss_arm x)); [congruence | discriminate].
  Qed.

  Lemma one_truth L st nm t k m :
    at_ L st (render_truth E nm ++ k) m -> m_term F m <> None -> m_truth F m = None ->
    otruth F fread in01 nm = Some t ->
    exists st', C1 st = POk tt st' /\ at_ L st' k (mid_set_truth F m t).
  Proof.
    intros Hat Hmt Hmtr Ht. pose proof Hat as (Hwf & Hr & Hm).
    unfold render_truth, render_nums in Hr. rewrite <- app_assoc in Hr.
    assert (Hat0 : at_ L st (sentence_truth_brackets_0 E ++ _) m) by (split; [exact Hwf | split; [exact Hr | exact Hm]]).
    unfold consume_one.
    rewrite try_skip by (cbv beta; apply st_starts_false; rewrite Hr; apply diverge_starts, sk_sp_t0).
    rewrite try_skip by (cbv beta; rewrite st_starts_false; [reflexivity | rewrite Hr; apply diverge_starts, sk_b0_t0]).
    rewrite (punct_branch L st _ _ m _ Hat0 Hmt sk_punct_t0).
    rewrite (stamp_branch L st _ _ m _ Hat0 (nsp_div _ _ sk_sp_t0) t0_ne sk_stamp_t0).
    destruct (consume_truth_ok L st nm t k m Hat Ht) as (st' & Hc & Hat').
    exists st'. split; [|exact Hat']. apply try_take; [|now rewrite restore_same].
    cbv beta. now rewrite (st_starts_app_ne L _ _ st Hwf Hr t0_ne), Hm, Hmtr.
  Qed.

  (* ---------------- build_mid_result: one loop turn per written item ---------------- *)
  Notation BL := (build_loop F fread fzero in01 is_alnum E).

  Definition bound (L : nat) (st : pstate) (fuel : nat) : Prop := (L - s_head st + 1 < fuel)%nat.

  Lemma build_item L fuel st j X m (P : pstate -> Prop) :
    at_ L st (sp j ++ X) m -> nsp X -> X <> [] -> bound L st fuel ->
    (forall st1, at_ L st1 X m -> exists st2, C1 st1 = POk tt st2 /\ P st2) ->
    exists fuel' st2, BL fuel st = BL fuel' st2 /\ P st2 /\ bound L st2 fuel'.
  Proof.
    intros Hat HX Hne Hb Hone. destruct fuel as [|fuel]; [unfold bound in Hb; lia|].
    pose proof Hat as (Hwf & Hr & Hm). cbn [build_loop].
    rewrite (can_consume_ne L st Hwf) by (rewrite Hr; destruct (sp j); [exact Hne | discriminate]).
    pose proof (skip_spaces_sp L j st X m Hat HX) as Hat1. pose proof Hat1 as (Hwf1 & Hr1 & Hm1).
    rewrite (can_consume_ne L _ Hwf1) by (rewrite Hr1; exact Hne).
    destruct (Hone _ Hat1) as (st2 & Hc & HP). rewrite Hc. cbn [pbind].
    exists fuel, st2. split; [reflexivity|]. split; [exact HP|].
    pose proof (head_skip_spaces F E L st Hwf) as Hh.
    assert (Hlt : (s_head st < L)%nat).
    { apply head_lt; [exact Hwf|]. rewrite Hr. destruct (sp j); [exact Hne | discriminate]. }
    pose proof (consume_one_good F fread fzero in01 is_alnum E sk_total sk_facts L _ Hwf1) as Hg.
    rewrite Hc in Hg. cbn in Hg. destruct Hg as [_ Hadv]. unfold adv in Hadv. unfold bound in *. lia.
  Qed.

  Lemma build_end L fuel st j m : at_ L st (sp j) m -> bound L st fuel ->
    exists st', BL fuel st = POk tt st' /\ wf L st' /\ s_mid st' = m.
  Proof.
    intros Hat Hb. pose proof Hat as (Hwf & Hr & Hm). unfold bound in Hb.
    destruct j as [|j].
    - destruct fuel as [|fuel]; [lia|]. cbn [build_loop]. rewrite (can_consume_nil L st Hwf Hr). eauto.
    - assert (Hne : s_rest st <> []).
      { rewrite Hr, sp_S. pose proof space_ne. destruct space; [congruence | discriminate]. }
      pose proof (head_lt L st Hwf Hne). destruct fuel as [|[|fuel]]; [lia | lia|].
      cbn [build_loop]. rewrite (can_consume_ne L st Hwf Hne).
      rewrite <- (app_nil_r (sp (S j))) in Hat. apply skip_spaces_sp in Hat; [|apply nsp_nil].
      destruct Hat as (Hwf1 & Hr1 & Hm1). rewrite (can_consume_nil L _ Hwf1 Hr1). eauto.
  Qed.

  (* ---- the text after the term, as  spaces ++ core  where the core is empty or starts with an item ---- *)
  Definition gap3 (s : snarsese) : nat := sn_trail s.
  Definition core3 (s : snarsese) : str := [].
  Definition gap2 (s : snarsese) : nat := match sn_truth s with Some (g, _) => g | None => gap3 s end.
  Definition core2 (s : snarsese) : str :=
    match sn_truth s with Some (_, nm) => render_truth E nm ++ tail3 E s | None => core3 s end.
  Definition gap1 (s : snarsese) : nat := match sn_stamp s with Some (g, _) => g | None => gap2 s end.
  Definition core1 (s : snarsese) : str :=
    match sn_stamp s with Some (_, x) => render_stamp E x ++ tail2 E s | None => core2 s end.
  Definition gap0 (s : snarsese) : nat := match sn_punct s with Some (g, _) => g | None => gap1 s end.
  Definition core0 (s : snarsese) : str :=
    match sn_punct s with Some (_, a) => punct_kw E a ++ tail1 E s | None => core1 s end.

  Lemma tail3_form s : tail3 E s = sp (gap3 s) ++ core3 s.
  Proof. unfold tail3, gap3, core3. now rewrite app_nil_r. Qed.
  Lemma tail2_form s : tail2 E s = sp (gap2 s) ++ core2 s.
  Proof. unfold tail2, ropt, gap2, core2. destruct (sn_truth s) as [[g nm]|]; [reflexivity | apply tail3_form]. Qed.
  Lemma tail1_form s : tail1 E s = sp (gap1 s) ++ core1 s.
  Proof. unfold tail1, ropt, gap1, core1. destruct (sn_stamp s) as [[g x]|]; [reflexivity | apply tail2_form]. Qed.
  Lemma tail0_form s : tail0 E s = sp (gap0 s) ++ core0 s.
  Proof. unfold tail0, ropt, gap0, core0. destruct (sn_punct s) as [[g a]|]; [reflexivity | apply tail1_form]. Qed.

  Lemma core2_ok s : nsp (core2 s) /\ (sentence_stamp_brackets_1 E = [] -> first_not is_int_char (core2 s) = true).
  Proof.
    unfold core2, core3. destruct (sn_truth s) as [[g nm]|]; [|split; [apply nsp_nil | reflexivity]].
    unfold render_truth, render_nums. rewrite <- !app_assoc. split; [apply nsp_div, sk_sp_t0|].
    intros Hb. pose proof sk_stamp_rb as H. rewrite Hb in H. apply first_not_app; [exact H | apply t0_ne].
  Qed.

  (* ---------------- the theorem ---------------- *)
  Lemma render_ne t v k : odesugar t = Some v -> unamb t k = true -> render E t <> [].
  Proof.
    intros Hv Hu Hnil.
    assert (Hwf : wf (length k) (new_state F k)) by apply wf_new_state.
    pose proof (Hterm t v k (length k) (new_state F k) (S (sdepth t + length k)) Hv Hu Hwf) as H.
    rewrite Hnil in H. specialize (H eq_refl ltac:(lia)).
    pose proof (p_term_good F fzero in01 is_alnum E sk_total sk_facts (length k) (S (sdepth t + length k)) (new_state F k) Hwf) as Hg.
    rewrite H in Hg. cbn in Hg. destruct Hg as [_ Hadv]; [lia|]. unfold adv in Hadv. cbn in Hadv. lia.
  Qed.

  Lemma opt_read_spec {A B} (o : option A) (f : A -> option B) r : opt_read o f = Some r ->
    match o with None => r = None | Some a => exists b, f a = Some b /\ r = Some b end.
  Proof.
    unfold opt_read. destruct o as [a|]; [|intros H; injection H as <-; reflexivity].
    destruct (f a) as [b|]; [|discriminate]. intros H; injection H as <-. eauto.
  Qed.

  Section Main.
    Variable s : snarsese.
    Variable t : term.
    Variable ob : option (budgetv F).
    Variable op : option punct.
    Variable os : option stamp.
    Variable ot : option (truthv F).
    Hypothesis Ht : odesugar (sn_term s) = Some t.
    Hypothesis Hob : opt_read (sn_budget s) (fun x => obudget F fread in01 (fst x)) = Some ob.
    Hypothesis Hop : opt_read (sn_punct s) (fun x => opunct (snd x)) = Some op.
    Hypothesis Hos : opt_read (sn_stamp s) (fun x => ostamp (snd x)) = Some os.
    Hypothesis Hot : opt_read (sn_truth s) (fun x => otruth F fread in01 (snd x)) = Some ot.
    Hypothesis Hun : sent_unamb F fread fzero in01 E unamb s = true.

    Let L := length (render_narsese E s).
    Let m0 : mid := mid_empty F.
    Let m1 : mid := match ob with Some b => mid_set_budget F m0 b | None => m0 end.
    Let m2 : mid := mid_set_term F m1 t.
    Let m3 : mid := match op with Some p => mid_set_punct F m2 p | None => m2 end.
    Let m4 : mid := match os with Some x => mid_set_stamp F m3 x | None => m3 end.
    Let m5 : mid := match ot with Some x => mid_set_truth F m4 x | None => m4 end.

    Lemma un_parts :
      unamb (sn_term s) (tail0 E s) = true /\ nsp (from_term E s) /\
      match sn_budget s with
      | Some _ => True
      | None => starts (task_budget_brackets_0 E) (from_term E s) = false \/
                budget_attempt_fails F fread fzero in01 E (render_narsese E s) (from_term E s) = true
      end /\
      match sn_stamp s with
      | Some (_, x) => nonempty (sentence_stamp_brackets_0 E) || Nat.eqb (ss_sp0 x) 0 = true
      | None => True
      end.
    Proof.
      unfold sent_unamb in Hun. rewrite !andb_true_iff in Hun. destruct Hun as (((H1 & H2) & H3) & H4).
      split; [exact H1|]. split; [now apply negb_true_iff in H2|]. split.
      - destruct (sn_budget s); [exact I|]. apply orb_true_iff in H3 as [H3|H3]; [left; now apply negb_true_iff in H3 | now right].
      - destruct (sn_stamp s) as [[g x]|]; [exact H4 | exact I].
    Qed.

    Lemma step_budget fuel st : at_ L st (render_narsese E s) m0 -> bound L st fuel ->
      exists fuel' st' j, BL fuel st = BL fuel' st' /\ at_ L st' (sp j ++ from_term E s) m1 /\ bound L st' fuel'.
    Proof.
      intros Hat Hb. unfold render_narsese in Hat. unfold m1.
      pose proof (opt_read_spec _ _ _ Hob) as Hb'. destruct (sn_budget s) as [[nm g]|].
      - destruct Hb' as (b & Hbv & Hob'). rewrite Hob'. cbn [fst] in Hbv.
        destruct (build_item L fuel st (sn_lead s) (render_budget E nm ++ sp g ++ from_term E s) m0
                    (fun st2 => at_ L st2 (sp g ++ from_term E s) (mid_set_budget F m0 b)) Hat) as (fuel' & st2 & Heq & HP & Hb2); auto.
        + unfold render_budget, render_nums. rewrite <- !app_assoc. apply nsp_div, sk_sp_b0.
        + unfold render_budget, render_nums. pose proof b0_ne. destruct (task_budget_brackets_0 E); [congruence | discriminate].
        + intros st1 Hat1. apply (one_budget L st1 nm b _ m0 Hat1 eq_refl Hbv).
        + exists fuel', st2, g. auto.
      - rewrite Hb'. exists fuel, st, (sn_lead s). auto.
    Qed.

    Lemma step_term fuel st j : at_ L st (sp j ++ from_term E s) m1 -> bound L st fuel ->
      exists fuel' st' j', BL fuel st = BL fuel' st' /\ at_ L st' (sp j' ++ core0 s) m2 /\ bound L st' fuel'.
    Proof.
      intros Hat Hb. destruct un_parts as (Hu & Hn & Hbud & _).
      destruct (build_item L fuel st j (from_term E s) m1
                  (fun st2 => at_ L st2 (sp (gap0 s) ++ core0 s) m2) Hat Hn) as (fuel' & st2 & Heq & HP & Hb2); auto.
      - unfold from_term. pose proof (render_ne _ _ _ Ht Hu). destruct (render E (sn_term s)); [congruence | discriminate].
      - intros st1 Hat1. rewrite <- tail0_form. unfold from_term in Hat1, Hn |- *.
        apply (one_term L st1 (sn_term s) t (tail0 E s) m1 Hat1 Hn); auto.
        { unfold m1. destruct ob; reflexivity. }
        pose proof (opt_read_spec _ _ _ Hob) as Hb'. destruct (sn_budget s) as [[nm g]|].
        + destruct Hb' as (b & _ & Hb''). left. unfold m1. rewrite Hb''. discriminate.
        + destruct Hbud as [Hbud|Hbud]; [right; left; exact Hbud|]. right; right.
          unfold budget_attempt_fails, from_term in Hbud.
          assert (Heq1 : st1 = probe_state F (render_narsese E s) (render E (sn_term s) ++ tail0 E s)).
          { destruct Hat1 as (Hwf1 & Hr1 & Hm1). apply pstate_eq; cbn [probe_state s_len s_head s_rest s_mid].
            - apply Hwf1.
            - assert (Hne : s_rest st1 <> []).
              { rewrite Hr1. pose proof (render_ne _ _ _ Ht Hu). destruct (render E (sn_term s)); [congruence | discriminate]. }
              pose proof (head_lt L st1 Hwf1 Hne). destruct Hwf1 as [_ Hlen]. rewrite Hr1 in Hlen. fold L. lia.
            - exact Hr1.
            - rewrite Hm1. unfold m1. rewrite Hb'. reflexivity. }
          rewrite <- Heq1 in Hbud. destruct (consume_budget F fread fzero in01 E st1); try discriminate. eauto.
      - exists fuel', st2, (gap0 s). auto.
    Qed.

    Lemma m_term_m2 : m_term F m2 <> None. Proof. discriminate. Qed.
    Lemma m_term_m3 : m_term F m3 <> None. Proof. unfold m3. destruct op; discriminate. Qed.
    Lemma m_term_m4 : m_term F m4 <> None. Proof. unfold m4, m3. destruct os, op; discriminate. Qed.
    Lemma m_punct_m2 : m_punct F m2 = None. Proof. unfold m2, m1. destruct ob; reflexivity. Qed.
    Lemma m_stamp_m3 : m_stamp F m3 = None. Proof. unfold m3, m2, m1. destruct op, ob; reflexivity. Qed.
    Lemma m_truth_m4 : m_truth F m4 = None. Proof. unfold m4, m3, m2, m1. destruct os, op, ob; reflexivity. Qed.

    Lemma step_punct fuel st j : at_ L st (sp j ++ core0 s) m2 -> bound L st fuel ->
      exists fuel' st' j', BL fuel st = BL fuel' st' /\ at_ L st' (sp j' ++ core1 s) m3 /\ bound L st' fuel'.
    Proof.
      intros Hat Hb. unfold core0 in Hat. unfold m3.
      pose proof (opt_read_spec _ _ _ Hop) as Hp'. destruct (sn_punct s) as [[g a]|].
      - destruct Hp' as (p & Hpv & Hop'). rewrite Hop'. cbn [snd] in Hpv.
        destruct (punct_arm_spec a p Hpv) as (g0 & sk & Hnth & Hkw & _ & Hne).
        destruct (build_item L fuel st j (punct_kw E a ++ tail1 E s) m2
                    (fun st2 => at_ L st2 (sp (gap1 s) ++ core1 s) (mid_set_punct F m2 p)) Hat) as (fuel' & st2 & Heq & HP & Hb2); auto.
        + apply nsp_div. apply (all_arms_nth _ _ _ _ sk_sp_punct Hnth).
        + rewrite Hkw. destruct (g0 E); [congruence | discriminate].
        + intros st1 Hat1. rewrite <- tail1_form. apply (one_punct L st1 a p _ m2 Hat1 m_term_m2 m_punct_m2 Hpv).
        + exists fuel', st2, (gap1 s). auto.
      - rewrite Hp'. exists fuel, st, j. auto.
    Qed.

    Lemma step_stamp fuel st j : at_ L st (sp j ++ core1 s) m3 -> bound L st fuel ->
      exists fuel' st' j', BL fuel st = BL fuel' st' /\ at_ L st' (sp j' ++ core2 s) m4 /\ bound L st' fuel'.
    Proof.
      intros Hat Hb. unfold core1 in Hat. unfold m4. destruct un_parts as (_ & _ & _ & Hnf).
      pose proof (opt_read_spec _ _ _ Hos) as Hs'. destruct (sn_stamp s) as [[g x]|].
      - destruct Hs' as (sv & Hsv & Hos'). rewrite Hos'. cbn [snd] in Hsv.
        destruct (render_stamp_first x Hnf) as (R & HR).
        assert (Hk : exists kd, stamp_kind (ss_arm x) = Some kd).
        { unfold ostamp in Hsv. destruct (stamp_kind (ss_arm x)); [eauto | discriminate]. }
        destruct Hk as (kd & Hk). destruct (stamp_arm_spec _ _ Hk) as (g0 & sk & Hnth & _).
        pose proof (all_arms_nth _ _ _ _ sk_sp_stamp Hnth) as Hd. cbn beta in Hd.
        destruct (core2_ok s) as [Hc2 Hc2i].
        destruct (build_item L fuel st j (render_stamp E x ++ tail2 E s) m3
                    (fun st2 => exists j', at_ L st2 (sp j' ++ core2 s) (mid_set_stamp F m3 sv)) Hat) as (fuel' & st2 & Heq & (j' & HP) & Hb2); auto.
        + rewrite HR, <- app_assoc. now apply nsp_div.
        + rewrite HR. pose proof (diverge_ne _ _ Hd). destruct (stamp_first E (ss_arm x)); [congruence | discriminate].
        + intros st1 Hat1. rewrite tail2_form in Hat1.
          destruct (one_stamp L st1 x sv (gap2 s) (core2 s) m3 Hat1 Hc2 Hc2i Hnf m_term_m3 m_stamp_m3 Hsv) as (j' & st' & Hc & Hat').
          eauto.
        + exists fuel', st2, j'. auto.
      - rewrite Hs'. exists fuel, st, j. auto.
    Qed.

    Lemma step_truth fuel st j : at_ L st (sp j ++ core2 s) m4 -> bound L st fuel ->
      exists fuel' st' j', BL fuel st = BL fuel' st' /\ at_ L st' (sp j') m5 /\ bound L st' fuel'.
    Proof.
      intros Hat Hb. unfold core2 in Hat. unfold m5.
      pose proof (opt_read_spec _ _ _ Hot) as Ht'. destruct (sn_truth s) as [[g nm]|].
      - destruct Ht' as (tv & Htv & Hot'). rewrite Hot'. cbn [snd] in Htv.
        destruct (build_item L fuel st j (render_truth E nm ++ tail3 E s) m4
                    (fun st2 => at_ L st2 (sp (sn_trail s)) (mid_set_truth F m4 tv)) Hat) as (fuel' & st2 & Heq & HP & Hb2); auto.
        + unfold render_truth, render_nums. rewrite <- !app_assoc. apply nsp_div, sk_sp_t0.
        + unfold render_truth, render_nums. pose proof t0_ne. destruct (sentence_truth_brackets_0 E); [congruence | discriminate].
        + intros st1 Hat1. apply (one_truth L st1 nm tv _ m4 Hat1 m_term_m4 m_truth_m4 Htv).
        + exists fuel', st2, (sn_trail s). auto.
      - rewrite Ht'. unfold core3 in Hat. rewrite app_nil_r in Hat. exists fuel, st, j. auto.
    Qed.

    Lemma parse_main :
      exists st', parse_narsese F fread fzero in01 is_alnum E (render_narsese E s) = POk (classify F t ob op os ot) st'.
    Proof.
      unfold parse_narsese, run_parse, build_mid_result.
      assert (Hat0 : at_ L (new_state F (render_narsese E s)) (render_narsese E s) m0).
      { split; [apply wf_new_state | split; reflexivity]. }
      assert (Hb0 : bound L (new_state F (render_narsese E s)) (S (S (length (s_rest (new_state F (render_narsese E s))))))).
      { unfold bound. cbn. fold L. lia. }
      destruct (step_budget _ _ Hat0 Hb0) as (f1 & st1 & j1 & -> & Hat1 & Hb1).
      destruct (step_term _ _ _ Hat1 Hb1) as (f2 & st2 & j2 & -> & Hat2 & Hb2).
      destruct (step_punct _ _ _ Hat2 Hb2) as (f3 & st3 & j3 & -> & Hat3 & Hb3).
      destruct (step_stamp _ _ _ Hat3 Hb3) as (f4 & st4 & j4 & -> & Hat4 & Hb4).
      destruct (step_truth _ _ _ Hat4 Hb4) as (f5 & st5 & j5 & -> & Hat5 & Hb5).
      destruct (build_end L f5 st5 j5 m5 Hat5 Hb5) as (st6 & -> & Hwf6 & Hm6).
      cbn [pbind]. unfold transform_mid_result. rewrite Hm6.
      unfold m5, m4, m3, m2, m1, m0, classify. destruct ot, os, op, ob; cbn; eauto.
    Qed.
  End Main.

  Theorem parse_narsese_render s v :
    odesugar_narsese F fread in01 s = Some v -> sent_unamb F fread fzero in01 E unamb s = true ->
    exists st', parse_narsese F fread fzero in01 is_alnum E (render_narsese E s) = POk v st'.
  Proof.
    intros Hv Hu. unfold odesugar_narsese in Hv.
    destruct (odesugar (sn_term s)) as [t|] eqn:Ht; [|discriminate].
    destruct (opt_read (sn_budget s) _) as [ob|] eqn:Hob; [|discriminate].
    destruct (opt_read (sn_punct s) _) as [op|] eqn:Hop; [|discriminate].
    destruct (opt_read (sn_stamp s) _) as [os|] eqn:Hos; [|discriminate].
    destruct (opt_read (sn_truth s) _) as [ot|] eqn:Hot; [|discriminate].
    injection Hv as <-. now apply parse_main.
  Qed.

  (* ---------------- C09: the spacing annotations do not matter ---------------- *)
  Lemma omap_map_ext {A B} (f : A -> option B) (g : A -> A) l :
    Forall (fun x => f (g x) = f x) l -> omap f (map g l) = omap f l.
  Proof. induction 1 as [|x l Hx _ IH]; cbn [map omap]; [reflexivity | now rewrite Hx, IH]. Qed.

  Lemma odesugar_erase_t t : odesugar (erase_t t) = odesugar t.
  Proof.
    induction t as [arm name|ext sp0 gaps items sp1 IH|arm sp0 gaps items sp1 IH|arm sp0 sp1 sp2 sp3 s p IHs IHp] using sterm_ind';
      cbn [erase_t odesugar].
    - reflexivity.
    - now rewrite (omap_map_ext odesugar erase_t items IH).
    - now rewrite (omap_map_ext odesugar erase_t items IH).
    - now rewrite IHs, IHp.
  Qed.

  Lemma odesugar_narsese_erase s : odesugar_narsese F fread in01 (erase s) = odesugar_narsese F fread in01 s.
  Proof.
    unfold odesugar_narsese, erase. cbn [sn_term sn_budget sn_punct sn_stamp sn_truth]. rewrite odesugar_erase_t.
    destruct (sn_budget s) as [[nm g]|], (sn_punct s) as [[g1 a]|], (sn_stamp s) as [[g2 x]|], (sn_truth s) as [[g3 nt]|]; reflexivity.
  Qed.

  (* two inputs that differ only in spacing (equal erasures) mean the same and parse to the same value *)
  Theorem spacing_irrelevant s s' v :
    erase s = erase s' -> odesugar_narsese F fread in01 s = Some v ->
    sent_unamb F fread fzero in01 E unamb s = true -> sent_unamb F fread fzero in01 E unamb s' = true ->
    (exists st, parse_narsese F fread fzero in01 is_alnum E (render_narsese E s) = POk v st) /\
    (exists st, parse_narsese F fread fzero in01 is_alnum E (render_narsese E s') = POk v st).
  Proof.
    intros He Hv Hu Hu'. split; [now apply parse_narsese_render|]. apply parse_narsese_render; [|exact Hu'].
    now rewrite <- odesugar_narsese_erase, <- He, odesugar_narsese_erase.
  Qed.

  (* in particular the input written without any space (what the inline macros parse) *)
  Theorem spaces_removed s v :
    odesugar_narsese F fread in01 s = Some v -> sent_unamb F fread fzero in01 E unamb (erase s) = true ->
    exists st, parse_narsese F fread fzero in01 is_alnum E (render_narsese E (erase s)) = POk v st.
  Proof. intros Hv Hu. apply parse_narsese_render; [now rewrite odesugar_narsese_erase | exact Hu]. Qed.

  (* ---------------- C15: the kind of the result is decided by the items written ---------------- *)
  Theorem kind_by_items s v : odesugar_narsese F fread in01 s = Some v ->
    nv_is_task v = has (sn_budget s) && has (sn_punct s) /\
    nv_is_sentence v = negb (has (sn_budget s)) && has (sn_punct s) /\
    nv_is_term v = negb (has (sn_punct s)).
  Proof.
    unfold odesugar_narsese. destruct (odesugar (sn_term s)) as [t|]; [|discriminate].
    destruct (opt_read (sn_budget s) _) as [ob|] eqn:Hob; [|discriminate].
    destruct (opt_read (sn_punct s) _) as [op|] eqn:Hop; [|discriminate].
    destruct (opt_read (sn_stamp s) _) as [os|]; [|discriminate].
    destruct (opt_read (sn_truth s) _) as [ot|]; [|discriminate].
    intros H; injection H as <-.
    apply opt_read_spec in Hob, Hop.
    destruct (sn_budget s) as [b|]; [destruct Hob as (bv & _ & ->) | subst ob];
      (destruct (sn_punct s) as [p|]; [destruct Hop as (pv & _ & ->) | subst op]); cbn; auto.
  Qed.

  Theorem parse_kind s v :
    odesugar_narsese F fread in01 s = Some v -> sent_unamb F fread fzero in01 E unamb s = true ->
    exists st, parse_narsese F fread fzero in01 is_alnum E (render_narsese E s) = POk v st /\
      nv_is_task v = has (sn_budget s) && has (sn_punct s) /\
      nv_is_sentence v = negb (has (sn_budget s)) && has (sn_punct s) /\
      nv_is_term v = negb (has (sn_punct s)).
  Proof.
    intros Hv Hu. destruct (parse_narsese_render s v Hv Hu) as (st & Hp). exists st. split; [exact Hp | now apply kind_by_items].
  Qed.
End Sent.

(* ---------------- the formatter prints a canonical surface input ---------------- *)
Section CanonP.
  Variable F : Type.
  Variable fshow : F -> str.
  Variable E : efmt.
  Variables kt ki : nat.
  Hypothesis Hft : fmt_tables_ok E kt ki = true.

  Lemma spunct_eqb_eq a b : spunct_eqb a b = true -> a = b.
  Proof. destruct a, b; cbn; congruence. Qed.
  Lemma sarm_eqb_eq a b : sarm_eqb a b = true -> a = b.
  Proof. destruct a, b; cbn; congruence. Qed.

  Lemma ft_parts :
    space_format_terms E = sp E kt /\ space_format_items E = sp E ki /\ sentence_truth_brackets_0 E <> [] /\
    (forall p, punct_kw E (punct_index p) = fmt_punct E p /\ fmt_punct E p <> [] /\ opunct (punct_index p) = Some p) /\
    (forall k, stamp_kind (stamp_index k) = Some k /\ stamp_marker E (stamp_index k) = stamp_fmt_kw E k /\ stamp_fmt_kw E k <> []).
  Proof.
    pose proof Hft as H0. unfold fmt_tables_ok in H0. cbn [forallb] in H0. rewrite !andb_true_iff in H0. rewrite !str_eqb_eq in H0.
    repeat match goal with H : _ /\ _ |- _ => destruct H end.
    split; [assumption|]. split; [assumption|]. split; [now apply nonempty_ne|]. split.
    - intros p. assert (Hx : forall i, match opunct i with Some q => spunct_eqb q p | None => false end = true -> opunct i = Some p).
      { intros i Hi. destruct (opunct i) as [q|]; [|discriminate]. now rewrite (spunct_eqb_eq _ _ Hi). }
      destruct p; (split; [assumption | split; [now apply nonempty_ne | now apply Hx]]).
    - intros k. assert (Hx : forall i, match stamp_kind i with Some q => sarm_eqb q k | None => false end = true -> stamp_kind i = Some k).
      { intros i Hi. destruct (stamp_kind i) as [q|]; [|discriminate]. now rewrite (sarm_eqb_eq _ _ Hi). }
      destruct k; (split; [now apply Hx | split; [assumption | now apply nonempty_ne]]).
  Qed.

  Lemma rnf_true sep l : forall i,
    render_nums_from E sep (fun _ => (O, O)) true i l = concat (map (fun y => sep ++ y) l).
  Proof.
    induction l as [|x l IH]; intros i; cbn [render_nums_from map concat]; [reflexivity|].
    unfold ngap. cbn [fst snd Sst.sp rep app]. now rewrite app_nil_r, IH, <- app_assoc.
  Qed.
  Lemma join_with_concat sep l : forall x, join_with sep (x :: l) = x ++ concat (map (fun y => sep ++ y) l).
  Proof.
    induction l as [|a l IH]; intros x; [cbn; now rewrite app_nil_r|].
    change (join_with sep (x :: a :: l)) with (x ++ sep ++ join_with sep (a :: l)).
    rewrite IH. cbn [map concat]. now rewrite <- app_assoc.
  Qed.

  Lemma fmt_floats_render lb sep rb fs :
    fmt_floats F fshow lb sep rb fs = render_nums E lb sep rb (canon_nums F fshow fs).
  Proof.
    unfold fmt_floats, render_nums, canon_nums. cbn [nl_sp0 nl_gaps nl_texts nl_sp1 Sst.sp rep app].
    destruct fs as [|x fs]; [reflexivity|]. cbn [map render_nums_from app]. now rewrite join_with_concat, rnf_true.
  Qed.

  Lemma fmt_budget_render b : fmt_budget F fshow E b = render_budget E (canon_nums F fshow (budget_list b)).
  Proof. apply fmt_floats_render. Qed.

  (* one element of join_lest after the first: nothing when empty, else separator ++ element *)
  Definition jl (y : str) : str := match y with [] => [] | _ => space_format_terms E ++ y end.

  Lemma jl_stamp x k : jl (fmt_stamp E x) ++ k = ropt E (canon_stamp kt x) (render_stamp E) k.
  Proof.
    destruct ft_parts as (Hkt & _ & _ & _ & Hst).
    assert (Hne : forall a b c : str, b <> [] -> jl (a ++ b ++ c) = sp E kt ++ a ++ b ++ c).
    { intros a b c Hb. unfold jl. rewrite Hkt. destruct (a ++ b ++ c) eqn:Habc; [|reflexivity].
      apply app_eq_nil in Habc as [_ Habc]. apply app_eq_nil in Habc as [Habc _]. congruence. }
    destruct x as [| | | |z]; cbn [fmt_stamp canon_stamp ropt].
    - reflexivity.
    - destruct (Hst SAPast) as (Hk & Hm & Hn). cbn [stamp_fmt_kw] in Hm, Hn. rewrite Hne by exact Hn.
      unfold render_stamp. cbn [ss_arm ss_sp0 ss_sp1 ss_int ss_sp2 Sst.sp rep app]. rewrite Hk, Hm. cbn [app]. now rewrite <- !app_assoc.
    - destruct (Hst SAPresent) as (Hk & Hm & Hn). cbn [stamp_fmt_kw] in Hm, Hn. rewrite Hne by exact Hn.
      unfold render_stamp. cbn [ss_arm ss_sp0 ss_sp1 ss_int ss_sp2 Sst.sp rep app]. rewrite Hk, Hm. cbn [app]. now rewrite <- !app_assoc.
    - destruct (Hst SAFuture) as (Hk & Hm & Hn). cbn [stamp_fmt_kw] in Hm, Hn. rewrite Hne by exact Hn.
      unfold render_stamp. cbn [ss_arm ss_sp0 ss_sp1 ss_int ss_sp2 Sst.sp rep app]. rewrite Hk, Hm. cbn [app]. now rewrite <- !app_assoc.
    - destruct (Hst SAFixed) as (Hk & Hm & Hn). cbn [stamp_fmt_kw] in Hm, Hn.
      rewrite (Hne _ _ (show_Z z ++ sentence_stamp_brackets_1 E) Hn).
      unfold render_stamp. cbn [ss_arm ss_sp0 ss_sp1 ss_int ss_sp2 Sst.sp rep app]. rewrite Hk, Hm. cbn [app]. now rewrite <- !app_assoc.
  Qed.

  Lemma jl_truth o k :
    jl (fmt_truth F fshow E (match o with Some t => t | None => TruthEmpty end)) ++ k =
    ropt E (canon_truth F fshow kt o) (render_truth E) k.
  Proof.
    destruct ft_parts as (Hkt & _ & Ht0 & _).
    assert (Hne : forall fs,
              jl (fmt_floats F fshow (sentence_truth_brackets_0 E) (sentence_truth_separator E) (sentence_truth_brackets_1 E) fs) ++ k =
              sp E kt ++ render_truth E (canon_nums F fshow fs) ++ k).
    { intros fs. unfold jl, render_truth. rewrite <- fmt_floats_render, Hkt. unfold fmt_floats at 1.
      destruct (sentence_truth_brackets_0 E) as [|c r]; [congruence|]. cbn [app]. now rewrite <- app_assoc. }
    destruct o as [[|f|f c]|]; cbn [fmt_truth canon_truth ropt truth_list]; try reflexivity; apply Hne.
  Qed.

  Lemma fmt_sentence_canon bud st s : fmt_term E (s_term s) = render E st ->
    fmt_sentence F fshow E s = from_term E (canon_sentence F fshow kt bud st s).
  Proof.
    intros Ht. destruct ft_parts as (_ & _ & _ & Hp & _). destruct (Hp (s_punct s)) as (Hkw & _ & _).
    unfold fmt_sentence, from_term, join_lest. rewrite Ht. cbn [map concat]. f_equal.
    unfold tail0, tail1, tail2, tail3. cbn [canon_sentence sn_term sn_punct sn_stamp sn_truth sn_trail ropt Sst.sp rep app].
    rewrite Hkw. f_equal. fold (jl (fmt_stamp E (s_stamp s))).
    fold (jl (fmt_truth F fshow E (match s_truth s with Some t => t | None => TruthEmpty end))).
    now rewrite <- jl_stamp, <- jl_truth.
  Qed.

  Theorem fmt_narsese_canon st v :
    fmt_term E (nv_term v) = render E st ->
    fmt_narsese F fshow E v = render_narsese E (canon_narsese F fshow kt ki st v).
  Proof.
    destruct ft_parts as (_ & Hki & _ & Hp & _).
    destruct v as [t|s|[s b]]; cbn [fmt_narsese canon_narsese nv_term fst]; intros Ht.
    - unfold render_narsese, from_term, tail0, tail1, tail2, tail3. cbn. now rewrite app_nil_r.
    - unfold render_narsese. cbn [canon_sentence sn_lead sn_budget Sst.sp rep app]. now apply fmt_sentence_canon.
    - unfold render_narsese, fmt_task. cbn [canon_sentence sn_lead sn_budget Sst.sp rep app snd fst].
      rewrite (fmt_sentence_canon (Some (canon_nums F fshow (budget_list b), ki)) st s Ht), fmt_budget_render, Hki.
      destruct (from_term E _) eqn:Hf; [|reflexivity].
      exfalso. unfold from_term, tail0 in Hf. cbn [canon_sentence sn_term sn_punct ropt Sst.sp rep app] in Hf.
      apply app_eq_nil in Hf as [_ Hf]. apply app_eq_nil in Hf as [Hf _].
      destruct (Hp (s_punct s)) as (Hkw & Hne & _). congruence.
  Qed.
End CanonP.
(* ---------------- C01 at sentence / task level: format-then-parse ---------------- *)
Section RoundTrip.
  Variable F : Type.
  Variable fshow : F -> str.          (* f64::to_string *)
  Variable fread : str -> option F.   (* f64::from_str *)
  Variable fzero : F.
  Variable in01 : F -> bool.
  Variable is_alnum : N -> bool.
  Variable E : efmt.
  Variables kt ki : nat.
  Variable unamb : sterm -> str -> bool.
  Hypothesis Hsok : sent_ok E = true.
  Hypothesis Hft : fmt_tables_ok E kt ki = true.
  Hypothesis H_empty : fread [] = None.
  Hypothesis H_zero : in01 fzero = true.
  (* Rust's shortest-round-trip Display / FromStr for non-negative finite f64 (numbers of [0,1]):
     the printed text is a non-empty string of ASCII digits and dots, and reads back as the same number *)
  Hypothesis H_rt : forall x, in01 x = true -> fread (fshow x) = Some x.
  Hypothesis H_cs : forall x, in01 x = true -> fshow x <> [] /\ Forall (fun c => is_float_char c = true) (fshow x).
  Hypothesis Hterm : TermParses F is_alnum E unamb.

  Lemma read_canon l : forallb in01 l = true -> omap (read_num F fread in01) (map fshow l) = Some l.
  Proof.
    induction l as [|x l IH]; cbn [forallb map omap]; [reflexivity|].
    rewrite andb_true_iff. intros [Hx Hl]. rewrite (IH Hl). unfold read_num.
    destruct (H_cs x Hx) as [_ Hc]. apply forallb_Forall_iff in Hc. now rewrite Hc, (H_rt x Hx), Hx.
  Qed.

  Lemma obudget_canon b : forallb in01 (budget_list b) = true ->
    obudget F fread in01 (canon_nums F fshow (budget_list b)) = Some b.
  Proof.
    intros H. unfold obudget, read_nums. cbn [canon_nums nl_texts]. rewrite map_length, (read_canon _ H).
    destruct b; cbn [budget_list forallb] in H |- *; rewrite ?andb_true_iff in H; cbn [length Nat.leb mk_budget].
    - reflexivity.
    - destruct H as [-> _]. reflexivity.
    - destruct H as (-> & -> & _). reflexivity.
    - destruct H as (-> & -> & -> & _). reflexivity.
  Qed.

  Lemma otruth_canon t : forallb in01 (truth_list t) = true ->
    otruth F fread in01 (canon_nums F fshow (truth_list t)) = Some t.
  Proof.
    intros H. unfold otruth, read_nums. cbn [canon_nums nl_texts]. rewrite map_length, (read_canon _ H).
    destruct t; cbn [truth_list forallb] in H |- *; rewrite ?andb_true_iff in H; cbn [length Nat.leb mk_truth].
    - reflexivity.
    - destruct H as [-> _]. reflexivity.
    - destruct H as (-> & -> & _). reflexivity.
  Qed.

  Lemma digit_int c : is_ascii_digit c = true -> is_int_char c = true.
  Proof. intros H. unfold is_int_char. now rewrite H. Qed.

  Lemma show_Z_int z : nonempty (show_Z z) && forallb is_int_char (show_Z z) = true.
  Proof.
    assert (Hn : forall n, nonempty (show_N n) && forallb is_int_char (show_N n) = true).
    { intros n. destruct (show_N_digits n) as [Hne Hd]. apply andb_true_iff. split.
      - destruct (show_N n); [congruence | reflexivity].
      - apply forallb_Forall_iff. eapply Forall_impl; [|exact Hd]. apply digit_int. }
    destruct z as [|p|p]; cbn [show_Z]; [reflexivity | apply Hn|].
    specialize (Hn (Npos p)). apply andb_true_iff in Hn as [_ Hn]. cbn [nonempty forallb andb]. now rewrite Hn.
  Qed.

  Lemma ostamp_canon x : stamp_ok x = true ->
    opt_read (canon_stamp kt x) (fun y => ostamp (snd y)) = Some (match x with Eternal => None | _ => Some x end).
  Proof.
    intros Hx. destruct (ft_parts E kt ki Hft) as (_ & _ & _ & _ & Hst).
    destruct x as [| | | |z]; unfold canon_stamp; cbv zeta; cbn [opt_read snd]; [reflexivity | | | |]; unfold ostamp; cbn [ss_arm ss_int].
    - destruct (Hst SAPast) as (-> & _). reflexivity.
    - destruct (Hst SAPresent) as (-> & _). reflexivity.
    - destruct (Hst SAFuture) as (-> & _). reflexivity.
    - destruct (Hst SAFixed) as (-> & _). rewrite show_Z_int.
      cbn [stamp_ok] in Hx. apply andb_true_iff in Hx as [H1 H2]. apply Z.leb_le in H1, H2.
      now rewrite (read_isize_show z (conj H1 H2)).
  Qed.

  Lemma otruth_opt o : match o with Some t => forallb in01 (truth_list t) | None => true end = true ->
    exists ot, opt_read (canon_truth F fshow kt o) (fun y => otruth F fread in01 (snd y)) = Some ot /\
               unwrap_truth F ot = match o with Some t => t | None => TruthEmpty end.
  Proof.
    intros H. destruct o as [[|f|f c]|]; cbn [canon_truth opt_read snd].
    - exists None. split; reflexivity.
    - rewrite (otruth_canon (TruthSingle f) H). eexists. split; reflexivity.
    - rewrite (otruth_canon (TruthDouble f c) H). eexists. split; reflexivity.
    - exists None. split; reflexivity.
  Qed.

  Lemma odesugar_sentence bud ob st s :
    sent_vals_ok F in01 s = true -> odesugar st = Some (s_term s) ->
    opt_read bud (fun x => obudget F fread in01 (fst x)) = Some ob ->
    odesugar_narsese F fread in01 (canon_sentence F fshow kt bud st s) =
      Some (match ob with Some b => NTask (s, b) | None => NSentence s end).
  Proof.
    intros Hs Ht Hb. unfold sent_vals_ok in Hs. apply andb_true_iff in Hs as [Hst Htr].
    destruct (ft_parts E kt ki Hft) as (_ & _ & _ & Hp & _). destruct (Hp (s_punct s)) as (_ & _ & Hpi).
    destruct (otruth_opt _ Htr) as (ot & Hot & Hut).
    unfold odesugar_narsese. cbn [canon_sentence sn_term sn_budget sn_punct sn_stamp sn_truth].
    rewrite Ht, Hb, (ostamp_canon _ Hst), Hot. cbn [opt_read snd]. rewrite Hpi. f_equal. unfold classify. rewrite Hut.
    assert (Hus : unwrap_stamp (match s_stamp s with Eternal => None | _ => Some (s_stamp s) end) = s_stamp s)
      by (destruct (s_stamp s); reflexivity).
    rewrite Hus. destruct s; cbn [from_punctuation s_punct s_term s_stamp s_truth]; destruct ob; reflexivity.
  Qed.

  Lemma odesugar_canon st v : vals_ok F in01 v = true -> odesugar st = Some (nv_term v) ->
    odesugar_narsese F fread in01 (canon_narsese F fshow kt ki st v) = Some v.
  Proof.
    destruct v as [t|s|[s b]]; cbn [vals_ok nv_term canon_narsese fst]; intros Hv Ht.
    - unfold odesugar_narsese. cbn. now rewrite Ht.
    - now apply (odesugar_sentence None None).
    - apply andb_true_iff in Hv as [Hs Hb]. apply (odesugar_sentence _ (Some b)); auto.
      cbn [opt_read fst]. now rewrite (obudget_canon b Hb).
  Qed.

  (* the round trip, given the term-level facts about the term inside: the formatter prints the
     canonical surface tree st of it, st means it, and the canonical input passes the back-off conditions *)
  Theorem roundtrip_narsese st v :
    vals_ok F in01 v = true ->
    fmt_term E (nv_term v) = render E st -> odesugar st = Some (nv_term v) ->
    sent_unamb F fread fzero in01 E unamb (canon_narsese F fshow kt ki st v) = true ->
    exists st', parse_narsese F fread fzero in01 is_alnum E (fmt_narsese F fshow E v) = POk v st'.
  Proof.
    intros Hv Hf Ht Hu. rewrite (fmt_narsese_canon F fshow E kt ki Hft st v Hf).
    apply (parse_narsese_render F fread fzero in01 is_alnum E Hsok H_empty H_zero unamb Hterm); [|exact Hu].
    now apply odesugar_canon.
  Qed.

  (* C15: format(cast_to_task s) -- budget brackets with nothing between -- parses to a task with an empty budget *)
  Corollary cast_to_task_parses st s :
    sent_vals_ok F in01 s = true ->
    fmt_term E (s_term s) = render E st -> odesugar st = Some (s_term s) ->
    sent_unamb F fread fzero in01 E unamb (canon_narsese F fshow kt ki st (NTask (cast_to_task s))) = true ->
    exists st', parse_narsese F fread fzero in01 is_alnum E (fmt_task F fshow E (cast_to_task s)) = POk (NTask (s, BudgetEmpty)) st'.
  Proof.
    intros Hs Hf Ht Hu. apply (roundtrip_narsese st (NTask (cast_to_task s))); auto.
    cbn [vals_ok cast_to_task budget_list forallb]. now rewrite Hs.
  Qed.
End RoundTrip.
(* ---------------- the side conditions hold of the shipped tables ---------------- *)
Lemma shipped_sent_ok : forallb sent_ok shipped_formats = true.
Proof. vm_compute. reflexivity. Qed.

Lemma sent_ok_shipped E : shipped E -> sent_ok E = true.
Proof. intros H. pose proof shipped_sent_ok as H1. rewrite forallb_forall in H1. now apply H1. Qed.

(* the formatter's spaces as repetitions of the parser's space keyword: ASCII and LaTeX print one space
   between the items of a sentence, Han none; all three print one between budget and sentence *)
Lemma shipped_fmt_tables_ok :
  fmt_tables_ok FORMAT_ASCII 1 1 = true /\ fmt_tables_ok FORMAT_LATEX 1 1 = true /\ fmt_tables_ok FORMAT_HAN 0 1 = true.
Proof. repeat split; vm_compute; reflexivity. Qed.

(* ---------------- known class K2 (Han): a word that looks like a budget ----------------
   预 and 算 are the Han budget brackets and also alphabetic characters, hence name characters.
   The well-formed word 预算 has a meaning as a term, its surface input passes every condition of
   sent_unamb that does not mention the budget, and the parser takes it for an empty budget: no term,
   an error.  (Same for any word 预<digits/dots/、>算 ...) *)
Section K2.
  Variable F : Type.
  Variable fread : str -> option F.
  Variable fzero : F.
  Variable in01 : F -> bool.
  Variable is_alnum : N -> bool.
  Hypothesis H_empty : fread [] = None.
  Hypothesis H_zero : in01 fzero = true.

  Definition k2_word : snarsese :=
    {| sn_lead := 0; sn_budget := None; sn_term := SAtom 6 [39044; 31639]%N; sn_punct := None;
       sn_stamp := None; sn_truth := None; sn_trail := 0 |}.
  Definition k2_empty_budget : snums := {| nl_sp0 := 0; nl_gaps := fun _ => (O, O); nl_texts := []; nl_sp1 := 0 |}.

  Lemma k2_meaning : odesugar_narsese F fread in01 k2_word = Some (NTerm (TName Word [39044; 31639]%N)).
  Proof. reflexivity. Qed.

  Lemma k2_text : render_narsese FORMAT_HAN k2_word = [39044; 31639]%N.
  Proof. reflexivity. Qed.

  Let Hsok : sent_ok FORMAT_HAN = true.
  Proof. vm_compute. reflexivity. Qed.

  Lemma k2_at (st : pstate F) :
    s_len st = 2%nat -> s_head st = 0%nat -> s_rest st = [39044; 31639]%N -> s_mid st = mid_empty F ->
    at_ F 2 st (render_budget FORMAT_HAN k2_empty_budget ++ []) (mid_empty F).
  Proof. intros Hl Hh Hr Hm. split; [split; [exact Hl | rewrite Hr, Hh; reflexivity] | split; [exact Hr | exact Hm]]. Qed.

  Lemma k2_budget_taken :
    exists st, consume_budget F fread fzero in01 FORMAT_HAN (probe_state F [39044; 31639]%N [39044; 31639]%N) = POk tt st.
  Proof.
    destruct (consume_budget_ok F fread fzero in01 FORMAT_HAN Hsok H_empty H_zero 2 (probe_state F [39044; 31639]%N [39044; 31639]%N) k2_empty_budget BudgetEmpty [] (mid_empty F)
                (k2_at (probe_state F [39044; 31639]%N [39044; 31639]%N) eq_refl eq_refl eq_refl eq_refl) eq_refl) as (st & H & _).
    eauto.
  Qed.

  Theorem sent_unamb_han_K2 (unamb : sterm -> str -> bool) :
    sent_unamb F fread fzero in01 FORMAT_HAN unamb k2_word = false /\
    exists st, parse_narsese F fread fzero in01 is_alnum FORMAT_HAN (render_narsese FORMAT_HAN k2_word) = PErr st.
  Proof.
    split.
    - unfold sent_unamb. rewrite k2_text.
      assert (Hb : budget_attempt_fails F fread fzero in01 FORMAT_HAN [39044; 31639]%N (from_term FORMAT_HAN k2_word) = false).
      { unfold budget_attempt_fails. change (from_term FORMAT_HAN k2_word) with [39044; 31639]%N.
        destruct k2_budget_taken as (st & ->). reflexivity. }
      cbn [sn_budget k2_word]. rewrite Hb. change (from_term FORMAT_HAN k2_word) with [39044; 31639]%N.
      change (starts (task_budget_brackets_0 FORMAT_HAN) [39044; 31639]%N) with true.
      cbn [negb orb]. now rewrite andb_false_r.
    - rewrite k2_text. unfold parse_narsese, run_parse, build_mid_result.
      destruct (build_item F fread fzero in01 is_alnum FORMAT_HAN Hsok 2 4 (new_state F [39044; 31639]%N) 0
                  [39044; 31639]%N (mid_empty F)
                  (fun st2 => at_ F 2 st2 [] (mid_set_budget F (mid_empty F) BudgetEmpty)))
        as (fuel' & st2 & Heq & Hat2 & Hb2).
      + apply (k2_at (new_state F [39044; 31639]%N)); reflexivity.
      + reflexivity.
      + discriminate.
      + unfold bound. cbn. lia.
      + intros st1 Hat1. apply (one_budget F fread fzero in01 is_alnum FORMAT_HAN Hsok H_empty H_zero 2 st1 k2_empty_budget BudgetEmpty [] (mid_empty F)); auto.
      + change (S (S (length (s_rest (new_state F [39044; 31639]%N))))) with 4%nat. rewrite Heq.
        destruct (build_end F fread fzero in01 is_alnum FORMAT_HAN Hsok 2 fuel' st2 0 _ Hat2 Hb2) as (st3 & -> & _ & Hm3).
        cbn [pbind]. unfold transform_mid_result. rewrite Hm3. cbn [m_term mid_set_budget mid_empty].
        rewrite (perr_err F fzero in01 FORMAT_HAN Hsok). eauto.
  Qed.
End K2.
(* ---------------- a syntactic sufficient condition for "the budget attempt fails" ----------------
   With budget_requires_close (the shipped parser), an attempt succeeds only if the right budget
   bracket occurs somewhere after the left one.  So a term that starts with the budget's left bracket
   (ASCII: the independent variable `$x`) is safe whenever no right bracket follows in the input. *)
Section NoClose.
  Variable F : Type.
  Variable fread : str -> option F.
  Variable fzero : F.
  Variable in01 : F -> bool.
  Variable E : efmt.
  Hypothesis Htot : total_ok E = true.
  Hypothesis Hfacts : state_facts_ok = true.
  Hypothesis Hclose : budget_requires_close = true.

  Definition suf (a b : str) : Prop := exists k, a = drop k b.
  Lemma suf_refl a : suf a a.
  Proof. now exists 0%nat. Qed.
  Lemma suf_drop a b n : suf a b -> suf (drop n a) b.
  Proof. intros [k ->]. exists (k + n)%nat. apply drop_drop. Qed.
  Lemma suf_trans a b c : suf a b -> suf b c -> suf a c.
  Proof. intros [k ->] H. now apply suf_drop. Qed.

  Lemma skip_spaces_fuel_suf n : forall st : pstate F, suf (s_rest (skip_spaces_fuel F E n st)) (s_rest st).
  Proof.
    induction n as [|n IH]; intros st; cbn [skip_spaces_fuel]; [apply suf_refl|].
    destruct (st_starts F (space_parse E) st); [|apply suf_refl].
    eapply suf_trans; [apply IH|]. cbn [skip step s_rest]. apply suf_drop, suf_refl.
  Qed.

  Lemma floats_loop_suf fuel : forall n sep rb acc buf (st : pstate F),
    match floats_loop F fread E fuel n sep rb acc buf st with
    | POk _ st' => suf (s_rest st') (s_rest st)
    | _ => True
    end.
  Proof.
    induction fuel as [|fuel IH]; intros n sep rb acc buf st; cbn [floats_loop]; [exact I|].
    destruct (can_consume F st && Nat.ltb (length acc) n); [|apply suf_refl].
    destruct (s_rest st) as [|c r] eqn:Hr; [exact I|].
    assert (Hrec : forall k acc' buf',
              match floats_loop F fread E fuel n sep rb acc' buf' (step F k st) with
              | POk _ st' => suf (s_rest st') (c :: r) | _ => True end).
    { intros k acc' buf'. specialize (IH n sep rb acc' buf' (step F k st)).
      destruct (floats_loop F fread E fuel n sep rb acc' buf' (step F k st)); try exact I.
      eapply suf_trans; [exact IH|]. cbn [step s_rest]. rewrite Hr. apply suf_drop, suf_refl. }
    destruct (st_starts F (space_parse E) st); [apply Hrec|].
    destruct (is_float_char c); [apply Hrec|].
    destruct (st_starts F sep st).
    - destruct (fread buf); [apply Hrec | unfold perr; destruct (err_window_ok F st); exact I].
    - destruct (st_starts F rb st); [|unfold perr; destruct (err_window_ok F st); exact I].
      destruct (fread buf); rewrite Hr; apply suf_refl.
  Qed.

  Lemma no_occ_spec kw text : kw <> [] -> no_occ kw text = true -> forall a, suf a text -> starts kw a = false.
  Proof.
    intros Hkw H a [k ->]. unfold no_occ in H. rewrite forallb_forall in H.
    destruct (Nat.le_gt_cases k (length text)) as [Hle|Hgt].
    - apply negb_true_iff, H, in_seq. lia.
    - assert (Hnil : drop k text = []).
      { pose proof (drop_length k text) as Hl. destruct (drop k text); [reflexivity | cbn in Hl; lia]. }
      rewrite Hnil. destruct kw; [congruence | reflexivity].
  Qed.

  Theorem budget_attempt_fails_no_close whole rest :
    (length rest <= length whole)%nat -> task_budget_brackets_1 E <> [] ->
    no_occ (task_budget_brackets_1 E) (drop (length (task_budget_brackets_0 E)) rest) = true ->
    budget_attempt_fails F fread fzero in01 E whole rest = true.
  Proof.
    intros Hlen Hrb Hno. unfold budget_attempt_fails.
    set (st := probe_state F whole rest).
    assert (Hwf : wf F (length whole) st) by (split; cbn; lia).
    pose proof (consume_budget_good F fread fzero in01 E Htot Hfacts (length whole) st Hwf) as Hg.
    destruct (consume_budget F fread fzero in01 E st) as [u st'|st'| |] eqn:Hc; cbn [good] in Hg; try contradiction; [|reflexivity].
    exfalso. revert Hc. unfold consume_budget, parse_floats. rewrite Hclose.
    set (st1 := skip_and_spaces F E (task_budget_brackets_0 E) st).
    assert (H1 : suf (s_rest st1) (drop (length (task_budget_brackets_0 E)) rest)).
    { unfold st1, skip_and_spaces, skip_spaces. eapply suf_trans; [apply skip_spaces_fuel_suf|]. cbn. apply suf_refl. }
    pose proof (floats_loop_suf (length (s_rest st1) + 3 + 1) 3 (task_budget_separator E) (task_budget_brackets_1 E) [] [] st1) as H2.
    destruct (floats_loop F fread E _ 3 _ _ [] [] st1) as [l st2|st2| |]; cbn [pbind]; try discriminate.
    destruct (negb (forallb in01 (pad F fzero 3 l))); [unfold perr; destruct (err_window_ok F st2); discriminate|].
    destruct (mk_budget F in01 l); [|discriminate].
    destruct (st_starts F (task_budget_brackets_1 E) (skip_spaces F E st2)) eqn:Hs;
      [|unfold perr; destruct (err_window_ok F _); discriminate].
    apply st_starts_true_starts in Hs.
    rewrite (no_occ_spec _ _ Hrb Hno) in Hs; [discriminate|].
    eapply suf_trans; [apply skip_spaces_fuel_suf|]. eapply suf_trans; [exact H2 | exact H1].
  Qed.
End NoClose.
(* ---------------- non-vacuity: the hypotheses are satisfiable, the conclusion is what the model computes ----------------
   A toy instance of the float oracles (a number IS its text) satisfies every oracle hypothesis of this
   file; on concrete surface inputs of the three shipped formats the side conditions, the meaning and the
   back-off conditions evaluate to true and the model parser (run by vm_compute, independently of
   TermParses) returns exactly the documented meaning. *)
Definition toy_in01 (x : str) : bool := nonempty x && forallb is_float_char x.
Definition toy_read (s : str) : option str := if toy_in01 s then Some s else None.
Definition toy_zero : str := [48]%N.
Definition toy_show (x : str) : str := x.
Definition toy_alnum (c : N) : bool := is_ascii_digit c || ((65 <=? c) && (c <=? 90))%N || ((97 <=? c) && (c <=? 122))%N.

Lemma toy_oracles_ok :
  toy_read [] = None /\ toy_in01 toy_zero = true /\
  (forall x, toy_in01 x = true -> toy_read (toy_show x) = Some x) /\
  (forall x, toy_in01 x = true -> toy_show x <> [] /\ Forall (fun c => is_float_char c = true) (toy_show x)).
Proof.
  split; [reflexivity|]. split; [reflexivity|]. split.
  - intros x H. unfold toy_read, toy_show. now rewrite H.
  - intros x H. unfold toy_in01 in H. apply andb_true_iff in H as [H1 H2]. split; [now apply nonempty_ne | now apply forallb_Forall_iff].
Qed.

(* ` $ 0.5 ;0.75 ;1$  < a-->  b >. :! -12:  %1; 0.9 % ` with the keywords of each format *)
Definition ex_task : snarsese :=
  {| sn_lead := 1;
     sn_budget := Some ({| nl_sp0 := 1; nl_gaps := fun _ => (1, 0)%nat; nl_texts := [[48; 46; 53]; [48; 46; 55; 53]; [49]]%N; nl_sp1 := 0 |}, 2%nat);
     sn_term := SStmt 0 1 0 2 1 (SAtom 6 [97]%N) (SAtom 6 [98]%N);
     sn_punct := Some (0%nat, 0%nat);
     sn_stamp := Some (1%nat, {| ss_arm := 0; ss_sp0 := 0; ss_sp1 := 1; ss_int := [45; 49; 50]%N; ss_sp2 := 0 |});
     sn_truth := Some (2%nat, {| nl_sp0 := 0; nl_gaps := fun _ => (0, 1)%nat; nl_texts := [[49]; [48; 46; 57]]%N; nl_sp1 := 1 |});
     sn_trail := 1 |}.
(* a question with a stamp: `<a-->b>? :|:` *)
Definition ex_question : snarsese :=
  {| sn_lead := 0; sn_budget := None; sn_term := SStmt 0 0 0 0 0 (SAtom 6 [97]%N) (SAtom 6 [98]%N);
     sn_punct := Some (0%nat, 2%nat);
     sn_stamp := Some (1%nat, {| ss_arm := 2; ss_sp0 := 0; ss_sp1 := 0; ss_int := []; ss_sp2 := 0 |});
     sn_truth := None; sn_trail := 0 |}.
(* a truth without punctuation: the value is the term, the truth is dropped *)
Definition ex_dropped : snarsese :=
  {| sn_lead := 0; sn_budget := None; sn_term := SAtom 6 [97]%N; sn_punct := None; sn_stamp := None;
     sn_truth := Some (1%nat, {| nl_sp0 := 0; nl_gaps := fun _ => (0, 0)%nat; nl_texts := [[49]]%N; nl_sp1 := 0 |});
     sn_trail := 0 |}.
(* ASCII: the independent variable `$x` as a judgement, `$x.`: the budget attempt fails and backs off *)
Definition ex_dollar : snarsese :=
  {| sn_lead := 0; sn_budget := None; sn_term := SAtom 1 [120]%N; sn_punct := Some (0%nat, 0%nat); sn_stamp := None;
     sn_truth := None; sn_trail := 0 |}.

Definition toy_unamb : sterm -> str -> bool := fun _ _ => true.

(* side condition, back-off conditions, meaning = what the parser model returns *)
Definition ex_check (E : efmt) (s : snarsese) : bool :=
  sent_ok E && sent_unamb str toy_read toy_zero toy_in01 E toy_unamb s
  && match odesugar_narsese str toy_read toy_in01 s with Some _ => true | None => false end.
Definition ex_parsed (E : efmt) (s : snarsese) : option (narsese str) :=
  match parse_narsese str toy_read toy_zero toy_in01 toy_alnum E (render_narsese E s) with POk v _ => Some v | _ => None end.

Lemma ex_shipped_task :
  forallb (fun E => ex_check E ex_task) shipped_formats = true /\
  map (fun E => ex_parsed E ex_task) shipped_formats = map (fun _ => odesugar_narsese str toy_read toy_in01 ex_task) shipped_formats /\
  map (fun E => nv_is_task (match ex_parsed E ex_task with Some v => v | None => NTerm placeholder end)) shipped_formats = [true; true; true].
Proof. repeat split; vm_compute; reflexivity. Qed.

Lemma ex_shipped_question :
  forallb (fun E => ex_check E ex_question) shipped_formats = true /\
  map (fun E => ex_parsed E ex_question) shipped_formats = map (fun _ => odesugar_narsese str toy_read toy_in01 ex_question) shipped_formats.
Proof. repeat split; vm_compute; reflexivity. Qed.

Lemma ex_shipped_dropped :
  forallb (fun E => ex_check E ex_dropped) shipped_formats = true /\
  map (fun E => ex_parsed E ex_dropped) shipped_formats = [Some (NTerm (TName Word [97]%N)); Some (NTerm (TName Word [97]%N)); Some (NTerm (TName Word [97]%N))].
Proof. repeat split; vm_compute; reflexivity. Qed.

Lemma ex_ascii_dollar :
  ex_check FORMAT_ASCII ex_dollar = true /\
  starts (task_budget_brackets_0 FORMAT_ASCII) (from_term FORMAT_ASCII ex_dollar) = true /\
  ex_parsed FORMAT_ASCII ex_dollar = Some (NSentence (SJudgement (TName VariableIndependent [120]%N) TruthEmpty Eternal)).
Proof. repeat split; vm_compute; reflexivity. Qed.

(* the canonical input of a task is what the formatter prints, in every shipped format *)
Definition ex_value : narsese str :=
  NTask (SJudgement (TBox2 Inheritance (TName Word [97]%N) (TName Word [98]%N)) (TruthDouble [49]%N [48; 46; 57]%N) (Fixed (-12)),
         BudgetTriple [48; 46; 53]%N [48; 46; 55; 53]%N [49]%N).
Definition ex_value_tree (kt : nat) : sterm := SStmt 0 0 kt kt 0 (SAtom 6 [97]%N) (SAtom 6 [98]%N).
Lemma ex_shipped_canon :
  map (fun Ek => fmt_narsese str toy_show (fst Ek) ex_value) [(FORMAT_ASCII, 1%nat); (FORMAT_LATEX, 1%nat); (FORMAT_HAN, 0%nat)] =
  map (fun Ek => render_narsese (fst Ek) (canon_narsese str toy_show (snd Ek) 1 (ex_value_tree (snd Ek)) ex_value))
      [(FORMAT_ASCII, 1%nat); (FORMAT_LATEX, 1%nat); (FORMAT_HAN, 0%nat)] /\
  map (fun Ek => ex_parsed (fst Ek) (canon_narsese str toy_show (snd Ek) 1 (ex_value_tree (snd Ek)) ex_value))
      [(FORMAT_ASCII, 1%nat); (FORMAT_LATEX, 1%nat); (FORMAT_HAN, 0%nat)] = [Some ex_value; Some ex_value; Some ex_value].
Proof. split; vm_compute; reflexivity. Qed.
(* ---------------- interface notes ---------------- *)
(* TermParses (Model/SstSent.v) written with the cursor invariant of Proofs/EnumTotalP.v: the same statement *)
Lemma TermParses_wf F is_alnum E unamb :
  TermParses F is_alnum E unamb <->
  (forall (t : sterm) (v : term) (k : str) (L : nat) (st : pstate F) (fuel : nat),
     odesugar t = Some v -> unamb t k = true ->
     wf F L st -> s_rest st = render E t ++ k -> (sdepth t < fuel)%nat ->
     p_term F is_alnum E fuel st = POk v (step F (length (render E t)) st)).
Proof. reflexivity. Qed.

(* sent_unamb from its parts, with the syntactic budget condition: the term's text does not start with
   the space keyword; a budget is written, or the term's text does not start with its left bracket, or no
   right budget bracket occurs after that; stamp normal form *)
Lemma sent_unamb_intro F fread fzero in01 E unamb s :
  total_ok E = true -> state_facts_ok = true -> budget_requires_close = true -> task_budget_brackets_1 E <> [] ->
  unamb (sn_term s) (tail0 E s) = true ->
  starts (space_parse E) (from_term E s) = false ->
  (sn_budget s <> None \/ starts (task_budget_brackets_0 E) (from_term E s) = false \/
   no_occ (task_budget_brackets_1 E) (drop (length (task_budget_brackets_0 E)) (from_term E s)) = true) ->
  match sn_stamp s with
  | Some (_, x) => nonempty (sentence_stamp_brackets_0 E) || Nat.eqb (ss_sp0 x) 0 = true
  | None => True
  end ->
  sent_unamb F fread fzero in01 E unamb s = true.
Proof.
  intros Htot Hfacts Hclose Hrb Hu Hsp Hb Hst. unfold sent_unamb. rewrite Hu, Hsp. cbn [negb andb].
  apply andb_true_iff. split.
  - destruct (sn_budget s) as [b|] eqn:Hbud; [reflexivity|].
    destruct Hb as [Hb|[Hb|Hb]]; [congruence | now rewrite Hb|].
    apply orb_true_iff. right.
    apply (budget_attempt_fails_no_close F fread fzero in01 E Htot Hfacts Hclose); auto.
    unfold render_narsese. rewrite Hbud, app_length. lia.
  - destruct (sn_stamp s) as [[g x]|]; [exact Hst | reflexivity].
Qed.

