(* Proofs/TypstSkel.v -- C16 part E2: the token structure of a rendered term.
   [skel t] is the skeleton of t (constructor, name tokens, components with the placeholder of an
   image in its place); [dflat] lays a skeleton out as a token list with the regenerated
   constants and layout arms.  [raw_toks_proof]: for EVERY term, format_term produces a string
   whose only whitespace is U+0020 and whose words are dflat (skel t); hence
   [typst_tokens_proof]: the rendering is the single-space join of those tokens. *)
From Nv Require Export Proofs.TypstTok.
From Nv Require Import Proofs.EqHashP.
From Coq Require Import Lia.

(* a constant that is empty or begins and ends with a space, and has no other kind of whitespace *)
Definition Kb (c : str) : bool :=
  only_sp c && match c with [] => true | x :: _ => (x =? 32) && (last c 0 =? 32) end.
Definition Kne (c : str) : bool := Kb c && match c with [] => false | _ :: _ => true end.

Lemma rev_last (c : str) : c <> [] -> exists r, rev c = last c 0 :: r.
Proof.
  intros H. destruct (exists_last H) as (p & x & ->). rewrite rev_app_distr. cbn [rev app].
  rewrite last_last. eauto.
Qed.

Lemma Kb_start c : Kb c = true -> wsb_start c = true.
Proof.
  unfold Kb. intros H. apply andb_true_iff in H as [_ H]. destruct c as [|x c]; [reflexivity|].
  apply andb_true_iff in H as [H _]. apply N.eqb_eq in H. subst x. reflexivity.
Qed.

Lemma Kb_end c : Kb c = true -> wsb_end c = true.
Proof.
  unfold Kb, wsb_end. intros H. apply andb_true_iff in H as [_ H]. destruct c as [|x c]; [reflexivity|].
  apply andb_true_iff in H as [_ H]. apply N.eqb_eq in H.
  destruct (rev_last (x :: c) ltac:(discriminate)) as [r ->]. cbn [wsb_start]. now rewrite H.
Qed.

Lemma Kb_only_sp c : Kb c = true -> only_sp c = true.
Proof. unfold Kb. intros H. now apply andb_true_iff in H as [H _]. Qed.

Lemma Kne_Kb c : Kne c = true -> Kb c = true.
Proof. unfold Kne. intros H. now apply andb_true_iff in H as [H _]. Qed.

Lemma Kne_start c y : Kne c = true -> wsb_start (c ++ y) = true.
Proof.
  intros H. pose proof (Kb_start c (Kne_Kb c H)) as HS. unfold Kne in H. apply andb_true_iff in H as [_ H].
  destruct c; [discriminate | exact HS].
Qed.

Lemma words_K_l a b : Kb a = true -> words (a ++ b) = words a ++ words b.
Proof. intros H. apply words_app_l. now apply Kb_end. Qed.
Lemma words_K_r a b : Kb b = true -> words (a ++ b) = words a ++ words b.
Proof. intros H. apply words_app_r. now apply Kb_start. Qed.

(* ---- skeletons ---- *)
Inductive ab := AName (c : name_ctor) | AUnit (c : unit_ctor) | ANum (c : num_ctor).
Inductive cb := CSet (c : set_ctor) | CVec (c : vec_ctor) | CImg (c : img_ctor) | CBox1 (c : box1_ctor) | CBox2 (c : box2_ctor).
Inductive dterm := DAtom (a : ab) (qs : list str) | DComp (b : cb) (items : list dterm).

Definition ab_rep (a : ab) : term :=
  match a with AName c => TName c [] | AUnit c => TUnit c | ANum c => TNum c 0 end.
Definition cb_rep (b : cb) : term :=
  match b with
  | CSet c => TSet c [] | CVec c => TVec c [] | CImg c => TImg c 0 []
  | CBox1 c => TBox1 c placeholder | CBox2 c => TBox2 c placeholder placeholder
  end.

Definition tk_join (sep : list str) (items : list (list str)) : list str :=
  match items with [] => [] | x :: r => x ++ concat (map (fun y => sep ++ y) r) end.

Definition tk_compound (br : str * str) (conn : str) (items : list (list str)) (sep : str) : list str :=
  words (fst br) ++
  match layout_select typst_layout_arms (nlen items) conn with
  | Some LSet => tk_join (words sep) items
  | Some LInfix => tk_join (words conn) items
  | Some LPrefix => words conn ++ words sep ++ tk_join (words sep) items
  | None => []
  end ++ words (snd br).

Definition tk_statement (br : str * str) (cop : str) (a b : list str) (sp : str) : list str :=
  words (fst br) ++ a ++ words sp ++ words cop ++ words sp ++ b ++ words (snd br).

Fixpoint dflat (d : dterm) : list str :=
  match d with
  | DAtom a qs => words (feature_of (ab_rep a)) ++ qs
  | DComp b items =>
      let t := cb_rep b in
      match category_of t with
      | CatStatement =>
          tk_statement (brackets_of t) (feature_of t) (nth 0 (map dflat items) []) (nth 1 (map dflat items) [])
                       typst_sep_statement
      | _ => tk_compound (brackets_of t) (feature_of t) (map dflat items) typst_sep_compound
      end
  end.

(* ---- table conditions ---- *)
Definition cat_eqb (a b : category) : bool :=
  match a, b with CatAtom, CatAtom | CatCompound, CatCompound | CatStatement, CatStatement => true | _, _ => false end.
Definition payload_comps (t : term) : bool :=
  match compsk_of t with CompsPayloadOrdered | CompsPayloadSet => true | _ => false end.

Definition kinds_ok (r : term) : bool :=
  match r with
  | TName _ _ => cat_eqb (category_of r) CatAtom && match getnamek_of r with GnPayload => true | _ => false end
  | TUnit _ => cat_eqb (category_of r) CatAtom && match getnamek_of r with GnEmpty => true | _ => false end
  | TNum _ _ => cat_eqb (category_of r) CatAtom && match getnamek_of r with GnDecimal => true | _ => false end
  | TSet _ _ | TVec _ _ | TBox1 _ _ => cat_eqb (category_of r) CatCompound && payload_comps r
  | TImg _ _ _ => cat_eqb (category_of r) CatCompound
  | TBox2 _ _ _ => (cat_eqb (category_of r) CatCompound || cat_eqb (category_of r) CatStatement) && payload_comps r
  end
  && Kb (feature_of r) && Kb (fst (brackets_of r)) && Kb (snd (brackets_of r))
  && (if cat_eqb (category_of r) CatStatement then Kne (feature_of r) else true).

Definition arm_ok (a : layout_pat * layout_kind) : bool :=
  match snd a with
  | LPrefix => true
  | LSet => match fst a with LPConnEmpty => true | _ => false end
  | LInfix => match fst a with LPLen n => n =? 2 | _ => false end
  end.
Definition arms_ok : bool :=
  match typst_layout_arms with (LPConnEmpty, LSet) :: _ => true | _ => false end &&
  forallb arm_ok typst_layout_arms && layout_total.

Definition tok_tables_ok : bool :=
  forallb kinds_ok typst_reps && Kne typst_sep_compound && Kb typst_sep_statement && arms_ok.

Lemma tok_tables_ok_true : tok_tables_ok = true.
Proof. vm_compute. reflexivity. Qed.

(* ---- generic string lemmas for the layouts ---- *)
Lemma components_words sep strs :
  Kne sep = true -> Forall (fun s => only_sp s = true) strs ->
  only_sp (ty_components sep strs) = true /\
  words (ty_components sep strs) = tk_join (words sep) (map words strs).
Proof.
  intros Hsep Hs. pose proof (Kne_Kb sep Hsep) as HK. pose proof (Kb_only_sp sep HK) as Hso.
  destruct Hs as [|x rest Hx Hrest]; [split; reflexivity|].
  cbn [ty_components map tk_join].
  assert (R : only_sp (concat (map (fun y => sep ++ y) rest)) = true /\
              wsb_start (concat (map (fun y => sep ++ y) rest)) = true /\
              words (concat (map (fun y => sep ++ y) rest)) = concat (map (fun y => words sep ++ y) (map words rest))).
  { induction Hrest as [|y rest Hy _ IH]; [repeat split; reflexivity|].
    destruct IH as (I1 & I2 & I3). cbn [map concat]. repeat split.
    - rewrite !only_sp_app, Hso, Hy, I1. reflexivity.
    - rewrite <- app_assoc. now apply Kne_start.
    - rewrite (words_app_r _ _ I2), (words_K_l sep y HK), I3. now rewrite <- app_assoc. }
  destruct R as (R1 & R2 & R3). split.
  - now rewrite only_sp_app, Hx, R1.
  - now rewrite (words_app_r _ _ R2), R3.
Qed.

Lemma layout_first_empty n : arms_ok = true -> layout_select typst_layout_arms n [] = Some LSet.
Proof.
  unfold arms_ok. intros H. apply andb_true_iff in H as [H _]. apply andb_true_iff in H as [H _].
  destruct typst_layout_arms as [|[[| |] []] arms]; try discriminate. reflexivity.
Qed.

Lemma layout_cases_gen arms n conn : conn <> [] -> forallb arm_ok arms = true ->
  forall k, layout_select arms n conn = Some k -> k = LPrefix \/ (k = LInfix /\ n = 2).
Proof.
  intros Hc. induction arms as [|[p k0] arms IH]; cbn [forallb layout_select]; [discriminate|].
  intros H k. apply andb_true_iff in H as [H1 H2]. destruct p.
  - destruct conn; [congruence|]. now apply IH.
  - destruct (n =? n0) eqn:E; [|now apply IH]. intros Hk. injection Hk as <-.
    apply N.eqb_eq in E. subst n0. unfold arm_ok in H1. cbn [fst snd] in H1.
    destruct k0; try discriminate; auto.
    right. split; [reflexivity|]. now apply N.eqb_eq in H1.
  - intros Hk. injection Hk as <-. unfold arm_ok in H1. cbn [fst snd] in H1. destruct k0; try discriminate. auto.
Qed.

Lemma layout_cases n conn : arms_ok = true -> conn <> [] ->
  forall k, layout_select typst_layout_arms n conn = Some k -> k = LPrefix \/ (k = LInfix /\ n = 2).
Proof.
  unfold arms_ok. intros H Hc. apply andb_true_iff in H as [H _]. apply andb_true_iff in H as [_ H].
  now apply layout_cases_gen.
Qed.

Lemma compound_words br conn sep strs :
  arms_ok = true -> Kb (fst br) = true -> Kb (snd br) = true -> Kb conn = true -> Kne sep = true ->
  Forall (fun s => only_sp s = true) strs ->
  exists s, ty_compound br conn strs sep = TOk s /\ only_sp s = true /\
            words s = tk_compound br conn (map words strs) sep.
Proof.
  intros Ha Hl Hr Hc Hsep Hs. unfold ty_compound, tk_compound.
  assert (El : nlen (map words strs) = nlen strs) by (unfold nlen; now rewrite map_length).
  rewrite El.
  assert (Hlt : layout_total = true).
  { unfold arms_ok in Ha. now apply andb_true_iff in Ha as [_ Ha]. }
  destruct (layout_select_some typst_layout_arms (nlen strs) conn Hlt) as [k Hk]. rewrite Hk.
  eexists. split; [reflexivity|].
  pose proof (Kne_Kb sep Hsep) as HKs.
  destruct (components_words sep strs Hsep Hs) as [C1 C2].
  assert (B : forall body toks, only_sp body = true -> words body = toks ->
            only_sp (fst br ++ body ++ snd br) = true /\ words (fst br ++ body ++ snd br) = words (fst br) ++ toks ++ words (snd br)).
  { intros body toks Hb Hw. split.
    - now rewrite !only_sp_app, (Kb_only_sp _ Hl), (Kb_only_sp _ Hr), Hb.
    - now rewrite (words_K_l _ _ Hl), (words_K_r _ _ Hr), Hw. }
  destruct k.
  - apply B; assumption.
  - (* infix: the connecter is not empty *)
    assert (Hne : conn <> []).
    { intros ->. rewrite (layout_first_empty (nlen strs) Ha) in Hk. discriminate. }
    assert (Hcn : Kne conn = true).
    { unfold Kne. rewrite Hc. destruct conn; [congruence | reflexivity]. }
    destruct (components_words conn strs Hcn Hs) as [D1 D2]. apply B; assumption.
  - apply B.
    + now rewrite !only_sp_app, (Kb_only_sp _ Hc), (Kb_only_sp _ HKs), C1.
    + now rewrite (words_K_l _ _ Hc), (words_K_l _ _ HKs), C2.
Qed.

Lemma statement_words l r cop sp a b :
  Kb l = true -> Kb r = true -> Kne cop = true -> Kb sp = true -> only_sp a = true -> only_sp b = true ->
  only_sp (ty_statement l a cop b sp r) = true /\
  words (ty_statement l a cop b sp r) = tk_statement (l, r) cop (words a) (words b) sp.
Proof.
  intros Hl Hr Hc Hsp Ha Hb. unfold ty_statement, tk_statement. cbn [fst snd].
  pose proof (Kne_Kb cop Hc) as HKc. split.
  - now rewrite !only_sp_app, (Kb_only_sp _ Hl), (Kb_only_sp _ Hr), (Kb_only_sp _ HKc), (Kb_only_sp _ Hsp), Ha, Hb.
  - rewrite (words_K_l _ _ Hl).
    assert (S1 : wsb_start (sp ++ cop ++ sp ++ b ++ r) = true).
    { destruct sp as [|x sp']; [cbn [app]; now apply Kne_start | exact (Kb_start _ Hsp)]. }
    rewrite (words_app_r a _ S1), (words_K_l _ _ Hsp), (words_K_l _ _ HKc), (words_K_l _ _ Hsp), (words_K_r _ _ Hr).
    reflexivity.
Qed.

Lemma img_iter_map {A B} (f : A -> B) ph l : forall now idx,
  ty_img_iter (f ph) now idx (map f l) = map f (ty_img_iter ph now idx l).
Proof.
  induction l as [|x l IH]; intros now idx; cbn [ty_img_iter map].
  - destruct (now =? idx); reflexivity.
  - destruct (now =? idx); cbn [map]; now rewrite IH.
Qed.

Lemma tall_map_TOk strs : tall (map TOk strs) = Some strs.
Proof. induction strs as [|s strs IH]; cbn [map tall]; [reflexivity | now rewrite IH]. Qed.

Lemma img_iter_Forall {A} (P : A -> Prop) ph l : P ph -> Forall P l -> forall now idx, Forall P (ty_img_iter ph now idx l).
Proof.
  intros Hp. induction 1 as [|x l Hx _ IH]; intros now idx; cbn [ty_img_iter].
  - destruct (now =? idx); auto.
  - destruct (now =? idx); auto.
Qed.

Section Skel.
  Variable to_debug : str -> str.
  Hypothesis Hdbg : forall n, only_sp (to_debug n) = true.
  Hypothesis Hok : tok_tables_ok = true.

  Definition skel_ph : dterm := DAtom (AUnit Placeholder) (words (to_debug [])).

  Fixpoint skel (t : term) : dterm :=
    match t with
    | TName c n => DAtom (AName c) (words (to_debug n))
    | TUnit c => DAtom (AUnit c) (words (to_debug []))
    | TNum c i => DAtom (ANum c) (words (to_debug (show_N i)))
    | TSet c l => DComp (CSet c) (map skel l)
    | TVec c l => DComp (CVec c) (map skel l)
    | TImg c i l => DComp (CImg c) (ty_img_iter skel_ph 0 i (map skel l))
    | TBox1 c a => DComp (CBox1 c) [skel a]
    | TBox2 c a b => DComp (CBox2 c) [skel a; skel b]
    end.

  Definition toks (t : term) : list str := dflat (skel t).

  Lemma Harms : arms_ok = true.
  Proof. unfold tok_tables_ok in Hok. now apply andb_true_iff in Hok as [_ H]. Qed.
  Lemma Hsepc : Kne typst_sep_compound = true.
  Proof. unfold tok_tables_ok in Hok. apply andb_true_iff in Hok as [H _]. apply andb_true_iff in H as [H _]. now apply andb_true_iff in H as [_ H]. Qed.
  Lemma Hseps : Kb typst_sep_statement = true.
  Proof. unfold tok_tables_ok in Hok. apply andb_true_iff in Hok as [H _]. now apply andb_true_iff in H as [_ H]. Qed.
  Lemma Hkinds_reps : forall r, In r typst_reps -> kinds_ok r = true.
  Proof.
    unfold tok_tables_ok in Hok. apply andb_true_iff in Hok as [H _]. apply andb_true_iff in H as [H _].
    apply andb_true_iff in H as [H _]. now rewrite forallb_forall in H.
  Qed.

  Lemma kinds_ok_all t : kinds_ok t = true.
  Proof.
    destruct t as [c n|c|c i|c l|c l|c i l|c a|c a b].
    - change (kinds_ok (TName c []) = true). apply Hkinds_reps. unfold typst_reps. rewrite !in_app_iff. left.
      apply (in_map (fun c => TName c [])). apply all_name_ctor_complete.
    - apply Hkinds_reps. unfold typst_reps. rewrite !in_app_iff. right; left. apply in_map. apply all_unit_ctor_complete.
    - change (kinds_ok (TNum c 0) = true). apply Hkinds_reps. unfold typst_reps. rewrite !in_app_iff. do 2 right; left.
      apply (in_map (fun c => TNum c 0)). apply all_num_ctor_complete.
    - change (kinds_ok (TSet c []) = true). apply Hkinds_reps. unfold typst_reps. rewrite !in_app_iff. do 3 right; left.
      apply (in_map (fun c => TSet c [])). apply all_set_ctor_complete.
    - change (kinds_ok (TVec c []) = true). apply Hkinds_reps. unfold typst_reps. rewrite !in_app_iff. do 4 right; left.
      apply (in_map (fun c => TVec c [])). apply all_vec_ctor_complete.
    - change (kinds_ok (TImg c 0 []) = true). apply Hkinds_reps. unfold typst_reps. rewrite !in_app_iff. do 5 right; left.
      apply (in_map (fun c => TImg c 0 [])). apply all_img_ctor_complete.
    - change (kinds_ok (TBox1 c placeholder) = true). apply Hkinds_reps. unfold typst_reps. rewrite !in_app_iff. do 6 right; left.
      apply (in_map (fun c => TBox1 c placeholder)). apply all_box1_ctor_complete.
    - change (kinds_ok (TBox2 c placeholder placeholder) = true). apply Hkinds_reps. unfold typst_reps. rewrite !in_app_iff. do 7 right.
      apply (in_map (fun c => TBox2 c placeholder placeholder)). apply all_box2_ctor_complete.
  Qed.

  (* the facts of kinds_ok, unpacked *)
  Lemma kinds_K t :
    Kb (feature_of t) = true /\ Kb (fst (brackets_of t)) = true /\ Kb (snd (brackets_of t)) = true /\
    (category_of t = CatStatement -> Kne (feature_of t) = true).
  Proof.
    pose proof (kinds_ok_all t) as H. unfold kinds_ok in H.
    apply andb_true_iff in H as [H H5]. apply andb_true_iff in H as [H H4].
    apply andb_true_iff in H as [H H3]. apply andb_true_iff in H as [_ H2].
    repeat split; auto. intros E. rewrite E in H5. exact H5.
  Qed.

  Lemma cat_eqb_eq a b : cat_eqb a b = true -> a = b.
  Proof. destruct a, b; cbn; congruence. Qed.

  (* one rendered component: post-processed, same words *)
  Lemma fmt_of_words s : only_sp s = true ->
    exists r, fmt_of (TOk s) = TOk r /\ only_sp r = true /\ words r = words s.
  Proof.
    intros H. cbn [fmt_of tbind]. destruct (post_process_total s) as [r Hr]. exists r. split; [exact Hr|]. split.
    - eapply only_sp_post_process; eassumption.
    - now apply words_post_process.
  Qed.

  Definition good (t : term) : Prop :=
    exists s, raw_term to_debug t = TOk s /\ only_sp s = true /\ words s = toks t.

  Lemma kids_good l : Forall good l ->
    exists strs, map (fun x => fmt_of (raw_term to_debug x)) l = map TOk strs /\
                 Forall (fun s => only_sp s = true) strs /\ map words strs = map dflat (map skel l).
  Proof.
    induction 1 as [|x l (s & Hs & Ho & Hw) _ (strs & E1 & E2 & E3)].
    - exists []. repeat split; constructor.
    - destruct (fmt_of_words s Ho) as (r & Hr & Hro & Hrw). exists (r :: strs). cbn [map]. repeat split.
      + rewrite Hs, Hr, E1. reflexivity.
      + constructor; assumption.
      + rewrite Hrw, Hw, E3. reflexivity.
  Qed.

  Lemma atom_good t n :
    category_of t = CatAtom -> get_atom_name_unchecked t = ROk n ->
    exists s, node to_debug t [] = TOk s /\ only_sp s = true /\ words s = words (feature_of t) ++ words (to_debug n).
  Proof.
    intros Hc Hn. unfold node, node_gen. rewrite Hc, Hn. eexists. split; [reflexivity|].
    destruct (kinds_K t) as (HK & _). split.
    - now rewrite only_sp_app, (Kb_only_sp _ HK), Hdbg.
    - now apply words_K_l.
  Qed.

  Lemma ph_good : exists s, ph_rendered to_debug = TOk s /\ only_sp s = true /\ words s = dflat skel_ph.
  Proof.
    unfold ph_rendered.
    assert (E : node_gen to_debug TPanic placeholder [] = node to_debug placeholder []) by reflexivity.
    rewrite E.
    pose proof (kinds_ok_all placeholder) as H. unfold kinds_ok, placeholder in H.
    apply andb_true_iff in H as [H _]. apply andb_true_iff in H as [H _]. apply andb_true_iff in H as [H _].
    apply andb_true_iff in H as [H _]. apply andb_true_iff in H as [H1 H2]. apply cat_eqb_eq in H1.
    assert (Hn : get_atom_name_unchecked placeholder = ROk []).
    { unfold get_atom_name_unchecked, placeholder. destruct (getnamek_of (TUnit Placeholder)); try discriminate. reflexivity. }
    destruct (atom_good placeholder [] H1 Hn) as (s & Hs & Ho & Hw).
    fold placeholder. rewrite Hs. destruct (fmt_of_words s Ho) as (r & Hr & Hro & Hrw).
    exists r. repeat split; auto. rewrite Hrw, Hw. reflexivity.
  Qed.

  (* compound nodes *)
  Lemma compound_good t strs items :
    category_of t = CatCompound ->
    comps_incl_rendered (ph_rendered to_debug) t (map TOk strs) = Some (map TOk items) ->
    Forall (fun s => only_sp s = true) items ->
    exists s, node to_debug t (map TOk strs) = TOk s /\ only_sp s = true /\
              words s = tk_compound (brackets_of t) (feature_of t) (map words items) typst_sep_compound.
  Proof.
    intros Hc Hi Ho. unfold node, node_gen. rewrite Hc. unfold node in Hi. rewrite Hi, tall_map_TOk.
    destruct (kinds_K t) as (K1 & K2 & K3 & _).
    apply compound_words; auto using Harms, Hsepc.
  Qed.

  Theorem raw_toks_proof t : good t.
  Proof.
    induction t as [c n|c|c i|c l IH|c l IH|c i l IH|c a IHa|c a b IHa IHb] using term_ind'; unfold good, toks.
    - (* name *)
      pose proof (kinds_ok_all (TName c n)) as H. unfold kinds_ok in H.
      do 4 (apply andb_true_iff in H as [H _]). apply andb_true_iff in H as [H1 H2]. apply cat_eqb_eq in H1.
      cbn [raw_term skel dflat ab_rep].
      apply (atom_good (TName c n) n H1).
      unfold get_atom_name_unchecked. destruct (getnamek_of (TName c n)); try discriminate. reflexivity.
    - pose proof (kinds_ok_all (TUnit c)) as H. unfold kinds_ok in H.
      do 4 (apply andb_true_iff in H as [H _]). apply andb_true_iff in H as [H1 H2]. apply cat_eqb_eq in H1.
      cbn [raw_term skel dflat ab_rep].
      apply (atom_good (TUnit c) [] H1).
      unfold get_atom_name_unchecked. destruct (getnamek_of (TUnit c)); try discriminate. reflexivity.
    - pose proof (kinds_ok_all (TNum c i)) as H. unfold kinds_ok in H.
      do 4 (apply andb_true_iff in H as [H _]). apply andb_true_iff in H as [H1 H2]. apply cat_eqb_eq in H1.
      cbn [raw_term skel dflat ab_rep].
      apply (atom_good (TNum c i) (show_N i) H1).
      unfold get_atom_name_unchecked. destruct (getnamek_of (TNum c i)); try discriminate. reflexivity.
    - (* set *)
      destruct (kids_good l IH) as (strs & E1 & E2 & E3).
      pose proof (kinds_ok_all (TSet c l)) as H. unfold kinds_ok in H.
      do 4 (apply andb_true_iff in H as [H _]). apply andb_true_iff in H as [H1 H2]. apply cat_eqb_eq in H1.
      cbn [raw_term]. rewrite E1.
      destruct (compound_good (TSet c l) strs strs H1) as (s & Hs & Ho & Hw); auto.
      { unfold comps_incl_rendered, comps_rendered. unfold payload_comps in H2. destruct (compsk_of (TSet c l)); try discriminate; reflexivity. }
      exists s. repeat split; auto. rewrite Hw, E3. cbn [skel dflat cb_rep].
      change (category_of (TSet c [])) with (category_of (TSet c l)). rewrite H1. reflexivity.
    - destruct (kids_good l IH) as (strs & E1 & E2 & E3).
      pose proof (kinds_ok_all (TVec c l)) as H. unfold kinds_ok in H.
      do 4 (apply andb_true_iff in H as [H _]). apply andb_true_iff in H as [H1 H2]. apply cat_eqb_eq in H1.
      cbn [raw_term]. rewrite E1.
      destruct (compound_good (TVec c l) strs strs H1) as (s & Hs & Ho & Hw); auto.
      { unfold comps_incl_rendered, comps_rendered. unfold payload_comps in H2. destruct (compsk_of (TVec c l)); try discriminate; reflexivity. }
      exists s. repeat split; auto. rewrite Hw, E3. cbn [skel dflat cb_rep].
      change (category_of (TVec c [])) with (category_of (TVec c l)). rewrite H1. reflexivity.
    - (* image *)
      destruct (kids_good l IH) as (strs & E1 & E2 & E3).
      pose proof (kinds_ok_all (TImg c i l)) as H. unfold kinds_ok in H.
      do 4 (apply andb_true_iff in H as [H _]). apply cat_eqb_eq in H.
      destruct ph_good as (ps & Hp & Hpo & Hpw).
      cbn [raw_term]. rewrite E1.
      destruct (compound_good (TImg c i l) strs (ty_img_iter ps 0 i strs) H) as (s & Hs & Ho & Hw); auto.
      { unfold comps_incl_rendered. rewrite Hp. now rewrite (img_iter_map TOk). }
      { now apply img_iter_Forall. }
      exists s. repeat split; auto. rewrite Hw. cbn [skel dflat cb_rep].
      change (category_of (TImg c 0 [])) with (category_of (TImg c i l)). rewrite H.
      rewrite <- (img_iter_map words), <- (img_iter_map dflat), Hpw, E3. reflexivity.
    - (* box1 *)
      destruct (kids_good [a] (Forall_cons _ IHa (Forall_nil _))) as (strs & E1 & E2 & E3).
      pose proof (kinds_ok_all (TBox1 c a)) as H. unfold kinds_ok in H.
      do 4 (apply andb_true_iff in H as [H _]). apply andb_true_iff in H as [H1 H2]. apply cat_eqb_eq in H1.
      cbn [raw_term]. cbn [map] in E1. rewrite E1.
      destruct (compound_good (TBox1 c a) strs strs H1) as (s & Hs & Ho & Hw); auto.
      { unfold comps_incl_rendered, comps_rendered. unfold payload_comps in H2. destruct (compsk_of (TBox1 c a)); try discriminate; reflexivity. }
      exists s. repeat split; auto. rewrite Hw, E3. cbn [skel dflat cb_rep map].
      change (category_of (TBox1 c placeholder)) with (category_of (TBox1 c a)). rewrite H1. reflexivity.
    - (* box2: compound or statement *)
      destruct (kids_good [a; b] (Forall_cons _ IHa (Forall_cons _ IHb (Forall_nil _)))) as (strs & E1 & E2 & E3).
      pose proof (kinds_ok_all (TBox2 c a b)) as H. unfold kinds_ok in H.
      do 4 (apply andb_true_iff in H as [H _]). apply andb_true_iff in H as [H1 H2].
      cbn [raw_term]. cbn [map] in E1. rewrite E1.
      destruct strs as [|sa [|sb [|? ?]]]; try discriminate E3.
      cbn [skel dflat cb_rep map]. cbn [map] in E3. injection E3 as Ea Eb.
      change (category_of (TBox2 c placeholder placeholder)) with (category_of (TBox2 c a b)).
      change (brackets_of (TBox2 c placeholder placeholder)) with (brackets_of (TBox2 c a b)).
      change (feature_of (TBox2 c placeholder placeholder)) with (feature_of (TBox2 c a b)).
      apply orb_true_iff in H1 as [H1|H1]; apply cat_eqb_eq in H1.
      + destruct (compound_good (TBox2 c a b) [sa; sb] [sa; sb] H1) as (s & Hs & Ho & Hw); auto.
        { unfold comps_incl_rendered, comps_rendered. unfold payload_comps in H2. destruct (compsk_of (TBox2 c a b)); try discriminate; reflexivity. }
        exists s. repeat split; auto. rewrite Hw, H1. cbn [map]. now rewrite Ea, Eb.
      + destruct (kinds_K (TBox2 c a b)) as (K1 & K2 & K3 & K4). specialize (K4 H1).
        inversion E2 as [|? ? Hsa E2']; subst. inversion E2' as [|? ? Hsb _]; subst.
        unfold node, node_gen. rewrite H1. unfold comps_rendered. unfold payload_comps in H2.
        assert (Hcr : match compsk_of (TBox2 c a b) with
                      | CompsSelf => None
                      | CompsPayloadOrdered | CompsPayloadSet => Some (map TOk [sa; sb])
                      | CompsNone => Some []
                      end = Some [TOk sa; TOk sb]).
        { destruct (compsk_of (TBox2 c a b)); try discriminate; reflexivity. }
        cbn [map] in Hcr. rewrite Hcr. cbn [nth_error].
        destruct (statement_words (fst (brackets_of (TBox2 c a b))) (snd (brackets_of (TBox2 c a b)))
                    (feature_of (TBox2 c a b)) typst_sep_statement sa sb K2 K3 K4 Hseps Hsa Hsb) as [S1 S2].
        eexists. split; [reflexivity|]. split; [exact S1|]. rewrite S2. cbn [nth].
        rewrite <- surjective_pairing, Ea, Eb. reflexivity.
  Qed.

  Theorem typst_tokens_proof t : typst_term to_debug t = TOk (unwords (toks t)).
  Proof.
    destruct (raw_toks_proof t) as (s & Hs & Ho & Hw). unfold typst_term. rewrite Hs. cbn [fmt_of tbind].
    rewrite <- Hw. now apply pp_words.
  Qed.

  Lemma toks_tokens t : Forall (fun x => is_token x = true) (toks t).
  Proof. destruct (raw_toks_proof t) as (s & _ & _ & <-). apply words_tokens. Qed.
End Skel.
