(* Proofs/DecP.v -- round-trip and characterisation lemmas for Base/Dec.v
   (show_N / show_Z  vs  read_digits / read_usize / read_isize). *)
From Nv Require Import Base.Str Base.Dec.
From Coq Require Import Decimal DecimalN DecimalZ.

(* ------------------------------------------------------------------ *)
(* the sign-stripping matches of read_usize / read_isize, made explicit *)

Definition strip_plus (s : str) : str := match s with 43 :: s' => s' | _ => s end.

Definition split_sign (s : str) : bool * str :=
  match s with 43 :: s' => (false, s') | 45 :: s' => (true, s') | _ => (false, s) end.

Lemma read_usize_unfold s :
  read_usize s =
  match read_digits (strip_plus s) with
  | Some n => if n <=? usize_max then Some n else None
  | None => None
  end.
Proof. reflexivity. Qed.

Lemma read_isize_unfold s :
  read_isize s =
  match read_digits (snd (split_sign s)) with
  | Some n =>
      let z := if fst (split_sign s) then Z.opp (Z.of_N n) else Z.of_N n in
      if ((isize_min <=? z) && (z <=? isize_max))%Z then Some z else None
  | None => None
  end.
Proof. unfold read_isize, split_sign. destruct s as [|c s]; [reflexivity|].
  destruct c as [|p]; [reflexivity|].
  do 6 (try (destruct p as [p|p|]; try reflexivity)).
Qed.

Lemma strip_plus_cons c s : strip_plus (c :: s) = if c =? 43 then s else c :: s.
Proof.
  destruct c as [|p]; [reflexivity|].
  do 6 (try (destruct p as [p|p|]; try reflexivity)).
Qed.

Lemma split_sign_cons c s :
  split_sign (c :: s) = if c =? 43 then (false, s) else if c =? 45 then (true, s) else (false, c :: s).
Proof.
  destruct c as [|p]; [reflexivity|].
  do 6 (try (destruct p as [p|p|]; try reflexivity)).
Qed.

(* ------------------------------------------------------------------ *)
(* digits *)

Lemma digit_cons_inv c d r :
  digit_cons c d = Some r ->
  (c = 48 /\ r = D0 d) \/ (c = 49 /\ r = D1 d) \/ (c = 50 /\ r = D2 d) \/ (c = 51 /\ r = D3 d) \/
  (c = 52 /\ r = D4 d) \/ (c = 53 /\ r = D5 d) \/ (c = 54 /\ r = D6 d) \/ (c = 55 /\ r = D7 d) \/
  (c = 56 /\ r = D8 d) \/ (c = 57 /\ r = D9 d).
Proof.
  destruct c as [|p]; [discriminate|].
  do 6 (try (destruct p as [p|p|]; try discriminate));
    cbv [digit_cons]; intros H; injection H as <-; tauto.
Qed.

Lemma digit_cons_digit c d r : digit_cons c d = Some r -> is_ascii_digit c = true.
Proof.
  intros H; apply digit_cons_inv in H.
  repeat (destruct H as [[-> _]|H]; [reflexivity|]). destruct H as [-> _]; reflexivity.
Qed.

Lemma digit_cons_some c d : is_ascii_digit c = true -> exists r, digit_cons c d = Some r.
Proof.
  unfold is_ascii_digit. rewrite andb_true_iff, N.leb_le, N.leb_le. intros [H1 H2].
  assert (Hc : c = 48 \/ c = 49 \/ c = 50 \/ c = 51 \/ c = 52 \/ c = 53 \/ c = 54 \/ c = 55 \/ c = 56 \/ c = 57) by lia.
  repeat (destruct Hc as [->|Hc]; [eexists; reflexivity|]). subst c; eexists; reflexivity.
Qed.

Lemma is_ascii_digit_not_sign c : is_ascii_digit c = true -> (c =? 43) = false /\ (c =? 45) = false.
Proof.
  unfold is_ascii_digit. rewrite andb_true_iff, N.leb_le, N.leb_le. intros [H1 H2].
  split; apply N.eqb_neq; lia.
Qed.

Lemma str_to_uint_to_str d : str_to_uint (uint_to_str d) = Some d.
Proof. induction d; cbn [uint_to_str str_to_uint]; rewrite ?IHd; reflexivity. Qed.

Lemma uint_to_str_digits d : Forall (fun c => is_ascii_digit c = true) (uint_to_str d).
Proof. induction d; cbn [uint_to_str]; constructor; auto. Qed.

Lemma uint_to_str_inj d d' : uint_to_str d = uint_to_str d' -> d = d'.
Proof.
  intros H. apply (f_equal str_to_uint) in H. rewrite !str_to_uint_to_str in H. congruence.
Qed.

Lemma str_to_uint_digits s d : str_to_uint s = Some d -> Forall (fun c => is_ascii_digit c = true) s.
Proof.
  revert d; induction s as [|c s IH]; intros d H; [constructor|].
  cbn [str_to_uint] in H. destruct (str_to_uint s) as [d'|] eqn:E; [|discriminate].
  constructor; [eapply digit_cons_digit; eauto | eapply IH; eauto].
Qed.

Lemma str_to_uint_some s : Forall (fun c => is_ascii_digit c = true) s -> exists d, str_to_uint s = Some d.
Proof.
  induction 1 as [|c s Hc _ [d IH]]; [now exists Nil|].
  cbn [str_to_uint]. rewrite IH. now apply digit_cons_some.
Qed.

(* str_to_uint is the inverse of uint_to_str on its whole domain *)
Lemma str_to_uint_inv s d : str_to_uint s = Some d -> uint_to_str d = s.
Proof.
  revert d; induction s as [|c s IH]; intros d H.
  - cbn in H. injection H as <-. reflexivity.
  - cbn [str_to_uint] in H. destruct (str_to_uint s) as [d'|] eqn:E; [|discriminate].
    specialize (IH _ eq_refl). apply digit_cons_inv in H.
    repeat (destruct H as [[-> ->]|H]; [cbn [uint_to_str]; now rewrite IH|]).
    destruct H as [-> ->]. cbn [uint_to_str]; now rewrite IH.
Qed.

(* ------------------------------------------------------------------ *)
(* show_N *)

Lemma N_to_uint_not_nil n : N.to_uint n <> Nil.
Proof.
  intros H. pose proof (DecimalN.Unsigned.of_to n) as E. rewrite H in E. cbn in E. subst n. discriminate H.
Qed.

Lemma show_N_not_nil n : show_N n <> [].
Proof.
  unfold show_N. pose proof (N_to_uint_not_nil n). destruct (N.to_uint n); cbn [uint_to_str]; congruence.
Qed.

Lemma show_N_digits : forall n, show_N n <> [] /\ Forall (fun c => is_ascii_digit c = true) (show_N n).
Proof. intros n; split; [apply show_N_not_nil | apply uint_to_str_digits]. Qed.

Lemma show_N_inj : forall a b, show_N a = show_N b -> a = b.
Proof. intros a b H. apply uint_to_str_inj in H. now apply DecimalN.Unsigned.to_uint_inj. Qed.

Lemma show_N_head n : exists c s, show_N n = c :: s /\ is_ascii_digit c = true.
Proof.
  destruct (show_N_digits n) as [Hn Hd]. destruct (show_N n) as [|c s]; [congruence|].
  inversion Hd; subst. eauto.
Qed.

Lemma read_digits_show_N : forall n, read_digits (show_N n) = Some n.
Proof.
  intros n. unfold read_digits. pose proof (show_N_not_nil n) as Hn.
  destruct (show_N n) as [|c s] eqn:E; [congruence|]. rewrite <- E. unfold show_N.
  rewrite str_to_uint_to_str. cbn [option_map]. f_equal. apply DecimalN.Unsigned.of_to.
Qed.

Lemma strip_plus_show_N n : strip_plus (show_N n) = show_N n.
Proof.
  destruct (show_N_head n) as (c & s & -> & Hc). rewrite strip_plus_cons.
  destruct (is_ascii_digit_not_sign c Hc) as [-> _]. reflexivity.
Qed.

Lemma split_sign_show_N n : split_sign (show_N n) = (false, show_N n).
Proof.
  destruct (show_N_head n) as (c & s & -> & Hc). rewrite split_sign_cons.
  destruct (is_ascii_digit_not_sign c Hc) as [-> ->]. reflexivity.
Qed.

Lemma read_usize_show : forall n, (n <= usize_max)%N -> read_usize (show_N n) = Some n.
Proof.
  intros n Hn. rewrite read_usize_unfold, strip_plus_show_N, read_digits_show_N.
  apply N.leb_le in Hn. now rewrite Hn.
Qed.

Lemma read_usize_plus : forall n, (n <= usize_max)%N -> read_usize (43 :: show_N n) = Some n.
Proof.
  intros n Hn. rewrite read_usize_unfold, strip_plus_cons. change (43 =? 43) with true. cbv iota.
  rewrite read_digits_show_N. apply N.leb_le in Hn. now rewrite Hn.
Qed.

Lemma read_isize_show : forall z, (isize_min <= z <= isize_max)%Z -> read_isize (show_Z z) = Some z.
Proof.
  intros z [Hlo Hhi]. apply Z.leb_le in Hlo, Hhi. destruct z as [|p|p].
  - reflexivity.
  - cbn [show_Z]. rewrite read_isize_unfold, split_sign_show_N. cbn [fst snd].
    rewrite read_digits_show_N. cbv zeta. change (Z.of_N (N.pos p)) with (Z.pos p).
    now rewrite Hlo, Hhi.
  - cbn [show_Z]. rewrite read_isize_unfold, split_sign_cons.
    change (45 =? 43) with false. change (45 =? 45) with true. cbv iota. cbn [fst snd].
    rewrite read_digits_show_N. cbv zeta. change (- Z.of_N (N.pos p))%Z with (Z.neg p).
    now rewrite Hlo, Hhi.
Qed.

(* ------------------------------------------------------------------ *)
(* the numeric value read_digits computes: Horner evaluation of the digit string *)

Definition dec_step (acc c : N) : N := 10 * acc + digit_val c.
Definition dec_val (s : str) : N := fold_left dec_step s 0.

Lemma of_uint_acc_val s : forall d acc,
  str_to_uint s = Some d -> N.pos (Pos.of_uint_acc d acc) = fold_left dec_step s (N.pos acc).
Proof.
  induction s as [|c s IH]; intros d acc H.
  - cbn in H. injection H as <-. reflexivity.
  - cbn [str_to_uint] in H. destruct (str_to_uint s) as [d'|] eqn:E; [|discriminate].
    cbn [fold_left]. apply digit_cons_inv in H.
    assert (Hs : forall k, N.pos (Pos.of_uint_acc d' k) = fold_left dec_step s (N.pos k)) by (intros; now apply IH).
    unfold dec_step at 2, digit_val.
    repeat (destruct H as [[-> ->]|H];
            [cbn [Pos.of_uint_acc]; rewrite Hs; f_equal; lia|]).
    destruct H as [-> ->]. cbn [Pos.of_uint_acc]; rewrite Hs; f_equal; lia.
Qed.

Lemma of_uint_val s : forall d, str_to_uint s = Some d -> N.of_uint d = dec_val s.
Proof.
  unfold dec_val. induction s as [|c s IH]; intros d H.
  - cbn in H. injection H as <-. reflexivity.
  - cbn [str_to_uint] in H. destruct (str_to_uint s) as [d'|] eqn:E; [|discriminate].
    cbn [fold_left]. apply digit_cons_inv in H. unfold N.of_uint.
    destruct H as [[-> ->]|H]; [cbn [Pos.of_uint]; now apply IH|].
    repeat (destruct H as [[-> ->]|H];
            [cbn [Pos.of_uint]; now rewrite (of_uint_acc_val s d' _ E)|]).
    destruct H as [-> ->]. cbn [Pos.of_uint]; now rewrite (of_uint_acc_val s d' _ E).
Qed.

(* read_digits: at least one character, ASCII digits only; the result is the decimal value *)
Lemma read_digits_spec s v :
  read_digits s = Some v <->
  s <> [] /\ Forall (fun c => is_ascii_digit c = true) s /\ v = dec_val s.
Proof.
  unfold read_digits. split.
  - intros H. destruct s as [|c s]; [discriminate|].
    destruct (str_to_uint (c :: s)) as [d|] eqn:E; [|discriminate]. cbn in H. injection H as <-.
    split; [discriminate|]. split; [eapply str_to_uint_digits; eauto | now apply of_uint_val].
  - intros (Hn & Hd & ->). destruct s as [|c s]; [congruence|].
    destruct (str_to_uint_some _ Hd) as [d E]. rewrite E. cbn [option_map]. f_equal. now apply of_uint_val.
Qed.

Lemma dec_val_show_N n : dec_val (show_N n) = n.
Proof.
  pose proof (read_digits_show_N n) as H. apply read_digits_spec in H. symmetry; apply H.
Qed.

(* read_usize: optional single '+', then >= 1 ASCII digits and nothing else, value fits in a usize *)
Lemma read_usize_spec : forall s v,
  read_usize s = Some v <->
  exists body, (s = body \/ s = 43 :: body) /\ body <> [] /\
               Forall (fun c => is_ascii_digit c = true) body /\
               read_digits body = Some v /\ v = dec_val body /\ (v <= usize_max)%N.
Proof.
  intros s v. rewrite read_usize_unfold. split.
  - intros H. destruct (read_digits (strip_plus s)) as [n|] eqn:E; [|discriminate].
    destruct (n <=? usize_max) eqn:Hle; [|discriminate]. injection H as <-.
    apply N.leb_le in Hle. pose proof E as E'. apply read_digits_spec in E' as (Hn & Hd & Hv).
    exists (strip_plus s). repeat split; auto.
    destruct s as [|c s]; [now left|]. rewrite strip_plus_cons.
    destruct (N.eqb_spec c 43) as [->|_]; [now right | now left].
  - intros (body & Hs & Hn & Hd & Hr & _ & Hle).
    assert (Hb : strip_plus s = body).
    { destruct Hs as [->| ->].
      - destruct body as [|c b]; [congruence|]. inversion Hd; subst. rewrite strip_plus_cons.
        now destruct (is_ascii_digit_not_sign c H1) as [-> _].
      - now rewrite strip_plus_cons. }
    rewrite Hb, Hr. apply N.leb_le in Hle. now rewrite Hle.
Qed.

(* consequences used by C17 *)
Lemma read_usize_le s v : read_usize s = Some v -> (v <= usize_max)%N.
Proof. intros H; apply read_usize_spec in H as (b & _ & _ & _ & _ & _ & H); exact H. Qed.

Lemma read_usize_none_iff s :
  read_usize s = None <->
  ~ exists body, (s = body \/ s = 43 :: body) /\ body <> [] /\
                 Forall (fun c => is_ascii_digit c = true) body /\ (dec_val body <= usize_max)%N.
Proof.
  split.
  - intros H (body & Hs & Hn & Hd & Hle).
    assert (read_usize s = Some (dec_val body)); [|congruence].
    apply read_usize_spec. exists body. repeat split; auto. apply read_digits_spec; auto.
  - intros H. destruct (read_usize s) as [v|] eqn:E; [|reflexivity]. exfalso; apply H.
    apply read_usize_spec in E as (body & Hs & Hn & Hd & _ & -> & Hle). exists body; auto.
Qed.

(* non-vacuity / sanity *)
Example read_usize_ex1 : read_usize [43; 48; 48; 53] = Some 5. Proof. vm_compute; reflexivity. Qed.
Example read_usize_ex2 : read_usize [45; 53] = None. Proof. vm_compute; reflexivity. Qed.
Example read_usize_ex3 : read_usize [43] = None. Proof. vm_compute; reflexivity. Qed.
Example read_usize_ex4 : read_usize [] = None. Proof. vm_compute; reflexivity. Qed.
Example read_usize_ex5 : read_usize [43; 43; 53] = None. Proof. vm_compute; reflexivity. Qed.
Example read_usize_ex_max : read_usize (show_N usize_max) = Some usize_max. Proof. vm_compute; reflexivity. Qed.
Example read_usize_ex_over : read_usize (show_N (usize_max + 1)) = None. Proof. vm_compute; reflexivity. Qed.
Example read_isize_ex_min : read_isize (show_Z isize_min) = Some isize_min. Proof. vm_compute; reflexivity. Qed.
Example read_isize_ex_under : read_isize (show_Z (isize_min - 1)) = None. Proof. vm_compute; reflexivity. Qed.
