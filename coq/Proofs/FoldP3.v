(* Proofs/FoldP3.v -- C03, fold third, at the sentence / task level: folding the lexical value of what
   the enum formatter prints for a sentence or task returns that sentence or task.
   Numbers: the float type is abstract; the only fact used is the round trip of Rust's Display / FromStr
   on numbers that pass the range test ([H_rt], the same hypothesis the enum parser theorems use).
   Stamp and punctuation strings go through the enum parser's side doors: their round trip on the
   formatter's output is proved here from boolean conditions on the format ([door_fmt_ok], true of the
   three shipped formats). *)
From Nv Require Import Base.Str Base.Dec Model.Term Model.EqHash Model.Access Model.Sentence.
From Nv Require Import Model.EnumFormat Model.EnumFormatter Model.EnumParser Model.Fold.
From Nv Require Import Proofs.EqHashP Proofs.AccessP Proofs.DecP Proofs.FoldP Proofs.FoldP2.

Definition stamp_in_range (st : stamp) : bool :=
  match st with Fixed z => ((isize_min <=? z) && (z <=? isize_max))%Z | _ => true end.

(* ------------------------------------------------------------------ *)
(* the side doors on the formatter's output *)

(* two keywords differ at a position both have: neither is a prefix of any extension of the other *)
Fixpoint diverge (a b : str) : bool :=
  match a, b with
  | x :: a', y :: b' => negb (x =? y) || diverge a' b'
  | _, _ => false
  end.

Lemma diverge_starts a : forall b r, diverge a b = true -> starts a (b ++ r) = false.
Proof.
  induction a as [|x a IH]; intros [|y b] r; cbn [diverge]; try discriminate.
  cbn [app starts]. destruct (N.eqb_spec x y) as [->|Hne]; cbn [negb orb andb]; [apply IH | reflexivity].
Qed.

(* the first arm whose guard keyword is a prefix of the text *)
Fixpoint find_pure {A} (E : efmt) (arms : list ((efmt -> str) * A)) (r : str) : option ((efmt -> str) * A) :=
  match arms with
  | [] => None
  | (g, a) :: rest => if starts (g E) r then Some (g, a) else find_pure E rest r
  end.

Definition stamp_arm_eqb (a b : stamp_arm) : bool :=
  match a, b with
  | SAFixed, SAFixed | SAPast, SAPast | SAPresent, SAPresent | SAFuture, SAFuture => true
  | _, _ => false
  end.

(* the arm list selects, for every text that begins with the marker M, an arm of the given kind that skips
   exactly M: arms before it diverge from M *)
Fixpoint selects (E : efmt) (arms : list ((efmt -> str) * ((efmt -> str) * stamp_arm))) (M : str) (kind : stamp_arm) : bool :=
  match arms with
  | [] => false
  | (g, (sk, k)) :: rest =>
      if str_eqb (g E) M then str_eqb (sk E) M && stamp_arm_eqb k kind
      else diverge (g E) M && selects E rest M kind
  end.

Lemma selects_find E arms M kind r :
  selects E arms M kind = true ->
  exists g sk, find_pure E arms (M ++ r) = Some (g, (sk, kind)) /\ sk E = M.
Proof.
  induction arms as [|[g [sk k]] arms IH]; cbn [selects find_pure]; [discriminate|].
  destruct (str_eqb_spec (g E) M) as [Hg|Hg].
  - rewrite andb_true_iff. intros [Hsk Hk]. apply str_eqb_eq in Hsk. rewrite Hg, starts_app.
    exists g, sk. split; [|exact Hsk]. destruct k, kind; try discriminate; reflexivity.
  - rewrite andb_true_iff. intros [Hdiv Hsel]. rewrite (diverge_starts _ _ r Hdiv). now apply IH.
Qed.

Definition stamp_arms' : list ((efmt -> str) * ((efmt -> str) * stamp_arm)) :=
  map (fun x => (fst (fst x), (snd (fst x), snd x))) stamp_arms.
Definition punct_arms' : list ((efmt -> str) * ((efmt -> str) * punct)) :=
  map (fun x => (fst (fst x), (snd (fst x), snd x))) punct_arms.

Definition head_ok (f : N -> bool) (s : str) : bool := match s with c :: _ => f c | [] => false end.

Definition punct_eqb' (a b : punct) : bool :=
  match a, b with
  | Judgement, Judgement | Goal, Goal | Question, Question | Quest, Quest => true
  | _, _ => false
  end.

(* the format conditions under which the side doors read back what the formatter printed:
   - the parse space is non-empty, and no stamp marker and no digit / sign begins like it;
   - each stamp marker is non-empty and selects its own arm (earlier arms diverge from it);
   - the right stamp bracket is empty or does not begin with [0-9+-];
   - each punctuation selects its own arm *)
Definition door_fmt_ok (E : efmt) : bool :=
  let sp := space_parse E in
  let markers := [(sentence_stamp_fixed E, SAFixed); (sentence_stamp_past E, SAPast);
                  (sentence_stamp_present E, SAPresent); (sentence_stamp_future E, SAFuture)] in
  head_ok (fun c => negb (is_int_char c)) sp &&
  forallb (fun mk => negb (is_nil (fst mk)) && diverge sp (fst mk) && selects E stamp_arms' (fst mk) (snd mk)) markers &&
  match sentence_stamp_brackets_1 E with [] => true | c :: _ => negb (is_int_char c) end &&
  forallb (fun p => match find_pure E punct_arms' (fmt_punct E p) with
                    | Some (_, (_, p')) => punct_eqb' p p'
                    | None => false
                    end) [Judgement; Goal; Question; Quest].

Lemma door_fmt_ok_shipped : forallb door_fmt_ok shipped_formats = true.
Proof. vm_compute. reflexivity. Qed.

Section Doors.
  Variable F : Type.
  Variable E : efmt.
  Hypothesis Hc : err_window_clamped = true.

  (* the cursor is inside the text and [r] is what remains *)
  Definition at_ (st : pstate F) (r : str) : Prop :=
    s_rest F st = r /\ (s_head F st + length r = s_len F st)%nat.

  Lemma at_new input : at_ (new_state F input) input.
  Proof. split; reflexivity. Qed.

  Lemma at_skip st k r : at_ st (k ++ r) -> at_ (skip F k st) r.
  Proof.
    intros [Hr Hl]. unfold skip, step, at_. cbn [s_rest s_head s_len]. rewrite Hr, drop_app_length.
    split; [reflexivity|]. rewrite app_length in Hl. lia.
  Qed.

  Lemma at_starts st r kw : at_ st r -> st_starts F kw st = starts kw r.
  Proof.
    intros [Hr Hl]. unfold st_starts. rewrite Hr. destruct (Nat.ltb_spec (s_len F st) (s_head F st + length kw)) as [H|H]; [|reflexivity].
    destruct (starts kw r) eqn:Hs; [|reflexivity]. apply starts_length in Hs. lia.
  Qed.

  Lemma skip_spaces_fuel_mid n : forall st, s_mid F (skip_spaces_fuel F E n st) = s_mid F st.
  Proof.
    induction n as [|n IH]; intros st; cbn [skip_spaces_fuel]; [reflexivity|].
    destruct (st_starts F (space_parse E) st); [|reflexivity]. now rewrite IH.
  Qed.

  Lemma skip_spaces_mid st : s_mid F (skip_spaces F E st) = s_mid F st.
  Proof. apply skip_spaces_fuel_mid. Qed.

  Lemma skip_spaces_none st r : at_ st r -> starts (space_parse E) r = false -> skip_spaces F E st = st.
  Proof.
    intros Hat Hs. unfold skip_spaces. destruct (length (s_rest F st)); cbn [skip_spaces_fuel]; [reflexivity|].
    now rewrite (at_starts st r _ Hat), Hs.
  Qed.

  Lemma find_arm_at {A} (arms : list ((efmt -> str) * A)) st r :
    at_ st r -> find_arm F E arms st = find_pure E arms r.
  Proof.
    intros Hat. induction arms as [|[g a] arms IH]; cbn [find_arm find_pure]; [reflexivity|].
    rewrite (at_starts st r _ Hat). destruct (starts (g E) r); [reflexivity | exact IH].
  Qed.

  (* ---- punctuation ---- *)
  Lemma door_punctuation_at input g sk p :
    find_pure E punct_arms' input = Some (g, (sk, p)) -> exists s', door_punctuation F E input = POk p s'.
  Proof.
    intros Hf. unfold door_punctuation, door, consume_punctuation.
    fold punct_arms'. rewrite (find_arm_at punct_arms' _ input (at_new input)), Hf. cbn [pbind].
    rewrite err_window_ok_true by exact Hc. cbn [set_mid s_mid mid_set_punct m_punct]. eexists. reflexivity.
  Qed.

  Lemma door_punctuation_fmt p : door_fmt_ok E = true -> exists s', door_punctuation F E (fmt_punct E p) = POk p s'.
  Proof.
    unfold door_fmt_ok. rewrite !andb_true_iff. intros [_ Hp]. rewrite forallb_forall in Hp.
    assert (Hin : In p [Judgement; Goal; Question; Quest]) by (destruct p; cbn; tauto).
    specialize (Hp p Hin). destruct (find_pure E punct_arms' (fmt_punct E p)) as [[g [sk p']]|] eqn:Hf; [|discriminate].
    assert (p' = p) as -> by (destruct p, p'; try discriminate; reflexivity).
    eapply door_punctuation_at; eauto.
  Qed.

  (* ---- stamps ---- *)
  Lemma is_int_char_digit c : is_ascii_digit c = true -> is_int_char c = true.
  Proof. unfold is_int_char. now intros ->. Qed.

  Lemma show_Z_int_chars z : show_Z z <> [] /\ Forall (fun c => is_int_char c = true) (show_Z z).
  Proof.
    destruct z as [|p|p]; cbn [show_Z].
    - split; [discriminate | repeat constructor].
    - destruct (show_N_digits (N.pos p)) as [Hne Hd]. split; [exact Hne|].
      eapply Forall_impl; [|exact Hd]. intros c. apply is_int_char_digit.
    - split; [discriminate|]. constructor; [reflexivity|].
      destruct (show_N_digits (N.pos p)) as [_ Hd]. eapply Forall_impl; [|exact Hd]. intros c. apply is_int_char_digit.
  Qed.

  Lemma int_scan_app x b1 :
    Forall (fun c => is_int_char c = true) x ->
    match b1 with [] => true | c :: _ => negb (is_int_char c) end = true ->
    int_scan (x ++ b1) = x.
  Proof.
    intros Hx Hb. induction Hx as [|c x Hc' Hx IH]; cbn [app int_scan].
    - destruct b1 as [|c b1]; [reflexivity|]. apply negb_true_iff in Hb. cbn [int_scan]. now rewrite Hb.
    - now rewrite Hc', IH.
  Qed.

  (* a text that begins with an int char does not begin with the space *)
  Lemma no_space_before_int x r :
    head_ok (fun c => negb (is_int_char c)) (space_parse E) = true ->
    x <> [] -> Forall (fun c => is_int_char c = true) x -> starts (space_parse E) (x ++ r) = false.
  Proof.
    intros Hsp Hne Hx. destruct (space_parse E) as [|s sp]; [discriminate|]. cbn [head_ok] in Hsp.
    destruct x as [|c x]; [congruence|]. inversion Hx as [|? ? Hc' _]; subst. cbn [app starts].
    destruct (N.eqb_spec s c) as [->|]; [|reflexivity]. rewrite Hc' in Hsp. discriminate.
  Qed.

  Lemma door_stamp_marker M kind x :
    door_fmt_ok E = true ->
    In (M, kind) [(sentence_stamp_fixed E, SAFixed); (sentence_stamp_past E, SAPast);
                  (sentence_stamp_present E, SAPresent); (sentence_stamp_future E, SAFuture)] ->
    forall input, input = sentence_stamp_brackets_0 E ++ M ++ x ++ sentence_stamp_brackets_1 E ->
    match kind with
    | SAPast => x = [] -> exists s', door_stamp F E input = POk Past s'
    | SAPresent => x = [] -> exists s', door_stamp F E input = POk Present s'
    | SAFuture => x = [] -> exists s', door_stamp F E input = POk Future s'
    | SAFixed => forall z, x = show_Z z -> stamp_in_range (Fixed z) = true -> exists s', door_stamp F E input = POk (Fixed z) s'
    end.
  Proof.
    unfold door_fmt_ok. rewrite !andb_true_iff. intros [[[Hsp Hmk] Hb1] _] Hin input Hinput.
    rewrite forallb_forall in Hmk. specialize (Hmk (M, kind) Hin). cbn [fst snd] in Hmk.
    rewrite !andb_true_iff in Hmk. destruct Hmk as [[HMne Hdiv] Hsel]. apply negb_true_iff in HMne.
    assert (Hne : input <> []).
    { rewrite Hinput. destruct M; [discriminate|]. destruct (sentence_stamp_brackets_0 E); discriminate. }
    (* the common part: up to the marker *)
    set (st0 := new_state F input).
    assert (H0 : at_ st0 (sentence_stamp_brackets_0 E ++ M ++ x ++ sentence_stamp_brackets_1 E)) by (rewrite <- Hinput; apply at_new).
    pose proof (at_skip _ _ _ H0) as H1.
    assert (Hns : starts (space_parse E) (M ++ x ++ sentence_stamp_brackets_1 E) = false) by (now apply diverge_starts).
    assert (Hst1 : skip_and_spaces F E (sentence_stamp_brackets_0 E) st0 = skip F (sentence_stamp_brackets_0 E) st0).
    { unfold skip_and_spaces. now apply (skip_spaces_none _ _ H1). }
    destruct (selects_find E stamp_arms' M kind (x ++ sentence_stamp_brackets_1 E) Hsel) as [g [sk [Hfind Hsk]]].
    assert (Hcons : forall (K : stamp),
              (match kind with SAPast => K = Past /\ x = [] | SAPresent => K = Present /\ x = [] | SAFuture => K = Future /\ x = []
                             | SAFixed => exists z, K = Fixed z /\ x = show_Z z /\ stamp_in_range (Fixed z) = true end) ->
              exists st', consume_stamp F E st0 = POk tt st' /\ m_stamp F (s_mid F st') = Some K).
    { intros K HK. unfold consume_stamp. fold stamp_arms'. rewrite Hst1.
      rewrite (find_arm_at stamp_arms' _ _ H1), Hfind. rewrite Hsk.
      assert (H2 : at_ (skip F M (skip F (sentence_stamp_brackets_0 E) st0)) (x ++ sentence_stamp_brackets_1 E)) by (now apply at_skip).
      destruct kind.
      - (* fixed *)
        destruct HK as [z [-> [Hx Hrange]]]. subst x.
        destruct (show_Z_int_chars z) as [Hzne Hzint].
        assert (Hnsp : starts (space_parse E) (show_Z z ++ sentence_stamp_brackets_1 E) = false) by (now apply no_space_before_int).
        assert (Hst2 : (if stamp_fixed_skip_spaces then skip_spaces F E (skip F M (skip F (sentence_stamp_brackets_0 E) st0))
                        else skip F M (skip F (sentence_stamp_brackets_0 E) st0)) = skip F M (skip F (sentence_stamp_brackets_0 E) st0)).
        { destruct stamp_fixed_skip_spaces; [now apply (skip_spaces_none _ _ H2) | reflexivity]. }
        rewrite Hst2. unfold parse_isize.
        assert (Hcan : can_consume F (skip F M (skip F (sentence_stamp_brackets_0 E) st0)) = true).
        { destruct H2 as [Hr Hl]. unfold can_consume. apply Nat.ltb_lt. rewrite app_length in Hl.
          destruct (show_Z z); [congruence|]. cbn [length] in Hl. lia. }
        rewrite Hcan. destruct H2 as [Hr Hl]. rewrite Hr, (int_scan_app _ _ Hzint Hb1).
        destruct (show_Z z) as [|c0 s0] eqn:Hz; [congruence|]. rewrite <- Hz.
        unfold stamp_in_range in Hrange. apply andb_true_iff in Hrange as [Hlo Hhi]. apply Z.leb_le in Hlo, Hhi.
        rewrite (read_isize_show z (conj Hlo Hhi)). cbn [pbind]. eexists. split; [reflexivity|].
        unfold skip_after_spaces, skip, step. cbn [s_mid]. rewrite skip_spaces_mid. reflexivity.
      - destruct HK as [-> ->]. eexists. split; [reflexivity|].
        unfold skip_after_spaces, skip, step. cbn [s_mid]. rewrite skip_spaces_mid. reflexivity.
      - destruct HK as [-> ->]. eexists. split; [reflexivity|].
        unfold skip_after_spaces, skip, step. cbn [s_mid]. rewrite skip_spaces_mid. reflexivity.
      - destruct HK as [-> ->]. eexists. split; [reflexivity|].
        unfold skip_after_spaces, skip, step. cbn [s_mid]. rewrite skip_spaces_mid. reflexivity. }
    assert (Hdoor : forall K st', consume_stamp F E st0 = POk tt st' -> m_stamp F (s_mid F st') = Some K ->
                                  exists s', door_stamp F E input = POk K s').
    { intros K st' Hcs Hm. unfold door_stamp. destruct input as [|c0 input0]; [congruence|].
      unfold door. fold st0. rewrite Hcs. cbn [pbind]. rewrite err_window_ok_true by exact Hc. rewrite Hm. eexists. reflexivity. }
    destruct kind.
    - intros z Hx Hr. destruct (Hcons (Fixed z)) as [st' [H3 H4]]; [exists z; auto | eapply Hdoor; eauto].
    - intros Hx. destruct (Hcons Past) as [st' [H3 H4]]; [auto | eapply Hdoor; eauto].
    - intros Hx. destruct (Hcons Present) as [st' [H3 H4]]; [auto | eapply Hdoor; eauto].
    - intros Hx. destruct (Hcons Future) as [st' [H3 H4]]; [auto | eapply Hdoor; eauto].
  Qed.

  Theorem door_stamp_fmt st :
    door_fmt_ok E = true -> stamp_in_range st = true -> exists s', door_stamp F E (fmt_stamp E st) = POk st s'.
  Proof.
    intros Hok Hr. destruct st as [| | | |z]; cbn [fmt_stamp].
    - eexists. reflexivity.
    - apply (door_stamp_marker (sentence_stamp_past E) SAPast [] Hok); [cbn; tauto | reflexivity | reflexivity].
    - apply (door_stamp_marker (sentence_stamp_present E) SAPresent [] Hok); [cbn; tauto | reflexivity | reflexivity].
    - apply (door_stamp_marker (sentence_stamp_future E) SAFuture [] Hok); [cbn; tauto | reflexivity | reflexivity].
    - apply (door_stamp_marker (sentence_stamp_fixed E) SAFixed (show_Z z) Hok); [cbn; tauto | reflexivity | reflexivity | exact Hr].
  Qed.
End Doors.

Section FoldLexNarsese.
  Variable F : Type.
  Variable fshow : F -> str.          (* f64::to_string *)
  Variable fread : str -> option F.   (* str::parse::<f64>() *)
  Variable in01 : F -> bool.
  Variable E : efmt.
  Hypothesis Hd : fold_kw_distinct E = true.
  Hypothesis H_rt : forall x, in01 x = true -> fread (fshow x) = Some x.
  (* the side doors return what the formatter printed (proved below from [door_fmt_ok]) *)
  Hypothesis H_stamp : forall st, stamp_in_range st = true -> exists s', door_stamp F E (fmt_stamp E st) = POk st s'.
  Hypothesis H_punct : forall p, exists s', door_punctuation F E (fmt_punct E p) = POk p s'.

  (* the lexical sentence / task of the formatter's output *)
  Definition lex_of_sentence (s : sentence F) : lsentence :=
    {| ls_term := lex_of_term E (s_term s);
       ls_punct := fmt_punct E (s_punct s);
       ls_stamp := fmt_stamp E (s_stamp s);
       ls_truth := match s_truth s with Some tr => map fshow (truth_list tr) | None => [] end |}.
  Definition lex_of_task (k : task F) : ltask :=
    {| lt_budget := map fshow (budget_list (snd k)); lt_sentence := lex_of_sentence (fst k) |}.
  Definition lex_of_narsese (v : narsese F) : lnarsese :=
    match v with
    | NTerm t => NTerm (lex_of_term E t)
    | NSentence s => NSentence (lex_of_sentence s)
    | NTask k => NTask (lex_of_task k)
    end.

  Definition sentence_wf (s : sentence F) : bool :=
    set_ok (s_term s) && lex_wf (s_term s) && stamp_in_range (s_stamp s) &&
    match s_truth s with Some tr => forallb in01 (truth_list tr) | None => true end.
  Definition narsese_wf (v : narsese F) : bool :=
    match v with
    | NTerm t => set_ok t && lex_wf t
    | NSentence s => sentence_wf s
    | NTask (s, b) => sentence_wf s && forallb in01 (budget_list b)
    end.

  Lemma try_fold_float_vec_shown l :
    forallb in01 l = true -> try_fold_float_vec F fread (map fshow l) = FOk l.
  Proof.
    induction l as [|x l IH]; cbn [forallb map try_fold_float_vec]; [reflexivity|].
    rewrite andb_true_iff. intros [Hx Hl]. rewrite (H_rt x Hx), (IH Hl). reflexivity.
  Qed.

  Lemma fold_truth_shown tr :
    forallb in01 (truth_list tr) = true -> fold_truth F fread in01 (map fshow (truth_list tr)) = FOk tr.
  Proof.
    intros H. unfold fold_truth. rewrite (try_fold_float_vec_shown _ H). cbn [fbind].
    destruct tr as [|f|f c]; cbn [truth_list forallb] in *.
    - reflexivity.
    - rewrite andb_true_r in H. cbn [truth_try_from_floats]. unfold try_validate. rewrite H. cbn [fbind].
      unfold truth_new_single, validate. now rewrite H.
    - rewrite andb_true_r in H. apply andb_true_iff in H as [Hf Hc].
      cbn [truth_try_from_floats]. unfold try_validate. rewrite Hf, Hc. cbn [fbind].
      unfold truth_new_double, validate. now rewrite Hf, Hc.
  Qed.

  Lemma fold_budget_shown b :
    forallb in01 (budget_list b) = true -> fold_budget F fread in01 (map fshow (budget_list b)) = FOk b.
  Proof.
    intros H. unfold fold_budget. rewrite (try_fold_float_vec_shown _ H). cbn [fbind].
    destruct b as [|p|p d|p d q]; cbn [budget_list forallb] in *.
    - reflexivity.
    - rewrite andb_true_r in H. cbn [budget_try_from_floats]. unfold try_validate. rewrite H. cbn [fbind].
      unfold budget_new_single, validate. now rewrite H.
    - rewrite andb_true_r in H. apply andb_true_iff in H as [Hp Hq].
      cbn [budget_try_from_floats]. unfold try_validate. rewrite Hp, Hq. cbn [fbind].
      unfold budget_new_double, validate. now rewrite Hp, Hq.
    - rewrite andb_true_r in H. apply andb_true_iff in H as [Hp H]. apply andb_true_iff in H as [Hq Hr].
      cbn [budget_try_from_floats]. unfold try_validate. rewrite Hp, Hq, Hr. cbn [fbind].
      unfold budget_new_triple, validate. now rewrite Hp, Hq, Hr.
  Qed.

  Lemma from_punctuation_id (s : sentence F) :
    from_punctuation (s_term s) (s_punct s) (s_stamp s)
      (match s_truth s with Some tr => tr | None => TruthEmpty end) = s.
  Proof. destruct s; reflexivity. Qed.

  Theorem fold_lex_of_sentence s :
    sentence_wf s = true -> fold_sentence F fread in01 E (lex_of_sentence s) = FOk s.
  Proof.
    unfold sentence_wf. rewrite !andb_true_iff. intros [[[Hok Hwf] Hst] Htr].
    unfold fold_sentence, lex_of_sentence. cbn [ls_term ls_truth ls_stamp ls_punct].
    rewrite (fold_lex_of_term_id E _ Hd Hok Hwf). cbn [fbind].
    assert (Htruth : fold_truth F fread in01 (match s_truth s with Some tr => map fshow (truth_list tr) | None => [] end)
                     = FOk (match s_truth s with Some tr => tr | None => TruthEmpty end)).
    { destruct (s_truth s) as [tr|]; [now apply fold_truth_shown | reflexivity]. }
    rewrite Htruth. cbn [fbind].
    destruct (H_stamp (s_stamp s) Hst) as [s1 ->]. cbn [of_door fbind].
    destruct (H_punct (s_punct s)) as [s2 ->]. cbn [of_door fbind].
    now rewrite from_punctuation_id.
  Qed.

  Theorem fold_lex_of_narsese v :
    narsese_wf v = true -> fold_narsese F fread in01 E (lex_of_narsese v) = FOk v.
  Proof.
    destruct v as [t|s|[s b]]; cbn [narsese_wf lex_of_narsese fold_narsese].
    - rewrite andb_true_iff. intros [Hok Hwf]. now rewrite (fold_lex_of_term_id E _ Hd Hok Hwf).
    - intros Hs. now rewrite (fold_lex_of_sentence s Hs).
    - rewrite andb_true_iff. intros [Hs Hb]. unfold fold_task, lex_of_task. cbn [lt_budget lt_sentence fst snd].
      now rewrite (fold_budget_shown b Hb), (fold_lex_of_sentence s Hs).
  Qed.
End FoldLexNarsese.

(* C03, fold third, whole values: the door hypotheses discharged from the boolean format conditions *)
Theorem fold_lex_of_narsese_fmt :
  forall (F : Type) (fshow : F -> str) (fread : str -> option F) (in01 : F -> bool) (E : efmt),
    fold_kw_distinct E = true -> door_fmt_ok E = true ->
    (forall x, in01 x = true -> fread (fshow x) = Some x) ->
    forall v : narsese F, narsese_wf F in01 v = true ->
      fold_narsese F fread in01 E (lex_of_narsese F fshow E v) = FOk v.
Proof.
  intros F fshow fread in01 E Hd Hdoor Hrt v Hv.
  pose proof (static_clamped fold_static_ok_true) as Hc.
  apply (fold_lex_of_narsese F fshow fread in01 E Hd Hrt); [| |exact Hv].
  - intros st Hst. now apply door_stamp_fmt.
  - intros p. now apply door_punctuation_fmt.
Qed.

Theorem door_stamp_fmt_shipped : forall (F : Type) (E : efmt) (st : stamp),
  In E shipped_formats -> stamp_in_range st = true -> exists s', door_stamp F E (fmt_stamp E st) = POk st s'.
Proof.
  intros F E st HE Hst. apply door_stamp_fmt; [exact (static_clamped fold_static_ok_true) | | exact Hst].
  pose proof door_fmt_ok_shipped as H. rewrite forallb_forall in H. now apply H.
Qed.

Theorem door_punctuation_fmt_shipped : forall (F : Type) (E : efmt) (p : punct),
  In E shipped_formats -> exists s', door_punctuation F E (fmt_punct E p) = POk p s'.
Proof.
  intros F E p HE. apply door_punctuation_fmt; [exact (static_clamped fold_static_ok_true)|].
  pose proof door_fmt_ok_shipped as H. rewrite forallb_forall in H. now apply H.
Qed.

(* the hypotheses are satisfiable: a toy float type (one character), ASCII, a task with a fixed stamp *)
Example fold_lex_of_narsese_example :
  let fshow := fun c : N => [c] in
  let fread := fun s : str => match s with [c] => Some c | _ => None end in
  let in01 := fun _ : N => true in
  let v : narsese N := NTask (SJudgement (TBox2 Inheritance (TName Word [65]%N) (TSet SetIntension [TName Word [66]%N]))
                                         (TruthDouble 49 48)%N (Fixed (-1)%Z), BudgetSingle 48%N) in
  fold_kw_distinct FORMAT_ASCII = true /\ door_fmt_ok FORMAT_ASCII = true /\
  (forall x, in01 x = true -> fread (fshow x) = Some x) /\ narsese_wf N in01 v = true /\
  fold_narsese N fread in01 FORMAT_ASCII (lex_of_narsese N fshow FORMAT_ASCII v) = FOk v.
Proof. repeat split; vm_compute; reflexivity. Qed.
