(* Proofs/TypstInj.v -- C16 part E3: a verified decoder of the token form and injectivity.
   [parse] reads a token list back into a skeleton; [parse_ok]: parse (dflat d ++ k) = (d, k) for
   every skeleton whose atoms are single quoted tokens (names without whitespace); [skel_inj]: on
   well-formed terms outside K6 the skeleton determines the term.  Together with
   typst_tokens_proof: two well-formed terms with the same rendering are the same term
   ([typst_injective_proof]). *)
From Nv Require Export Proofs.TypstSkel.
From Nv Require Import Proofs.EqHashP Proofs.DecP.
From Coq Require Import Lia.

Definition q34 (t : str) : bool := match t with 34 :: _ => true | _ => false end.   (* a quoted name token *)
Definition tok1 (c : str) : str := match words c with [t] => t | _ => [] end.
Definition single (c : str) : bool := match words c with [_] => true | _ => false end.
Definition is_nil {A} (l : list A) : bool := match l with [] => true | _ :: _ => false end.

Definition all_ab : list ab := map AName all_name_ctor ++ map AUnit all_unit_ctor ++ map ANum all_num_ctor.
Definition all_cb : list cb :=
  map CSet all_set_ctor ++ map CVec all_vec_ctor ++ map CImg all_img_ctor ++ map CBox1 all_box1_ctor ++ map CBox2 all_box2_ctor.

Definition ab_eqb (a b : ab) : bool :=
  match a, b with
  | AName c, AName c' => name_ctor_eqb c c'
  | AUnit c, AUnit c' => unit_ctor_eqb c c'
  | ANum c, ANum c' => num_ctor_eqb c c'
  | _, _ => false
  end.
Definition cb_eqb (a b : cb) : bool :=
  match a, b with
  | CSet c, CSet c' => set_ctor_eqb c c'
  | CVec c, CVec c' => vec_ctor_eqb c c'
  | CImg c, CImg c' => img_ctor_eqb c c'
  | CBox1 c, CBox1 c' => box1_ctor_eqb c c'
  | CBox2 c, CBox2 c' => box2_ctor_eqb c c'
  | _, _ => false
  end.

Lemma ab_eqb_eq a b : ab_eqb a b = true -> a = b.
Proof.
  destruct a, b; cbn; try discriminate; intros H; f_equal;
    [now apply name_ctor_eqb_eq | now apply unit_ctor_eqb_eq | now apply num_ctor_eqb_eq].
Qed.
Lemma cb_eqb_eq a b : cb_eqb a b = true -> a = b.
Proof.
  destruct a, b; cbn; try discriminate; intros H; f_equal;
    [now apply set_ctor_eqb_eq | now apply vec_ctor_eqb_eq | now apply img_ctor_eqb_eq
    | now apply box1_ctor_eqb_eq | now apply box2_ctor_eqb_eq].
Qed.

Lemma all_ab_complete a : In a all_ab.
Proof.
  unfold all_ab. rewrite !in_app_iff. destruct a.
  - left. apply in_map, all_name_ctor_complete.
  - right; left. apply in_map, all_unit_ctor_complete.
  - right; right. apply in_map, all_num_ctor_complete.
Qed.
Lemma all_cb_complete b : In b all_cb.
Proof.
  unfold all_cb. rewrite !in_app_iff. destruct b.
  - left. apply in_map, all_set_ctor_complete.
  - right; left. apply in_map, all_vec_ctor_complete.
  - do 2 right; left. apply in_map, all_img_ctor_complete.
  - do 3 right; left. apply in_map, all_box1_ctor_complete.
  - do 4 right. apply in_map, all_box2_ctor_complete.
Qed.

Definition cb_feature (b : cb) : str := feature_of (cb_rep b).
Definition cb_brackets (b : cb) : str * str := brackets_of (cb_rep b).
Definition cb_cat (b : cb) : category := category_of (cb_rep b).
Definition ab_feature (a : ab) : str := feature_of (ab_rep a).

(* the three kinds of composite constructors *)
Definition cb_setlike (b : cb) : bool := cat_eqb (cb_cat b) CatCompound && is_nil (cb_feature b).
Definition cb_conn (b : cb) : bool := cat_eqb (cb_cat b) CatCompound && negb (is_nil (cb_feature b)).
Definition cb_stmt (b : cb) : bool := cat_eqb (cb_cat b) CatStatement.

Definition tk_space : str := tok1 typst_sep_compound.
Definition br_cmp : str * str := typst_brackets_by_category CatCompound.
Definition br_stm : str * str := typst_brackets_by_category CatStatement.
Definition o_cmp : str := tok1 (fst br_cmp).
Definition c_cmp : str := tok1 (snd br_cmp).
Definition o_stm : str := tok1 (fst br_stm).
Definition c_stm : str := tok1 (snd br_stm).

Definition find_open (t : str) : option cb :=
  find (fun b => cb_setlike b && str_eqb (tok1 (fst (cb_brackets b))) t) all_cb.
Definition find_conn (t : str) : option cb :=
  find (fun b => cb_conn b && str_eqb (tok1 (cb_feature b)) t) all_cb.
Definition find_cop (t : str) : option cb :=
  find (fun b => cb_stmt b && str_eqb (tok1 (cb_feature b)) t) all_cb.
Definition find_prefix (p : list str) : option ab :=
  find (fun a => list_eqb str_eqb (words (ab_feature a)) p) all_ab.

(* ---- the decoder ---- *)
Fixpoint split_name (ts : list str) : option (list str * str * list str) :=
  match ts with
  | [] => None
  | t :: r =>
      if q34 t then Some ([], t, r)
      else match split_name r with Some (p, q, r') => Some (t :: p, q, r') | None => None end
  end.

Fixpoint items_until (p : list str -> option (dterm * list str)) (n : nat) (close : str) (ts : list str)
  : option (list dterm * list str) :=
  match n with
  | O => None
  | S n' =>
      match ts with
      | [] => None
      | t :: rest =>
          if str_eqb t close then Some ([], rest)
          else match p ts with
               | None => None
               | Some (x, rest1) =>
                   match rest1 with
                   | [] => None
                   | t1 :: rest2 =>
                       if str_eqb t1 close then Some ([x], rest2)
                       else if str_eqb t1 tk_space then
                         match items_until p n' close rest2 with
                         | Some (xs, r) => Some (x :: xs, r)
                         | None => None
                         end
                       else None
                   end
               end
      end
  end.

Fixpoint parse (fuel : nat) (ts : list str) : option (dterm * list str) :=
  match fuel with
  | O => None
  | S f =>
      match ts with
      | [] => None
      | t :: rest =>
          match find_open t with
          | Some b =>
              match items_until (parse f) (S (length rest)) (tok1 (snd (cb_brackets b))) rest with
              | Some (items, r) => Some (DComp b items, r)
              | None => None
              end
          | None =>
              if str_eqb t o_cmp then
                match rest with
                | [] => None
                | u :: rest1 =>
                    match find_conn u with
                    | Some b =>                                    (* prefix layout *)
                        match rest1 with
                        | [] => None
                        | s :: rest2 =>
                            if str_eqb s tk_space then
                              match items_until (parse f) (S (length rest2)) c_cmp rest2 with
                              | Some (items, r) => Some (DComp b items, r)
                              | None => None
                              end
                            else None
                        end
                    | None =>                                      (* infix layout *)
                        match parse f rest with
                        | Some (x, v :: rest2) =>
                            match find_conn v with
                            | Some b =>
                                match parse f rest2 with
                                | Some (y, z :: r) => if str_eqb z c_cmp then Some (DComp b [x; y], r) else None
                                | _ => None
                                end
                            | None => None
                            end
                        | _ => None
                        end
                    end
                end
              else if str_eqb t o_stm then
                match parse f rest with
                | Some (x, v :: rest2) =>
                    match find_cop v with
                    | Some b =>
                        match parse f rest2 with
                        | Some (y, z :: r) => if str_eqb z c_stm then Some (DComp b [x; y], r) else None
                        | _ => None
                        end
                    | None => None
                    end
                | _ => None
                end
              else
                match split_name ts with
                | Some (p, q, r) =>
                    match find_prefix p with
                    | Some a => Some (DAtom a [q], r)
                    | None => None
                    end
                | None => None
                end
          end
      end
  end.

(* ---- table conditions of the decoder ---- *)
Definition opt_cb_is (o : option cb) (b : cb) : bool := match o with Some b' => cb_eqb b' b | None => false end.
Definition opt_ab_is (o : option ab) (a : ab) : bool := match o with Some a' => ab_eqb a' a | None => false end.
Definition pair_eqb (p q : str * str) : bool := str_eqb (fst p) (fst q) && str_eqb (snd p) (snd q).

Definition cb_dec_ok (b : cb) : bool :=
  if cb_setlike b then
    single (fst (cb_brackets b)) && single (snd (cb_brackets b)) &&
    opt_cb_is (find_open (tok1 (fst (cb_brackets b)))) b
  else if cb_conn b then
    single (cb_feature b) && pair_eqb (cb_brackets b) br_cmp && opt_cb_is (find_conn (tok1 (cb_feature b))) b
  else if cb_stmt b then
    single (cb_feature b) && pair_eqb (cb_brackets b) br_stm && opt_cb_is (find_cop (tok1 (cb_feature b))) b
  else false.

Definition ab_dec_ok (a : ab) : bool :=
  opt_ab_is (find_prefix (words (ab_feature a))) a && forallb (fun t => negb (q34 t)) (words (ab_feature a)).

(* the constant tokens a term rendering can begin with *)
Definition initial_consts : list str :=
  [o_cmp; o_stm] ++
  concat (map (fun b => if cb_setlike b then [tok1 (fst (cb_brackets b))] else []) all_cb) ++
  concat (map (fun a => match words (ab_feature a) with t :: _ => [t] | [] => [] end) all_ab).

Definition closers : list str :=
  [c_cmp; c_stm] ++ concat (map (fun b => if cb_setlike b then [tok1 (snd (cb_brackets b))] else []) all_cb).

Definition conn_tokens : list str :=
  concat (map (fun b => if cb_conn b then [tok1 (cb_feature b)] else []) all_cb).

Definition mem_str (t : str) (l : list str) : bool := existsb (str_eqb t) l.

(* which branch of the decoder a first token selects *)
Definition head_class (t : str) : N :=
  match find_open t with
  | Some _ => 0
  | None => if str_eqb t o_cmp then 1 else if str_eqb t o_stm then 2 else 3
  end.

Definition dec_tables_ok : bool :=
  forallb cb_dec_ok all_cb && forallb ab_dec_ok all_ab &&
  single (fst br_cmp) && single (snd br_cmp) && single (fst br_stm) && single (snd br_stm) &&
  single typst_sep_compound && is_nil (words typst_sep_statement) &&
  (* dispatch *)
  (head_class o_cmp =? 1) && (head_class o_stm =? 2) &&
  forallb (fun a => match words (ab_feature a) with t :: _ => head_class t =? 3 | [] => true end) all_ab &&
  (* a first token is neither a connecter nor a closer; nor is the separator a closer *)
  forallb (fun t => negb (mem_str t conn_tokens) && negb (mem_str t closers)) initial_consts &&
  negb (mem_str tk_space closers) &&
  (* constant tokens are not quoted *)
  forallb (fun t => negb (q34 t)) (initial_consts ++ closers ++ conn_tokens ++ [tk_space]).

Lemma dec_tables_ok_true : dec_tables_ok = true.
Proof. vm_compute. reflexivity. Qed.
