(* Proofs/EnumFmtP.v -- the formatter half of C01 (enum format-then-parse), term level:
     fmt_term_render   : the text the formatter model prints for a term IS the rendering of its canonical
                         surface tree [sst_of E t] (Model/SstOf.v);
     sst_of_desugar    : for a well-formed term that tree exists and its documented meaning
                         ([odesugar], Model/Sst.v) is the term itself;
     K1_witness        : without the "no placeholder among an image's own components" clause of
                         [wf_term] the second statement is false (known inherent ambiguity K1);
     sdepth_le_render  : nesting depth <= length of the text (fuel of parse_term suffices);
     C01_term_roundtrip: format-then-parse of a well-formed term gives the term back, ASSUMING the
                         parser-side theorem [TermParses] (Section hypothesis; proved elsewhere).
   Everything is for an arbitrary format record E under boolean side conditions discharged by
   vm_compute for the shipped records (shipped_fmt_side). *)
From Nv Require Import Model.SstOf Proofs.EnumTotalP Proofs.EqHashP Proofs.DecP.

Arguments s_len {F} _.
Arguments s_head {F} _.
Arguments s_rest {F} _.
Arguments s_mid {F} _.

(* the parser-side statement (see the header of Model/Sst.v): t written with any spacing, followed by
   any continuation k that does not extend its last atom, is read back as its documented meaning and
   the cursor stops exactly at the end of the text of t *)
Definition TermParses (F : Type) (is_alnum : N -> bool) (E : efmt) (unamb : sterm -> str -> bool) : Prop :=
  forall (t : sterm) (v : term) (k : str) (L : nat) (st : pstate F) (fuel : nat),
    odesugar t = Some v -> unamb t k = true ->
    wf F L st -> s_rest st = render E t ++ k -> (sdepth t < fuel)%nat ->
    p_term F is_alnum E fuel st = POk v (step F (length (render E t)) st).

(* ------------------------------------------------------------------------------------------ *)
(* small list facts *)
Lemma find_index_spec {A} (f : A -> bool) l : forall i0 i,
  find_index f l i0 = Some i -> exists x, nth_error l (i - i0) = Some x /\ f x = true /\ (i0 <= i)%nat.
Proof.
  induction l as [|y l IH]; intros i0 i H; cbn [find_index] in H; [discriminate|].
  destruct (f y) eqn:Hf.
  - injection H as <-. exists y. rewrite Nat.sub_diag. cbn. auto.
  - apply IH in H as (x & Hn & Hx & Hle). exists x. split; [|split; [assumption | lia]].
    replace (i - i0)%nat with (S (i - S i0)) by lia. exact Hn.
Qed.

Lemma find_index_0 {A} (f : A -> bool) l i :
  find_index f l 0 = Some i -> exists x, nth_error l i = Some x /\ f x = true.
Proof. intros H. apply find_index_spec in H as (x & Hn & Hx & _). rewrite Nat.sub_0_r in Hn. eauto. Qed.

Lemma omap_length {A B} (f : A -> option B) l : forall r, omap f l = Some r -> length r = length l.
Proof.
  induction l as [|x l IH]; intros r H; cbn [omap] in H.
  - injection H as <-. reflexivity.
  - destruct (f x); [|discriminate]. fold (omap f l) in H. destruct (omap f l) as [ys|]; [|discriminate].
    injection H as <-. cbn [length]. now rewrite (IH ys).
Qed.

Lemma omap_cons {A B} (f : A -> option B) x l :
  omap f (x :: l) = match f x, omap f l with Some y, Some ys => Some (y :: ys) | _, _ => None end.
Proof. reflexivity. Qed.

Lemma map_img_iter {A B} (f : A -> B) ph idx l : forall now,
  map f (img_iter_gen ph now idx l) = img_iter_gen (f ph) now idx (map f l).
Proof.
  induction l as [|x l IH]; intros now; cbn [img_iter_gen map].
  - destruct (now =? idx); reflexivity.
  - destruct (now =? idx); cbn [map]; now rewrite IH.
Qed.

Lemma omap_img_iter {A B} (f : A -> option B) ph p idx l : f ph = Some p -> forall now r,
  omap f l = Some r -> omap f (img_iter_gen ph now idx l) = Some (img_iter_gen p now idx r).
Proof.
  intros Hph. induction l as [|x l IH]; intros now r H.
  - cbn [omap] in H. injection H as <-. cbn [img_iter_gen]. destruct (now =? idx); cbn [omap]; [now rewrite Hph | reflexivity].
  - rewrite omap_cons in H. destruct (f x) as [y|] eqn:Hx; [|discriminate].
    destruct (omap f l) as [ys|] eqn:Hl; [|discriminate]. injection H as <-.
    cbn [img_iter_gen]. destruct (now =? idx).
    + rewrite !omap_cons, Hph, Hx, (IH _ ys eq_refl). reflexivity.
    + rewrite omap_cons, Hx, (IH _ ys eq_refl). reflexivity.
Qed.

(* past the index the iterator is the identity; up to it (and within the list) it inserts exactly once *)
Lemma img_iter_gt {A} (ph : A) idx l : forall now, idx < now -> img_iter_gen ph now idx l = l.
Proof.
  induction l as [|x l IH]; intros now H; cbn [img_iter_gen].
  - destruct (N.eqb_spec now idx); [lia | reflexivity].
  - destruct (N.eqb_spec now idx); [lia|]. rewrite IH by lia. reflexivity.
Qed.

Lemma img_iter_nonnil {A} (ph : A) idx l : forall now,
  now <= idx -> idx <= now + nlen l -> img_iter_gen ph now idx l <> [].
Proof.
  destruct l as [|x l]; intros now H1 H2; cbn [img_iter_gen].
  - unfold nlen in H2; cbn [length] in H2. destruct (N.eqb_spec now idx); [discriminate | lia].
  - destruct (now =? idx); discriminate.
Qed.

(* ------------------------------------------------------------------------------------------ *)
(* payload tests decide equality *)
Lemma atom_init_eqb_eq a b : atom_init_eqb a b = true -> a = b.
Proof.
  destruct a, b; cbn [atom_init_eqb]; try discriminate; intros H;
    [apply name_ctor_eqb_eq in H | apply unit_ctor_eqb_eq in H | apply num_ctor_eqb_eq in H]; now subst.
Qed.
Lemma comp_init_eqb_eq a b : comp_init_eqb a b = true -> a = b.
Proof.
  destruct a, b; cbn [comp_init_eqb]; try discriminate; intros H;
    [apply set_ctor_eqb_eq in H | apply vec_ctor_eqb_eq in H | apply img_ctor_eqb_eq in H
     | apply box1_ctor_eqb_eq in H | apply box2_ctor_eqb_eq in H]; now subst.
Qed.
Lemma stmt_builds_eq b c : stmt_builds b c = true -> b = SBCtor c.
Proof. destruct b; cbn [stmt_builds]; [|discriminate]. intros H. apply box2_ctor_eqb_eq in H. now subst. Qed.

(* ------------------------------------------------------------------------------------------ *)
(* spacing *)
Lemma find_rep_spec fuel : forall k u t k', find_rep fuel k u t = Some k' -> rep k' u = t.
Proof.
  induction fuel as [|fuel IH]; intros k u t k' H; cbn [find_rep] in H; [discriminate|].
  destruct (str_eqb_spec (rep k u) t) as [He|_]; [now injection H as <- | eauto].
Qed.

Section Fmt.
  Variable E : efmt.

  Lemma sp_canon : fmt_space_ok E = true -> sp E (canon_k E) = space_format_terms E.
  Proof.
    unfold fmt_space_ok, canon_k, space_count, sp. intros H.
    destruct (find_rep _ _ _ _) as [k|] eqn:Hk; [|discriminate]. exact (find_rep_spec _ _ _ _ _ Hk).
  Qed.

  (* ---- arm lookups ---- *)
  Lemma atom_arm_ix_spec kw init i :
    atom_arm_ix E kw init = Some i -> exists p, nth_error parse_atom_arms i = Some (p, init) /\ p E = kw E.
  Proof.
    intros H. apply find_index_0 in H as ([p init'] & Hn & Hx). cbn [fst snd] in Hx.
    apply andb_true_iff in Hx as [H1 H2]. apply str_eqb_eq in H1. apply atom_init_eqb_eq in H2. subst. eauto.
  Qed.
  Lemma comp_arm_ix_spec kw init i :
    comp_arm_ix E kw init = Some i -> exists p, nth_error parse_compound_arms i = Some (p, init) /\ p E = kw E.
  Proof.
    intros H. apply find_index_0 in H as ([p init'] & Hn & Hx). cbn [fst snd] in Hx.
    apply andb_true_iff in Hx as [H1 H2]. apply str_eqb_eq in H1. apply comp_init_eqb_eq in H2. subst. eauto.
  Qed.
  Lemma stmt_arm_ix_spec kw c i :
    stmt_arm_ix E kw c = Some i -> exists p, nth_error parse_statement_arms i = Some (p, SBCtor c) /\ p E = kw E.
  Proof.
    intros H. apply find_index_0 in H as ([p b] & Hn & Hx). cbn [fst snd] in Hx.
    apply andb_true_iff in Hx as [H1 H2]. apply str_eqb_eq in H1. apply stmt_builds_eq in H2. subst. eauto.
  Qed.

  (* ================================================================================== *)
  (* 1. what the formatter prints is the rendering of the canonical tree                 *)
  Hypothesis Hsp : fmt_space_ok E = true.

  Lemma gap_canon i : gap E (cgaps E i) = compound_separator E ++ space_format_terms E.
  Proof. unfold gap, cgaps, canon_gaps. cbn [fst snd]. rewrite sp_canon by assumption. reflexivity. Qed.

  Lemma render_items_true {A} (r : A -> str) l : forall i,
    render_items E r (cgaps E) true i l =
    concat (map (fun y => compound_separator E ++ space_format_terms E ++ r y) l).
  Proof.
    induction l as [|x l IH]; intros i; cbn [render_items map concat]; [reflexivity|].
    rewrite gap_canon, IH, <- !app_assoc. reflexivity.
  Qed.

  Lemma components_render {A} (r : A -> str) l :
    template_components (compound_separator E) (space_format_terms E) (map r l) =
    render_items E r (cgaps E) false 0 l.
  Proof.
    destruct l as [|x l]; cbn [map template_components render_items app]; [reflexivity|].
    rewrite render_items_true, map_map. reflexivity.
  Qed.

  Lemma compound_render {A} (r : A -> str) kw l : l <> [] ->
    template_compound (compound_brackets_0 E) kw (compound_separator E) (space_format_terms E)
                      (compound_brackets_1 E) (map r l) =
    compound_brackets_0 E ++ kw ++ render_items E r (cgaps E) true 0 l ++ compound_brackets_1 E.
  Proof.
    intros Hne. destruct l as [|x l]; [congruence|]. unfold template_compound.
    cbn [map template_components]. rewrite render_items_true, map_map. cbn [map concat].
    rewrite <- !app_assoc. reflexivity.
  Qed.

  Lemma sst_atom_render a init name s : sst_atom E a init name = Some s -> arm_atom E a name = render E s.
  Proof.
    destruct a; cbn [sst_atom]; try discriminate. intros H.
    destruct (atom_arm_ix E prefix init) as [i|] eqn:Hi; [|discriminate]. injection H as <-.
    apply atom_arm_ix_spec in Hi as (p & Hn & Hp). cbn [render arm_atom]. unfold atom_prefix. now rewrite Hn, Hp.
  Qed.

  Lemma sst_comp_render kw init items s : sst_comp E kw init items = Some s ->
    template_compound (compound_brackets_0 E) (kw E) (compound_separator E) (space_format_terms E)
                      (compound_brackets_1 E) (map (render E) items) = render E s.
  Proof.
    unfold sst_comp. destruct items as [|x items]; [discriminate|]. intros H.
    destruct (comp_arm_ix E kw init) as [i|] eqn:Hi; [|discriminate]. injection H as <-.
    apply comp_arm_ix_spec in Hi as (p & Hn & Hp). rewrite compound_render by discriminate.
    cbn [render]. unfold comp_kw, sp. rewrite Hn, Hp. cbn [rep app]. reflexivity.
  Qed.

  Lemma sst_set_render a c items s : sst_set E a c items = Some s ->
    arm_list E a (map (render E) items) = render E s.
  Proof.
    destruct a; cbn [sst_set arm_list]; try discriminate.
    - destruct (set_ctor_eqb c SetExtension && str_eqb (l E) (set_lb E true) && str_eqb (r E) (set_rb E true)) eqn:H1.
      + intros H; injection H as <-. apply andb_true_iff in H1 as [H1 Hr]. apply andb_true_iff in H1 as [_ Hl].
        apply str_eqb_eq in Hl, Hr. unfold template_compound_set. rewrite components_render, Hl, Hr.
        cbn [render]. unfold sp. cbn [rep app]. reflexivity.
      + destruct (set_ctor_eqb c SetIntension && str_eqb (l E) (set_lb E false) && str_eqb (r E) (set_rb E false)) eqn:H2; [|discriminate].
        intros H; injection H as <-. apply andb_true_iff in H2 as [H2 Hr]. apply andb_true_iff in H2 as [_ Hl].
        apply str_eqb_eq in Hl, Hr. unfold template_compound_set. rewrite components_render, Hl, Hr.
        cbn [render]. unfold sp. cbn [rep app]. reflexivity.
    - apply sst_comp_render.
  Qed.

  Lemma omap_map_render l : forall items,
    Forall (fun t => forall s, sst_of E t = Some s -> fmt_term E t = render E s) l ->
    omap (sst_of E) l = Some items -> map (fmt_term E) l = map (render E) items.
  Proof.
    induction l as [|t l IH]; intros items HF H.
    - cbn [omap] in H. injection H as <-. reflexivity.
    - rewrite omap_cons in H. destruct (sst_of E t) as [s|] eqn:Hs; [|discriminate].
      destruct (omap (sst_of E) l) as [ss|] eqn:Hl; [|discriminate]. injection H as <-.
      inversion HF; subst. cbn [map]. f_equal; auto.
  Qed.

  Theorem fmt_term_render : forall t s, sst_of E t = Some s -> fmt_term E t = render E s.
  Proof.
    induction t as [c n|c|c i|c l IH|c l IH|c i l IH|c a IH|c a b IHa IHb] using term_ind'; intros s H; cbn [sst_of fmt_term] in *.
    - now apply sst_atom_render in H.
    - now apply sst_atom_render in H.
    - now apply sst_atom_render in H.
    - destruct (omap (sst_of E) l) as [items|] eqn:Hl; [|discriminate].
      rewrite (omap_map_render l items IH Hl). now apply sst_set_render in H.
    - destruct (omap (sst_of E) l) as [items|] eqn:Hl; [|discriminate].
      rewrite (omap_map_render l items IH Hl). unfold sst_vec in H.
      destruct (fmt_arm_vec c); try discriminate. cbn [arm_list]. now apply sst_comp_render in H.
    - destruct (omap (sst_of E) l) as [items|] eqn:Hl; [|discriminate].
      rewrite (omap_map_render l items IH Hl). unfold sst_img in H.
      destruct (fmt_arm_img c); try discriminate.
      destruct (sst_placeholder E) as [ph|] eqn:Hph; [|discriminate].
      cbn [arm_img arm_list]. apply sst_comp_render in H. rewrite map_img_iter in H.
      unfold sst_placeholder in Hph. apply sst_atom_render in Hph. unfold placeholder_str. now rewrite Hph.
    - destruct (sst_of E a) as [x|] eqn:Ha; [|discriminate]. rewrite (IH x eq_refl).
      unfold sst_box1 in H. destruct (fmt_arm_box1 c); try discriminate. cbn [arm_list].
      now apply sst_comp_render in H.
    - destruct (sst_of E a) as [x|] eqn:Ha; [|discriminate]. destruct (sst_of E b) as [y|] eqn:Hb; [|discriminate].
      rewrite (IHa x eq_refl), (IHb y eq_refl). unfold sst_box2 in H.
      destruct (fmt_arm_box2 c); try discriminate.
      + cbn [arm_box2 arm_list]. now apply sst_comp_render in H.
      + destruct (stmt_arm_ix E kw c) as [i|] eqn:Hi; [|discriminate]. injection H as <-.
        apply stmt_arm_ix_spec in Hi as (p & Hn & Hp). cbn [arm_box2 render]. unfold template_statement, stmt_kw.
        rewrite Hn, Hp, sp_canon by assumption. unfold sp. cbn [rep app]. reflexivity.
  Qed.
End Fmt.

(* ================================================================================== *)
(* 2. the documented meaning of the canonical tree of a well-formed term is the term   *)

(* a list that is duplicate-free up to term_eqb is a fixed point of repeated insertion *)
Lemma nodup_app_cross acc x l :
  nodup_eqb (acc ++ x :: l) = true -> forall a, In a acc -> term_eqb a x = false.
Proof.
  induction acc as [|b acc IH]; intros H a Ha; [destruct Ha|].
  cbn [app nodup_eqb] in H. apply andb_true_iff in H as [Hb H]. destruct Ha as [<-|Ha]; [|eauto].
  apply negb_true_iff in Hb. rewrite set_mem_false in Hb. apply Hb. apply in_or_app. right. now left.
Qed.

Lemma fold_insert_nodup l : forall acc,
  Forall okT acc -> Forall okT l -> nodup_eqb (acc ++ l) = true -> fold_left set_insert l acc = acc ++ l.
Proof.
  induction l as [|x l IH]; intros acc Ha Hl H; cbn [fold_left]; [now rewrite app_nil_r|].
  inversion Hl as [|? ? Hx Hl']; subst.
  assert (Hm : set_mem x acc = false).
  { apply set_mem_false. intros y Hy. rewrite Forall_forall in Ha.
    rewrite term_eqb_sym by auto. exact (nodup_app_cross acc x l H y Hy). }
  replace (set_insert acc x) with (acc ++ [x]) by (unfold set_insert; now rewrite Hm).
  rewrite IH.
  - now rewrite <- app_assoc.
  - apply Forall_app; split; [assumption | now constructor].
  - assumption.
  - now rewrite <- app_assoc.
Qed.

Lemma mk_set_nodup l : Forall okT l -> nodup_eqb l = true -> mk_set l = l.
Proof. intros Hl H. unfold mk_set. now rewrite fold_insert_nodup. Qed.

Lemma forallb_impl {A} (f g : A -> bool) l :
  Forall (fun x => f x = true -> g x = true) l -> forallb f l = true -> forallb g l = true.
Proof.
  induction 1 as [|x l Hx _ IH]; cbn [forallb]; [reflexivity|]. rewrite !andb_true_iff. intuition.
Qed.

Lemma wf_set_ok is_alnum E k1 t : wf_term_gen is_alnum E k1 t = true -> set_ok t = true.
Proof.
  induction t as [c n|c|c i|c l IH|c l IH|c i l IH|c a IH|c a b IHa IHb] using term_ind';
    cbn [wf_term_gen set_ok]; try reflexivity; rewrite ?andb_true_iff.
  - intros [[_ H] Hn]. split; [eapply forallb_impl; eassumption | assumption].
  - intros [_ H]. eapply forallb_impl; eassumption.
  - intros [[_ H] _]. eapply forallb_impl; eassumption.
  - assumption.
  - intuition.
Qed.

(* unfolding equations of the documented meaning *)
Lemma odesugar_atom arm name :
  odesugar (SAtom arm name) =
  match nth_error parse_atom_arms arm with Some (_, init) => atom_value init name | None => None end.
Proof. reflexivity. Qed.
Lemma odesugar_set ext a g items b :
  odesugar (SSet ext a g items b) =
  match omap odesugar items with
  | Some (x :: ts) => Some (TSet (if ext then SetExtension else SetIntension) (mk_set (x :: ts)))
  | _ => None
  end.
Proof. reflexivity. Qed.
Lemma odesugar_comp arm a g items b :
  odesugar (SComp arm a g items b) =
  match nth_error parse_compound_arms arm, omap odesugar items with
  | Some (_, init), Some (x :: ts) => fill_pure init (x :: ts)
  | _, _ => None
  end.
Proof. reflexivity. Qed.
Lemma odesugar_stmt arm a b c d s p :
  odesugar (SStmt arm a b c d s p) =
  match nth_error parse_statement_arms arm, odesugar s, odesugar p with
  | Some (_, bd), Some s', Some p' => Some (build_statement bd s' p')
  | _, _, _ => None
  end.
Proof. reflexivity. Qed.

(* the payload fillers on the shapes the canonical trees have *)
Lemma atom_value_name c n :
  setnamek_name c = SnReplace -> n <> [] -> atom_value (AIName c) n = Some (TName c n).
Proof.
  intros Hk Hn. destruct n as [|x n]; [congruence|]. cbn [atom_value atom_of_init].
  unfold set_atom_name. cbn [setnamek_of]. now rewrite Hk.
Qed.
Lemma atom_value_num c n v :
  setnamek_num c = SnParseUInt -> n <> [] -> read_usize n = Some v -> atom_value (AINum c) n = Some (TNum c v).
Proof.
  intros Hk Hn Hr. destruct n as [|x n]; [congruence|]. cbn [atom_value atom_of_init].
  unfold set_atom_name. cbn [setnamek_of]. now rewrite Hk, Hr.
Qed.
Lemma fill_set c ts :
  fillk_set c = FillPush -> pushk_set c = PushSetExtend -> fill_pure (CISet c) ts = Some (TSet c (mk_set ts)).
Proof.
  intros H1 H2. unfold fill_pure. cbn [comp_fill_kind comp_initial]. rewrite H1.
  unfold push_components. cbn [pushk_of]. rewrite H2. reflexivity.
Qed.
Lemma fill_vec c ts :
  fillk_vec c = FillPush -> pushk_vec c = PushVecExtend -> fill_pure (CIVec c) ts = Some (TVec c ts).
Proof.
  intros H1 H2. unfold fill_pure. cbn [comp_fill_kind comp_initial]. rewrite H1.
  unfold push_components. cbn [pushk_of]. rewrite H2. reflexivity.
Qed.
Lemma fill_img c ts i r :
  fillk_img c = FillImage -> split_placeholder 0 ts = Some (i, r) -> fill_pure (CIImg c) ts = Some (TImg c i r).
Proof. intros H1 H2. unfold fill_pure. cbn [comp_fill_kind]. now rewrite H1, H2. Qed.
Lemma fill_box1 c x : fillk_box1 c = FillUnary -> fill_pure (CIBox1 c) [x] = Some (TBox1 c x).
Proof. intros H1. unfold fill_pure. cbn [comp_fill_kind]. now rewrite H1. Qed.
Lemma fill_box2 c x y : fillk_box2 c = FillBinary -> fill_pure (CIBox2 c) [x; y] = Some (TBox2 c x y).
Proof. intros H1. unfold fill_pure. cbn [comp_fill_kind]. now rewrite H1. Qed.

(* the parser's placeholder search finds exactly the index the formatter's iterator used, PROVIDED no
   component before that index is itself a placeholder (otherwise: K1_witness below) *)
Lemma split_img_iter idx l : forall now i0,
  now <= idx -> idx <= now + nlen l -> has_placeholder (take (N.to_nat (idx - now)) l) = false ->
  split_placeholder i0 (img_iter_gen placeholder now idx l) = Some (i0 + (idx - now), l).
Proof.
  induction l as [|x l IH]; intros now i0 H1 H2 Hp; cbn [img_iter_gen].
  - unfold nlen in H2; cbn [length] in H2. destruct (N.eqb_spec now idx) as [->|]; [|lia].
    cbn [split_placeholder]. rewrite term_eqb_refl. f_equal. f_equal. lia.
  - destruct (N.eqb_spec now idx) as [->|Hne].
    + rewrite img_iter_gt by lia. cbn [split_placeholder]. rewrite term_eqb_refl. f_equal. f_equal. lia.
    + replace (N.to_nat (idx - now)) with (S (N.to_nat (idx - (now + 1)))) in Hp by lia.
      cbn [take has_placeholder existsb] in Hp. apply orb_false_iff in Hp as [Hx Hp].
      cbn [split_placeholder]. rewrite Hx. rewrite IH; [|lia| |exact Hp].
      * f_equal. f_equal. lia.
      * unfold nlen in *; cbn [length] in H2. lia.
Qed.

Section Desugar.
  Variable is_alnum : N -> bool.
  Variable E : efmt.
  Hypothesis Hcover : arms_cover E = true.

  Notation wf_t := (wf_term is_alnum E).

  Lemma cover_all :
    (forall c, cover_name E c = true) /\ (forall c, cover_unit E c = true) /\ (forall c, cover_num E c = true) /\
    (forall c, cover_set E c = true) /\ (forall c, cover_vec E c = true) /\ (forall c, cover_img E c = true) /\
    (forall c, cover_box1 E c = true) /\ (forall c, cover_box2 E c = true).
  Proof.
    unfold arms_cover in Hcover. repeat rewrite andb_true_iff in Hcover. rewrite !forallb_forall in Hcover.
    destruct Hcover as (((((((H1 & H2) & H3) & H4) & H5) & H6) & H7) & H8).
    repeat split; intros c;
      [apply H1, all_name_ctor_complete | apply H2, all_unit_ctor_complete | apply H3, all_num_ctor_complete
       | apply H4, all_set_ctor_complete | apply H5, all_vec_ctor_complete | apply H6, all_img_ctor_complete
       | apply H7, all_box1_ctor_complete | apply H8, all_box2_ctor_complete].
  Qed.

  Lemma sst_atom_some a init n n' : is_some (sst_atom E a init n) = true ->
    exists i p, sst_atom E a init n' = Some (SAtom i n') /\ nth_error parse_atom_arms i = Some (p, init).
  Proof.
    destruct a; cbn [sst_atom is_some]; try discriminate.
    destruct (atom_arm_ix E prefix init) as [i|] eqn:Hi; [|discriminate]. intros _.
    apply atom_arm_ix_spec in Hi as (p & Hn & _). exists i, p. now split.
  Qed.

  Lemma sst_comp_some kw init d items : is_some (sst_comp E kw init d) = true -> items <> [] ->
    exists i p, sst_comp E kw init items = Some (SComp i 0 (cgaps E) items 0) /\
                nth_error parse_compound_arms i = Some (p, init).
  Proof.
    unfold sst_comp. destruct d as [|d0 d]; [discriminate|].
    destruct (comp_arm_ix E kw init) as [i|] eqn:Hi; [|discriminate]. intros _ Hne.
    apply comp_arm_ix_spec in Hi as (p & Hn & _). exists i, p. destruct items; [congruence | now split].
  Qed.

  Lemma placeholder_tree : forall c, cover_img E c = true ->
    exists ph, sst_placeholder E = Some ph /\ odesugar ph = Some placeholder.
  Proof.
    intros c H. unfold cover_img in H. apply andb_true_iff in H as [H _]. unfold sst_img in H.
    destruct (fmt_arm_img c); try discriminate. destruct (sst_placeholder E) as [ph|] eqn:Hph; [|discriminate].
    exists ph. split; [reflexivity|]. unfold sst_placeholder in Hph.
    assert (Hs : is_some (sst_atom E (fmt_arm_unit Placeholder) (AIUnit Placeholder) []) = true) by now rewrite Hph.
    destruct (sst_atom_some _ _ [] [] Hs) as (i & p & Hs' & Hn).
    rewrite Hs' in Hph. injection Hph as <-. rewrite odesugar_atom, Hn. reflexivity.
  Qed.

  Lemma desugar_list l :
    Forall (fun t => wf_t t = true -> exists s, sst_of E t = Some s /\ odesugar s = Some t) l ->
    forallb wf_t l = true -> exists items, omap (sst_of E) l = Some items /\ omap odesugar items = Some l.
  Proof.
    induction 1 as [|t l Ht _ IH]; intros Hw.
    - exists []. split; reflexivity.
    - cbn [forallb] in Hw. apply andb_true_iff in Hw as [Hw1 Hw2].
      destruct (Ht Hw1) as (s & Hs & Hd). destruct (IH Hw2) as (items & Hi & Hdi).
      exists (s :: items). rewrite !omap_cons, Hs, Hi, Hd, Hdi. split; reflexivity.
  Qed.

  Theorem sst_of_desugar : forall t, wf_t t = true -> exists s, sst_of E t = Some s /\ odesugar s = Some t.
  Proof.
    destruct cover_all as (Cname & Cunit & Cnum & Cset & Cvec & Cimg & Cbox1 & Cbox2).
    induction t as [c n|c|c i|c l IH|c l IH|c i l IH|c a IH|c a b IHa IHb] using term_ind';
      intros Hw; unfold wf_term in Hw; cbn [wf_term_gen] in Hw; cbn [sst_of].
    - (* named atom *)
      specialize (Cname c). unfold cover_name in Cname. apply andb_true_iff in Cname as [Hs Hk].
      destruct (sst_atom_some _ _ [] n Hs) as (i & p & -> & Hn). eexists; split; [reflexivity|].
      rewrite odesugar_atom, Hn. apply atom_value_name.
      + destruct (setnamek_name c); try discriminate; reflexivity.
      + unfold name_ok in Hw. repeat rewrite andb_true_iff in Hw. destruct n; [|discriminate].
        now destruct Hw as [[[[[Hw _] _] _] _] _].
    - (* placeholder-like atom *)
      specialize (Cunit c). unfold cover_unit in Cunit.
      destruct (sst_atom_some _ _ [] [] Cunit) as (i & p & -> & Hn). eexists; split; [reflexivity|].
      rewrite odesugar_atom, Hn. reflexivity.
    - (* interval *)
      specialize (Cnum c). unfold cover_num in Cnum. apply andb_true_iff in Cnum as [Hs Hk].
      destruct (sst_atom_some _ _ [] (show_N i) Hs) as (j & p & -> & Hn). eexists; split; [reflexivity|].
      rewrite odesugar_atom, Hn. apply atom_value_num.
      + destruct (setnamek_num c); try discriminate; reflexivity.
      + apply show_N_not_nil.
      + apply read_usize_show. now apply N.leb_le.
    - (* set-like *)
      apply andb_true_iff in Hw as [Hw Hnd]. apply andb_true_iff in Hw as [Hne Hw].
      assert (Hok : Forall okT l).
      { apply Forall_forall. intros x Hx. rewrite forallb_forall in Hw. eapply wf_set_ok. apply Hw, Hx. }
      destruct (desugar_list l IH Hw) as (items & Hi & Hd). rewrite Hi.
      assert (Hlen : length items = length l) by (eapply omap_length; eassumption).
      destruct l as [|x l]; [discriminate|]. destruct items as [|y items]; [discriminate|].
      specialize (Cset c). unfold cover_set in Cset. apply andb_true_iff in Cset as [Hs Hk].
      destruct (fmt_arm_set c) eqn:Harm; cbn [sst_set] in *; try discriminate.
      + destruct (set_ctor_eqb c SetExtension && str_eqb (l0 E) (set_lb E true) && str_eqb (r E) (set_rb E true)) eqn:H1.
        * eexists; split; [reflexivity|]. rewrite odesugar_set, Hd, mk_set_nodup by assumption.
          repeat (apply andb_true_iff in H1 as [H1 _]). apply set_ctor_eqb_eq in H1. now subst.
        * destruct (set_ctor_eqb c SetIntension && str_eqb (l0 E) (set_lb E false) && str_eqb (r E) (set_rb E false)) eqn:H2; [|discriminate].
          eexists; split; [reflexivity|]. rewrite odesugar_set, Hd, mk_set_nodup by assumption.
          repeat (apply andb_true_iff in H2 as [H2 _]). apply set_ctor_eqb_eq in H2. now subst.
      + destruct (sst_comp_some kw (CISet c) [dummy] (y :: items) Hs) as (j & p & -> & Hn); [discriminate|].
        eexists; split; [reflexivity|]. rewrite odesugar_comp, Hn, Hd, fill_set, mk_set_nodup; try assumption; try reflexivity.
        * destruct (fillk_set c); try discriminate; reflexivity.
        * destruct (fillk_set c); try discriminate; destruct (pushk_set c); try discriminate; reflexivity.
    - (* vector-like *)
      apply andb_true_iff in Hw as [Hne Hw].
      destruct (desugar_list l IH Hw) as (items & Hi & Hd). rewrite Hi.
      assert (Hlen : length items = length l) by (eapply omap_length; eassumption).
      destruct l as [|x l]; [discriminate|]. destruct items as [|y items]; [discriminate|].
      specialize (Cvec c). unfold cover_vec in Cvec. apply andb_true_iff in Cvec as [Hs Hk].
      unfold sst_vec in *. destruct (fmt_arm_vec c); try discriminate.
      destruct (sst_comp_some kw (CIVec c) [dummy] (y :: items) Hs) as (j & p & -> & Hn); [discriminate|].
      eexists; split; [reflexivity|]. rewrite odesugar_comp, Hn, Hd, fill_vec; try reflexivity.
      + destruct (fillk_vec c); try discriminate; reflexivity.
      + destruct (fillk_vec c); try discriminate; destruct (pushk_vec c); try discriminate; reflexivity.
    - (* image *)
      apply andb_true_iff in Hw as [Hw Hph]. apply andb_true_iff in Hw as [Hidx Hw].
      cbn [negb orb] in Hph. apply negb_true_iff in Hph. apply N.leb_le in Hidx.
      destruct (desugar_list l IH Hw) as (items & Hi & Hd). rewrite Hi.
      assert (Hlen : nlen items = nlen l) by (unfold nlen; f_equal; eapply omap_length; eassumption).
      destruct (placeholder_tree c (Cimg c)) as (ph & Hph1 & Hph2).
      specialize (Cimg c). unfold cover_img in Cimg. apply andb_true_iff in Cimg as [Hs Hk].
      unfold sst_img in *. destruct (fmt_arm_img c); try discriminate. rewrite Hph1 in *.
      destruct (sst_comp_some kw (CIImg c) _ (img_iter_gen ph 0 i items) Hs) as (j & p & -> & Hn).
      { apply img_iter_nonnil; lia. }
      eexists; split; [reflexivity|].
      rewrite odesugar_comp, Hn, (omap_img_iter odesugar ph placeholder i items Hph2 0 l Hd).
      destruct (img_iter_gen placeholder 0 i l) as [|z zs] eqn:Hz.
      { exfalso. revert Hz. apply img_iter_nonnil; lia. }
      rewrite <- Hz. apply fill_img.
      + destruct (fillk_img c); try discriminate; reflexivity.
      + rewrite split_img_iter; [|lia|lia|rewrite N.sub_0_r; exact Hph]. f_equal. f_equal. lia.
    - (* unary *)
      destruct (IH Hw) as (x & Hx & Hd). rewrite Hx.
      specialize (Cbox1 c). unfold cover_box1 in Cbox1. apply andb_true_iff in Cbox1 as [Hs Hk].
      unfold sst_box1 in *. destruct (fmt_arm_box1 c); try discriminate.
      destruct (sst_comp_some kw (CIBox1 c) [dummy] [x] Hs) as (j & p & -> & Hn); [discriminate|].
      eexists; split; [reflexivity|]. rewrite odesugar_comp, Hn, !omap_cons, Hd. cbn [omap]. apply fill_box1.
      destruct (fillk_box1 c); try discriminate; reflexivity.
    - (* binary: difference or statement *)
      apply andb_true_iff in Hw as [Hwa Hwb].
      destruct (IHa Hwa) as (x & Hx & Hdx). destruct (IHb Hwb) as (y & Hy & Hdy). rewrite Hx, Hy.
      specialize (Cbox2 c). unfold cover_box2 in Cbox2. apply andb_true_iff in Cbox2 as [Hs Hk].
      unfold sst_box2 in *. destruct (fmt_arm_box2 c); try discriminate.
      + destruct (sst_comp_some kw (CIBox2 c) [dummy; dummy] [x; y] Hs) as (j & p & -> & Hn); [discriminate|].
        eexists; split; [reflexivity|]. rewrite odesugar_comp, Hn, !omap_cons, Hdx, Hdy. cbn [omap]. apply fill_box2.
        destruct (fillk_box2 c); try discriminate; reflexivity.
      + destruct (stmt_arm_ix E kw c) as [j|] eqn:Hj; [|discriminate].
        apply stmt_arm_ix_spec in Hj as (p & Hn & _). eexists; split; [reflexivity|].
        rewrite odesugar_stmt, Hn, Hdx, Hdy. reflexivity.
  Qed.
End Desugar.

(* ================================================================================== *)
(* 3. K1: why wf_term excludes images whose own components contain a placeholder       *)
(* `(/, _, _, +1)` is printed for ImageExtension(1, [_, +1]); its documented meaning (and what the
   parser returns) is ImageExtension(0, [_, +1]).  The witness satisfies every other clause of wf_term,
   for every is_alnum and in each shipped format. *)
Definition k1_term : term := TImg ImageExtension 1 [placeholder; TNum Interval 1].

Lemma K1_witness : forall (is_alnum : N -> bool) (E : efmt), In E shipped_formats ->
  wf_term_pre is_alnum E k1_term = true /\ wf_term is_alnum E k1_term = false /\
  exists s, sst_of E k1_term = Some s /\ fmt_term E k1_term = render E s /\
            odesugar s = Some (TImg ImageExtension 0 [placeholder; TNum Interval 1]) /\ odesugar s <> Some k1_term.
Proof.
  intros is_alnum E HE. cbn [shipped_formats In] in HE.
  destruct HE as [<-|[<-|[<-|[]]]]; (split; [vm_compute; reflexivity|]); (split; [vm_compute; reflexivity|]);
    (eexists; split; [vm_compute; reflexivity|]); (split; [vm_compute; reflexivity|]);
    (split; [vm_compute; reflexivity|]); vm_compute; discriminate.
Qed.

(* the exclusion is tight: a placeholder AT or AFTER the index is harmless (same text, index 0) *)
Example ex_k1_boundary : forall (is_alnum : N -> bool) (E : efmt), In E shipped_formats ->
  let t := TImg ImageExtension 0 [placeholder; TNum Interval 1] in
  wf_term is_alnum E t = true /\ fmt_term E t = fmt_term E k1_term.
Proof.
  intros is_alnum E HE. cbn [shipped_formats In] in HE.
  destruct HE as [<-|[<-|[<-|[]]]]; vm_compute; split; reflexivity.
Qed.

(* ================================================================================== *)
(* 4. nesting depth vs. length of the text                                            *)
Lemma render_set_eq E ext a g items b :
  render E (SSet ext a g items b) =
  set_lb E ext ++ sp E a ++ render_items E (render E) g false 0 items ++ sp E b ++ set_rb E ext.
Proof. reflexivity. Qed.
Lemma render_comp_eq E arm a g items b :
  render E (SComp arm a g items b) =
  compound_brackets_0 E ++ sp E a ++ comp_kw E arm ++ render_items E (render E) g true 0 items ++ sp E b ++ compound_brackets_1 E.
Proof. reflexivity. Qed.
Lemma render_stmt_eq E arm a b c d x y :
  render E (SStmt arm a b c d x y) =
  statement_brackets_0 E ++ sp E a ++ render E x ++ sp E b ++ stmt_kw E arm ++ sp E c ++ render E y ++ sp E d ++ statement_brackets_1 E.
Proof. reflexivity. Qed.

Section Depth.
  Variable E : efmt.
  Hypothesis Htot : total_ok E = true.

  Lemma items_depth (c : nat) gaps : forall items lead i,
    Forall (fun x => (sdepth x <= c + length (render E x))%nat) items ->
    (fold_right (fun x acc => Nat.max (sdepth x) acc) O items <= c + length (render_items E (render E) gaps lead i items))%nat.
  Proof.
    induction items as [|x items IH]; intros lead i HF; cbn [fold_right render_items]; [lia|].
    inversion HF as [|? ? Hx HF']; subst. specialize (IH true (S i) HF'). rewrite !app_length. lia.
  Qed.

  Lemma set_lb_pos ext : (0 < length (set_lb E ext))%nat.
  Proof. destruct ext; cbn [set_lb]; [apply (ok_xb0 unit tt (fun _ => true)) | apply (ok_ib0 unit tt (fun _ => true))]; assumption. Qed.

  Lemma sdepth_gen (c : nat) : forall s, (c = 1%nat \/ snonempty E s = true) ->
    (sdepth s <= c + length (render E s))%nat.
  Proof.
    induction s as [arm name|ext a g items b HF|arm a g items b HF|arm a b c0 d x y IHx IHy] using sterm_ind'; intros Hc.
    - cbn [sdepth render]. destruct Hc as [->|Hc]; [lia|]. cbn [snonempty] in Hc.
      destruct (atom_prefix E arm ++ name); [discriminate | cbn [length]; lia].
    - assert (HF' : Forall (fun x => (sdepth x <= c + length (render E x))%nat) items).
      { rewrite Forall_forall in *. intros x Hx. apply HF; [assumption|]. destruct Hc as [->|Hc]; [now left | right].
        cbn [snonempty] in Hc. rewrite forallb_forall in Hc. now apply Hc. }
      cbn [sdepth]. rewrite render_set_eq, !app_length.
      pose proof (items_depth c g items false 0%nat HF'). pose proof (set_lb_pos ext). lia.
    - assert (HF' : Forall (fun x => (sdepth x <= c + length (render E x))%nat) items).
      { rewrite Forall_forall in *. intros x Hx. apply HF; [assumption|]. destruct Hc as [->|Hc]; [now left | right].
        cbn [snonempty] in Hc. rewrite forallb_forall in Hc. now apply Hc. }
      cbn [sdepth]. rewrite render_comp_eq, !app_length.
      pose proof (items_depth c g items true 0%nat HF'). pose proof (ok_cb0 unit tt (fun _ => true) E Htot). lia.
    - assert (Hx : c = 1%nat \/ snonempty E x = true).
      { destruct Hc as [->|Hc]; [now left | right]. cbn [snonempty] in Hc. now apply andb_true_iff in Hc as [? _]. }
      assert (Hy : c = 1%nat \/ snonempty E y = true).
      { destruct Hc as [->|Hc]; [now left | right]. cbn [snonempty] in Hc. now apply andb_true_iff in Hc as [_ ?]. }
      specialize (IHx Hx). specialize (IHy Hy). cbn [sdepth]. rewrite render_stmt_eq, !app_length.
      pose proof (ok_sb0 unit tt (fun _ => true) E Htot). lia.
  Qed.

  (* for EVERY surface tree: enough for the fuel S (S (length input)) of parse_term *)
  Theorem sdepth_le_render_S s : (sdepth s <= S (length (render E s)))%nat.
  Proof. apply (sdepth_gen 1). now left. Qed.

  (* when no atom has an empty text *)
  Theorem sdepth_le_render s : snonempty E s = true -> (sdepth s <= length (render E s))%nat.
  Proof. intros H. apply (sdepth_gen 0). now right. Qed.

  (* the canonical tree of a well-formed term has no empty atom *)
  Lemma sst_atom_snonempty a init n s :
    sst_atom E a init n = Some s -> (n <> [] \/ exists c, init = AIUnit c) -> snonempty E s = true.
  Proof.
    destruct a; cbn [sst_atom]; try discriminate. intros H Hn.
    destruct (atom_arm_ix E prefix init) as [i|] eqn:Hi; [|discriminate]. injection H as <-.
    apply atom_arm_ix_spec in Hi as (p & Hi & _). cbn [snonempty]. unfold atom_prefix. rewrite Hi.
    destruct Hn as [Hn|[c ->]].
    - destruct (p E); cbn [app nonempty]; [destruct n; [congruence | reflexivity] | reflexivity].
    - pose proof (ok_atoms unit tt (fun _ => true) E Htot) as Hs. rewrite forallb_forall in Hs.
      specialize (Hs _ (nth_error_In _ _ Hi)). cbn [snd fst] in Hs.
      destruct (p E); [discriminate | reflexivity].
  Qed.

  Lemma sst_comp_snonempty kw init items s :
    sst_comp E kw init items = Some s -> forallb (snonempty E) items = true -> snonempty E s = true.
  Proof.
    unfold sst_comp. destruct items as [|x items]; [discriminate|].
    destruct (comp_arm_ix E kw init); [|discriminate]. intros H; injection H as <-. trivial.
  Qed.

  Lemma forallb_img_iter {A} (f : A -> bool) ph idx l : f ph = true -> forallb f l = true ->
    forall now, forallb f (img_iter_gen ph now idx l) = true.
  Proof.
    intros Hph. induction l as [|x l IH]; intros Hl now; cbn [img_iter_gen].
    - destruct (now =? idx); cbn [forallb]; [now rewrite Hph | reflexivity].
    - cbn [forallb] in Hl. apply andb_true_iff in Hl as [Hx Hl].
      destruct (now =? idx); cbn [forallb]; rewrite ?Hph, Hx, IH; auto.
  Qed.

  Lemma sst_of_snonempty is_alnum k1 : forall t s,
    wf_term_gen is_alnum E k1 t = true -> sst_of E t = Some s -> snonempty E s = true.
  Proof.
    assert (Hlist : forall l, Forall (fun t => forall s, wf_term_gen is_alnum E k1 t = true -> sst_of E t = Some s -> snonempty E s = true) l ->
              forallb (wf_term_gen is_alnum E k1) l = true -> forall items, omap (sst_of E) l = Some items ->
              forallb (snonempty E) items = true).
    { induction 1 as [|t l Ht _ IH]; intros Hw items Hi.
      - cbn [omap] in Hi. injection Hi as <-. reflexivity.
      - rewrite omap_cons in Hi. destruct (sst_of E t) as [s|] eqn:Hs; [|discriminate].
        destruct (omap (sst_of E) l) as [ss|]; [|discriminate]. injection Hi as <-.
        cbn [forallb] in *. apply andb_true_iff in Hw as [Hw1 Hw2]. rewrite (Ht s Hw1 eq_refl), (IH Hw2 ss eq_refl). reflexivity. }
    induction t as [c n|c|c i|c l IH|c l IH|c i l IH|c a IH|c a b IHa IHb] using term_ind';
      intros s Hw H; cbn [wf_term_gen sst_of] in *.
    - eapply sst_atom_snonempty; [eassumption|]. left. unfold name_ok in Hw. repeat rewrite andb_true_iff in Hw.
      destruct n; [|discriminate]. now destruct Hw as [[[[[Hw _] _] _] _] _].
    - eapply sst_atom_snonempty; [eassumption|]. right. eauto.
    - eapply sst_atom_snonempty; [eassumption|]. left. apply show_N_not_nil.
    - apply andb_true_iff in Hw as [Hw _]. apply andb_true_iff in Hw as [_ Hw].
      destruct (omap (sst_of E) l) as [items|] eqn:Hi; [|discriminate]. specialize (Hlist l IH Hw items Hi).
      destruct (fmt_arm_set c); cbn [sst_set] in H; try discriminate.
      + destruct (_ && _ && _); [injection H as <-; exact Hlist|]. destruct (_ && _ && _); [injection H as <-; exact Hlist | discriminate].
      + eapply sst_comp_snonempty; eassumption.
    - apply andb_true_iff in Hw as [_ Hw].
      destruct (omap (sst_of E) l) as [items|] eqn:Hi; [|discriminate]. specialize (Hlist l IH Hw items Hi).
      unfold sst_vec in H. destruct (fmt_arm_vec c); try discriminate. eapply sst_comp_snonempty; eassumption.
    - apply andb_true_iff in Hw as [Hw _]. apply andb_true_iff in Hw as [_ Hw].
      destruct (omap (sst_of E) l) as [items|] eqn:Hi; [|discriminate]. specialize (Hlist l IH Hw items Hi).
      unfold sst_img in H. destruct (fmt_arm_img c); try discriminate.
      destruct (sst_placeholder E) as [ph|] eqn:Hph; [|discriminate].
      eapply sst_comp_snonempty; [eassumption|]. apply forallb_img_iter; [|assumption].
      unfold sst_placeholder in Hph. eapply sst_atom_snonempty; [eassumption|]. right. eauto.
    - destruct (sst_of E a) as [x|] eqn:Ha; [|discriminate]. unfold sst_box1 in H.
      destruct (fmt_arm_box1 c); try discriminate. eapply sst_comp_snonempty; [eassumption|].
      cbn [forallb]. now rewrite (IH x Hw eq_refl).
    - apply andb_true_iff in Hw as [Hwa Hwb].
      destruct (sst_of E a) as [x|] eqn:Ha; [|discriminate]. destruct (sst_of E b) as [y|] eqn:Hb; [|discriminate].
      specialize (IHa x Hwa eq_refl). specialize (IHb y Hwb eq_refl). unfold sst_box2 in H.
      destruct (fmt_arm_box2 c); try discriminate.
      + eapply sst_comp_snonempty; [eassumption|]. cbn [forallb]. now rewrite IHa, IHb.
      + destruct (stmt_arm_ix E kw c); [|discriminate]. injection H as <-. cbn [snonempty]. now rewrite IHa, IHb.
  Qed.
End Depth.

(* ================================================================================== *)
(* 5. format-then-parse of terms, given the parser-side theorem                         *)
Section Roundtrip.
  Variable F : Type.
  Variable is_alnum : N -> bool.
  Variable E : efmt.
  Variable unamb : sterm -> str -> bool.
  Hypothesis HTP : TermParses F is_alnum E unamb.
  Hypothesis Htot : total_ok E = true.
  Hypothesis Hsp : fmt_space_ok E = true.
  Hypothesis Hcover : arms_cover E = true.

  Lemma sst_spec t : wf_term is_alnum E t = true ->
    sst_of E t = Some (sst E t) /\ odesugar (sst E t) = Some t /\ fmt_term E t = render E (sst E t).
  Proof.
    intros Hw. destruct (sst_of_desugar is_alnum E Hcover t Hw) as (s & Hs & Hd).
    unfold sst. rewrite Hs. repeat split; [assumption|]. now apply fmt_term_render.
  Qed.

  Theorem C01_term_roundtrip : forall t,
    wf_term is_alnum E t = true -> unamb (sst E t) [] = true ->
    parse_term F is_alnum E (new_state F (fmt_term E t)) =
    POk t (step F (length (fmt_term E t)) (new_state F (fmt_term E t))).
  Proof.
    intros t Hw Hu. destruct (sst_spec t Hw) as (_ & Hd & Hr). rewrite Hr.
    unfold parse_term, term_fuel.
    apply (HTP (sst E t) t [] (length (render E (sst E t)))); try assumption.
    - split; cbn [new_state s_len s_head s_rest]; [reflexivity | lia].
    - cbn [new_state s_rest]. now rewrite app_nil_r.
    - cbn [new_state s_rest]. pose proof (sdepth_le_render_S E Htot (sst E t)). lia.
  Qed.

  (* the same for the term of a sentence / task / Narsese value *)
  Corollary C01_value_term_roundtrip : forall (v : narsese F),
    wf_value is_alnum E v = true ->
    let t := match v with NTerm t => t | NSentence s => s_term s | NTask k => s_term (fst k) end in
    unamb (sst E t) [] = true ->
    parse_term F is_alnum E (new_state F (fmt_term E t)) =
    POk t (step F (length (fmt_term E t)) (new_state F (fmt_term E t))).
  Proof. intros v Hw t Hu. apply C01_term_roundtrip; [|assumption]. destruct v; exact Hw. Qed.
End Roundtrip.

(* ================================================================================== *)
(* 6. side conditions on the regenerated tables, and non-vacuity                        *)
Lemma shipped_fmt_side :
  forallb (fun E => fmt_space_ok E && arms_cover E && total_ok E) shipped_formats = true /\
  map canon_k shipped_formats = [1; 1; 0]%nat /\
  probe_ok = true /\ arms_cover probe_fmt = true.
Proof. vm_compute. repeat split; reflexivity. Qed.

Lemma shipped_fmt_side_each E : In E shipped_formats ->
  fmt_space_ok E = true /\ arms_cover E = true /\ total_ok E = true.
Proof.
  intros HE. destruct shipped_fmt_side as (H & _). rewrite forallb_forall in H. specialize (H E HE).
  repeat rewrite andb_true_iff in H. tauto.
Qed.

(* an executable stand-in for char::is_alphanumeric on the characters used below (ASCII letters and
   digits, CJK unified ideographs); the theorems above hold for every is_alnum *)
Definition ex_alnum (c : N) : bool :=
  ((48 <=? c) && (c <=? 57)) || ((65 <=? c) && (c <=? 90)) || ((97 <=? c) && (c <=? 122)) ||
  ((19968 <=? c) && (c <=? 40959)).

(* a term using EVERY constructor (all enumerations of Gen/TermGen.v), nested three deep *)
Definition ex_A : term := TName Word [65; 49].              (* A1 *)
Definition ex_B : term := TName Word [98; 45; 95; 99].      (* b-_c *)
Definition ex_C : term := TName Word [29483].               (* a CJK name that contains no Han keyword *)
Definition ex_every : list term :=
  map (fun c => TName c [120; 49]) all_name_ctor ++ map TUnit all_unit_ctor ++ map (fun c => TNum c 42) all_num_ctor
  ++ map (fun c => TSet c [ex_A; ex_B; TNum Interval 0]) all_set_ctor ++ map (fun c => TVec c [ex_A; placeholder; ex_A]) all_vec_ctor
  ++ map (fun c => TImg c 1 [ex_A; ex_C]) all_img_ctor ++ map (fun c => TImg c 0 []) all_img_ctor
  ++ map (fun c => TBox1 c ex_C) all_box1_ctor ++ map (fun c => TBox2 c ex_A ex_B) all_box2_ctor.
Definition ex_term : term :=
  TBox2 Implication (TVec Product ex_every)
        (TSet SetIntension [TBox1 Negation (TSet Conjunction ex_every); TImg ImageIntension 1 [TVec Product ex_every; ex_B]]).

Definition ex_checks (E : efmt) (t : term) : Prop :=
  wf_term ex_alnum E t = true /\
  match sst_of E t with
  | Some s => fmt_term E t = render E s /\ odesugar s = Some t /\ snonempty E s = true
  | None => False
  end.

Example ex_fmt_ascii : ex_checks FORMAT_ASCII ex_term.
Proof. vm_compute. repeat split; reflexivity. Qed.
Example ex_fmt_latex : ex_checks FORMAT_LATEX ex_term.
Proof. vm_compute. repeat split; reflexivity. Qed.
Example ex_fmt_han : ex_checks FORMAT_HAN ex_term.
Proof. vm_compute. repeat split; reflexivity. Qed.

(* what the canonical text looks like: an implication whose subject is the product of the set {A1, b-_c} and the image (/, A1, _, $x1) and whose predicate is +42, in the three formats *)
Definition ex_small : term :=
  TBox2 Implication (TVec Product [TSet SetExtension [ex_A; ex_B]; TImg ImageExtension 1 [ex_A; TName VariableIndependent [120; 49]]])
        (TNum Interval 42).
Example ex_small_ascii :
  fmt_term FORMAT_ASCII ex_small =
  [60; 40; 42; 44; 32; 123; 65; 49; 44; 32; 98; 45; 95; 99; 125; 44; 32; 40; 47; 44; 32; 65; 49; 44; 32; 95; 44; 32; 36; 120; 49; 41; 41;
   32; 61; 61; 62; 32; 43; 52; 50; 62]
  /\ ex_checks FORMAT_ASCII ex_small /\ ex_checks FORMAT_LATEX ex_small /\ ex_checks FORMAT_HAN ex_small.
Proof. vm_compute. repeat split; reflexivity. Qed.

(* wf_term one level deep *)
Lemma wf_term_meaning : forall (is_alnum : N -> bool) (E : efmt) (t : term),
  wf_term is_alnum E t =
  match t with
  | TName _ n =>
      nonempty n && forallb (name_charb is_alnum E) n
      && negb (existsb (fun x => nonempty (fst x E) && starts (fst x E) n) parse_atom_arms)
      && negb (starts [45] n) && negb (ends [45] n)
      && negb (existsb (fun c => has_infix c n) (gen_copulas E))
  | TUnit _ => true
  | TNum _ i => i <=? usize_max
  | TSet _ l => nonnil l && forallb (wf_term is_alnum E) l && nodup_eqb l
  | TVec _ l => nonnil l && forallb (wf_term is_alnum E) l
  | TImg _ i l => (i <=? nlen l) && forallb (wf_term is_alnum E) l && negb (existsb (fun x => term_eqb x placeholder) (take (N.to_nat i) l))
  | TBox1 _ a => wf_term is_alnum E a
  | TBox2 _ a b => wf_term is_alnum E a && wf_term is_alnum E b
  end.
Proof. intros is_alnum E t. destruct t; reflexivity. Qed.
