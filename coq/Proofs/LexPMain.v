(* Proofs/LexPMain.v -- C02: the round-trip theorems, general and on the three shipped tables. *)
From Nv Require Import Model.LexSpec Proofs.LexPFinal Proofs.LexPClean Proofs.LexPTables.
Import ListNotations.

Definition lex_c02_ok (F : lfmt) (ia : N -> bool) : bool := lex_rt_ok F ia && lex_clean_ok F ia.

Theorem lex_roundtrip_general F ia v :
  lex_c02_ok F ia = true ->
  vocab_ok F ia v = true -> unamb_top F v ->
  (lex_clean_atoms_ok F ia = true \/ bare_atom v = false) ->
  lex_parse ia F (lex_fmt F v) = LOk v.
Proof.
  intros Hok Hv Hun Ha. unfold lex_c02_ok in Hok. apply andb_true_iff in Hok as [Hrt Hcl].
  apply lex_roundtrip; auto. apply (top_clean_vocab F ia); auto.
  unfold lex_rt_ok in Hrt. rewrite !andb_true_iff in Hrt. tauto.
Qed.

Theorem lex_roundtrip_selfdelim_full F ia v :
  lex_c02_ok F ia = true -> lex_selfdelim F ia = true -> lex_clean_atoms_ok F ia = true ->
  vocab_ok F ia v = true ->
  lex_parse ia F (lex_fmt F v) = LOk v.
Proof.
  intros Hok Hsd Ha Hv. apply lex_roundtrip_general; auto. now apply vocab_unamb_top with (ia := ia).
Qed.

Lemma shipped_lex_c02_ok : forallb (fun F => lex_c02_ok F std_alnum) shipped_lex_formats = true.
Proof. vm_compute. reflexivity. Qed.
Lemma ascii_clean_atoms : lex_clean_atoms_ok LEX_ASCII std_alnum = true.
Proof. vm_compute. reflexivity. Qed.
Lemma latex_clean_atoms : lex_clean_atoms_ok LEX_LATEX std_alnum = true.
Proof. vm_compute. reflexivity. Qed.
Lemma han_clean_atoms_fails : lex_clean_atoms_ok LEX_HAN std_alnum = false.
Proof. vm_compute. reflexivity. Qed.

Lemma ascii_latex_selfdelim_all :
  lex_selfdelim LEX_ASCII std_alnum = true /\ lex_selfdelim LEX_LATEX std_alnum = true /\
  lex_clean_atoms_ok LEX_ASCII std_alnum = true /\ lex_clean_atoms_ok LEX_LATEX std_alnum = true.
Proof. exact (conj ascii_selfdelim (conj latex_selfdelim (conj ascii_clean_atoms latex_clean_atoms))). Qed.
Lemma han_not_selfdelim_all :
  lex_selfdelim LEX_HAN std_alnum = false /\ lex_clean_atoms_ok LEX_HAN std_alnum = false.
Proof. exact (conj han_not_selfdelim han_clean_atoms_fails). Qed.

Lemma shipped_c02 F : In F shipped_lex_formats -> lex_c02_ok F std_alnum = true.
Proof. intros H. pose proof shipped_lex_c02_ok as G. rewrite forallb_forall in G. auto. Qed.

(* ASCII and LaTeX: every value of the vocabulary survives format-then-parse *)
Theorem ascii_roundtrip v :
  vocab_ok LEX_ASCII std_alnum v = true -> lex_parse std_alnum LEX_ASCII (lex_fmt LEX_ASCII v) = LOk v.
Proof.
  apply lex_roundtrip_selfdelim_full.
  - apply shipped_c02. cbn. auto.
  - exact ascii_selfdelim.
  - exact ascii_clean_atoms.
Qed.

Theorem latex_roundtrip v :
  vocab_ok LEX_LATEX std_alnum v = true -> lex_parse std_alnum LEX_LATEX (lex_fmt LEX_LATEX v) = LOk v.
Proof.
  apply lex_roundtrip_selfdelim_full.
  - apply shipped_c02. cbn. auto.
  - exact latex_selfdelim.
  - exact latex_clean_atoms.
Qed.

(* Han: under the unambiguity conditions (which K5 violates), for everything but a bare atom *)
Theorem han_roundtrip v :
  vocab_ok LEX_HAN std_alnum v = true -> unamb_top LEX_HAN v -> bare_atom v = false ->
  lex_parse std_alnum LEX_HAN (lex_fmt LEX_HAN v) = LOk v.
Proof.
  intros Hv Hun Hb. apply lex_roundtrip_general; auto; try (apply shipped_c02; cbn; auto).
Qed.

(* and a bare Han atom under its explicit border condition *)
Theorem han_roundtrip_clean v :
  vocab_ok LEX_HAN std_alnum v = true -> unamb_top LEX_HAN v -> top_clean LEX_HAN v ->
  lex_parse std_alnum LEX_HAN (lex_fmt LEX_HAN v) = LOk v.
Proof.
  intros Hv Hun Hc. apply lex_roundtrip; auto; try (apply In_shipped_rt_ok; cbn; auto).
Qed.

(* the kind of the result is the kind of the value (corollary used by C15) *)
Corollary lex_roundtrip_kind F ia v w :
  lex_parse ia F (lex_fmt F v) = LOk v -> lex_parse ia F (lex_fmt F v) = LOk w ->
  nv_is_term w = nv_is_term v /\ nv_is_sentence w = nv_is_sentence v /\ nv_is_task w = nv_is_task v.
Proof. intros H1 H2. rewrite H1 in H2. injection H2 as ->. auto. Qed.

(* Han with the decidable form of the unambiguity conditions (what the harness filters by) *)
Theorem han_roundtrip_b v :
  vocab_ok LEX_HAN std_alnum v = true -> unamb_top_b LEX_HAN v = true -> bare_atom v = false ->
  lex_parse std_alnum LEX_HAN (lex_fmt LEX_HAN v) = LOk v.
Proof. intros Hv Hun Hb. apply han_roundtrip; auto. now apply unamb_top_b_sound. Qed.
