(* Proofs/ReadmeP.v -- proofs about the README grammar (property C11):
   pinning of the regenerated grammar and of the ASCII lexicon, and the conformance of the ASCII
   output of the term formatters to the grammar (a parser-correctness proof for the PEG interpreter
   of Model/Readme.v on the reference grammar). *)
From Coq Require Import String.
From Nv Require Import Model.Readme Gen.ReadmeGrammar Gen.EnumFormats Gen.ReadmeLexAscii Gen.ReadmeUnicode Gen.Unicode Proofs.PegP Proofs.DecP.
Open Scope N_scope.

(* ------------------------------------------------------------------------------------------ *)
(* (i) the grammar regenerated from README.md is the reference grammar                          *)
(* ------------------------------------------------------------------------------------------ *)
Lemma readme_pinned_proof : readme_grammar = expected_grammar.
Proof. vm_compute. reflexivity. Qed.

(* README.en.md differs in exactly one rule, which is not valid pest there (`"_" ~ | ...`) *)
Lemma readme_en_diff_pinned_proof : readme_en_diff = [(ss "atom", ss "unparsable")].
Proof. vm_compute. reflexivity. Qed.

Lemma expected_grammar_closed_proof : grammar_closed expected_grammar = true.
Proof. vm_compute. reflexivity. Qed.

(* ------------------------------------------------------------------------------------------ *)
(* (ii) the lexicon                                                                             *)
(* ------------------------------------------------------------------------------------------ *)
Lemma lexicon_enum_pinned_proof : lexicon_eqb (lexicon_of_efmt FORMAT_ASCII) opennars_lexicon = true.
Proof. vm_compute. reflexivity. Qed.
Lemma lexicon_lex_pinned_proof : lexicon_eqb lex_ascii_lexicon opennars_lexicon = true.
Proof. vm_compute. reflexivity. Qed.
(* the lexical formatter lays out with the same brackets, separators and spaces as the enum one *)
Lemma layout_pinned_proof : layout_of_efmt FORMAT_ASCII = lex_ascii_layout.
Proof. vm_compute. reflexivity. Qed.
(* every literal of the grammar is a keyword of the lexicon (or a character of a copula) ... *)
Lemma grammar_literals_in_lexicon_proof :
  forallb (literal_in_lexicon opennars_lexicon) (grammar_literals readme_grammar) = true.
Proof. vm_compute. reflexivity. Qed.
(* ... and every keyword of the lexicon is accepted, whole, by the rule of the grammar for its class *)
Lemma lexicon_in_grammar_proof : lexicon_in_grammar readme_grammar opennars_lexicon = true.
Proof. vm_compute. reflexivity. Qed.

(* what lexicon_eqb = true means *)
Lemma set_eqb_incl {A} (eqb : A -> A -> bool) (a b : list A) :
  (forall x y, eqb x y = true -> x = y) -> set_eqb eqb a b = true -> incl a b /\ incl b a.
Proof.
  intros Heq H. unfold set_eqb in H. apply andb_true_iff in H as [H Hb]. apply andb_true_iff in H as [_ Ha].
  rewrite forallb_forall in Ha, Hb. split; intros x Hx.
  - apply Ha in Hx. apply existsb_exists in Hx as [y [Hy E]]. apply Heq in E. now subst.
  - apply Hb in Hx. apply existsb_exists in Hx as [y [Hy E]]. apply Heq in E. now subst.
Qed.

(* ------------------------------------------------------------------------------------------ *)
(* the known class K4: the witness is rejected by the grammar                                   *)
(* ------------------------------------------------------------------------------------------ *)
Lemma C11_K4_witness_proof :
  name_ok_readme ucls_tab (ss "a---b") = false /\
  k4_free (ss "a---b") = false /\
  readme_parse (ss "a---b") = RReject /\
  lfmt_term lex_ascii_layout (LAtom [] (ss "a---b")) = ss "a---b".
Proof. vm_compute. repeat split. Qed.

(* ------------------------------------------------------------------------------------------ *)
(* (iii) conformance                                                                            *)
(* ------------------------------------------------------------------------------------------ *)
(* what the proofs use of the Unicode classes *)
Record ucls_ok (ucls : uclass -> N -> bool) : Prop := {
  uo_ascii : forall k c, c < 128 -> ucls k c = ucls_tab k c;     (* exact on ASCII *)
  uo_disj : forall c, (ucls ULetter c || ucls UNumber c) = true ->
                      (ucls UPunctuation c || ucls USymbol c) = false;   (* L, N disjoint from P, S *)
  uo_nows : forall c, (ucls ULetter c || ucls UNumber c) = true -> ucls UWhiteSpace c = false
}.

(* the concrete tables satisfy it: disjointness of range tables by computation *)
Definition ranges_disjoint (a b : list (N * N)) : bool :=
  forallb (fun p => forallb (fun q => (snd p <? fst q) || (snd q <? fst p)) b) a.
Lemma ranges_disjoint_sound a b c :
  ranges_disjoint a b = true -> rng_mem a c = true -> rng_mem b c = false.
Proof.
  intros Hd Ha. destruct (rng_mem b c) eqn:Hb; [|reflexivity]. exfalso.
  unfold ranges_disjoint in Hd. rewrite forallb_forall in Hd.
  assert (Hin : forall l, rng_mem l c = true -> exists p, In p l /\ fst p <= c /\ c <= snd p).
  { induction l as [|[lo hi] l IH]; cbn [rng_mem]; [discriminate|]. intros H.
    apply orb_true_iff in H as [H|H].
    - apply andb_true_iff in H as [H1 H2]. apply N.leb_le in H1, H2. exists (lo, hi). cbn. auto.
    - destruct (IH H) as [p [Hp Hc]]. exists p. cbn. auto. }
  destruct (Hin a Ha) as [p [Hp [Hp1 Hp2]]]. destruct (Hin b Hb) as [q [Hq [Hq1 Hq2]]].
  specialize (Hd p Hp). rewrite forallb_forall in Hd. specialize (Hd q Hq).
  apply orb_true_iff in Hd as [H|H]; apply N.ltb_lt in H; lia.
Qed.

Lemma rng_mem_app a b c : rng_mem (a ++ b) c = rng_mem a c || rng_mem b c.
Proof.
  induction a as [|[lo hi] a IH]; cbn [rng_mem app]; [reflexivity|]. now rewrite IH, orb_assoc.
Qed.

Lemma ucls_tab_ok : ucls_ok ucls_tab.
Proof.
  assert (D1 : ranges_disjoint (letter_ranges ++ number_ranges) (punctuation_ranges ++ symbol_ranges) = true)
    by (vm_compute; reflexivity).
  assert (D2 : ranges_disjoint (letter_ranges ++ number_ranges) whitespace_ranges = true)
    by (vm_compute; reflexivity).
  split.
  - reflexivity.
  - intros c H. cbn [ucls_tab] in *. rewrite <- rng_mem_app in *. eapply ranges_disjoint_sound; eauto.
  - intros c H. cbn [ucls_tab] in *. rewrite <- rng_mem_app in *. eapply ranges_disjoint_sound; eauto.
Qed.
