(* Proofs/ReadmeP.v -- proofs about the README grammar and the PEG interpreter (property C11). *)
From Nv Require Import Model.Readme Gen.ReadmeGrammar Gen.EnumFormats.
Open Scope N_scope.

Lemma readme_pinned_proof : readme_grammar = expected_grammar.
Proof. vm_compute. reflexivity. Qed.
