(* Proofs/TypstInjP.v -- C16 part E4: injectivity of the term rendering.
   For a Debug printer that is injective, quote-initial, keeps whitespace-free names whitespace-free
   and leaves no whitespace but U+0020 (all proved below for [debug_str], Rust's `impl Debug for
   str`), two well-formed terms -- names without whitespace, image index within the component list,
   no placeholder inside an image's own component list (class K6) -- that render to the same text
   are the same term, component order included. *)
From Nv Require Export Proofs.TypstDecP.
From Nv Require Import Proofs.EqHashP Proofs.DecP.
From Coq Require Import Lia.

Definition is_unit (t : term) : bool := match t with TUnit _ => true | _ => false end.

(* well-formed for C16: whitespace-free names; image index <= length; no placeholder inside an
   image's own component list (that is class K6) *)
Fixpoint wf_term (t : term) : bool :=
  match t with
  | TName _ n => ws_free n
  | TUnit _ | TNum _ _ => true
  | TSet _ l | TVec _ l => forallb wf_term l
  | TImg _ i l => (i <=? nlen l) && forallb wf_term l && forallb (fun x => negb (is_unit x)) l
  | TBox1 _ a => wf_term a
  | TBox2 _ a b => wf_term a && wf_term b
  end.

(* ---- ImageIterator is injective on lists that do not contain the placeholder ---- *)
Lemma img_iter_past {A} (ph : A) l : forall now idx, idx < now -> ty_img_iter ph now idx l = l.
Proof.
  induction l as [|x l IH]; intros now idx H; cbn [ty_img_iter].
  - destruct (N.eqb_spec now idx); [lia | reflexivity].
  - destruct (N.eqb_spec now idx); [lia|]. f_equal. apply IH. lia.
Qed.

Lemma img_iter_inj {A} (ph : A) l : forall l' now idx idx',
  now <= idx -> now <= idx' -> idx - now <= nlen l -> idx' - now <= nlen l' ->
  ~ In ph l -> ~ In ph l' ->
  ty_img_iter ph now idx l = ty_img_iter ph now idx' l' -> idx = idx' /\ l = l'.
Proof.
  unfold nlen. induction l as [|x l IH]; intros l' now idx idx' H1 H2 H3 H4 Hp Hp' E.
  - cbn [length] in H3. assert (idx = now) by lia. subst idx. cbn [ty_img_iter] in E. rewrite N.eqb_refl in E.
    destruct l' as [|x' l']; cbn [ty_img_iter] in E; destruct (now =? idx') eqn:Q.
    + apply N.eqb_eq in Q. auto.
    + discriminate.
    + injection E as E. discriminate.
    + injection E as E _. subst x'. exfalso. apply Hp'. now left.
  - cbn [ty_img_iter] in E. destruct (now =? idx) eqn:Q1.
    + (* the placeholder is inserted here on the left *)
      apply N.eqb_eq in Q1. subst idx.
      destruct l' as [|x' l']; cbn [ty_img_iter] in E; destruct (now =? idx') eqn:Q2.
      * injection E as E. discriminate.
      * discriminate.
      * apply N.eqb_eq in Q2. subst idx'.
        injection E as E1 E2. rewrite !img_iter_past in E2 by lia. subst. auto.
      * injection E as E _. subst x'. exfalso. apply Hp'. now left.
    + apply N.eqb_neq in Q1.
      destruct l' as [|x' l']; cbn [ty_img_iter] in E; destruct (now =? idx') eqn:Q2.
      * injection E as E _. subst x. exfalso. apply Hp. now left.
      * discriminate.
      * injection E as E _. subst x. exfalso. apply Hp. now left.
      * apply N.eqb_neq in Q2. injection E as E1 E2. subst x'.
        cbn [length] in H3, H4. rewrite Nat2N.inj_succ in H3, H4.
        destruct (IH l' (now + 1) idx idx') as [-> ->]; auto; try lia.
        -- intros H. apply Hp. now right.
        -- intros H. apply Hp'. now right.
Qed.

Lemma map_inj_Forall {A B} (f : A -> B) (P : A -> Prop) l : forall l',
  Forall (fun x => forall y, P x -> P y -> f x = f y -> x = y) l ->
  Forall P l -> Forall P l' -> map f l = map f l' -> l = l'.
Proof.
  induction l as [|x l IH]; intros [|y l'] HI Hl Hl' E; cbn [map] in E; try discriminate; [reflexivity|].
  injection E as E1 E2. inversion HI; subst. inversion Hl; subst. inversion Hl'; subst.
  f_equal; auto.
Qed.

Section Inj.
  Variable to_debug : str -> str.
  Hypothesis Hdbg_sp : forall n, only_sp (to_debug n) = true.
  Hypothesis Hdbg_inj : forall n n', to_debug n = to_debug n' -> n = n'.
  Hypothesis Hdbg_q : forall n, q34 (to_debug n) = true.
  Hypothesis Hdbg_wsfree : forall n, ws_free n = true -> ws_free (to_debug n) = true.
  Hypothesis Hok : tok_tables_ok = true.
  Hypothesis Hdec : dec_tables_ok = true.

  Lemma dbg_token n : ws_free n = true -> words (to_debug n) = [to_debug n].
  Proof.
    intros H. apply words_token. pose proof (Hdbg_q n) as Hq. pose proof (Hdbg_wsfree n H) as Hw.
    destruct (to_debug n); [discriminate | exact Hw].
  Qed.

  Lemma show_N_ws_free i : ws_free (show_N i) = true.
  Proof.
    destruct (show_N_digits i) as [_ H]. unfold ws_free. rewrite forallb_forall. rewrite Forall_forall in H.
    intros c Hc. specialize (H c Hc). unfold is_ascii_digit in H. apply andb_true_iff in H as [H1 H2].
    apply N.leb_le in H1, H2. apply negb_true_iff.
    unfold is_ws, ws_ranges. cbn [rng_mem].
    repeat match goal with |- context [?a <=? ?b] => destruct (N.leb_spec a b); try lia end; reflexivity.
  Qed.

  Lemma wf_atom_words n : ws_free n = true -> exists q, words (to_debug n) = [q] /\ q34 q = true.
  Proof. intros H. exists (to_debug n). split; [now apply dbg_token | apply Hdbg_q]. Qed.

  Lemma skel_ph_wf : wf_d (skel_ph to_debug).
  Proof. unfold skel_ph. destruct (wf_atom_words [] eq_refl) as (q & -> & Hq). now constructor. Qed.

  Lemma cb_not_stmt b : cat_eqb (cb_cat b) CatCompound = true -> cb_stmt b = true -> False.
  Proof. unfold cb_stmt. destruct (cb_cat b); cbn; discriminate. Qed.

  Lemma kinds_compound t :
    match t with TSet _ _ | TVec _ _ | TImg _ _ _ | TBox1 _ _ => cat_eqb (category_of t) CatCompound = true | _ => True end.
  Proof.
    pose proof (kinds_ok_all Hok t) as H. unfold kinds_ok in H.
    do 4 (apply andb_true_iff in H as [H _]).
    destruct t; auto; try (now apply andb_true_iff in H as [H _]).
  Qed.

  Lemma skel_wf t : wf_term t = true -> wf_d (skel to_debug t).
  Proof.
    induction t as [c n|c|c i|c l IH|c l IH|c i l IH|c a IHa|c a b IHa IHb] using term_ind';
      cbn [wf_term skel]; intros H.
    - destruct (wf_atom_words n H) as (q & -> & Hq). now constructor.
    - destruct (wf_atom_words [] eq_refl) as (q & -> & Hq). now constructor.
    - destruct (wf_atom_words (show_N i) (show_N_ws_free i)) as (q & -> & Hq). now constructor.
    - constructor.
      + rewrite forallb_forall in H. rewrite Forall_forall in IH. apply Forall_forall. intros d Hd.
        apply in_map_iff in Hd as (x & <- & Hx). auto.
      + intros E. exfalso. exact (cb_not_stmt (CSet c) (kinds_compound (TSet c [])) E).
    - constructor.
      + rewrite forallb_forall in H. rewrite Forall_forall in IH. apply Forall_forall. intros d Hd.
        apply in_map_iff in Hd as (x & <- & Hx). auto.
      + intros E. exfalso. exact (cb_not_stmt (CVec c) (kinds_compound (TVec c [])) E).
    - apply andb_true_iff in H as [H _]. apply andb_true_iff in H as [_ H]. constructor.
      + apply img_iter_Forall; [apply skel_ph_wf|].
        rewrite forallb_forall in H. rewrite Forall_forall in IH. apply Forall_forall. intros d Hd.
        apply in_map_iff in Hd as (x & <- & Hx). auto.
      + intros E. exfalso. exact (cb_not_stmt (CImg c) (kinds_compound (TImg c 0 [])) E).
    - constructor; [constructor; auto|].
      intros E. exfalso. exact (cb_not_stmt (CBox1 c) (kinds_compound (TBox1 c placeholder)) E).
    - apply andb_true_iff in H as [Ha Hb]. constructor; [repeat constructor; auto | reflexivity].
  Qed.

  Lemma skel_not_ph x : is_unit x = false -> skel to_debug x <> skel_ph to_debug.
  Proof. destruct x; cbn [is_unit skel]; try discriminate; intros _; unfold skel_ph; discriminate. Qed.

  Lemma skel_inj a : forall b, wf_term a = true -> wf_term b = true ->
    skel to_debug a = skel to_debug b -> a = b.
  Proof.
    induction a as [c n|c|c i|c l IH|c l IH|c i l IH|c x IHx|c x y IHx IHy] using term_ind';
      intros b Ha Hb E; destruct b as [c' n'|c'|c' i'|c' l'|c' l'|c' i' l'|c' x'|c' x' y'];
      cbn [skel] in E; try discriminate E.
    - cbn [wf_term] in Ha, Hb. injection E as E1 E2. subst c'. rewrite (dbg_token n Ha), (dbg_token n' Hb) in E2.
      injection E2 as E2. now rewrite (Hdbg_inj _ _ E2).
    - injection E as E1. now subst.
    - injection E as E1 E2. subst c'.
      rewrite (dbg_token _ (show_N_ws_free i)), (dbg_token _ (show_N_ws_free i')) in E2.
      injection E2 as E2. apply Hdbg_inj in E2. now rewrite (show_N_inj _ _ E2).
    - injection E as E1 E2. subst c'. cbn [wf_term] in Ha, Hb. f_equal.
      apply (map_inj_Forall (skel to_debug) (fun t => wf_term t = true) l l'); auto.
      + apply Forall_forall. rewrite forallb_forall in Ha. exact Ha.
      + apply Forall_forall. rewrite forallb_forall in Hb. exact Hb.
    - injection E as E1 E2. subst c'. cbn [wf_term] in Ha, Hb. f_equal.
      apply (map_inj_Forall (skel to_debug) (fun t => wf_term t = true) l l'); auto.
      + apply Forall_forall. rewrite forallb_forall in Ha. exact Ha.
      + apply Forall_forall. rewrite forallb_forall in Hb. exact Hb.
    - injection E as E1 E2. subst c'. cbn [wf_term] in Ha, Hb.
      apply andb_true_iff in Ha as [Ha Ha3]. apply andb_true_iff in Ha as [Ha1 Ha2].
      apply andb_true_iff in Hb as [Hb Hb3]. apply andb_true_iff in Hb as [Hb1 Hb2].
      apply N.leb_le in Ha1, Hb1.
      assert (Np : forall l0, forallb (fun x => negb (is_unit x)) l0 = true -> ~ In (skel_ph to_debug) (map (skel to_debug) l0)).
      { intros l0 H0 Hin. apply in_map_iff in Hin as (x & Ex & Hx). rewrite forallb_forall in H0.
        specialize (H0 x Hx). apply negb_true_iff in H0. exact (skel_not_ph x H0 Ex). }
      destruct (img_iter_inj (skel_ph to_debug) (map (skel to_debug) l) (map (skel to_debug) l') 0 i i') as [Ei El]; auto; try lia.
      + unfold nlen in *. rewrite map_length. lia.
      + unfold nlen in *. rewrite map_length. lia.
      + subst i'. f_equal.
        apply (map_inj_Forall (skel to_debug) (fun t => wf_term t = true) l l'); auto.
        * apply Forall_forall. rewrite forallb_forall in Ha2. exact Ha2.
        * apply Forall_forall. rewrite forallb_forall in Hb2. exact Hb2.
    - injection E as E1 E2. subst c'. cbn [wf_term] in Ha, Hb. f_equal. now apply IHx.
    - injection E as E1 E2 E3. subst c'. cbn [wf_term] in Ha, Hb.
      apply andb_true_iff in Ha as [Ha1 Ha2]. apply andb_true_iff in Hb as [Hb1 Hb2].
      f_equal; [now apply IHx | now apply IHy].
  Qed.

  Theorem typst_injective_proof a b :
    wf_term a = true -> wf_term b = true ->
    typst_term to_debug a = typst_term to_debug b -> a = b.
  Proof.
    intros Ha Hb E. rewrite !(typst_tokens_proof to_debug Hdbg_sp Hok) in E. injection E as E.
    apply unwords_inj in E; try apply (toks_tokens to_debug Hdbg_sp Hok).
    unfold toks in E. apply (dflat_inj Hok Hdec) in E; auto using skel_wf.
    now apply skel_inj.
  Qed.

  (* the rendering determines the top constructor and the arity, even for ill-formed names as long
     as the skeletons are decodable *)
  Corollary typst_same_skeleton a b :
    wf_term a = true -> wf_term b = true ->
    typst_term to_debug a = typst_term to_debug b -> skel to_debug a = skel to_debug b.
  Proof. intros Ha Hb E. now rewrite (typst_injective_proof a b Ha Hb E). Qed.
End Inj.
