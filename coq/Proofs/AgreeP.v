(* Proofs/AgreeP.v -- C03 at the TERM level: the two parsing pipelines agree.

   For a surface tree t of an enum format E (Model/Sst.v: any spacing at every token boundary, plain or
   derived copulas, images written with their placeholder, intervals, prefix-only placeholders) with a
   documented meaning  odesugar t = Some v :

     (enum)     parse_term E (render E t)                          = POk v _        (Proofs/EnumTermP.v)
     (lexical)  lex_parse_term L s                                 = LOk (lex_tree E t)
                for EVERY text s whose whitespace-free form is that of t (in particular render E t itself,
                t re-spaced in any way, any Unicode White_Space characters inserted anywhere)
     (fold)     fold_term E (lex_tree E t)                         = FOk v

   hence  lex_then_fold L E s = FOk v  and the two pipelines return the same value.  L is the lexical
   format "of the same name": the boolean table condition agree_ok (Model/SstLex.v) ties the two records.
   The conditions on the atom NAMES are the enum-side unamb (Model/SstOk.v) of the tree as written and
   of the tree with every space removed (the lexical parser filters whitespace first, so it always reads
   the space-free text): the lexical unambiguity conditions of C02 are DERIVED from the latter.

   Parts:  1 the lexical term layer with prefix-only atoms (generalises Proofs/LexPTerm.v);
           2 render (respace 0 t) = the lexical formatter with empty spacing on lex_tree t;
           3 whitespace filtering;  4 lexical domain and unambiguity from the enum-side conditions;
           5 fold (lex_tree t) = odesugar t;  6 the agreement theorems;  7 tables and examples. *)
From Nv Require Import Model.SstLex Model.SstOf.
From Nv Require Import Proofs.LexPBase Proofs.LexPDict Proofs.LexPTerm.
From Nv Require Import Proofs.EqHashP Proofs.FoldP Proofs.FoldP2.
From Nv Require Import Proofs.EnumTotalP Proofs.EnumTermP Proofs.EnumTermCor Proofs.EnumFmtP.
From Coq Require Import Lia.
Import ListNotations.

(* ================================================================================== *)
(* 1. the lexical term layer with prefix-only atoms                                     *)
(* ================================================================================== *)
Section TermLayer2.
  Variable F : lfmt.
  Variable ia : N -> bool.
  Local Notation C := (compile F).
  Hypothesis Hok : lex_term_ok F ia = true.

  Local Notation cl := (cl F).
  Local Notation cr := (cr F).
  Local Notation sl := (sl F).
  Local Notation sr := (sr F).
  Local Notation sep := (LexSpec.sep F).
  Local Notation f0 := (f0 F).
  Local Notation comps_text := (comps_text F).

  (* a prefix-only atom: the name scan stops at once *)
  Lemma segment_atom_prefix_only p k :
    p <> [] -> LexSpec.atom_unamb F p [] k -> follow_ok F ia k = true ->
    segment_atom C ia (p ++ k) = LOk (LAtom p [], length p).
  Proof.
    intros Hp [Hpre _] Hk. cbn [app] in Hpre. unfold segment_atom. fold C in Hpre. rewrite Hpre. cbn [ok_or lbind].
    assert (Hrb : collect_some_prefix (p ++ k) (length p) (atom_verify C ia) = length p).
    { unfold collect_some_prefix. rewrite app_length.
      destruct (Nat.ltb_spec (length p) (length p + length k)) as [Hlt|Hge].
      - rewrite drop_app_length. destruct k as [|c k']; [cbn in Hlt; lia|]. cbn [csp_loop].
        replace (atom_verify C ia (c :: k')) with false; [reflexivity|]. symmetry.
        unfold atom_verify. change (c_fmt C) with F. unfold follow_ok in Hk. fold C in Hk. unfold ident in Hk.
        destruct (is_identifier F ia c); cbn [negb orb andb] in *; [|reflexivity].
        destruct (match_prefix (c_copulas C) (c :: k')); [reflexivity | discriminate].
      - destruct k; [cbn [length]; lia | cbn [length] in Hge; lia]. }
    rewrite Hrb. rewrite Nat.leb_refl. cbn [andb].
    replace (negb (LexParser.nonempty p)) with false by (destruct p; [congruence | reflexivity]).
    unfold slice. rewrite Nat.leb_refl. cbn [andb].
    replace (length p <=? length (p ++ k))%nat with true by (symmetry; apply Nat.leb_le; rewrite app_length; lia).
    cbn [lbind]. rewrite Nat.sub_diag. reflexivity.
  Qed.

  Lemma left_not_prefix b p r :
    In b (bracket_lefts F) -> In p (c_prefixes C) -> p <> [] -> starts b (p ++ r) = false.
  Proof. intros Hb Hp Hne. apply compat_false_starts. now apply (Gleft_prefix F ia Hok). Qed.

  Definition term_round2 (t : lterm) : Prop :=
    forall k fuel, lterm_ok ia F t = true -> LexSpec.unamb F t k -> follow_ok F ia k = true ->
      (length (f0 t ++ k) < fuel)%nat ->
      segment_term C ia fuel (f0 t ++ k) = LOk (t, length (f0 t)).

  Lemma rec_ok_seq_intro2 f right k : In right (bracket_rights F) ->
    forall ts, Forall term_round2 ts -> forallb (lterm_ok ia F) ts = true -> unamb_seq F ts (right ++ k) ->
    (length (comps_text ts ++ right ++ k) <= f)%nat ->
    rec_ok_seq F (segment_term C ia f) ts (right ++ k).
  Proof.
    intros Hr. induction ts as [|t r IH]; intros HF Hok' Hun Hlen; cbn [rec_ok_seq]; [exact I|].
    inversion HF as [|? ? Ht HFr]; subst. cbn [forallb] in Hok'. apply andb_true_iff in Hok' as [Hokt Hokr].
    destruct Hun as [Hut Hur]. rewrite comps_text_cons, <- !app_assoc in Hlen. rewrite app_length in Hlen.
    pose proof (sep_length F ia Hok) as Hs. split.
    - apply Ht; auto.
      + now apply (follow_comps F ia Hok).
      + lia.
    - apply IH; auto. rewrite app_length in Hlen. lia.
  Qed.

  Theorem segment_term_f0_2 : forall t, term_round2 t.
  Proof.
    induction t as [p n | c ts IHts | l ts rb IHts | c s p IHs IHp] using lterm_ind2;
      intros k fuel Hok' Hun Hk Hfuel; (destruct fuel as [|f]; [lia|]); cbn [segment_term].
    - (* atom *)
      cbn [lterm_ok] in Hok'. rewrite !andb_true_iff in Hok'. destruct Hok' as [[Hp Hid] Hne].
      apply str_in_In in Hp. fold C in Hp.
      change (LexSpec.f0 F (LAtom p n)) with (p ++ n). rewrite <- app_assoc.
      destruct n as [|c0 n0].
      + (* prefix-only *)
        cbn [LexParser.nonempty orb] in Hne. assert (Hpne : p <> []) by (destruct p; [discriminate | discriminate]).
        cbn [app].
        rewrite set_attempt_fails.
        2:{ intros b Hb. apply left_not_prefix; auto. unfold bracket_lefts. apply in_or_app. now left. }
        rewrite compound_attempt_fails by (apply left_not_prefix; auto; apply In_cl).
        rewrite statement_attempt_fails by (apply left_not_prefix; auto; apply In_sl).
        cbn [or_else]. rewrite app_nil_r. apply segment_atom_prefix_only; auto.
      + assert (Hn : LexParser.nonempty (c0 :: n0) = true) by reflexivity.
        rewrite set_attempt_fails.
        2:{ intros b Hb. apply (left_not_atom F ia Hok); auto. unfold bracket_lefts. apply in_or_app. now left. }
        rewrite compound_attempt_fails by (apply (left_not_atom F ia Hok); auto; apply In_cl).
        rewrite statement_attempt_fails by (apply (left_not_atom F ia Hok); auto; apply In_sl).
        cbn [or_else]. rewrite app_assoc, <- (app_assoc p (c0 :: n0) k). apply segment_atom_f0; auto.
    - (* compound *)
      cbn [lterm_ok] in Hok'. rewrite !andb_true_iff in Hok'. destruct Hok' as [[Hc Hne] Hts].
      apply str_in_In in Hc. fold C in Hc. destruct ts as [|t r]; [discriminate|].
      apply unamb_compound in Hun.
      rewrite f0_compound in *. rewrite <- !app_assoc in *.
      set (env := cl ++ c ++ comps_text (t :: r) ++ cr ++ k) in *.
      rewrite set_attempt_fails.
      2:{ intros b Hb. unfold env. apply compat_false_starts. now apply (Gset_cl F ia Hok). }
      cbn [or_else].
      assert (Hcomp : segment_compound C (segment_term C ia f) env =
                      LOk (LCompound c (t :: r), length (cl ++ c ++ comps_text (t :: r) ++ cr))).
      { unfold segment_compound. cbv zeta. change (c_fmt C) with F.
        change (fst (l_compound_brackets F)) with cl. change (snd (l_compound_brackets F)) with cr.
        unfold env at 1. rewrite starts_app.
        unfold env at 1. rewrite slice_from_pre by reflexivity. cbn [lbind].
        rewrite comps_text_cons at 1. rewrite <- !app_assoc.
        rewrite (match_prefix_first _ _ _ (Gconnecters F ia Hok) Hc). cbn [ok_or lbind].
        replace env with ((cl ++ c) ++ comps_text (t :: r) ++ cr ++ k) by (unfold env; now rewrite <- app_assoc).
        rewrite <- (app_length cl c).
        rewrite (seg_loop_f0 F ia Hok (segment_term C ia f) cr k (In_cr F) (t :: r)).
        - cbn [lbind fst snd rev app]. f_equal. f_equal. rewrite !app_length. lia.
        - pose proof (comps_text_length_ge F ia Hok (t :: r)). rewrite <- app_assoc, !app_length. cbn [length] in *. lia.
        - apply rec_ok_seq_intro2; auto; [apply In_cr|].
          unfold env in Hfuel. rewrite !app_length in *. pose proof (Gleft_first F ia Hok _ (In_cl F)) as Hl.
          apply first_is_length in Hl. lia. }
      rewrite Hcomp. reflexivity.
    - (* set *)
      cbn [lterm_ok] in Hok'. rewrite !andb_true_iff in Hok'. destruct Hok' as [[Hc Hne] Hts].
      apply pair_in_In in Hc. fold C in Hc. destruct ts as [|t r]; [discriminate|].
      apply unamb_set in Hun. destruct Hun as [Hut Hur].
      inversion IHts as [|? ? IHt IHr]; subst. cbn [forallb] in Hts. apply andb_true_iff in Hts as [Hokt Hokr].
      rewrite f0_set in *. rewrite <- !app_assoc in *.
      set (env := l ++ f0 t ++ comps_text r ++ rb ++ k) in *.
      pose proof (Gleft_first F ia Hok _ (In_setl F _ _ Hc)) as Hl. apply first_is_length in Hl.
      assert (Hset : segment_term_set C (segment_term C ia f) env =
                     LOk (LSet l (t :: r) rb, length (l ++ f0 t ++ comps_text r ++ rb))).
      { unfold segment_term_set. unfold env at 1. rewrite (pairwise_first_pair _ _ _ (Gsetlefts F ia Hok) Hc).
        cbn [ok_or lbind fst snd]. unfold env at 1. rewrite slice_from_pre by reflexivity. cbn [lbind].
        unfold term_round2 in IHt. rewrite IHt; auto.
        2:{ apply (follow_comps F ia Hok). eapply In_setr; eauto. }
        2:{ unfold env in Hfuel. rewrite !app_length in *. lia. }
        cbn [lbind fst snd].
        replace env with ((l ++ f0 t) ++ comps_text r ++ rb ++ k) by (unfold env; now rewrite <- app_assoc).
        rewrite <- (app_length l (f0 t)).
        rewrite (seg_loop_f0 F ia Hok (segment_term C ia f) rb k (In_setr F _ _ Hc) r).
        - cbn [lbind fst snd rev app]. f_equal. f_equal. rewrite !app_length. lia.
        - pose proof (comps_text_length_ge F ia Hok r). rewrite <- app_assoc, !app_length. lia.
        - apply rec_ok_seq_intro2; auto; [eapply In_setr; eauto|].
          unfold env in Hfuel. rewrite !app_length in *. lia. }
      rewrite Hset. reflexivity.
    - (* statement *)
      cbn [lterm_ok] in Hok'. rewrite !andb_true_iff in Hok'. destruct Hok' as [[Hc Hoks] Hokp].
      apply str_in_In in Hc. fold C in Hc. destruct Hun as [Hus Hup].
      rewrite f0_statement in *. rewrite <- !app_assoc in *.
      set (env := sl ++ f0 s ++ c ++ f0 p ++ sr ++ k) in *.
      pose proof (Gleft_first F ia Hok _ (In_sl F)) as Hl. apply first_is_length in Hl.
      rewrite set_attempt_fails.
      2:{ intros b Hb. unfold env. apply compat_false_starts. now apply (Gset_cl F ia Hok). }
      rewrite compound_attempt_fails by (unfold env; apply compat_false_starts; apply (Gcl_sl F ia Hok)).
      cbn [or_else].
      assert (Hst : segment_statement C (segment_term C ia f) env =
                    LOk (LStatement c s p, length (sl ++ f0 s ++ c ++ f0 p ++ sr))).
      { unfold segment_statement. cbv zeta. change (c_fmt C) with F.
        change (fst (l_statement_brackets F)) with sl. change (snd (l_statement_brackets F)) with sr.
        unfold env at 1. rewrite starts_app.
        unfold env at 1. rewrite slice_from_pre by reflexivity. cbn [lbind].
        unfold term_round2 in IHs, IHp. rewrite IHs; auto.
        2:{ now apply (follow_copula F ia Hok). }
        2:{ unfold env in Hfuel. rewrite !app_length in *. lia. }
        cbn [lbind fst snd].
        replace env with ((sl ++ f0 s) ++ c ++ f0 p ++ sr ++ k) at 1 by (unfold env; now rewrite <- app_assoc).
        rewrite slice_from_pre by now rewrite app_length. cbn [lbind].
        rewrite (pairwise_first _ _ (Gcopulas F ia Hok) Hc). cbn [ok_or lbind].
        replace env with ((sl ++ f0 s ++ c) ++ f0 p ++ sr ++ k) at 1 by (unfold env; now rewrite <- !app_assoc).
        rewrite slice_from_pre by (rewrite !app_length; lia). cbn [lbind].
        rewrite IHp; auto.
        2:{ apply follow_first. apply (Gright F ia Hok _ (In_sr F)). }
        2:{ unfold env in Hfuel. rewrite !app_length in *. lia. }
        cbn [lbind fst snd].
        replace env with ((sl ++ f0 s ++ c ++ f0 p) ++ sr ++ k) at 1 by (unfold env; now rewrite <- !app_assoc).
        rewrite slice_from_pre by (rewrite !app_length; lia). cbn [lbind].
        rewrite slice_starts_with_str_starts by apply (Gguard F ia Hok). rewrite starts_app.
        f_equal. f_equal. rewrite !app_length. lia. }
      rewrite Hst. reflexivity.
  Qed.
End TermLayer2.

(* ================================================================================== *)
(* 2.-4. surface trees of E read by the lexical format L                                *)
(* ================================================================================== *)
Lemma forallb_In {A} (f : A -> bool) l x : forallb f l = true -> In x l -> f x = true.
Proof. intros H. rewrite forallb_forall in H. apply H. Qed.

Lemma filter_app' {A} (f : A -> bool) l1 l2 : filter f (l1 ++ l2) = filter f l1 ++ filter f l2.
Proof. induction l1 as [|x l1 IH]; cbn [app filter]; [reflexivity|]. destruct (f x); cbn [app]; now rewrite IH. Qed.

Lemma filter_all_true {A} (f : A -> bool) l : forallb f l = true -> filter f l = l.
Proof.
  induction l as [|x l IH]; cbn [forallb filter]; [reflexivity|]. rewrite andb_true_iff. intros [Hx Hl].
  rewrite Hx. now rewrite IH.
Qed.

Lemma filter_all_false {A} (f : A -> bool) l : forallb (fun x => negb (f x)) l = true -> filter f l = [].
Proof.
  induction l as [|x l IH]; cbn [forallb filter]; [reflexivity|]. rewrite andb_true_iff, negb_true_iff. intros [Hx Hl].
  rewrite Hx. now apply IH.
Qed.

Lemma shape_ok_set ext a g items b :
  shape_ok (SSet ext a g items b) = true -> items <> [] /\ forallb shape_ok items = true.
Proof. cbn [shape_ok]. rewrite andb_true_iff. intros [H1 H2]. split; [|exact H2]. destruct items; [discriminate | discriminate]. Qed.
Lemma shape_ok_comp arm a g items b :
  shape_ok (SComp arm a g items b) = true ->
  (arm < length parse_compound_arms)%nat /\ items <> [] /\ forallb shape_ok items = true.
Proof.
  cbn [shape_ok]. rewrite !andb_true_iff. intros [[H0 H1] H2]. apply Nat.ltb_lt in H0. repeat split; [exact H0| |exact H2].
  destruct items; [discriminate | discriminate].
Qed.
Lemma shape_ok_stmt arm a b c d s p :
  shape_ok (SStmt arm a b c d s p) = true ->
  (arm < length parse_statement_arms)%nat /\ shape_ok s = true /\ shape_ok p = true.
Proof. cbn [shape_ok]. rewrite !andb_true_iff. intros [[H0 H1] H2]. apply Nat.ltb_lt in H0. tauto. Qed.
Lemma shape_ok_atom arm name : shape_ok (SAtom arm name) = true -> (arm < length parse_atom_arms)%nat.
Proof. cbn [shape_ok]. apply Nat.ltb_lt. Qed.

Lemma omap_some_each {A B} (f : A -> option B) l r : omap f l = Some r -> forall x, In x l -> exists y, f x = Some y.
Proof.
  revert r; induction l as [|a l IH]; intros r H x Hx; [destruct Hx|]. rewrite omap_cons in H.
  destruct (f a) as [y|] eqn:Ha; [|discriminate]. destruct (omap f l) as [ys|]; [|discriminate].
  destruct Hx as [<-|Hx]; [eauto | eapply IH; eauto].
Qed.

(* a tree that has a meaning is well-shaped *)
Lemma odesugar_shape_ok : forall t v, odesugar t = Some v -> shape_ok t = true.
Proof.
  induction t as [arm name|ext a g items b IH|arm a g items b IH|arm a b c d x y IHx IHy] using sterm_ind'; intros v Hv.
  - rewrite odesugar_atom in Hv. cbn [shape_ok]. apply Nat.ltb_lt. apply nth_error_Some.
    destruct (nth_error parse_atom_arms arm); [discriminate | discriminate].
  - rewrite odesugar_set in Hv. destruct (omap odesugar items) as [[|v0 vs]|] eqn:Ho; try discriminate.
    cbn [shape_ok]. apply andb_true_iff. split.
    + destruct items; [discriminate | reflexivity].
    + apply forallb_forall. intros z Hz. destruct (omap_some_each _ _ _ Ho z Hz) as [w Hw].
      rewrite Forall_forall in IH. exact (IH z Hz w Hw).
  - rewrite odesugar_comp in Hv. destruct (nth_error parse_compound_arms arm) as [[kw init]|] eqn:Hn; [|discriminate].
    destruct (omap odesugar items) as [[|v0 vs]|] eqn:Ho; try discriminate.
    cbn [shape_ok]. rewrite !andb_true_iff. repeat split.
    + apply Nat.ltb_lt. apply nth_error_Some. congruence.
    + destruct items; [discriminate | reflexivity].
    + apply forallb_forall. intros z Hz. destruct (omap_some_each _ _ _ Ho z Hz) as [w Hw].
      rewrite Forall_forall in IH. exact (IH z Hz w Hw).
  - rewrite odesugar_stmt in Hv. destruct (nth_error parse_statement_arms arm) as [[kw bd]|] eqn:Hn; [|discriminate].
    destruct (odesugar x) as [vx|] eqn:Hx; [|discriminate]. destruct (odesugar y) as [vy|] eqn:Hy; [|discriminate].
    cbn [shape_ok]. rewrite !andb_true_iff. repeat split; eauto.
    apply Nat.ltb_lt. apply nth_error_Some. congruence.
Qed.

Section AgreeTerm.
  Variable ia : N -> bool.
  Variable E : efmt.
  Variable L : lfmt.
  Local Notation C := (compile L).
  Hypothesis Hag : agree_ok ia E L = true.

  Local Notation esep := (compound_separator E).
  Local Notation zgaps := (fun _ : nat => (0%nat, 0%nat)).

  Lemma ag_parts : agree_brackets E L = true /\ agree_vocab E L = true /\ agree_prefix_order E L = true /\ agree_space ia E L = true.
  Proof. pose proof Hag as H. unfold agree_ok in H. rewrite !andb_true_iff in H. tauto. Qed.

  Lemma ag_brackets :
    cl L = compound_brackets_0 E /\ cr L = compound_brackets_1 E /\ LexSpec.sep L = esep /\
    sl L = statement_brackets_0 E /\ sr L = statement_brackets_1 E.
  Proof.
    destruct ag_parts as [H _]. unfold agree_brackets in H. rewrite !andb_true_iff, !str_eqb_eq in H.
    unfold cl, cr, sl, sr, LexSpec.sep. tauto.
  Qed.

  (* ---- 2. the space-free rendering is the lexical formatter's text with empty spacing ---- *)
  Lemma sp_zero : sp E 0 = [].
  Proof. reflexivity. Qed.

  Lemma gap_zero : gap E (0%nat, 0%nat) = esep.
  Proof. unfold gap. cbn [fst snd]. rewrite sp_zero. cbn [app]. apply app_nil_r. Qed.

  Lemma render_items_zero (r : sterm -> str) l : forall i,
    render_items E r zgaps true i l = concat (map (fun x => esep ++ r x) l).
  Proof.
    induction l as [|x l IH]; intros i; [reflexivity|].
    rewrite render_items_cons. cbn [map concat]. rewrite gap_zero, IH, <- app_assoc. reflexivity.
  Qed.

  (* the items of a re-spaced list, as the lexical component loop sees them *)
  Lemma render_items_respace0 l i :
    (forall x, In x l -> render E (respace 0 x) = f0 L (lex_tree E x)) ->
    render_items E (render E) zgaps true i (map (respace 0) l) = comps_text L (map (lex_tree E) l).
  Proof.
    destruct ag_brackets as (_ & _ & Hsep & _). rewrite render_items_zero. unfold comps_text. rewrite Hsep.
    induction l as [|x l IH]; intros H; [reflexivity|]. cbn [map concat].
    rewrite (H x (or_introl eq_refl)), IH; [reflexivity|]. intros y Hy. apply H. now right.
  Qed.

  Theorem render_respace0 : forall t, shape_ok t = true ->
    render E (respace 0 t) = f0 L (lex_tree E t).
  Proof.
    destruct ag_brackets as (Hcl & Hcr & Hsep & Hsl & Hsr).
    induction t as [arm name|ext a g items b IH|arm a g items b IH|arm a b c d x y IHx IHy] using sterm_ind';
      intros Hne; cbn [respace lex_tree] in *.
    - reflexivity.
    - apply shape_ok_set in Hne as [Hn Hall]. destruct items as [|x items]; [congruence|].
      rewrite render_set_eq, !sp_zero. cbn [map app]. rewrite render_items_cons. cbn [app].
      rewrite f0_set.
      inversion IH as [|? ? IHx IHl]; subst. cbn [forallb] in Hall. apply andb_true_iff in Hall as [Hx Hl].
      rewrite (IHx Hx), <- !app_assoc. f_equal. f_equal. f_equal.
      apply render_items_respace0. intros y Hy. rewrite Forall_forall in IHl. apply IHl; [exact Hy|].
      now apply (forallb_In _ _ _ Hl).
    - apply shape_ok_comp in Hne as (_ & Hn & Hall). destruct items as [|x items]; [congruence|].
      rewrite render_comp_eq, !sp_zero. cbn [map app].
      rewrite f0_compound, Hcl, Hcr. f_equal. f_equal. f_equal.
      apply (render_items_respace0 (x :: items)). intros y Hy. rewrite Forall_forall in IH. apply IH; [exact Hy|].
      now apply (forallb_In _ _ _ Hall).
    - apply shape_ok_stmt in Hne as (_ & Hx & Hy).
      rewrite render_stmt_eq, !sp_zero. cbn [app]. rewrite f0_statement, Hsl, Hsr, (IHx Hx), (IHy Hy). reflexivity.
  Qed.

  (* ---- 3. whitespace: what the lexical parser's filter leaves of ANY spacing of t ---- *)
  Local Notation strip := (LexSpec.strip L).

  Lemma ag_space :
    l_remove_spaces_before_parse L = true /\ allws L (space_parse E) = true /\
    (forall a, In a parse_atom_arms -> nows L (fst a E) = true) /\
    (forall a, In a parse_compound_arms -> nows L (fst a E) = true) /\
    (forall a, In a parse_statement_arms -> nows L (fst a E) = true) /\
    (forall s, In s [compound_brackets_0 E; compound_brackets_1 E; compound_separator E;
                     statement_brackets_0 E; statement_brackets_1 E;
                     set_lb E true; set_rb E true; set_lb E false; set_rb E false] -> nows L s = true) /\
    (forall c, name_charb ia E c = true -> space_for_parse L c = false).
  Proof.
    destruct ag_parts as (_ & _ & _ & H). unfold agree_space in H. rewrite !andb_true_iff in H.
    destruct H as [[[[[[[H1 H2] H3] H4] H5] H6] H7] _].
    split; [exact H1|]. split; [exact H2|].
    split; [intros a Ha; exact (forallb_In (fun a => nows L (fst a E)) _ a H3 Ha)|].
    split; [intros a Ha; exact (forallb_In (fun a => nows L (fst a E)) _ a H4 Ha)|].
    split; [intros a Ha; exact (forallb_In (fun a => nows L (fst a E)) _ a H5 Ha)|].
    split; [intros s Hs; exact (forallb_In (nows L) _ s H6 Hs)|].
    intros c Hc. destruct (space_for_parse L c) eqn:Hs; [|reflexivity]. exfalso.
    assert (Hin : In c white_space_points).
    { unfold space_for_parse in Hs. destruct (l_space_is_for_parse L). unfold is_whitespace in Hs. now apply memb_In. }
    pose proof (forallb_In _ _ _ H7 Hin) as H. cbn beta in H. rewrite Hs, Hc in H. discriminate.
  Qed.

  Lemma strip_app a b : strip (a ++ b) = strip a ++ strip b.
  Proof. apply filter_app'. Qed.

  Lemma strip_nows s : nows L s = true -> strip s = s.
  Proof. intros H. apply filter_all_true. exact H. Qed.

  Lemma strip_sp n : strip (sp E n) = [].
  Proof.
    destruct ag_space as (_ & Hsp & _). unfold sp. induction n as [|n IH]; [reflexivity|].
    cbn [rep]. rewrite strip_app, IH, app_nil_r. apply filter_all_false.
    unfold allws in Hsp. rewrite <- Hsp. apply forallb_ext'. intros c. now rewrite negb_involutive.
  Qed.

  Lemma strip_name n : forallb (name_charb ia E) n = true -> strip n = n.
  Proof.
    destruct ag_space as (_ & _ & _ & _ & _ & _ & Hn). intros H. apply filter_all_true.
    rewrite forallb_forall in *. intros c Hc. now rewrite (Hn c (H c Hc)).
  Qed.

  Lemma strip_atom_prefix arm : strip (atom_prefix E arm) = atom_prefix E arm.
  Proof.
    destruct ag_space as (_ & _ & H & _). unfold atom_prefix. destruct (nth_error parse_atom_arms arm) as [[p i]|] eqn:Hn; [|reflexivity].
    apply strip_nows. exact (H _ (nth_error_In _ _ Hn)).
  Qed.
  Lemma strip_comp_kw arm : strip (comp_kw E arm) = comp_kw E arm.
  Proof.
    destruct ag_space as (_ & _ & _ & H & _). unfold comp_kw. destruct (nth_error parse_compound_arms arm) as [[p i]|] eqn:Hn; [|reflexivity].
    apply strip_nows. exact (H _ (nth_error_In _ _ Hn)).
  Qed.
  Lemma strip_stmt_kw arm : strip (stmt_kw E arm) = stmt_kw E arm.
  Proof.
    destruct ag_space as (_ & _ & _ & _ & H & _). unfold stmt_kw. destruct (nth_error parse_statement_arms arm) as [[p i]|] eqn:Hn; [|reflexivity].
    apply strip_nows. exact (H _ (nth_error_In _ _ Hn)).
  Qed.
  Lemma strip_fixed s :
    In s [compound_brackets_0 E; compound_brackets_1 E; compound_separator E;
          statement_brackets_0 E; statement_brackets_1 E;
          set_lb E true; set_rb E true; set_lb E false; set_rb E false] -> strip s = s.
  Proof. destruct ag_space as (_ & _ & _ & _ & _ & H & _). intros Hs. apply strip_nows. now apply H. Qed.
  Lemma strip_set_lb ext : strip (set_lb E ext) = set_lb E ext.
  Proof. apply strip_fixed. destruct ext; cbn [In]; tauto. Qed.
  Lemma strip_set_rb ext : strip (set_rb E ext) = set_rb E ext.
  Proof. apply strip_fixed. destruct ext; cbn [In]; tauto. Qed.

  Lemma strip_gap g : strip (gap E g) = esep.
  Proof. unfold gap. rewrite !strip_app, !strip_sp, app_nil_r. cbn [app]. apply strip_fixed. cbn [In]. tauto. Qed.

  Lemma strip_items g l : forall lead i,
    Forall (fun x => strip (render E x) = render E (respace 0 x)) l ->
    strip (render_items E (render E) g lead i l) = render_items E (render E) zgaps lead i (map (respace 0) l).
  Proof.
    induction l as [|x l IH]; intros lead i HF; [reflexivity|]. inversion HF as [|? ? Hx Hl]; subst.
    cbn [map]. rewrite !render_items_cons, !strip_app, Hx, (IH true (S i) Hl). f_equal.
    destruct lead; [|reflexivity]. now rewrite strip_gap, gap_zero.
  Qed.

  Theorem strip_render : forall t, names_ok ia E t = true -> strip (render E t) = render E (respace 0 t).
  Proof.
    induction t as [arm name|ext a g items b IH|arm a g items b IH|arm a b c d x y IHx IHy] using sterm_ind';
      intros Hn; cbn [names_ok respace] in *.
    - cbn [render]. now rewrite strip_app, strip_atom_prefix, strip_name.
    - assert (HF : Forall (fun x => strip (render E x) = render E (respace 0 x)) items).
      { rewrite Forall_forall in *. intros x Hx. apply IH; [exact Hx|]. now apply (forallb_In _ _ _ Hn). }
      rewrite !render_set_eq, !strip_app, !strip_sp, strip_set_lb, strip_set_rb, (strip_items _ _ _ _ HF), !sp_zero. reflexivity.
    - assert (HF : Forall (fun x => strip (render E x) = render E (respace 0 x)) items).
      { rewrite Forall_forall in *. intros x Hx. apply IH; [exact Hx|]. now apply (forallb_In _ _ _ Hn). }
      rewrite !render_comp_eq, !strip_app, !strip_sp, strip_comp_kw, (strip_items _ _ _ _ HF), !sp_zero.
      rewrite !strip_fixed by (cbn [In]; tauto). reflexivity.
    - apply andb_true_iff in Hn as [Hx Hy].
      rewrite !render_stmt_eq, !strip_app, !strip_sp, strip_stmt_kw, (IHx Hx), (IHy Hy), !sp_zero.
      rewrite !strip_fixed by (cbn [In]; tauto). reflexivity.
  Qed.

  Lemma idealize_strip s : idealize_env C s = strip s.
  Proof. destruct ag_space as (H & _). unfold idealize_env. change (c_fmt C) with L. now rewrite H. Qed.

  (* the lexical parser sees the space-free text, whatever the spacing of t *)
  Corollary idealize_render t : names_ok ia E t = true -> idealize_env C (render E t) = render E (respace 0 t).
  Proof. intros H. rewrite idealize_strip. now apply strip_render. Qed.

  (* the Unicode clause of C09: inserting ANY White_Space characters ANYWHERE (in particular between
     tokens) does not change what the lexical parser works on *)
  Lemma idealize_insert_ws a w b : allws L w = true -> idealize_env C (a ++ w ++ b) = idealize_env C (a ++ b).
  Proof.
    intros Hw. rewrite !idealize_strip, !strip_app. f_equal.
    replace (strip w) with (@nil N); [reflexivity|]. symmetry. apply filter_all_false.
    unfold allws in Hw. rewrite <- Hw. apply forallb_ext'. intros c. now rewrite negb_involutive.
  Qed.

  (* ---- 4. the lexical domain and the lexical unambiguity conditions, from the enum side ---- *)
  Lemma ag_vocab :
    (forall a, In a parse_atom_arms -> In (fst a E) (c_prefixes C)) /\
    (forall a, In a parse_compound_arms -> In (fst a E) (c_connecters C)) /\
    (forall a, In a parse_statement_arms -> In (fst a E) (c_copulas C)) /\
    (forall ext, In (set_lb E ext, set_rb E ext) (c_set_brackets C)) /\
    (forall c, In c (c_copulas C) -> In c (gen_copulas E)) /\
    (forall c, ident L ia c = name_charb ia E c).
  Proof.
    destruct ag_parts as (_ & H & _). unfold agree_vocab in H. rewrite !andb_true_iff in H.
    destruct H as [[[[[[H1 H2] H3] H4] H5] H6] H7].
    split; [intros a Ha; apply str_in_In; exact (forallb_In (fun a => str_in (fst a E) (c_prefixes C)) _ a H1 Ha)|].
    split; [intros a Ha; apply str_in_In; exact (forallb_In (fun a => str_in (fst a E) (c_connecters C)) _ a H2 Ha)|].
    split; [intros a Ha; apply str_in_In; exact (forallb_In (fun a => str_in (fst a E) (c_copulas C)) _ a H3 Ha)|].
    split; [intros [|]; apply pair_in_In; assumption|].
    split; [intros c Hc; apply str_in_In; exact (forallb_In (fun c => str_in c (gen_copulas E)) _ c H6 Hc)|].
    intros c. unfold ident, is_identifier, name_charb. unfold ncs_eqb in H7. rewrite !andb_true_iff in H7.
    destruct H7 as [[Ha Hx] Hab]. apply Bool.eqb_prop in Ha. apply str_eqb_eq in Hx. rewrite Ha, Hx.
    destruct (nc_above (name_char E)) as [x|], (nc_above (l_is_identifier L)) as [y|]; try discriminate; [|reflexivity].
    apply N.eqb_eq in Hab. now subst.
  Qed.

  Lemma atom_prefix_in arm : (arm < length parse_atom_arms)%nat -> In (atom_prefix E arm) (c_prefixes C).
  Proof.
    intros H. unfold atom_prefix. destruct (nth_error parse_atom_arms arm) as [[p i]|] eqn:Hn.
    - destruct ag_vocab as (Hv & _). exact (Hv _ (nth_error_In _ _ Hn)).
    - apply nth_error_None in Hn. lia.
  Qed.
  Lemma comp_kw_in arm : (arm < length parse_compound_arms)%nat -> In (comp_kw E arm) (c_connecters C).
  Proof.
    intros H. unfold comp_kw. destruct (nth_error parse_compound_arms arm) as [[p i]|] eqn:Hn.
    - destruct ag_vocab as (_ & Hv & _). exact (Hv _ (nth_error_In _ _ Hn)).
    - apply nth_error_None in Hn. lia.
  Qed.
  Lemma stmt_kw_in arm : (arm < length parse_statement_arms)%nat -> In (stmt_kw E arm) (c_copulas C).
  Proof.
    intros H. unfold stmt_kw. destruct (nth_error parse_statement_arms arm) as [[p i]|] eqn:Hn.
    - destruct ag_vocab as (_ & _ & Hv & _). exact (Hv _ (nth_error_In _ _ Hn)).
    - apply nth_error_None in Hn. lia.
  Qed.

  Lemma In_str_in s d : In s d -> str_in s d = true.
  Proof. intros H. unfold str_in. apply existsb_exists. exists s. split; [exact H | apply str_eqb_refl]. Qed.
  Lemma In_pair_in (t : str * str) d : In t d -> pair_in t d = true.
  Proof. intros H. unfold pair_in. apply existsb_exists. exists t. split; [exact H | now rewrite !str_eqb_refl]. Qed.

  (* the name scan of the enum parser: what name_scan_ok says *)
  Lemma name_scan_ok_spec name k : name_scan_ok ia E name k = true ->
    forallb (name_charb ia E) name = true /\
    forall i, (i < length name)%nat -> copula_head_str E (drop i name ++ k) = false.
  Proof.
    induction name as [|c n IH]; cbn [name_scan_ok]; intros H.
    - split; [reflexivity | intros i Hi; cbn in Hi; lia].
    - rewrite !andb_true_iff, negb_true_iff in H. destruct H as [[Hc Hn] Hr]. destruct (IH Hr) as [Hall Hcop].
      split; [cbn [forallb]; now rewrite Hn, Hall|].
      intros [|i] Hi; [exact Hc|]. cbn [drop]. apply Hcop. cbn [length] in Hi. lia.
  Qed.

  Lemma sws_starts : forall c r, (length c <= length r)%nat -> sws r c = starts c r.
  Proof.
    induction c as [|x c IH]; intros r H; [destruct r; reflexivity|]. destruct r as [|y r]; [cbn in H; lia|].
    cbn [sws starts]. rewrite (N.eqb_sym y x). destruct (x =? y); cbn [andb]; [|reflexivity].
    apply IH. cbn [length] in H. lia.
  Qed.

  Lemma copula_head_false r c : copula_head_str E r = false -> In c (gen_copulas E) -> starts c r = false.
  Proof.
    (* whatever the value of the regenerated switch copula_lookahead_len_guard: a real match passes both *)
    unfold copula_head_str. intros H Hc.
    destruct (starts c r) eqn:Hs; [|reflexivity]. exfalso.
    assert (Hex : existsb (fun c0 => (if copula_lookahead_len_guard then (length c0 <=? length r)%nat else true)
                                     && EnumParser.starts_with_str r c0) (gen_copulas E) = true).
    { apply existsb_exists. exists c. split; [exact Hc|]. pose proof (starts_length _ _ Hs) as Hl.
      apply andb_true_iff. split; [destruct copula_lookahead_len_guard; [now apply Nat.leb_le | reflexivity]|].
      unfold EnumParser.starts_with_str.
      destruct c as [|x c]; [reflexivity|]. destruct r as [|y r]; [discriminate|]. now rewrite sws_starts. }
    congruence.
  Qed.

  (* the order of the two prefix tests *)
  Lemma match_prefix_tried dict p text :
    In p dict -> starts p text = true -> (forall q, In q (tried_before p dict) -> starts q text = false) ->
    match_prefix dict text = Some p.
  Proof.
    unfold match_prefix. induction dict as [|q d IH]; intros Hin Hs Hb; [destruct Hin|]. cbn [find tried_before] in *.
    destruct (str_eqb_spec q p) as [->|Hne]; [now rewrite Hs|].
    rewrite (Hb q (or_introl eq_refl)). apply IH; [|exact Hs|].
    - destruct Hin as [->|Hin]; [congruence | exact Hin].
    - intros q' Hq'. apply Hb. now right.
  Qed.

  Lemma no_start_In kws text q : no_start kws text = true -> In q kws -> starts q text = false.
  Proof. unfold no_start. intros H Hq. apply negb_true_iff. exact (forallb_In (fun kw => negb (starts kw text)) _ q H Hq). Qed.

  Lemma lex_atom_unamb forbid arm name k :
    (arm < length parse_atom_arms)%nat ->
    SstOk.atom_unamb ia E forbid arm name k = true -> LexSpec.atom_unamb L (atom_prefix E arm) name k.
  Proof.
    intros Harm H. unfold SstOk.atom_unamb in H. rewrite !andb_true_iff in H. destruct H as [[[_ _] Hearlier] Hscan].
    destruct (name_scan_ok_spec _ _ Hscan) as [_ Hcop]. split.
    - apply match_prefix_tried; [now apply atom_prefix_in | apply starts_app |].
      intros q Hq. destruct ag_parts as (_ & _ & Hord & _). unfold agree_prefix_order in Hord.
      assert (Hi : In arm (seq 0 (length parse_atom_arms))) by (apply in_seq; lia).
      pose proof (forallb_In _ _ _ Hord Hi) as H1. cbn beta zeta in H1.
      pose proof (forallb_In _ _ _ H1 Hq) as H2. cbn beta in H2. apply orb_true_iff in H2 as [H2|H2].
      + apply str_in_In in H2. now apply (no_start_In _ _ _ Hearlier).
      + now apply incompat_starts.
    - intros i Hi. apply match_prefix_none. intros q Hq. destruct ag_vocab as (_ & _ & _ & _ & Hsub & _).
      apply copula_head_false; [now apply Hcop | now apply Hsub].
  Qed.

  Lemma lex_unamb_items fb l : forall i tail,
    Forall (fun t => forall forbid k, shape_ok t = true ->
                     unamb_ctx ia E forbid (respace 0 t) k = true -> LexSpec.unamb L (lex_tree E t) k) l ->
    forallb shape_ok l = true ->
    unamb_items E (unamb_ctx ia E fb) (render E) zgaps i (map (respace 0) l) tail = true ->
    unamb_seq L (map (lex_tree E) l) tail.
  Proof.
    induction l as [|x l IH]; intros i tail HF Hok Hu; cbn [map unamb_seq]; [exact I|].
    cbn [map] in Hu. rewrite unamb_items_cons in Hu. apply andb_true_iff in Hu as [Hx Hl].
    inversion HF as [|? ? Hfx Hfl]; subst. cbn [forallb] in Hok. apply andb_true_iff in Hok as [Hokx Hokl]. split.
    - rewrite <- (render_items_respace0 l (S i)).
      + now apply (Hfx fb).
      + intros y Hy. apply render_respace0. exact (forallb_In _ _ _ Hokl Hy).
    - now apply (IH (S i)).
  Qed.

  (* the unambiguity conditions of the lexical term layer (C02) hold for the lexical reading of t as soon
     as the enum-side conditions hold for t written WITHOUT any space *)
  Theorem lex_unamb_of_enum : forall t forbid k, shape_ok t = true ->
    unamb_ctx ia E forbid (respace 0 t) k = true -> LexSpec.unamb L (lex_tree E t) k.
  Proof.
    destruct ag_brackets as (Hcl & Hcr & Hsep & Hsl & Hsr).
    induction t as [arm name|ext a g items b IH|arm a g items b IH|arm a b c d x y IHx IHy] using sterm_ind';
      intros forbid k Hok Hu; cbn [respace lex_tree unamb_ctx] in *.
    - cbn [LexSpec.unamb]. apply (lex_atom_unamb forbid); [exact (shape_ok_atom _ name Hok) | exact Hu].
    - apply shape_ok_set in Hok as [_ Hall]. apply unamb_set. rewrite sp_zero in Hu. cbn [app] in Hu.
      eapply lex_unamb_items; eauto.
    - apply shape_ok_comp in Hok as (_ & _ & Hall). apply unamb_compound. rewrite sp_zero in Hu. cbn [app] in Hu.
      rewrite Hcr. eapply lex_unamb_items; eauto.
    - apply shape_ok_stmt in Hok as (_ & Hx & Hy). apply andb_true_iff in Hu as [Hux Huy].
      rewrite !sp_zero in Hux, Huy. cbn [app] in Hux, Huy. cbn [LexSpec.unamb]. rewrite Hsr. split.
      + rewrite <- (render_respace0 y Hy). now apply (IHx [space_parse E]).
      + now apply (IHy [space_parse E]).
  Qed.

  (* names: the enum-side condition checks every character of every name *)
  Lemma unamb_names : forall t forbid k, unamb_ctx ia E forbid t k = true -> names_ok ia E t = true.
  Proof.
    assert (Hitems : forall fb g l, Forall (fun t => forall forbid k, unamb_ctx ia E forbid t k = true -> names_ok ia E t = true) l ->
              forall i tail, unamb_items E (unamb_ctx ia E fb) (render E) g i l tail = true -> forallb (names_ok ia E) l = true).
    { intros fb g l HF. induction HF as [|x l Hx _ IH]; intros i tail Hu; [reflexivity|].
      rewrite unamb_items_cons in Hu. apply andb_true_iff in Hu as [H1 H2]. cbn [forallb].
      rewrite (Hx _ _ H1), (IH _ _ H2). reflexivity. }
    induction t as [arm name|ext a g items b IH|arm a g items b IH|arm a b c d x y IHx IHy] using sterm_ind';
      intros forbid k Hu; cbn [unamb_ctx names_ok] in *.
    - unfold SstOk.atom_unamb in Hu. rewrite !andb_true_iff in Hu. destruct Hu as [_ Hs]. now apply name_scan_ok_spec in Hs.
    - eapply Hitems; eauto.
    - eapply Hitems; eauto.
    - apply andb_true_iff in Hu as [H1 H2]. now rewrite (IHx _ _ H1), (IHy _ _ H2).
  Qed.

  (* the lexical domain of the term layer *)
  Theorem lex_tree_ok : total_ok E = true -> forall t v,
    odesugar t = Some v -> names_ok ia E t = true -> lterm_ok ia L (lex_tree E t) = true.
  Proof.
    intros Htot. destruct ag_vocab as (_ & _ & _ & Hsets & _ & Hid).
    assert (Hitems : forall items vs,
              Forall (fun t => forall v, odesugar t = Some v -> names_ok ia E t = true -> lterm_ok ia L (lex_tree E t) = true) items ->
              omap odesugar items = Some vs -> forallb (names_ok ia E) items = true ->
              forallb (lterm_ok ia L) (map (lex_tree E) items) = true).
    { intros items vs HF Ho Hn. apply forallb_forall. intros z Hz. apply in_map_iff in Hz as [x [<- Hx]].
      destruct (omap_some_each _ _ _ Ho x Hx) as [w Hw]. rewrite Forall_forall in HF.
      exact (HF x Hx w Hw (forallb_In _ _ _ Hn Hx)). }
    induction t as [arm name|ext a g items b IH|arm a g items b IH|arm a b c d x y IHx IHy] using sterm_ind';
      intros v Hv Hn; pose proof (odesugar_shape_ok _ _ Hv) as Hshape; cbn [lex_tree lterm_ok names_ok] in *.
    - rewrite (In_str_in _ _ (atom_prefix_in arm (shape_ok_atom _ _ Hshape))). cbn [andb].
      replace (forallb (ident L ia) name) with (forallb (name_charb ia E) name) by (apply forallb_ext'; intros c; now rewrite Hid).
      rewrite Hn. cbn [andb]. rewrite odesugar_atom in Hv. unfold atom_prefix.
      destruct (nth_error parse_atom_arms arm) as [[p init]|] eqn:Harm; [|discriminate].
      destruct name as [|c0 n0]; [|reflexivity]. cbn [LexParser.nonempty orb].
      destruct init as [c|c|c]; cbn [atom_value] in Hv; try discriminate.
      pose proof (ok_atoms unit tt (fun _ => true) E Htot) as Hu.
      pose proof (forallb_In _ _ _ Hu (nth_error_In _ _ Harm)) as H1. cbn [snd fst] in H1.
      destruct (p E); [discriminate | reflexivity].
    - rewrite odesugar_set in Hv. destruct (omap odesugar items) as [[|v0 vs]|] eqn:Ho; try discriminate.
      rewrite (In_pair_in _ _ (Hsets ext)). cbn [andb]. rewrite (Hitems _ _ IH Ho Hn), andb_true_r.
      apply shape_ok_set in Hshape as [Hne _]. destruct items; [congruence | reflexivity].
    - rewrite odesugar_comp in Hv. destruct (nth_error parse_compound_arms arm) as [[kw init]|] eqn:Harm; [|discriminate].
      destruct (omap odesugar items) as [[|v0 vs]|] eqn:Ho; try discriminate.
      apply shape_ok_comp in Hshape as (Hlt & Hne & _).
      rewrite (In_str_in _ _ (comp_kw_in arm Hlt)). cbn [andb]. rewrite (Hitems _ _ IH Ho Hn), andb_true_r.
      destruct items; [congruence | reflexivity].
    - rewrite odesugar_stmt in Hv. destruct (nth_error parse_statement_arms arm) as [[kw bd]|] eqn:Harm; [|discriminate].
      destruct (odesugar x) as [vx|] eqn:Hx; [|discriminate]. destruct (odesugar y) as [vy|] eqn:Hy; [|discriminate].
      apply shape_ok_stmt in Hshape as (Hlt & _ & _). apply andb_true_iff in Hn as [Hnx Hny].
      rewrite (In_str_in _ _ (stmt_kw_in arm Hlt)), (IHx _ eq_refl Hnx), (IHy _ eq_refl Hny). reflexivity.
  Qed.
End AgreeTerm.

(* ================================================================================== *)
(* 5. folding the lexical reading of a surface tree gives its documented meaning        *)
(* ================================================================================== *)
(* static (format-independent) facts of the regenerated tables; an edited table makes these fail *)
Lemma term_eqb_placeholder x : term_eqb x placeholder = is_placeholder x.
Proof. destruct x as [| c | | | | | |]; try reflexivity. destruct c; reflexivity. Qed.
Lemma setnamek_name_replace c : setnamek_name c = SnReplace.
Proof. destruct c; reflexivity. Qed.
Lemma setnamek_num_parse c : setnamek_num c = SnParseUInt.
Proof. destruct c; reflexivity. Qed.
Lemma fillk_img_image c : fillk_img c = FillImage.
Proof. destruct c; reflexivity. Qed.
(* the enum parser's unit arms are keyed by the prefix the fold exempts from its empty-name check *)
Lemma unit_arms_exempt :
  Forall (fun gi => match snd gi with AIUnit _ => fold_atom_empty_name_exempt = Some (fst gi) | _ => True end) parse_atom_arms.
Proof. repeat constructor. Qed.

(* the enum parser's placeholder search (by ==) and the fold's (by pattern) find the same position *)
Lemma split_to_terms l : forall i j r,
  split_placeholder i l = Some (j, r) -> to_terms_with_image i l = (Some j, r).
Proof.
  induction l as [|x l IH]; intros i j r; cbn [split_placeholder to_terms_with_image]; [discriminate|].
  rewrite term_eqb_placeholder. destruct (is_placeholder x).
  - intros H. injection H as <- <-. reflexivity.
  - destruct (split_placeholder (i + 1) l) as [[j' r']|] eqn:Hs; [|discriminate].
    intros H. injection H as <- <-. now rewrite (IH _ _ _ Hs).
Qed.

Section FoldTree.
  Variable E : efmt.
  Hypothesis Hd : fold_kw_distinct E = true.

  Lemma fold_atom_arm g init name v :
    In (g, init) parse_atom_arms -> atom_value init name = Some v -> fold_atom E (g E) name = FOk v.
  Proof.
    intros Hin Hv.
    pose proof atom_arms_parser_to_fold as Hpf. rewrite Forall_forall in Hpf. destruct (Hpf _ Hin) as [a [Ha Hm]].
    cbn [fst snd] in Ha, Hm. pose proof (fold_atom_kw E Hd _ _ Ha) as Hfirst.
    pose proof unit_arms_exempt as Hex. rewrite Forall_forall in Hex. specialize (Hex _ Hin). cbn [fst snd] in Hex.
    unfold fold_atom. destruct init as [c|c|c]; destruct a as [c'|c'|c']; cbn [atom_match] in Hm; try discriminate.
    - apply name_ctor_eqb_eq in Hm. subst c'. cbn [atom_value atom_of_init] in Hv.
      destruct name as [|x n]; [discriminate|]. unfold set_atom_name in Hv. cbn [setnamek_of] in Hv.
      rewrite setnamek_name_replace in Hv. injection Hv as <-.
      destruct fold_atom_empty_name_exempt; now rewrite Hfirst.
    - apply unit_ctor_eqb_eq in Hm. subst c'. cbn [atom_value] in Hv. injection Hv as <-.
      rewrite Hex. destruct name; [rewrite str_eqb_refl; cbn [negb]|]; now rewrite Hfirst.
    - apply num_ctor_eqb_eq in Hm. subst c'. cbn [atom_value atom_of_init] in Hv.
      destruct name as [|x n]; [discriminate|]. unfold set_atom_name in Hv. cbn [setnamek_of] in Hv.
      rewrite setnamek_num_parse in Hv.
      destruct fold_atom_empty_name_exempt; rewrite Hfirst; destruct (read_usize (x :: n)); try discriminate;
        injection Hv as <-; reflexivity.
  Qed.

  Lemma fold_compound_arm g init ts v :
    In (g, init) parse_compound_arms -> fill_pure init ts = Some v -> fold_compound E (g E) ts = FOk v.
  Proof.
    intros Hin Hv.
    pose proof compound_arms_parser_to_fold as Hpf. rewrite Forall_forall in Hpf. destruct (Hpf _ Hin) as [a [Ha Hm]].
    cbn [fst snd] in Ha, Hm. unfold fold_compound. rewrite (fold_compound_kw E Hd _ _ Ha).
    unfold fill_pure in Hv.
    destruct init as [c|c|c|c|c]; destruct a as [c'|c'|c'|c'|c']; cbn [comp_match] in Hm; try discriminate;
      cbn [comp_fill_kind comp_initial] in Hv.
    - apply set_ctor_eqb_eq in Hm. subst c'. destruct (fillk_set c); try discriminate.
      unfold push_components in Hv. cbn [pushk_of] in Hv. destruct (pushk_set c); try discriminate. now injection Hv as <-.
    - apply vec_ctor_eqb_eq in Hm. subst c'. destruct (fillk_vec c); try discriminate.
      unfold push_components in Hv. cbn [pushk_of] in Hv. destruct (pushk_vec c); try discriminate. now injection Hv as <-.
    - apply img_ctor_eqb_eq in Hm. subst c'. rewrite fillk_img_image in Hv.
      destruct (split_placeholder 0 ts) as [[idx rest]|] eqn:Hs; [|discriminate]. injection Hv as <-.
      unfold to_image_with_placeholder. pose proof (split_to_terms _ _ _ _ Hs) as Ht. rewrite Ht.
      apply new_image_no_panic; [exact fold_static_ok_true|]. apply to_terms_with_image_index in Ht. lia.
    - apply box1_ctor_eqb_eq in Hm. subst c'. destruct (fillk_box1 c); try discriminate.
      + destruct ts as [|x [|y ts]]; try discriminate. now injection Hv as <-.
      + unfold push_components in Hv. cbn [pushk_of] in Hv. destruct (pushk_box1 c); discriminate.
    - apply box2_ctor_eqb_eq in Hm. subst c'. destruct (fillk_box2 c); try discriminate.
      + destruct ts as [|x [|y [|z ts]]]; try discriminate. now injection Hv as <-.
      + unfold push_components in Hv. cbn [pushk_of] in Hv. destruct (pushk_box2 c); discriminate.
  Qed.

  Lemma fold_statement_arm g b s p :
    In (g, b) parse_statement_arms -> fold_statement E s (g E) p = FOk (build_statement b s p).
  Proof.
    intros Hin.
    pose proof statement_arms_parser_to_fold as Hpf. rewrite Forall_forall in Hpf. destruct (Hpf _ Hin) as [b' [Hb Hm]].
    cbn [fst snd] in Hb, Hm. rewrite (fold_statement_kw E Hd _ _ s p Hb). f_equal.
    destruct b as [c|h]; destruct b' as [c'|h']; cbn [stmt_match] in Hm; try discriminate.
    - apply box2_ctor_eqb_eq in Hm. now subst.
    - destruct h, h'; try discriminate; reflexivity.
  Qed.

  Lemma fold_terms_omap items vs :
    Forall (fun t => forall v, odesugar t = Some v -> fold_term E (lex_tree E t) = FOk v) items ->
    omap odesugar items = Some vs -> fold_terms E (map (lex_tree E) items) = FOk vs.
  Proof.
    intros HF. revert vs. induction HF as [|x l Hx _ IH]; intros vs Ho.
    - cbn [omap] in Ho. injection Ho as <-. reflexivity.
    - rewrite omap_cons in Ho. destruct (odesugar x) as [v|] eqn:Hv; [|discriminate].
      destruct (omap odesugar l) as [ys|]; [|discriminate]. injection Ho as <-.
      cbn [map]. rewrite fold_terms_cons, (Hx v eq_refl). cbn [fbind]. rewrite (IH ys eq_refl). reflexivity.
  Qed.

  (* C03, fold third, for EVERY surface tree (plain or derived copulas, images, intervals, placeholders
     with trailing text): folding its lexical reading returns its documented meaning *)
  Theorem fold_lex_tree : forall t v, odesugar t = Some v -> fold_term E (lex_tree E t) = FOk v.
  Proof.
    induction t as [arm name|ext a g items b IH|arm a g items b IH|arm a b c d x y IHx IHy] using sterm_ind';
      intros v Hv; cbn [lex_tree].
    - rewrite odesugar_atom in Hv. rewrite fold_term_atom. unfold atom_prefix.
      destruct (nth_error parse_atom_arms arm) as [[p init]|] eqn:Harm; [|discriminate].
      apply (fold_atom_arm p init); [exact (nth_error_In _ _ Harm) | exact Hv].
    - rewrite odesugar_set in Hv. destruct (omap odesugar items) as [[|v0 vs]|] eqn:Ho; try discriminate.
      injection Hv as <-. rewrite fold_term_set, (fold_terms_omap _ _ IH Ho). cbn [fbind].
      destruct ext; cbn [set_lb set_rb].
      + exact (fold_set_kw E Hd _ _ _ _ arm_set_extension).
      + exact (fold_set_kw E Hd _ _ _ _ arm_set_intension).
    - rewrite odesugar_comp in Hv. unfold comp_kw.
      destruct (nth_error parse_compound_arms arm) as [[kw init]|] eqn:Harm; [|discriminate].
      destruct (omap odesugar items) as [[|v0 vs]|] eqn:Ho; try discriminate.
      rewrite fold_term_compound, (fold_terms_omap _ _ IH Ho). cbn [fbind].
      apply (fold_compound_arm kw init); [exact (nth_error_In _ _ Harm) | exact Hv].
    - rewrite odesugar_stmt in Hv. unfold stmt_kw.
      destruct (nth_error parse_statement_arms arm) as [[kw bd]|] eqn:Harm; [|discriminate].
      destruct (odesugar x) as [vx|] eqn:Hx; [|discriminate]. destruct (odesugar y) as [vy|] eqn:Hy; [|discriminate].
      injection Hv as <-. rewrite fold_term_statement, (IHx _ eq_refl), (IHy _ eq_refl). cbn [fbind].
      apply fold_statement_arm. exact (nth_error_In _ _ Harm).
  Qed.
End FoldTree.

(* ================================================================================== *)
(* 6. the agreement theorems                                                            *)
(* ================================================================================== *)
(* all table conditions: E and L are same-named (agree_ok), the enum term parser's decision points are
   unambiguous (parse_ok), the lexical term layer's are (lex_term_ok), the fold's keywords are distinct *)
Definition agree_all (ia : N -> bool) (E : efmt) (L : lfmt) : bool :=
  agree_ok ia E L && parse_ok E && lex_term_ok L ia && fold_kw_distinct E.

Lemma forallb_ext_In {A} (f g : A -> bool) l : (forall x, In x l -> f x = g x) -> forallb f l = forallb g l.
Proof.
  induction l as [|x l IH]; intros H; cbn [forallb]; [reflexivity|].
  rewrite (H x (or_introl eq_refl)), IH; [reflexivity|]. intros y Hy. apply H. now right.
Qed.

Lemma names_ok_respace ia E n : forall t, names_ok ia E (respace n t) = names_ok ia E t.
Proof.
  induction t as [arm name|ext a g items b IH|arm a g items b IH|arm a b c d x y IHx IHy] using sterm_ind';
    cbn [respace names_ok]; try reflexivity.
  - rewrite forallb_map. apply forallb_ext_In. rewrite Forall_forall in IH. exact IH.
  - rewrite forallb_map. apply forallb_ext_In. rewrite Forall_forall in IH. exact IH.
  - now rewrite IHx, IHy.
Qed.

Lemma respace_respace n m : forall t, respace n (respace m t) = respace n t.
Proof.
  induction t as [arm name|ext a g items b IH|arm a g items b IH|arm a b c d x y IHx IHy] using sterm_ind';
    cbn [respace]; try reflexivity.
  - f_equal. rewrite map_map. apply map_ext_in. rewrite Forall_forall in IH. exact IH.
  - f_equal. rewrite map_map. apply map_ext_in. rewrite Forall_forall in IH. exact IH.
  - now rewrite IHx, IHy.
Qed.

Lemma odesugar_respace n t : odesugar (respace n t) = odesugar t.
Proof. apply same_shape_meaning. apply same_shape_respace. Qed.

Lemma idealize_length C s : (length (idealize_env C s) <= length s)%nat.
Proof. unfold idealize_env. destruct (l_remove_spaces_before_parse (c_fmt C)); [apply filter_length_le | lia]. Qed.

Section Agreement.
  Variable F : Type.
  Variable ia : N -> bool.
  Variable E : efmt.
  Variable L : lfmt.
  Hypothesis Hall : agree_all ia E L = true.

  Lemma all_parts : agree_ok ia E L = true /\ parse_ok E = true /\ lex_term_ok L ia = true /\ fold_kw_distinct E = true.
  Proof. pose proof Hall as H. unfold agree_all in H. rewrite !andb_true_iff in H. tauto. Qed.

  Lemma all_total : total_ok E = true.
  Proof.
    destruct all_parts as (_ & H & _). exact (pk_total E H).
  Qed.

  (* (lexical) -- for EVERY text whose whitespace-free form is that of t *)
  Theorem lex_parse_term_tree t v s :
    odesugar t = Some v -> SstOk.unamb ia E (respace 0 t) [] = true ->
    idealize_env (compile L) s = render E (respace 0 t) ->
    lex_parse_term ia L s = LOk (lex_tree E t).
  Proof.
    intros Hv Hu Hs. destruct all_parts as (Hag & _ & Hlt & _).
    pose proof (odesugar_shape_ok _ _ Hv) as Hshape.
    assert (Hn : names_ok ia E t = true).
    { rewrite <- (names_ok_respace ia E 0). exact (unamb_names ia E _ _ _ Hu). }
    unfold lex_parse_term, lex_parse_term_fuel. rewrite Hs, (render_respace0 ia E L Hag t Hshape).
    rewrite <- (app_nil_r (f0 L (lex_tree E t))).
    rewrite (segment_term_f0_2 L ia Hlt (lex_tree E t) [] (lex_fuel s)); [reflexivity| | |reflexivity|].
    - exact (lex_tree_ok ia E L Hag all_total t v Hv Hn).
    - exact (lex_unamb_of_enum ia E L Hag t [] [] Hshape Hu).
    - rewrite app_nil_r, <- (render_respace0 ia E L Hag t Hshape), <- Hs. unfold lex_fuel.
      pose proof (idealize_length (compile L) s). lia.
  Qed.

  (* step 4 of the plan: the text of t itself, with its own spacing *)
  Corollary lex_parse_term_render t v :
    odesugar t = Some v -> SstOk.unamb ia E (respace 0 t) [] = true ->
    lex_parse_term ia L (render E t) = LOk (lex_tree E t).
  Proof.
    intros Hv Hu. destruct all_parts as (Hag & _). apply (lex_parse_term_tree t v); auto.
    apply (idealize_render ia E L Hag). rewrite <- (names_ok_respace ia E 0). exact (unamb_names ia E _ _ _ Hu).
  Qed.

  (* (lexical + fold) *)
  Theorem lex_then_fold_tree t v s :
    odesugar t = Some v -> SstOk.unamb ia E (respace 0 t) [] = true ->
    idealize_env (compile L) s = render E (respace 0 t) ->
    lex_then_fold ia L E s = FOk v.
  Proof.
    intros Hv Hu Hs. destruct all_parts as (_ & _ & _ & Hd). unfold lex_then_fold.
    rewrite (lex_parse_term_tree t v s Hv Hu Hs). cbn [lres_fold]. now apply fold_lex_tree.
  Qed.

  (* (enum) -- restated from Proofs/EnumTermCor.v for a fresh parser state on exactly the text of t *)
  Theorem enum_parse_term_tree t v :
    odesugar t = Some v -> SstOk.unamb ia E t [] = true ->
    parse_term F ia E (new_state F (render E t)) =
    POk v (step F (length (render E t)) (new_state F (render E t))).
  Proof.
    intros Hv Hu. destruct all_parts as (_ & Hp & _).
    apply (parse_term_render F ia E Hp t v [] _ _ Hv Hu (wf_new_state F _)). cbn [new_state s_rest]. now rewrite app_nil_r.
  Qed.

  (* C03 for terms: BOTH pipelines return the documented meaning of the tree, whatever its spacing *)
  Theorem agree_term t v :
    odesugar t = Some v -> SstOk.unamb ia E t [] = true -> SstOk.unamb ia E (respace 0 t) [] = true ->
    parse_term F ia E (new_state F (render E t)) =
      POk v (step F (length (render E t)) (new_state F (render E t))) /\
    lex_then_fold ia L E (render E t) = FOk v.
  Proof.
    intros Hv Hu Hu0. split; [now apply enum_parse_term_tree|]. destruct all_parts as (Hag & _).
    apply (lex_then_fold_tree t v); auto.
    apply (idealize_render ia E L Hag). rewrite <- (names_ok_respace ia E 0). exact (unamb_names ia E _ _ _ Hu0).
  Qed.

  (* ... hence they agree (of_door: POk v _ => FOk v, PErr => FErr, otherwise FPanic) *)
  Corollary agree_term_eq t v :
    odesugar t = Some v -> SstOk.unamb ia E t [] = true -> SstOk.unamb ia E (respace 0 t) [] = true ->
    of_door F (parse_term F ia E (new_state F (render E t))) = lex_then_fold ia L E (render E t).
  Proof. intros Hv Hu Hu0. destruct (agree_term t v Hv Hu Hu0) as [-> ->]. reflexivity. Qed.

  (* C09, both pipelines: n spaces at every token boundary (n = 0: all spaces removed) *)
  Corollary agree_term_respace n t v :
    odesugar t = Some v -> SstOk.unamb ia E (respace n t) [] = true -> SstOk.unamb ia E (respace 0 t) [] = true ->
    parse_term F ia E (new_state F (render E (respace n t))) =
      POk v (step F (length (render E (respace n t))) (new_state F (render E (respace n t)))) /\
    lex_then_fold ia L E (render E (respace n t)) = FOk v.
  Proof.
    intros Hv Hu Hu0. apply agree_term; [now rewrite odesugar_respace | exact Hu | now rewrite respace_respace].
  Qed.

  (* C09, lexical pipeline, Unicode clause: any text obtained from the space-free text of t by inserting
     White_Space characters ANYWHERE the filter removes them -- between tokens in particular -- is read
     as t.  ([idealize_insert_ws]: inserting a whitespace string w anywhere leaves idealize_env unchanged.) *)
  Corollary lex_then_fold_ws t v a b w :
    odesugar t = Some v -> SstOk.unamb ia E (respace 0 t) [] = true ->
    render E (respace 0 t) = a ++ b -> allws L w = true ->
    lex_then_fold ia L E (a ++ w ++ b) = FOk v.
  Proof.
    intros Hv Hu Hab Hw. destruct all_parts as (Hag & _). apply (lex_then_fold_tree t v); auto.
    rewrite (idealize_insert_ws ia E L Hag a w b Hw), <- Hab.
    rewrite <- (respace_respace 0 0 t) at 2. apply (idealize_render ia E L Hag).
    exact (unamb_names ia E _ _ _ Hu).
  Qed.

  (* the formatter's own output: t := the canonical surface tree of a well-formed enum term *)
  Corollary agree_term_fmt x :
    fmt_space_ok E = true -> arms_cover E = true ->
    wf_term ia E x = true ->
    SstOk.unamb ia E (sst E x) [] = true -> SstOk.unamb ia E (respace 0 (sst E x)) [] = true ->
    parse_term F ia E (new_state F (fmt_term E x)) =
      POk x (step F (length (fmt_term E x)) (new_state F (fmt_term E x))) /\
    lex_then_fold ia L E (fmt_term E x) = FOk x.
  Proof.
    intros Hsp Hcov Hw Hu Hu0. destruct (sst_spec ia E Hsp Hcov x Hw) as (_ & Hd & ->). now apply agree_term.
  Qed.
End Agreement.

(* ================================================================================== *)
(* 7. the regenerated tables, and non-vacuity                                           *)
(* ================================================================================== *)
From Nv Require Import Proofs.LexPTables.

(* ASCII with ASCII, LaTeX with LaTeX, Han with Han; char::is_alphanumeric = the table dumped from std *)
Lemma shipped_agree_all : forallb (fun p => agree_all std_alnum (fst p) (snd p)) shipped_pairs = true.
Proof. vm_compute. reflexivity. Qed.

Lemma shipped_agree_all_In E L : In (E, L) shipped_pairs -> agree_all std_alnum E L = true.
Proof. intros H. exact (forallb_In (fun p => agree_all std_alnum (fst p) (snd p)) _ (E, L) shipped_agree_all H). Qed.

(* the check is not vacuous: formats of different names do not pass it, and a name-character oracle that
   accepts a whitespace character does not either *)
Lemma agree_ok_discriminates :
  agree_ok std_alnum FORMAT_ASCII LEX_LATEX = false /\ agree_ok std_alnum FORMAT_HAN LEX_ASCII = false /\
  agree_ok (fun _ => true) FORMAT_ASCII LEX_ASCII = false.
Proof. vm_compute. repeat split; reflexivity. Qed.

Theorem agree_term_shipped (F : Type) E L t v :
  In (E, L) shipped_pairs ->
  odesugar t = Some v -> SstOk.unamb std_alnum E t [] = true -> SstOk.unamb std_alnum E (respace 0 t) [] = true ->
  parse_term F std_alnum E (new_state F (render E t)) =
    POk v (step F (length (render E t)) (new_state F (render E t))) /\
  lex_then_fold std_alnum L E (render E t) = FOk v.
Proof. intros Hin. apply agree_term. now apply shipped_agree_all_In. Qed.

Theorem agree_term_fmt_shipped (F : Type) E L x :
  In (E, L) shipped_pairs ->
  wf_term std_alnum E x = true ->
  SstOk.unamb std_alnum E (sst E x) [] = true -> SstOk.unamb std_alnum E (respace 0 (sst E x)) [] = true ->
  parse_term F std_alnum E (new_state F (fmt_term E x)) =
    POk x (step F (length (fmt_term E x)) (new_state F (fmt_term E x))) /\
  lex_then_fold std_alnum L E (fmt_term E x) = FOk x.
Proof.
  intros Hin. assert (HE : In E shipped_formats).
  { destruct Hin as [H|[H|[H|[]]]]; injection H as <- _; unfold shipped_formats; cbn [In]; auto. }
  pose proof shipped_fmt_side as (Hs & _). pose proof (forallb_In _ _ _ Hs HE) as H. cbn beta in H.
  rewrite !andb_true_iff in H. destruct H as [[H1 H2] _].
  apply agree_term_fmt; auto. now apply shipped_agree_all_In.
Qed.

(* ---- examples ---- *)
Definition fres_is (v : term) (r : fres term) : bool :=
  match r with FOk v' => term_eqb v v' | _ => false end.

(* every hypothesis of agree_term holds for t in (E, L), and -- re-computed -- both pipelines return the
   documented meaning *)
Definition ex_agree (p : efmt * lfmt) (t : sterm) : bool :=
  let E := fst p in let L := snd p in
  agree_all std_alnum E L && SstOk.unamb std_alnum E t [] && SstOk.unamb std_alnum E (respace 0 t) [] &&
  match odesugar t with
  | Some v =>
      fres_is v (of_door unit (parse_term unit std_alnum E (new_state unit (render E t)))) &&
      fres_is v (lex_then_fold std_alnum L E (render E t))
  | None => false
  end.

(* the two trees of Proofs/EnumTermCor.v (instance / instance-property / property / retrospective
   equivalence copulas, both images, interval, sets, negation, product, all variable kinds, an operator,
   a placeholder written with trailing text), with 0, 1 and 3 spaces at every token boundary *)
Example ex_agree_all_formats :
  forallb (fun p => ex_agree p (ex_tree 0) && ex_agree p (ex_tree 1) && ex_agree p (ex_tree 3) &&
                    ex_agree p (ex_tree2 0) && ex_agree p (ex_tree2 2)) shipped_pairs = true.
Proof. vm_compute. reflexivity. Qed.

(* one of them spelled out: ASCII, 2 spaces; the text, the lexical value, the common result *)
Example ex_agree_ascii_text :
  let t := SStmt arm_instance 2 2 2 2 (SAtom arm_word [114; 111; 98]%N)
                 (SComp arm_image_ext 2 (fun _ => (2, 2)%nat) [SAtom arm_placeholder []; SAtom arm_interval [48; 55]%N] 2) in
  render FORMAT_ASCII t =
    [60; 32; 32; 114; 111; 98; 32; 32; 123; 45; 45; 32; 32; 40; 32; 32; 47; 32; 32; 44; 32; 32; 95; 32; 32; 44; 32; 32; 43; 48; 55;
     32; 32; 41; 32; 32; 62]%N /\
  lex_parse_term std_alnum LEX_ASCII (render FORMAT_ASCII t) =
    LOk (LStatement [123; 45; 45]%N (LAtom [] [114; 111; 98]%N)
                    (LCompound [47]%N [LAtom [95]%N []; LAtom [43]%N [48; 55]%N])) /\
  lex_then_fold std_alnum LEX_ASCII FORMAT_ASCII (render FORMAT_ASCII t) =
    FOk (TBox2 Inheritance (TSet SetExtension [TName Word [114; 111; 98]%N]) (TImg ImageExtension 0 [TNum Interval 7])) /\
  of_door unit (parse_term unit std_alnum FORMAT_ASCII (new_state unit (render FORMAT_ASCII t))) =
    FOk (TBox2 Inheritance (TSet SetExtension [TName Word [114; 111; 98]%N]) (TImg ImageExtension 0 [TNum Interval 7])).
Proof. vm_compute. repeat split; reflexivity. Qed.

(* Unicode whitespace (tab, no-break space, ideographic space, line separator) between the tokens of the
   space-free Han text of ex_tree: the lexical pipeline still returns the meaning *)
Example ex_agree_unicode_ws :
  let t := ex_tree 0 in
  let s := render FORMAT_HAN t in
  let s' := take 1 s ++ [9; 160]%N ++ take 3 (drop 1 s) ++ [12288]%N ++ drop 4 s ++ [8232]%N in
  match odesugar t with
  | Some v => fres_is v (lex_then_fold std_alnum LEX_HAN FORMAT_HAN s') && negb (str_eqb s s')
  | None => false
  end = true.
Proof. vm_compute. reflexivity. Qed.

(* why BOTH name conditions are needed (Han): `「a具 有值」` -- with the space the enum parser reads the
   name `a具` and the copula `有` (property); the lexical parser filters the space first and reads the
   name `a` and the copula `具有` (instance-property).  unamb holds for the tree as written, fails for
   the tree without spaces, and the two pipelines return DIFFERENT values. *)
Example ex_han_space_disagree :
  let t := SStmt arm_property 0 1 0 0 (SAtom arm_word [97; 20855]%N) (SAtom arm_word [20540]%N) in
  SstOk.unamb std_alnum FORMAT_HAN t [] = true /\ SstOk.unamb std_alnum FORMAT_HAN (respace 0 t) [] = false /\
  of_door unit (parse_term unit std_alnum FORMAT_HAN (new_state unit (render FORMAT_HAN t))) =
    FOk (TBox2 Inheritance (TName Word [97; 20855]%N) (TSet SetIntension [TName Word [20540]%N])) /\
  lex_then_fold std_alnum LEX_HAN FORMAT_HAN (render FORMAT_HAN t) =
    FOk (TBox2 Inheritance (TSet SetExtension [TName Word [97]%N]) (TSet SetIntension [TName Word [20540]%N])).
Proof. vm_compute. repeat split; reflexivity. Qed.

(* ================================================================================== *)
(* 8. self-delimiting formats (ASCII, LaTeX): no condition on the text is left          *)
(* ================================================================================== *)
(* Proofs/EnumUnambP.v: for a format passing the finite check unamb_fmt_ok, unamb follows from the
   well-formedness of the ATOMS of the tree (satoms_ok: named atoms with the property's name_ok, the bare
   placeholder or one followed by a harmless name, digit intervals), at ANY spacing.  satoms_ok does not
   look at the spacing, so both instances of unamb needed above are discharged at once. *)
From Nv Require Import Proofs.EnumUnambP.

Section SelfDelim.
  Variable F : Type.
  Variable ia : N -> bool.
  Variable E : efmt.
  Variable L : lfmt.
  Hypothesis Hall : agree_all ia E L = true.
  Hypothesis Hfo : unamb_fmt_ok ia E = true.

  Lemma sd_parse_ok : parse_ok E = true.
  Proof. pose proof Hall as H. unfold agree_all in H. rewrite !andb_true_iff in H. tauto. Qed.

  Lemma sd_unamb t : satoms_ok ia E t = true -> forall n, SstOk.unamb ia E (respace n t) [] = true.
  Proof.
    intros Hs n. apply (unamb_of_satoms_ok ia E sd_parse_ok Hfo); [|reflexivity]. now rewrite satoms_ok_respace.
  Qed.

  Theorem agree_term_selfdelim t v :
    odesugar t = Some v -> satoms_ok ia E t = true ->
    parse_term F ia E (new_state F (render E t)) =
      POk v (step F (length (render E t)) (new_state F (render E t))) /\
    lex_then_fold ia L E (render E t) = FOk v.
  Proof.
    intros Hv Hs. apply (agree_term F ia E L Hall t v Hv); [|exact (sd_unamb t Hs 0)].
    exact (unamb_of_satoms_ok ia E sd_parse_ok Hfo t [] Hs eq_refl).
  Qed.

  (* the lexical pipeline on ANY text with the same whitespace-free form (C09, Unicode clause included) *)
  Theorem lex_then_fold_selfdelim t v s :
    odesugar t = Some v -> satoms_ok ia E t = true ->
    idealize_env (compile L) s = render E (respace 0 t) ->
    lex_then_fold ia L E s = FOk v.
  Proof. intros Hv Hs. apply (lex_then_fold_tree ia E L Hall t v s Hv). exact (sd_unamb t Hs 0). Qed.

  (* C03 as the property states it: everything the enum formatter emits for a well-formed term, and every
     re-spacing of it (n space keywords at every token boundary; n = 0: all spaces removed) *)
  Theorem agree_fmt_selfdelim x :
    fmt_space_ok E = true -> arms_cover E = true -> wf_term ia E x = true ->
    parse_term F ia E (new_state F (fmt_term E x)) =
      POk x (step F (length (fmt_term E x)) (new_state F (fmt_term E x))) /\
    lex_then_fold ia L E (fmt_term E x) = FOk x.
  Proof.
    intros Hsp Hcov Hw. destruct (sst_spec ia E Hsp Hcov x Hw) as (_ & Hd & ->).
    apply agree_term_selfdelim; [exact Hd | now apply sst_satoms_ok].
  Qed.

  Theorem agree_fmt_respaced_selfdelim n x :
    fmt_space_ok E = true -> arms_cover E = true -> wf_term ia E x = true ->
    parse_term F ia E (new_state F (render E (respace n (sst E x)))) =
      POk x (step F (length (render E (respace n (sst E x)))) (new_state F (render E (respace n (sst E x))))) /\
    lex_then_fold ia L E (render E (respace n (sst E x))) = FOk x.
  Proof.
    intros Hsp Hcov Hw. destruct (sst_spec ia E Hsp Hcov x Hw) as (_ & Hd & _).
    apply agree_term_selfdelim; [now rewrite odesugar_respace | rewrite satoms_ok_respace; now apply sst_satoms_ok].
  Qed.
End SelfDelim.

(* ---- ASCII and LaTeX, char::is_alphanumeric = std's table ---- *)
Lemma alnum_facts_std_alnum : alnum_facts std_alnum = true.
Proof. vm_compute. reflexivity. Qed.

Definition plain_pair (E : efmt) (L : lfmt) : Prop :=
  (E = FORMAT_ASCII /\ L = LEX_ASCII) \/ (E = FORMAT_LATEX /\ L = LEX_LATEX).

Lemma plain_pair_side E L : plain_pair E L ->
  agree_all std_alnum E L = true /\ unamb_fmt_ok std_alnum E = true /\ fmt_space_ok E = true /\ arms_cover E = true.
Proof.
  intros [[-> ->]|[-> ->]].
  - destruct ascii_side as (_ & H2 & H3). split; [|split; [|split; [exact H2 | exact H3]]].
    + apply shipped_agree_all_In. left. reflexivity.
    + apply unamb_fmt_ok_ascii, alnum_facts_std_alnum.
  - destruct latex_side as (_ & H2 & H3). split; [|split; [|split; [exact H2 | exact H3]]].
    + apply shipped_agree_all_In. right. left. reflexivity.
    + apply unamb_fmt_ok_latex, alnum_facts_std_alnum.
Qed.

(* every surface tree with well-formed atoms, any spacing, plain or derived copulas *)
Theorem agree_term_plain (F : Type) E L t v : plain_pair E L ->
  odesugar t = Some v -> satoms_ok std_alnum E t = true ->
  parse_term F std_alnum E (new_state F (render E t)) =
    POk v (step F (length (render E t)) (new_state F (render E t))) /\
  lex_then_fold std_alnum L E (render E t) = FOk v.
Proof. intros HP. destruct (plain_pair_side E L HP) as (H1 & H2 & _). now apply agree_term_selfdelim. Qed.

Theorem lex_then_fold_plain E L t v s : plain_pair E L ->
  odesugar t = Some v -> satoms_ok std_alnum E t = true ->
  idealize_env (compile L) s = render E (respace 0 t) ->
  lex_then_fold std_alnum L E s = FOk v.
Proof. intros HP. destruct (plain_pair_side E L HP) as (H1 & H2 & _). now apply lex_then_fold_selfdelim. Qed.

(* C03 for ASCII and LaTeX terms, no side condition beyond the property's well-formedness *)
Theorem agree_fmt_plain (F : Type) E L x : plain_pair E L -> wf_term std_alnum E x = true ->
  parse_term F std_alnum E (new_state F (fmt_term E x)) =
    POk x (step F (length (fmt_term E x)) (new_state F (fmt_term E x))) /\
  lex_then_fold std_alnum L E (fmt_term E x) = FOk x.
Proof. intros HP. destruct (plain_pair_side E L HP) as (H1 & H2 & H3 & H4). now apply agree_fmt_selfdelim. Qed.

Theorem agree_fmt_respaced_plain (F : Type) E L n x : plain_pair E L -> wf_term std_alnum E x = true ->
  parse_term F std_alnum E (new_state F (render E (respace n (sst E x)))) =
    POk x (step F (length (render E (respace n (sst E x)))) (new_state F (render E (respace n (sst E x))))) /\
  lex_then_fold std_alnum L E (render E (respace n (sst E x))) = FOk x.
Proof. intros HP. destruct (plain_pair_side E L HP) as (H1 & H2 & H3 & H4). now apply agree_fmt_respaced_selfdelim. Qed.

(* the same strings written with the derived copulas: the four sugared statements over well-formed
   operands (any spacing) parse, in BOTH pipelines, to what the documentation says *)
Theorem agree_sugar_plain (F : Type) E L (arm sp0 sp1 sp2 sp3 : nat) (x y : term) v : plain_pair E L ->
  wf_term std_alnum E x = true -> wf_term std_alnum E y = true ->
  let t := SStmt arm sp0 sp1 sp2 sp3 (sst E x) (sst E y) in
  odesugar t = Some v ->
  parse_term F std_alnum E (new_state F (render E t)) =
    POk v (step F (length (render E t)) (new_state F (render E t))) /\
  lex_then_fold std_alnum L E (render E t) = FOk v.
Proof.
  intros HP Hx Hy t Hv. destruct (plain_pair_side E L HP) as (H1 & H2 & H3 & H4).
  apply agree_term_selfdelim; auto. unfold t. cbn [satoms_ok].
  rewrite (sst_satoms_ok std_alnum E x H4 Hx), (sst_satoms_ok std_alnum E y H4 Hy), !andb_true_r.
  unfold t in Hv. rewrite odesugar_stmt in Hv. destruct (nth_error parse_statement_arms arm); [reflexivity | discriminate].
Qed.

(* C09 for both pipelines: two writings of the same term that differ ONLY in the number of spaces at the
   token boundaries (any numbers, zero included, independently at every boundary) give the same value in
   both pipelines *)
Theorem respacing_both_pipelines_plain (F : Type) E L t1 t2 v : plain_pair E L ->
  same_shape t1 t2 -> odesugar t1 = Some v -> satoms_ok std_alnum E t1 = true ->
  of_door F (parse_term F std_alnum E (new_state F (render E t1))) = FOk v /\
  of_door F (parse_term F std_alnum E (new_state F (render E t2))) = FOk v /\
  lex_then_fold std_alnum L E (render E t1) = FOk v /\
  lex_then_fold std_alnum L E (render E t2) = FOk v.
Proof.
  intros HP Hs Hv Ha.
  destruct (agree_term_plain F E L t1 v HP Hv Ha) as [-> ->].
  assert (Hv2 : odesugar t2 = Some v) by now rewrite <- (same_shape_meaning t1 t2 Hs).
  assert (Ha2 : satoms_ok std_alnum E t2 = true) by now rewrite <- (satoms_ok_shape std_alnum E t1 t2 Hs).
  destruct (agree_term_plain F E L t2 v HP Hv2 Ha2) as [-> ->]. repeat split; reflexivity.
Qed.

(* non-vacuity: the two example trees have well-formed atoms in both formats *)
Example ex_satoms_plain :
  forallb (fun E => satoms_ok std_alnum E (ex_tree 2) && satoms_ok std_alnum E (ex_tree2 1)) [FORMAT_ASCII; FORMAT_LATEX] = true.
Proof. vm_compute. reflexivity. Qed.
